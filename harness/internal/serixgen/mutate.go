package serixgen

import (
	"bytes"
	"encoding/binary"
	"fmt"

	"pgregory.net/rapid"
)

// Mutation is the result of a structure-aware mutation of a valid encoding.
type Mutation struct {
	B     []byte
	Label string
	// MustReject: the mutated input violates a documented rule, so a decoder must not accept it.
	// "always" = with and without validation, "validated" = only the validating decoder, "" = no expectation.
	MustReject string
	Why        string
	// Hostile length (Off, W) that was planted and exceeds the remaining input (for the metamorphic allocation check)
	HostileOff, HostileW int
}

var hostileLens = []uint64{0, 1, 127, 128, 255, 256, 32767, 32768, 65535, 65536, 1 << 24, 1 << 30, 1<<31 - 1, 1 << 31, 1<<32 - 1}

func putLE(b []byte, w int, v uint64) {
	switch w {
	case 1:
		b[0] = byte(v)
	case 2:
		binary.LittleEndian.PutUint16(b, uint16(v))
	case 4:
		binary.LittleEndian.PutUint32(b, uint32(v))
	case 8:
		binary.LittleEndian.PutUint64(b, v)
	}
}

func getLE(b []byte, w int) uint64 {
	switch w {
	case 1:
		return uint64(b[0])
	case 2:
		return uint64(binary.LittleEndian.Uint16(b))
	case 4:
		return uint64(binary.LittleEndian.Uint32(b))
	default:
		return binary.LittleEndian.Uint64(b)
	}
}

func refsOf(enc Enc, kinds ...string) []FieldRef {
	var out []FieldRef
	for _, f := range enc.F {
		for _, k := range kinds {
			if f.Kind == k {
				out = append(out, f)
			}
		}
	}

	return out
}

// MaxHostile caps planted lengths so that a decoder that allocates from the length field shows up as a measured
// allocation instead of an unrecoverable out-of-memory crash.
const MaxHostile = 1 << 30

// Mutate applies one drawn structure-aware mutation to a valid reference encoding.
func Mutate(t *rapid.T, enc Enc) Mutation {
	b := append([]byte{}, enc.B...)
	for attempt := 0; attempt < 6; attempt++ {
		switch rapid.IntRange(0, 12).Draw(t, "mut") {
		case 0, 1: // hostile length / count
			fs := refsOf(enc, "len", "count", "optlen")
			if len(fs) == 0 {
				continue
			}
			f := fs[rapid.IntRange(0, len(fs)-1).Draw(t, "mut.field")]
			orig := getLE(b[f.Off:], f.W)
			var nv uint64
			if rapid.Bool().Draw(t, "mut.rel") {
				nv = orig + uint64(rapid.SampledFrom([]int64{1, 2, -1, 16}).Draw(t, "mut.delta"))
			} else {
				nv = rapid.SampledFrom(hostileLens).Draw(t, "mut.hostile")
			}
			max := uint64(1)<<(8*uint(f.W)) - 1
			nv &= max
			if nv > MaxHostile {
				nv = MaxHostile
			}
			if f.W == 8 && rapid.IntRange(0, 2).Draw(t, "mut.huge") == 0 {
				// values that no input can back and that do not fit an int: rejected before anything is allocated
				nv = rapid.SampledFrom([]uint64{1 << 62, 1<<63 - 1, 1 << 63, 1<<64 - 1}).Draw(t, "mut.huge64")
			}
			if nv == orig {
				continue
			}
			putLE(b[f.Off:], f.W, nv)
			m := Mutation{B: b, Label: "hostile_" + f.Kind, HostileOff: -1}
			if nv > uint64(len(b)-f.Off-f.W) {
				m.HostileOff, m.HostileW = f.Off, f.W
				m.Label += "_beyond_input"
			}
			if f.Kind == "optlen" && orig != 0 && nv != 0 {
				m.MustReject, m.Why = "always", "optional length marker does not match the bytes of the optional value"
			}
			return m
		case 2: // bool out of range
			fs := refsOf(enc, "bool")
			if len(fs) == 0 {
				continue
			}
			f := fs[rapid.IntRange(0, len(fs)-1).Draw(t, "mut.field")]
			b[f.Off] = byte(rapid.IntRange(2, 255).Draw(t, "mut.bool"))
			return Mutation{B: b, Label: "bool_out_of_range", MustReject: "always", Why: "bool byte is neither 0 nor 1", HostileOff: -1}
		case 3: // type code
			fs := refsOf(enc, "code")
			if len(fs) == 0 {
				continue
			}
			f := fs[rapid.IntRange(0, len(fs)-1).Draw(t, "mut.field")]
			orig := getLE(b[f.Off:], f.W)
			nv := (orig + uint64(rapid.IntRange(1, 255).Draw(t, "mut.code"))) & (uint64(1)<<(8*uint(f.W)) - 1)
			putLE(b[f.Off:], f.W, nv)
			return Mutation{B: b, Label: "type_code_changed", HostileOff: -1}
		case 4: // truncate at a field boundary +-1
			if len(enc.F) == 0 || len(b) == 0 {
				continue
			}
			f := enc.F[rapid.IntRange(0, len(enc.F)-1).Draw(t, "mut.field")]
			cut := f.Off + rapid.SampledFrom([]int{0, 1, -1}).Draw(t, "mut.cutd")
			if rapid.Bool().Draw(t, "mut.cutend") {
				cut = f.Off + f.W - 1
			}
			if cut < 0 {
				cut = 0
			}
			if cut >= len(b) {
				cut = len(b) - 1
			}
			return Mutation{B: b[:cut], Label: "truncated", MustReject: "always", Why: "input ends before the encoding is complete", HostileOff: -1}
		case 5: // swap two adjacent elements of an ordered collection
			m, ok := swapElems(t, enc, b)
			if !ok {
				continue
			}
			return m
		case 6: // duplicate an element
			m, ok := dupElem(t, enc, b)
			if !ok {
				continue
			}
			return m
		case 7: // count beyond the declared maximum / below the minimum (elements untouched)
			fs := refsOf(enc, "count")
			var cand []FieldRef
			for _, f := range fs {
				if f.Coll != nil && (f.Coll.S.Max != 0 || f.Coll.S.Min != 0) && f.Coll.Kind != KArray {
					cand = append(cand, f)
				}
			}
			if len(cand) == 0 {
				continue
			}
			f := cand[rapid.IntRange(0, len(cand)-1).Draw(t, "mut.field")]
			var nv uint64
			if f.Coll.S.Max != 0 && (f.Coll.S.Min == 0 || rapid.Bool().Draw(t, "mut.overmax")) {
				nv = uint64(f.Coll.S.Max + 1)
			} else {
				nv = uint64(f.Coll.S.Min - 1)
			}
			if nv > uint64(1)<<(8*uint(f.W))-1 {
				continue
			}
			putLE(b[f.Off:], f.W, nv)
			return Mutation{B: b, Label: "count_out_of_bounds", MustReject: "validated", Why: fmt.Sprintf("element count %d outside [%d,%d]", nv, f.Coll.S.Min, f.Coll.S.Max), HostileOff: -1}
		case 8: // time stamp beyond the int64 range
			fs := refsOf(enc, "time")
			if len(fs) == 0 {
				continue
			}
			f := fs[rapid.IntRange(0, len(fs)-1).Draw(t, "mut.field")]
			putLE(b[f.Off:], 8, rapid.Uint64Range(1<<63, 1<<64-1).Draw(t, "mut.time"))
			return Mutation{B: b, Label: "time_beyond_int64", HostileOff: -1}
		case 9: // append garbage
			return Mutation{B: append(b, rapid.SliceOfN(rapid.Byte(), 1, 8).Draw(t, "mut.garbage")...), Label: "trailing_garbage", HostileOff: -1}
		case 10: // byte havoc
			if len(b) == 0 {
				continue
			}
			k := rapid.IntRange(1, 3).Draw(t, "mut.havocN")
			for i := 0; i < k; i++ {
				b[rapid.IntRange(0, len(b)-1).Draw(t, "mut.havocPos")] = rapid.Byte().Draw(t, "mut.havocVal")
			}
			return Mutation{B: b, Label: "byte_havoc", HostileOff: -1}
		case 11: // splice: keep a prefix up to a field boundary, then random bytes
			if len(enc.F) == 0 {
				continue
			}
			f := enc.F[rapid.IntRange(0, len(enc.F)-1).Draw(t, "mut.field")]
			tail := rapid.SliceOfN(rapid.Byte(), 0, 24).Draw(t, "mut.tail")
			return Mutation{B: append(append([]byte{}, b[:f.Off]...), tail...), Label: "spliced_random_tail", HostileOff: -1}
		default: // remove an element and decrement the count
			m, ok := dropElem(t, enc, b)
			if !ok {
				continue
			}
			return m
		}
	}

	return Mutation{B: b, Label: "unmutated", HostileOff: -1}
}

type group struct {
	count FieldRef
	elems []FieldRef
}

func groupsOf(enc Enc) []group {
	byID := map[int]*group{}
	var order []int
	for _, f := range enc.F {
		if f.Kind == "count" {
			byID[f.Group] = &group{count: f}
			order = append(order, f.Group)
		}
	}
	for _, f := range enc.F {
		if f.Kind == "elem" {
			if g := byID[f.Group]; g != nil {
				g.elems = append(g.elems, f)
			}
		}
	}
	var out []group
	for _, id := range order {
		out = append(out, *byID[id])
	}

	return out
}

func swapElems(t *rapid.T, enc Enc, b []byte) (Mutation, bool) {
	var cand []group
	for _, g := range groupsOf(enc) {
		if len(g.elems) >= 2 {
			cand = append(cand, g)
		}
	}
	if len(cand) == 0 {
		return Mutation{}, false
	}
	g := cand[rapid.IntRange(0, len(cand)-1).Draw(t, "mut.group")]
	i := rapid.IntRange(0, len(g.elems)-2).Draw(t, "mut.elem")
	a, c := g.elems[i], g.elems[i+1]
	ab, cb := append([]byte{}, b[a.Off:a.Off+a.W]...), append([]byte{}, b[c.Off:c.Off+c.W]...)
	if bytes.Equal(ab, cb) {
		return Mutation{}, false
	}
	out := append([]byte{}, b[:a.Off]...)
	out = append(out, cb...)
	out = append(out, ab...)
	out = append(out, b[c.Off+c.W:]...)
	m := Mutation{B: out, Label: "swapped_elements", HostileOff: -1}
	n := g.count.Coll
	if n.Kind == KMap || n.S.LexValid {
		// the valid encoding was in ascending order, the swapped one is not
		m.MustReject, m.Why = "validated", "elements are not in byte-lexical order"
		m.Label = "swapped_elements_of_ordered_collection"
	}

	return m, true
}

func dupElem(t *rapid.T, enc Enc, b []byte) (Mutation, bool) {
	var cand []group
	for _, g := range groupsOf(enc) {
		if len(g.elems) >= 1 && g.count.Coll.Kind != KArray {
			cand = append(cand, g)
		}
	}
	if len(cand) == 0 {
		return Mutation{}, false
	}
	g := cand[rapid.IntRange(0, len(cand)-1).Draw(t, "mut.group")]
	i := rapid.IntRange(0, len(g.elems)-1).Draw(t, "mut.elem")
	e := g.elems[i]
	cnt := getLE(b[g.count.Off:], g.count.W)
	if cnt+1 > uint64(1)<<(8*uint(g.count.W))-1 {
		return Mutation{}, false
	}
	out := append([]byte{}, b[:e.Off+e.W]...)
	out = append(out, b[e.Off:e.Off+e.W]...)
	out = append(out, b[e.Off+e.W:]...)
	putLE(out[g.count.Off:], g.count.W, cnt+1)
	m := Mutation{B: out, Label: "duplicated_element", HostileOff: -1}
	n := g.count.Coll
	switch {
	case n.Kind == KMap:
		m.MustReject, m.Why, m.Label = "always", "map key occurs twice", "duplicated_map_entry"
	case n.S.NoDup:
		m.MustReject, m.Why, m.Label = "validated", "duplicate element in a no-duplicates collection", "duplicated_element_nodup"
	case n.S.AtMostOne != 0:
		m.MustReject, m.Why, m.Label = "validated", "type occurs twice in an at-most-one-of-each-type collection", "duplicated_element_atmostone"
	case n.S.Max != 0 && int(cnt+1) > n.S.Max:
		m.MustReject, m.Why = "validated", "element count above maximum"
	}

	return m, true
}

func dropElem(t *rapid.T, enc Enc, b []byte) (Mutation, bool) {
	var cand []group
	for _, g := range groupsOf(enc) {
		if len(g.elems) >= 1 && g.count.Coll.Kind != KArray {
			cand = append(cand, g)
		}
	}
	if len(cand) == 0 {
		return Mutation{}, false
	}
	g := cand[rapid.IntRange(0, len(cand)-1).Draw(t, "mut.group")]
	i := rapid.IntRange(0, len(g.elems)-1).Draw(t, "mut.elem")
	e := g.elems[i]
	cnt := getLE(b[g.count.Off:], g.count.W)
	out := append([]byte{}, b[:e.Off]...)
	out = append(out, b[e.Off+e.W:]...)
	putLE(out[g.count.Off:], g.count.W, cnt-1)
	m := Mutation{B: out, Label: "dropped_element", HostileOff: -1}
	n := g.count.Coll
	if n.S.Min != 0 && int(cnt-1) < n.S.Min {
		m.MustReject, m.Why, m.Label = "validated", "element count below minimum", "dropped_element_below_min"
	} else if len(n.S.MustOccur) > 0 {
		// does the dropped element carry a must-occur code that no other element carries?
		codeOf := func(f FieldRef) uint64 { return getLE(b[f.Off:], 1) }
		w := 1
		if n.Elem != nil && n.Elem.Kind == KIface && len(n.Elem.Impls) > 0 {
			im := n.Elem.Impls[0]
			if im.Kind == KPtr {
				im = im.Elem
			}
			if im.Code != nil {
				w = im.Code.W
			}
		}
		codeOf = func(f FieldRef) uint64 { return getLE(b[f.Off:], w) }
		dropped := codeOf(e)
		still := false
		for j, o := range g.elems {
			if j != i && codeOf(o) == dropped {
				still = true
			}
		}
		must := false
		for _, mo := range n.S.MustOccur {
			if uint64(mo) == dropped {
				must = true
			}
		}
		if must && !still {
			m.MustReject, m.Why, m.Label = "validated", "a must-occur type no longer occurs", "dropped_must_occur_element"
		}
	}

	return m, true
}

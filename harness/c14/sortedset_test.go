package c14

import (
	"fmt"
	"strings"
	"sync"
	"testing"

	"github.com/iotaledger/hive.go/ds"
	"github.com/iotaledger/hive.go/ds/reactive"
	"pgregory.net/rapid"
	"verifharness/internal/ctl"
	"verifharness/internal/stats"
)

// ---------------------------------------------------------------------------------------------------------
// reactive.SortedSet: elements 1..6 with one weight Variable[int] each. Two element types: plain int (ties in
// any order) and lessInt (implements Less: ties are broken, the order is fully determined).
// ---------------------------------------------------------------------------------------------------------

type lessInt int

func (a lessInt) Less(b lessInt) bool { return a < b }

const sortedElems = 6

// sortedAPI hides the element type.
type sortedAPI struct {
	hasLess    bool
	write      func(o setOp)
	setWeight  func(e, w int)
	weight     func(e int) int
	contents   func() []int
	descending func() []int
	ascending  func() []int
	heaviest   func() int
	lightest   func() int
}

func newSortedAPI(hasLess bool, initialWeights []int, slow ...int) *sortedAPI {
	n := 0
	if len(slow) > 0 {
		n = slow[0]
	}
	if hasLess {
		return buildSorted[lessInt](true, initialWeights, n)
	}
	return buildSorted[int](false, initialWeights, n)
}

type intLike interface{ ~int }

func buildSorted[E interface {
	comparable
	intLike
}](hasLess bool, initialWeights []int, slow int) *sortedAPI {
	weights := map[E]reactive.Variable[int]{}
	for e := 1; e <= sortedElems; e++ {
		weights[E(e)] = reactive.NewVariable[int]().Init(initialWeights[e-1])
		if slow > 0 {
			// an observer that only yields, registered before the SortedSet subscribes: stretches the window between
			// "weight holds the new value" and "the SortedSet has repositioned the element"
			weights[E(e)].OnUpdate(func(_, _ int) { gosched(slow) })
		}
	}
	s := reactive.NewSortedSet(func(e E) reactive.Variable[int] { return weights[e] })
	if slow > 0 {
		s.OnUpdate(func(ds.SetMutations[E]) { gosched(slow) })
	}
	conv := func(l []E) []int {
		out := make([]int, len(l))
		for i, e := range l {
			out[i] = int(e)
		}
		return out
	}
	toE := func(l []int) []E {
		out := make([]E, len(l))
		for i, e := range l {
			out[i] = E(e)
		}
		return out
	}
	return &sortedAPI{
		hasLess:    hasLess,
		write:      func(o setOp) { doSetOpE[E](s, o, toE) },
		setWeight:  func(e, w int) { weights[E(e)].Set(w) },
		weight:     func(e int) int { return weights[E(e)].Get() },
		contents:   func() []int { return conv(s.ToSlice()) },
		descending: func() []int { return conv(s.Descending()) },
		ascending:  func() []int { return conv(s.Ascending()) },
		heaviest:   func() int { return int(s.HeaviestElement().Get()) },
		lightest:   func() int { return int(s.LightestElement().Get()) },
	}
}

// checkSorted is the defining function of a SortedSet at rest.
func (a *sortedAPI) check() []string {
	var errs []string
	desc, asc, contents := a.descending(), a.ascending(), a.contents()
	in := map[int]bool{}
	for _, e := range contents {
		in[e] = true
	}
	seen := map[int]bool{}
	for _, e := range desc {
		if seen[e] {
			errs = append(errs, fmt.Sprintf("Descending() %v lists %d twice", desc, e))
		}
		seen[e] = true
		if !in[e] {
			errs = append(errs, fmt.Sprintf("Descending() %v lists %d which is not an element of the set %v", desc, e, sortedCopy(contents)))
		}
	}
	if len(desc) != len(contents) && len(errs) == 0 {
		errs = append(errs, fmt.Sprintf("Descending() %v is not a permutation of the set %v", desc, sortedCopy(contents)))
	}
	ws := make([]int, len(desc))
	for i, e := range desc {
		ws[i] = a.weight(e)
	}
	for i := 0; i+1 < len(desc); i++ {
		switch {
		case ws[i] < ws[i+1]:
			errs = append(errs, fmt.Sprintf("Descending() %v has weights %v: not non-increasing at position %d", desc, ws, i))
		case ws[i] == ws[i+1] && a.hasLess && desc[i] < desc[i+1]:
			errs = append(errs, fmt.Sprintf("Descending() %v has weights %v: tie at position %d is not broken by Less", desc, ws, i))
		}
	}
	if len(asc) != len(desc) {
		errs = append(errs, fmt.Sprintf("Ascending() %v is not the reverse of Descending() %v", asc, desc))
	} else {
		for i := range asc {
			if asc[i] != desc[len(desc)-1-i] {
				errs = append(errs, fmt.Sprintf("Ascending() %v is not the reverse of Descending() %v", asc, desc))
				break
			}
		}
	}
	wantH, wantL := 0, 0
	if len(desc) > 0 {
		wantH, wantL = desc[0], desc[len(desc)-1]
	}
	if h := a.heaviest(); h != wantH {
		errs = append(errs, fmt.Sprintf("HeaviestElement() = %d, Descending() = %v (weights %v)", h, desc, ws))
	}
	if l := a.lightest(); l != wantL {
		errs = append(errs, fmt.Sprintf("LightestElement() = %d, Descending() = %v (weights %v)", l, desc, ws))
	}
	return errs
}

func sortedCopy(l []int) []int {
	m := map[int]bool{}
	for _, e := range l {
		m[e] = true
	}
	return sortedKeys(m)
}

type sortedAction struct {
	Op  string `json:"op"` // set | weight
	Set setOp  `json:"set,omitempty"`
	E   int    `json:"e,omitempty"`
	W   int    `json:"w,omitempty"`
	Yld int    `json:"yld,omitempty"`
}

func (a sortedAction) String() string {
	if a.Op == "weight" {
		return fmt.Sprintf("weight(%d)=%d", a.E, a.W)
	}
	return a.Set.String()
}

type sortedSeqProg struct {
	Less    bool           `json:"less"`
	Weights []int          `json:"weights"`
	Init    []int          `json:"init"`
	Actions []sortedAction `json:"actions"`
}

func (p sortedSeqProg) strings() []string {
	out := []string{fmt.Sprintf("less=%v weights %v init %v", p.Less, p.Weights, p.Init)}
	for _, a := range p.Actions {
		out = append(out, a.String())
	}
	return out
}

func runSortedSeq(p sortedSeqProg) verdict {
	a := newSortedAPI(p.Less, p.Weights)
	model := map[int]bool{}
	if len(p.Init) > 0 {
		a.write(setOp{Op: "addall", A: p.Init})
		modelSetOp(model, setOp{Op: "addall", A: p.Init})
	}
	labels := map[string]bool{fmt.Sprintf("less:%v", p.Less): true}
	v := verdict{}
	removed := map[int]bool{}
	for _, act := range p.Actions {
		v.Trace = append(v.Trace, act.String())
		if act.Op == "weight" {
			switch {
			case model[act.E]:
				labels["weight_of_present"] = true
			case removed[act.E]:
				labels["weight_of_removed"] = true
			}
			a.setWeight(act.E, act.W)
		} else {
			before := map[int]bool{}
			for e := range model {
				before[e] = true
			}
			if act.Set.Op == "replace" {
				for _, e := range act.Set.A {
					if model[e] {
						labels["replace_overlaps_contents"] = true
					}
				}
			}
			a.write(act.Set)
			modelSetOp(model, act.Set)
			for e := range before {
				if !model[e] {
					removed[e] = true
				}
			}
			for e := range model {
				if !before[e] && removed[e] {
					labels["re_added"] = true
				}
			}
		}
		errs := a.check()
		if got, want := fmt.Sprint(sortedCopy(a.contents())), fmt.Sprint(sortedKeys(model)); got != want {
			errs = append(errs, fmt.Sprintf("set holds %s, model %s", got, want))
		}
		if len(errs) > 0 {
			v.Msg = fmt.Sprintf("after %q: %s", act.String(), strings.Join(errs, "; "))
			break
		}
		if len(model) >= 3 {
			labels["size>=3"] = true
		}
		ws := map[int]int{}
		for e := range model {
			ws[a.weight(e)]++
		}
		for _, n := range ws {
			if n > 1 {
				labels["tie"] = true
			}
		}
	}
	v.NonTrivial = labels["size>=3"] && (labels["weight_of_present"] || labels["re_added"])
	v.Labels = labelList(labels)
	return v
}

func genSortedSetOp() *rapid.Generator[setOp] {
	elem := rapid.IntRange(1, sortedElems)
	elems := func(minLen, maxLen int) *rapid.Generator[[]int] {
		return rapid.SliceOfNDistinct(elem, minLen, maxLen, func(e int) int { return e })
	}
	return rapid.Custom(func(t *rapid.T) setOp {
		o := setOp{Op: rapid.SampledFrom([]string{"add", "add", "add", "delete", "delete", "addall", "deleteall", "apply", "compute", "replace"}).Draw(t, "op")}
		switch o.Op {
		case "add", "delete":
			o.A = []int{elem.Draw(t, "e")}
		case "apply":
			o.A = elems(0, 3).Draw(t, "added")
			o.B = elems(0, 3).Draw(t, "deleted")
		default:
			o.A = elems(0, 4).Draw(t, "elems")
		}
		return o
	})
}

func genSortedAction() *rapid.Generator[sortedAction] {
	return rapid.Custom(func(t *rapid.T) sortedAction {
		if rapid.Bool().Draw(t, "isWeight") {
			return sortedAction{Op: "weight", E: rapid.IntRange(1, sortedElems).Draw(t, "e"), W: rapid.IntRange(-2, 3).Draw(t, "w")}
		}
		return sortedAction{Op: "set", Set: genSortedSetOp().Draw(t, "set")}
	})
}

const checkSortedSeq = "sortedset_sequential"

func TestSortedSetSeq(t *testing.T) {
	stats.Rule(checkSortedSeq, "rapid draws the element type (int: ties in any order; lessInt: implements Less), initial weights -2..3 for the elements 1..6 (ties on purpose) and 1-20 actions: Add/Delete/AddAll/DeleteAll/Apply/Compute/Replace on the set, weight(e).Set(w) for present, never added and removed elements, re-adding. Oracle after every action: Descending() is a duplicate-free permutation of the set, current weights non-increasing along it (ties broken by Less when implemented), Ascending() its reverse, HeaviestElement / LightestElement == its ends (zero value when empty), contents == model. Non-trivial = the set held >=3 elements and a present element's weight changed or an element was re-added. Distinct by action list.")
	rapid.Check(t, func(rt *rapid.T) {
		p := sortedSeqProg{Less: rapid.Bool().Draw(rt, "less")}
		p.Weights = rapid.SliceOfN(rapid.IntRange(-2, 3), sortedElems, sortedElems).Draw(rt, "weights")
		p.Init = rapid.SliceOfNDistinct(rapid.IntRange(1, sortedElems), 0, 5, func(e int) int { return e }).Draw(rt, "init")
		p.Actions = rapid.SliceOfN(genSortedAction(), 1, 20).Draw(rt, "actions")
		v := runSortedSeq(p)
		key := strings.Join(p.strings(), "|")
		stats.Case(checkSortedSeq, v.NonTrivial, key, func() any { return p.strings() }, v.Labels...)
		if v.Msg != "" {
			stats.Violation(checkSortedSeq, map[string]any{"program": p, "readable": p.strings(), "problem": v.Msg})
			rt.Fatalf("%s\nprogram: %s", v.Msg, strings.Join(p.strings(), "; "))
		}
	})
}

// ---------------------------------------------------------------------------------------------------------
// concurrent
// ---------------------------------------------------------------------------------------------------------

type sortedConcProg struct {
	Slow    int              `json:"slow"` // yields inside observers of the weights / the set
	Less    bool             `json:"less"`
	Weights []int            `json:"weights"`
	Init    []int            `json:"init"`
	Scripts [][]sortedAction `json:"scripts"`
}

func (p sortedConcProg) strings() []string {
	out := []string{fmt.Sprintf("less=%v weights %v init %v slow %d", p.Less, p.Weights, p.Init, p.Slow)}
	for i, s := range p.Scripts {
		var l []string
		for _, a := range s {
			l = append(l, fmt.Sprintf("y%d %s", a.Yld, a))
		}
		out = append(out, fmt.Sprintf("G%d: %s", i, strings.Join(l, ", ")))
	}
	return out
}

func runSortedConc(p sortedConcProg) verdict {
	a := newSortedAPI(p.Less, p.Weights, p.Slow)
	if len(p.Init) > 0 {
		a.write(setOp{Op: "addall", A: p.Init})
	}
	var clock ctl.Clock
	stamps := make([][]stampPair, len(p.Scripts))
	var start barrier
	var wg sync.WaitGroup
	for gi, script := range p.Scripts {
		wg.Add(1)
		go func(gi int, script []sortedAction) {
			defer wg.Done()
			start.wait()
			for _, act := range script {
				gosched(act.Yld)
				st := stampPair{A: clock.Tick()}
				if act.Op == "weight" {
					a.setWeight(act.E, act.W)
				} else {
					a.write(act.Set)
				}
				st.B = clock.Tick()
				stamps[gi] = append(stamps[gi], st)
			}
		}(gi, script)
	}
	v := verdict{}
	if !ctl.Within(hangTimeout(), func() { start.release(len(p.Scripts)); wg.Wait() }) {
		hangSeen.Store(true)
		v.Hang = true
		v.Msg = "run did not finish within the hang bound (a weight update and a structural change of the same SortedSet never returned); goroutine dump:\n" + ctl.Dump()
		return v
	}
	labels := map[string]bool{fmt.Sprintf("less:%v", p.Less): true}
	// non-trivial: a weight update overlapped a structural change
	for i := range p.Scripts {
		for j := range p.Scripts {
			if i == j {
				continue
			}
			for x, sa := range stamps[i] {
				for y, sb := range stamps[j] {
					if overlaps(sa, sb) && p.Scripts[i][x].Op == "weight" && p.Scripts[j][y].Op != "weight" {
						labels["weight_overlaps_structural"] = true
					}
					if overlaps(sa, sb) && p.Scripts[i][x].Op == "weight" && p.Scripts[j][y].Op == "weight" {
						labels["weights_overlap"] = true
					}
				}
			}
		}
	}
	v.NonTrivial = labels["weight_overlaps_structural"] || labels["weights_overlap"]
	if errs := a.check(); len(errs) > 0 {
		v.Msg = "at quiescence: " + strings.Join(errs, "; ")
	}
	v.Labels = labelList(labels)
	return v
}

const checkSortedConc = "sortedset_concurrent"

func TestSortedSetConc(t *testing.T) {
	stats.Rule(checkSortedConc, "rapid draws the element type, initial weights, initial contents and 2-4 goroutine scripts of 1-10 actions (set writes and weight(e).Set(w), drawn yields); one program in four is the targeted shape 'one goroutine toggles membership of e, another one keeps changing weight(e)'. Interleaving is the Go scheduler's. Oracle at quiescence: same defining function as sortedset_sequential; 20 s hang watchdog with goroutine dump. Non-trivial = a weight update overlapped a structural change or another weight update (by stamps). Distinct by program.")
	rapid.Check(t, func(rt *rapid.T) {
		p := sortedConcProg{Less: rapid.Bool().Draw(rt, "less"), Slow: rapid.IntRange(0, 2).Draw(rt, "slow")}
		p.Weights = rapid.SliceOfN(rapid.IntRange(-2, 3), sortedElems, sortedElems).Draw(rt, "weights")
		p.Init = rapid.SliceOfNDistinct(rapid.IntRange(1, sortedElems), 0, 4, func(e int) int { return e }).Draw(rt, "init")
		yielded := rapid.Custom(func(t *rapid.T) sortedAction {
			a := genSortedAction().Draw(t, "a")
			a.Yld = rapid.IntRange(0, 3).Draw(t, "yield")
			return a
		})
		if rapid.IntRange(0, 3).Draw(rt, "targeted") == 0 {
			e := rapid.IntRange(1, sortedElems).Draw(rt, "e")
			n := rapid.IntRange(2, 12).Draw(rt, "n")
			var toggle, weigh []sortedAction
			for i := 0; i < n; i++ {
				op := "add"
				if i%2 == 1 {
					op = "delete"
				}
				toggle = append(toggle, sortedAction{Op: "set", Set: setOp{Op: op, A: []int{e}}})
				weigh = append(weigh, sortedAction{Op: "weight", E: e, W: rapid.IntRange(-2, 3).Draw(rt, "w")})
			}
			p.Scripts = [][]sortedAction{toggle, weigh}
			p.Scripts = append(p.Scripts, rapid.SliceOfN(rapid.SliceOfN(yielded, 1, 6), 0, 2).Draw(rt, "others")...)
		} else {
			p.Scripts = rapid.SliceOfN(rapid.SliceOfN(yielded, 1, 10), 2, 4).Draw(rt, "scripts")
		}
		v := runSortedConc(p)
		key := strings.Join(p.strings(), "|")
		stats.Case(checkSortedConc, v.NonTrivial, key, func() any { return p.strings() }, v.Labels...)
		if v.Msg != "" {
			stats.Violation(checkSortedConc, map[string]any{"program": p, "readable": p.strings(), "problem": v.Msg, "hang": v.Hang})
			rt.Fatalf("%s\nprogram: %s", v.Msg, strings.Join(p.strings(), "; "))
		}
	})
}

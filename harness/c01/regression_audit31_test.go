// Demonstration of an independent auditor (seventh round), kept as a regression test; see known_findings.json.
package c01

import (
	"context"
	"reflect"
	"testing"

	"github.com/iotaledger/hive.go/serializer/v2/serix"
)

// Repair 6e050a8 decides per TYPE whether two members of a struct share a key of the map form (collectStructKeys), but
// it skips inlined members that are not structs ("an inlined interface: depends on the value" - left to setUniqueKey,
// which only sees what is written). The keys that the implementation of an inlined interface (or an inlined typed byte
// array) splices into the parent are therefore still checked per VALUE: when the sibling that shares the key is left out
// (omitempty zero value, nil optional), MapEncode accepts the value and MapDecode reads the spliced entry into the
// sibling as well: silently another value.

type hunt31Iface interface{ hunt31() }

type hunt31Impl struct {
	X uint8 `serix:""`
}

func (hunt31Impl) hunt31() {}

type hunt31Parent struct {
	X    uint8       `serix:",omitempty"`
	Addr hunt31Iface `serix:",inlined"`
}

type hunt31Inner struct {
	X uint8 `serix:""`
}

type hunt31Parent2 struct {
	Addr hunt31Iface  `serix:",inlined"`
	In   *hunt31Inner `serix:",inlined,optional"`
}

func TestRegressionAudit31_InlinedInterfaceKeyCollisionWithOmittedSibling(t *testing.T) {
	ctx := context.Background()
	api := serix.NewAPI()
	if err := api.RegisterTypeSettings(hunt31Impl{}, serix.TypeSettings{}.WithObjectType(uint8(1))); err != nil {
		t.Fatal(err)
	}
	if err := api.RegisterInterfaceObjects((*hunt31Iface)(nil), hunt31Impl{}); err != nil {
		t.Fatal(err)
	}

	// the collision is known to the encoder: it is refused when both holders are written
	if _, err := api.JSONEncode(ctx, hunt31Parent{X: 1, Addr: hunt31Impl{X: 5}}); err == nil {
		t.Fatal("expected the key collision to be refused when both members are written")
	}

	// shape 1: omitempty sibling with its zero value
	src := hunt31Parent{X: 0, Addr: hunt31Impl{X: 5}}

	// binary form: fine
	b, err := api.Encode(ctx, src)
	if err != nil {
		t.Fatal(err)
	}
	var dstB hunt31Parent
	if n, err := api.Decode(ctx, b, &dstB); err != nil || n != len(b) || !reflect.DeepEqual(src, dstB) {
		t.Fatalf("binary: %v %d %+v", err, n, dstB)
	}

	j, err := api.JSONEncode(ctx, src)
	if err == nil {
		var dst hunt31Parent
		if err := api.JSONDecode(ctx, j, &dst); err != nil {
			t.Errorf("shape 1: JSONDecode refuses the output of JSONEncode %s: %v", j, err)
		} else if !reflect.DeepEqual(src, dst) {
			t.Errorf("shape 1: JSONEncode accepted %+v, wrote %s, JSONDecode returned %+v", src, j, dst)
		}
	}

	// shape 2: nil optional inlined struct as the sibling
	src2 := hunt31Parent2{Addr: hunt31Impl{X: 5}, In: nil}
	j, err = api.JSONEncode(ctx, src2)
	if err == nil {
		var dst2 hunt31Parent2
		if err := api.JSONDecode(ctx, j, &dst2); err != nil {
			t.Errorf("shape 2: JSONDecode refuses the output of JSONEncode %s: %v", j, err)
		} else if !reflect.DeepEqual(src2, dst2) {
			t.Errorf("shape 2: JSONEncode accepted %+v, wrote %s, JSONDecode returned In=%+v", src2, j, dst2.In)
		}
	}
}

package serixgen

import (
	"reflect"

	"pgregory.net/rapid"
)

// TableEntry is one pre-generated case of the fixed shape table used by the native fuzz targets.
type TableEntry struct {
	Case  *Case
	Value reflect.Value
	Enc   Enc
}

// Table deterministically generates n cases (shape + one valid value + its reference encoding) from rapid's
// example seeds 0..; entries whose drawn value has no encoding are skipped.
func Table(n int, cfg Config) []TableEntry {
	var out []TableEntry
	for seed := 0; len(out) < n && seed < n*4; seed++ {
		e := rapid.Custom(func(t *rapid.T) TableEntry {
			c := NewCase(t, cfg)
			v, _ := GenValue(t, c.Root, ValidMode, cfg)
			return TableEntry{Case: c, Value: v, Enc: RefEncode(c.Root, v, true)}
		}).Example(seed)
		if e.Enc.Reject == "" {
			out = append(out, e)
		}
	}

	return out
}

module verifharness

go 1.23

toolchain go1.23.5

require (
	github.com/anishathalye/porcupine v1.3.0
	github.com/iancoleman/orderedmap v0.3.0
	github.com/iotaledger/hive.go/ads v0.0.0
	github.com/iotaledger/hive.go/app v0.0.0
	github.com/iotaledger/hive.go/constraints v0.0.0
	github.com/iotaledger/hive.go/core v0.0.0
	github.com/iotaledger/hive.go/crypto v0.0.0
	github.com/iotaledger/hive.go/ds v0.0.0
	github.com/iotaledger/hive.go/ierrors v0.0.0
	github.com/iotaledger/hive.go/kvstore v0.0.0
	github.com/iotaledger/hive.go/lo v0.0.0
	github.com/iotaledger/hive.go/log v0.0.0
	github.com/iotaledger/hive.go/logger v0.0.0
	github.com/iotaledger/hive.go/runtime v0.0.0
	github.com/iotaledger/hive.go/serializer/v2 v2.0.0
	github.com/iotaledger/hive.go/stringify v0.0.0
	github.com/iotaledger/hive.go/web v0.0.0
	github.com/leanovate/gopter v0.2.11
	github.com/stretchr/testify v1.9.0
	pgregory.net/rapid v1.3.0
)

require (
	github.com/davecgh/go-spew v1.1.1 // indirect
	github.com/ethereum/go-ethereum v1.13.14 // indirect
	github.com/holiman/uint256 v1.2.4 // indirect
	github.com/kr/text v0.2.0 // indirect
	github.com/pmezard/go-difflib v1.0.0 // indirect
	github.com/pokt-network/smt v0.9.2 // indirect
	gopkg.in/yaml.v3 v3.0.1 // indirect
)

replace (
	github.com/iotaledger/hive.go/ads => /repo/ads
	github.com/iotaledger/hive.go/app => /repo/app
	github.com/iotaledger/hive.go/constraints => /repo/constraints
	github.com/iotaledger/hive.go/core => /repo/core
	github.com/iotaledger/hive.go/crypto => /repo/crypto
	github.com/iotaledger/hive.go/ds => /repo/ds
	github.com/iotaledger/hive.go/ierrors => /repo/ierrors
	github.com/iotaledger/hive.go/kvstore => /repo/kvstore
	github.com/iotaledger/hive.go/lo => /repo/lo
	github.com/iotaledger/hive.go/log => /repo/log
	github.com/iotaledger/hive.go/logger => /repo/logger
	github.com/iotaledger/hive.go/runtime => /repo/runtime
	github.com/iotaledger/hive.go/serializer/v2 => /repo/serializer
	github.com/iotaledger/hive.go/stringify => /repo/stringify
	github.com/iotaledger/hive.go/web => /repo/web
)

package c10

import (
	"container/list"
	"errors"
	"fmt"
	"strings"
	"sync/atomic"
	"time"

	"github.com/iotaledger/hive.go/ds"
	"verifharness/internal/ctl"
)

// The differential world: every ds.List is paired with a container/list.List, every ds.ListElement ever
// created is paired with the *list.Element created by the same call on the reference. All actions are applied
// to both sides; after each action the complete observable state of both sides is compared.

const numLists = 3

type hstate int

const (
	stLive    hstate = iota // element of the list `owner`
	stRemoved               // removed with Remove (legal argument: every call must be a no-op / return the value)
	stRetired               // was live when Init ran on its list: never passed again, not inspected (see DESIGN C10)
)

type handle struct {
	d     ds.ListElement[int]
	r     *list.Element
	owner int
	st    hstate
}

// action is one fully explicit step, so that a history can be replayed without rapid.
type action struct {
	Op    string // PushFront PushBack InsertBefore InsertAfter MoveToFront MoveToBack MoveBefore MoveAfter Remove PushBackList PushFrontList Init
	L     int    // list index
	H     int    // handle index (element argument), -1 if unused
	M     int    // handle index (position / mark argument), -1 if unused
	Other int    // list index for Push*List; -1 = a fresh empty list
	V     int    // value for Push*/Insert*
	K     int    // position at which the early-abort ForEach of the following verification stops
}

type world struct {
	lockFree [numLists]bool
	d        [numLists]ds.List[int]
	r        [numLists]*list.List
	hs       []*handle
	byD      map[ds.ListElement[int]]int
	byR      map[*list.Element]int
	log      []string

	// classification for the non-trivial rule and labels
	relLive    bool // a Move*/Insert* relative to a live handle of the list
	oddHandle  bool // a call with a removed or foreign handle
	selfPush   bool
	dead       bool // a hang was observed: the world must not be used any more
	hangBudget time.Duration
}

// hangSeen is set once a self-push has been observed to hang for the full ctl.HangTimeout in this process.
// The deadlock is deterministic (single goroutine re-entering its own RWMutex), so while rapid shrinks the
// already failed case a shorter wait is used; the verdict itself always comes from the full timeout.
var hangSeen atomic.Bool

func newWorld(flavours [numLists]bool) *world {
	w := &world{lockFree: flavours, byD: map[ds.ListElement[int]]int{}, byR: map[*list.Element]int{}, hangBudget: ctl.HangTimeout}
	if hangSeen.Load() {
		w.hangBudget = time.Second
	}
	for i := range w.d {
		w.d[i] = ds.NewList[int](flavours[i])
		w.r[i] = list.New()
	}

	return w
}

func (w *world) flavourNames() []string {
	out := make([]string, numLists)
	for i, lf := range w.lockFree {
		out[i] = fmt.Sprintf("L%d=%s", i, map[bool]string{true: "lockFree", false: "threadSafe"}[lf])
	}

	return out
}

func (w *world) register(de ds.ListElement[int], re *list.Element, owner int) int {
	idx := len(w.hs)
	w.hs = append(w.hs, &handle{d: de, r: re, owner: owner, st: stLive})
	w.byD[de] = idx
	w.byR[re] = idx

	return idx
}

func (a action) String() string {
	h := func(i int) string { return fmt.Sprintf("h%d", i) }
	switch a.Op {
	case "PushFront", "PushBack":
		return fmt.Sprintf("L%d.%s(%d)", a.L, a.Op, a.V)
	case "InsertBefore", "InsertAfter":
		return fmt.Sprintf("L%d.%s(%d,%s)", a.L, a.Op, a.V, h(a.M))
	case "MoveToFront", "MoveToBack", "Remove":
		return fmt.Sprintf("L%d.%s(%s)", a.L, a.Op, h(a.H))
	case "MoveBefore", "MoveAfter":
		return fmt.Sprintf("L%d.%s(%s,%s)", a.L, a.Op, h(a.H), h(a.M))
	case "PushBackList", "PushFrontList":
		if a.Other < 0 {
			return fmt.Sprintf("L%d.%s(empty)", a.L, a.Op)
		}
		return fmt.Sprintf("L%d.%s(L%d)", a.L, a.Op, a.Other)
	case "Init":
		return fmt.Sprintf("L%d.Init()", a.L)
	}

	return "L" + fmt.Sprint(a.L) + "." + a.Op + "(?)"
}

// class of a handle argument relative to list L.
func (w *world) argClass(L, h int) string {
	hd := w.hs[h]
	switch {
	case hd.st == stRemoved:
		return "removed"
	case hd.st == stLive && hd.owner == L:
		return "live"
	case hd.st == stLive:
		return "foreign"
	}

	return "retired"
}

func (w *world) note(L int, relative bool, hs ...int) {
	for _, h := range hs {
		switch w.argClass(L, h) {
		case "live":
			if relative {
				w.relLive = true
			}
		case "removed", "foreign":
			w.oddHandle = true
		case "retired":
			panic("harness bug: retired handle passed")
		}
	}
}

// apply executes the action on both sides and compares everything observable. It returns "" or a description
// of the first difference.
func (w *world) apply(a action) string {
	if w.dead {
		panic("harness bug: world used after a hang")
	}
	w.log = append(w.log, a.String())
	d, r := w.d[a.L], w.r[a.L]

	switch a.Op {
	case "PushFront":
		de, re := d.PushFront(a.V), r.PushFront(a.V)
		if de == nil {
			return "PushFront returned nil"
		}
		w.register(de, re, a.L)
	case "PushBack":
		de, re := d.PushBack(a.V), r.PushBack(a.V)
		if de == nil {
			return "PushBack returned nil"
		}
		w.register(de, re, a.L)
	case "InsertBefore", "InsertAfter":
		w.note(a.L, true, a.M)
		m := w.hs[a.M]
		var de ds.ListElement[int]
		var re *list.Element
		if a.Op == "InsertBefore" {
			de, re = d.InsertBefore(a.V, m.d), r.InsertBefore(a.V, m.r)
		} else {
			de, re = d.InsertAfter(a.V, m.d), r.InsertAfter(a.V, m.r)
		}
		if (de == nil) != (re == nil) {
			return fmt.Sprintf("%s with a %s mark: ds returned nil=%v, container/list returned nil=%v", a.Op, w.argClass(a.L, a.M), de == nil, re == nil)
		}
		if de != nil {
			w.register(de, re, a.L)
		}
	case "MoveToFront":
		w.note(a.L, false, a.H)
		d.MoveToFront(w.hs[a.H].d)
		r.MoveToFront(w.hs[a.H].r)
	case "MoveToBack":
		w.note(a.L, false, a.H)
		d.MoveToBack(w.hs[a.H].d)
		r.MoveToBack(w.hs[a.H].r)
	case "MoveBefore":
		w.note(a.L, true, a.H, a.M)
		d.MoveBefore(w.hs[a.H].d, w.hs[a.M].d)
		r.MoveBefore(w.hs[a.H].r, w.hs[a.M].r)
	case "MoveAfter":
		w.note(a.L, true, a.H, a.M)
		d.MoveAfter(w.hs[a.H].d, w.hs[a.M].d)
		r.MoveAfter(w.hs[a.H].r, w.hs[a.M].r)
	case "Remove":
		w.note(a.L, false, a.H)
		h := w.hs[a.H]
		wasLiveHere := h.st == stLive && h.owner == a.L
		dv := d.Remove(h.d)
		rv, _ := r.Remove(h.r).(int)
		if dv != rv {
			return fmt.Sprintf("Remove(%s handle) returned %d, container/list returned %d", w.argClass(a.L, a.H), dv, rv)
		}
		if wasLiveHere {
			h.st = stRemoved
		}
	case "PushBackList", "PushFrontList":
		var od ds.List[int]
		var or *list.List
		if a.Other < 0 {
			od, or = ds.NewList[int](a.V%2 == 0), list.New()
		} else {
			od, or = w.d[a.Other], w.r[a.Other]
		}
		call := func() {
			if a.Op == "PushBackList" {
				d.PushBackList(od)
			} else {
				d.PushFrontList(od)
			}
		}
		if a.Other == a.L {
			w.selfPush = true
			if !w.lockFree[a.L] {
				// deadlock-free by construction: one goroutine, nobody else touches the list; container/list
				// documents l == other as legal.
				if !ctl.Within(w.hangBudget, call) {
					w.dead = true
					hangSeen.Store(true)

					return fmt.Sprintf("%s of the thread-safe list with itself did not return within %s (container/list: \"They may be the same\")", a.Op, w.hangBudget)
				}
			} else {
				call()
			}
		} else {
			call()
		}
		if a.Op == "PushBackList" {
			r.PushBackList(or)
		} else {
			r.PushFrontList(or)
		}
	case "Init":
		ret := d.Init()
		r.Init()
		for _, h := range w.hs {
			if h.st == stLive && h.owner == a.L {
				h.st = stRetired
			}
		}
		if ret != d {
			return fmt.Sprintf("Init did not return the list it was called on (container/list returns the receiver): got %T, receiver %T", ret, d)
		}
	default:
		panic("unknown op " + a.Op)
	}

	return w.verify(a.K)
}

var errStop = errors.New("stop")

func refValues(r *list.List) []int {
	out := make([]int, 0, r.Len())
	for e := r.Front(); e != nil; e = e.Next() {
		out = append(out, e.Value.(int))
	}

	return out
}

func reversed(in []int) []int {
	out := make([]int, len(in))
	for i, v := range in {
		out[len(in)-1-i] = v
	}

	return out
}

func eqInts(a, b []int) bool {
	if len(a) != len(b) {
		return false
	}
	for i := range a {
		if a[i] != b[i] {
			return false
		}
	}

	return true
}

// mapD renders a ds element through the handle table ("nil", "h7" or "unknown").
func (w *world) mapD(e ds.ListElement[int]) string {
	if e == nil {
		return "nil"
	}
	if i, ok := w.byD[e]; ok {
		return fmt.Sprintf("h%d", i)
	}

	return "unknown"
}

func (w *world) mapR(e *list.Element) string {
	if e == nil {
		return "nil"
	}
	if i, ok := w.byR[e]; ok {
		return fmt.Sprintf("h%d", i)
	}

	return "unknown"
}

func (w *world) verify(k int) string {
	for i := 0; i < numLists; i++ {
		d, r := w.d[i], w.r[i]
		name := fmt.Sprintf("L%d", i)
		want := refValues(r)

		if d.Len() != r.Len() {
			return fmt.Sprintf("%s.Len() = %d, container/list %d", name, d.Len(), r.Len())
		}
		// walk both sides in lock step; elements created by Push*List are paired up here. The handle walks are bounded
		// by the reference length and run BEFORE any whole-list iteration of the library (Values, ForEach, Range ...),
		// so that a corrupted link (a cycle) is reported here instead of sending the library into an endless loop.
		de, re := d.Front(), r.Front()
		for n := 0; ; n++ {
			if de == nil && re == nil {
				break
			}
			if (de == nil) != (re == nil) || n > len(want) {
				return fmt.Sprintf("%s: walking Front/Next ends after %d elements (ds nil=%v, container/list nil=%v)", name, n, de == nil, re == nil)
			}
			di, dok := w.byD[de]
			ri, rok := w.byR[re]
			switch {
			case !dok && !rok:
				w.register(de, re, i)
			case dok != rok || di != ri:
				return fmt.Sprintf("%s: element #%d is %s in ds but %s in container/list", name, n, w.mapD(de), w.mapR(re))
			}
			de, re = de.Next(), re.Next()
		}
		{
			n := 0
			for de := d.Back(); de != nil; de = de.Prev() {
				if n++; n > len(want) {
					return fmt.Sprintf("%s: walking Back/Prev does not end after %d elements (container/list has %d)", name, n, len(want))
				}
			}
			if n != len(want) {
				return fmt.Sprintf("%s: walking Back/Prev visits %d elements, container/list has %d", name, n, len(want))
			}
		}
		if got := d.Values(); !eqInts(got, want) {
			return fmt.Sprintf("%s.Values() = %v, container/list %v", name, got, want)
		}
		if f, rf := w.mapD(d.Front()), w.mapR(r.Front()); f != rf {
			return fmt.Sprintf("%s.Front() = %s, container/list %s", name, f, rf)
		}
		if b, rb := w.mapD(d.Back()), w.mapR(r.Back()); b != rb {
			return fmt.Sprintf("%s.Back() = %s, container/list %s", name, b, rb)
		}

		var fwd, bwd, rng, rngRev []int
		if err := d.ForEach(func(v int) error { fwd = append(fwd, v); return nil }); err != nil {
			return fmt.Sprintf("%s.ForEach returned %v", name, err)
		}
		if err := d.ForEachReverse(func(v int) error { bwd = append(bwd, v); return nil }); err != nil {
			return fmt.Sprintf("%s.ForEachReverse returned %v", name, err)
		}
		d.Range(func(v int) { rng = append(rng, v) })
		d.RangeReverse(func(v int) { rngRev = append(rngRev, v) })
		if !eqInts(fwd, want) {
			return fmt.Sprintf("%s.ForEach visited %v, container/list forward %v", name, fwd, want)
		}
		if !eqInts(rng, want) {
			return fmt.Sprintf("%s.Range visited %v, container/list forward %v", name, rng, want)
		}
		if !eqInts(bwd, reversed(want)) {
			return fmt.Sprintf("%s.ForEachReverse visited %v, container/list backward %v", name, bwd, reversed(want))
		}
		if !eqInts(rngRev, reversed(want)) {
			return fmt.Sprintf("%s.RangeReverse visited %v, container/list backward %v", name, rngRev, reversed(want))
		}

		// early abort: the callback's error must stop the iteration and be returned
		if len(want) > 0 {
			stopAt := k % len(want)
			var seen []int
			err := d.ForEach(func(v int) error {
				seen = append(seen, v)
				if len(seen) == stopAt+1 {
					return errStop
				}

				return nil
			})
			if !errors.Is(err, errStop) || !eqInts(seen, want[:stopAt+1]) {
				return fmt.Sprintf("%s.ForEach aborted at #%d: visited %v err=%v, want %v and the callback's error", name, stopAt, seen, err, want[:stopAt+1])
			}
			seen = nil
			rev := reversed(want)
			err = d.ForEachReverse(func(v int) error {
				seen = append(seen, v)
				if len(seen) == stopAt+1 {
					return errStop
				}

				return nil
			})
			if !errors.Is(err, errStop) || !eqInts(seen, rev[:stopAt+1]) {
				return fmt.Sprintf("%s.ForEachReverse aborted at #%d: visited %v err=%v, want %v and the callback's error", name, stopAt, seen, err, rev[:stopAt+1])
			}
		}
	}

	// every handle ever created (live or removed; not the ones retired by Init)
	for i, h := range w.hs {
		if h.st == stRetired {
			continue
		}
		if v, rv := h.d.Value(), h.r.Value.(int); v != rv {
			return fmt.Sprintf("h%d.Value() = %d, container/list %d", i, v, rv)
		}
		if p, rp := w.mapD(h.d.Prev()), w.mapR(h.r.Prev()); p != rp {
			return fmt.Sprintf("h%d.Prev() = %s, container/list %s (handle is %s)", i, p, rp, map[hstate]string{stLive: "live", stRemoved: "removed"}[h.st])
		}
		if n, rn := w.mapD(h.d.Next()), w.mapR(h.r.Next()); n != rn {
			return fmt.Sprintf("h%d.Next() = %s, container/list %s (handle is %s)", i, n, rn, map[hstate]string{stLive: "live", stRemoved: "removed"}[h.st])
		}
	}

	return ""
}

func (w *world) nontrivial() bool { return w.relLive && w.oddHandle }

func (w *world) key() string {
	return strings.Join(w.flavourNames(), ",") + "|" + strings.Join(w.log, ";")
}

func (w *world) payload(problem string) map[string]any {
	return map[string]any{"lists": w.flavourNames(), "actions": append([]string(nil), w.log...), "problem": problem}
}

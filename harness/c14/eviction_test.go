package c14

import (
	"fmt"
	"strings"
	"sync"
	"testing"

	"github.com/iotaledger/hive.go/ds/reactive"
	"pgregory.net/rapid"
	"verifharness/internal/ctl"
	"verifharness/internal/stats"
)

// ---------------------------------------------------------------------------------------------------------
// reactive.EvictionState[int], slots 0..9 (non-negative integers: the implementation walks 'for i := 0; i <= slot').
// Defining function: an event handed out for slot s has triggered  <=>  some Evict(t) with t >= s has returned.
// ---------------------------------------------------------------------------------------------------------

const maxSlot = 9

type evOp struct {
	Op   string `json:"op"` // event | evict
	Slot int    `json:"slot"`
	Yld  int    `json:"yld,omitempty"`
}

func (o evOp) String() string { return fmt.Sprintf("%s(%d)", o.Op, o.Slot) }

type handedOut struct {
	slot  int
	event reactive.Event
	fired *int // number of OnTrigger callbacks
}

func judgeEviction(e reactive.EvictionState[int], events []handedOut, evicted bool, last int) []string {
	var errs []string
	for _, h := range events {
		want := evicted && h.slot <= last
		if got := h.event.WasTriggered(); got != want {
			errs = append(errs, fmt.Sprintf("event handed out for slot %d: WasTriggered() = %v, last evicted slot %s", h.slot, got, lastStr(evicted, last)))
		}
		if h.fired != nil {
			wantCalls := 0
			if want {
				wantCalls = 1
			}
			if *h.fired != wantCalls {
				errs = append(errs, fmt.Sprintf("event handed out for slot %d: OnTrigger callback ran %d times, last evicted slot %s", h.slot, *h.fired, lastStr(evicted, last)))
			}
		}
	}
	wantLast := 0
	if evicted {
		wantLast = last
	}
	if got := e.LastEvictedSlot(); got != wantLast {
		errs = append(errs, fmt.Sprintf("LastEvictedSlot() = %d, highest evicted slot %s", got, lastStr(evicted, last)))
	}
	return errs
}

func lastStr(evicted bool, last int) string {
	if !evicted {
		return "none"
	}
	return fmt.Sprint(last)
}

func runEvictionSeq(ops []evOp) verdict {
	e := reactive.NewEvictionState[int]()
	v := verdict{}
	labels := map[string]bool{}
	var events []handedOut
	var unsubs []func()
	defer func() {
		// events of evicted slots are one shared, already triggered Event: do not leave callbacks behind
		for _, u := range unsubs {
			u()
		}
	}()
	evicted, last := false, 0
	for _, o := range ops {
		v.Trace = append(v.Trace, o.String())
		if o.Op == "event" {
			n := new(int)
			ev := e.EvictionEvent(o.Slot)
			slot := o.Slot
			unsubs = append(unsubs, ev.OnTrigger(func() {
				*n++
				// consumers of an eviction event ask the state they belong to (what was evicted, the event of a neighbouring
				// slot): the calls must return while the eviction that triggered the event is still in progress
				_ = e.LastEvictedSlot()
				_ = e.EvictionEvent(slot + 1)
			}))
			events = append(events, handedOut{o.Slot, ev, n})
			if evicted && o.Slot <= last {
				labels["event_for_evicted_slot"] = true
			} else {
				labels["event_for_future_slot"] = true
			}
		} else {
			if evicted && o.Slot <= last {
				labels["evict_not_monotone"] = true
			}
			if !ctl.WithinHang(func() { e.Evict(o.Slot) }) {
				v.Msg = fmt.Sprintf("%q did not return within %v (its event consumers call LastEvictedSlot / EvictionEvent of the same state)\n%s", o.String(), ctl.HangTimeout, ctl.Dump())
				unsubs = nil // an unsubscribe would wait for the consumer that is stuck inside the eviction
				break
			}
			if !evicted || o.Slot > last {
				evicted, last = true, o.Slot
			}
		}
		if errs := judgeEviction(e, events, evicted, last); len(errs) > 0 {
			v.Msg = fmt.Sprintf("after %q: %s", o.String(), strings.Join(errs, "; "))
			break
		}
	}
	v.NonTrivial = labels["event_for_future_slot"] && evicted
	v.Labels = labelList(labels)
	return v
}

func genEvOp() *rapid.Generator[evOp] {
	return rapid.Custom(func(t *rapid.T) evOp {
		return evOp{Op: rapid.SampledFrom([]string{"event", "event", "evict"}).Draw(t, "op"), Slot: rapid.IntRange(0, maxSlot).Draw(t, "slot")}
	})
}

func evStrings(ops []evOp) []string {
	out := make([]string, len(ops))
	for i, o := range ops {
		out[i] = o.String()
	}
	return out
}

const checkEvictionSeq = "eviction_sequential"

func TestEvictionSeq(t *testing.T) {
	stats.Rule(checkEvictionSeq, "rapid draws 1-16 calls EvictionEvent(slot) / Evict(slot), slots 0..9 (non-negative integers only), Evict arguments not monotone on purpose, events requested before and after the eviction of their slot; every OnTrigger consumer calls LastEvictedSlot and EvictionEvent of the same state (must not block the eviction). Oracle after every call, for every event ever handed out: WasTriggered <=> evicted and slot <= highest evicted slot; its OnTrigger callback ran exactly that often; LastEvictedSlot(). Non-trivial = an event for a not yet evicted slot exists and something was evicted. Distinct by call list.")
	rapid.Check(t, func(rt *rapid.T) {
		ops := rapid.SliceOfN(genEvOp(), 1, 16).Draw(rt, "ops")
		v := runEvictionSeq(ops)
		stats.Case(checkEvictionSeq, v.NonTrivial, strings.Join(evStrings(ops), "|"), func() any { return evStrings(ops) }, v.Labels...)
		if v.Msg != "" {
			stats.Violation(checkEvictionSeq, map[string]any{"program": ops, "readable": evStrings(ops), "problem": v.Msg})
			rt.Fatalf("%s\nprogram: %s", v.Msg, strings.Join(evStrings(ops), "; "))
		}
	})
}

func runEvictionConc(scripts [][]evOp, slow int) verdict {
	e := reactive.NewEvictionState[int]()
	var clock ctl.Clock
	var mu sync.Mutex
	var events []handedOut
	stamps := make([][]stampPair, len(scripts))
	var start barrier
	var wg sync.WaitGroup
	for gi, script := range scripts {
		wg.Add(1)
		go func(gi int, script []evOp) {
			defer wg.Done()
			start.wait()
			for _, o := range script {
				gosched(o.Yld)
				st := stampPair{A: clock.Tick()}
				if o.Op == "event" {
					ev := e.EvictionEvent(o.Slot)
					if slow > 0 {
						// a consumer that yields: stretches the trigger phase of the Evict call that fires it
						ev.OnTrigger(func() { gosched(slow) })
					}
					mu.Lock()
					events = append(events, handedOut{slot: o.Slot, event: ev})
					mu.Unlock()
				} else {
					e.Evict(o.Slot)
				}
				st.B = clock.Tick()
				stamps[gi] = append(stamps[gi], st)
			}
		}(gi, script)
	}
	v := verdict{}
	if !ctl.Within(hangTimeout(), func() { start.release(len(scripts)); wg.Wait() }) {
		hangSeen.Store(true)
		v.Hang = true
		v.Msg = "run did not finish within the hang bound; goroutine dump:\n" + ctl.Dump()
		return v
	}
	evicted, last := false, 0
	for _, s := range scripts {
		for _, o := range s {
			if o.Op == "evict" && (!evicted || o.Slot > last) {
				evicted, last = true, o.Slot
			}
		}
	}
	labels := map[string]bool{}
	for i := range scripts {
		for j := range scripts {
			if i == j {
				continue
			}
			for x, sa := range stamps[i] {
				for y, sb := range stamps[j] {
					if overlaps(sa, sb) && scripts[i][x].Op == "event" && scripts[j][y].Op == "evict" {
						labels["event_overlaps_evict"] = true
					}
					if overlaps(sa, sb) && scripts[i][x].Op == "evict" && scripts[j][y].Op == "evict" {
						labels["evicts_overlap"] = true
					}
				}
			}
		}
	}
	v.NonTrivial = labels["event_overlaps_evict"] || labels["evicts_overlap"]
	if errs := judgeEviction(e, events, evicted, last); len(errs) > 0 {
		v.Msg = "at quiescence: " + strings.Join(errs, "; ")
	}
	v.Labels = labelList(labels)
	return v
}

const checkEvictionConc = "eviction_concurrent"

func TestEvictionConc(t *testing.T) {
	stats.Rule(checkEvictionConc, "rapid draws 2-4 goroutine scripts of 1-8 EvictionEvent / Evict calls (slots 0..9, drawn yields). Interleaving is the Go scheduler's. Oracle at quiescence for every event handed out: WasTriggered <=> slot <= highest evicted slot; LastEvictedSlot(); 20 s hang watchdog. Non-trivial = an EvictionEvent or Evict overlapped an Evict of another goroutine (by stamps). Distinct by program.")
	rapid.Check(t, func(rt *rapid.T) {
		op := rapid.Custom(func(t *rapid.T) evOp {
			o := genEvOp().Draw(t, "op")
			o.Yld = rapid.IntRange(0, 3).Draw(t, "yield")
			return o
		})
		scripts := rapid.SliceOfN(rapid.SliceOfN(op, 1, 8), 2, 4).Draw(rt, "scripts")
		slow := rapid.IntRange(0, 2).Draw(rt, "slow")
		v := runEvictionConc(scripts, slow)
		readable := []string{fmt.Sprintf("slow %d", slow)}
		for i, s := range scripts {
			var l []string
			for _, o := range s {
				l = append(l, fmt.Sprintf("y%d %s", o.Yld, o))
			}
			readable = append(readable, fmt.Sprintf("G%d: %s", i, strings.Join(l, ", ")))
		}
		stats.Case(checkEvictionConc, v.NonTrivial, strings.Join(readable, "|"), func() any { return readable }, v.Labels...)
		if v.Msg != "" {
			stats.Violation(checkEvictionConc, map[string]any{"program": scripts, "slow": slow, "readable": readable, "problem": v.Msg, "hang": v.Hang})
			rt.Fatalf("%s\nprogram: %s", v.Msg, strings.Join(readable, "; "))
		}
	})
}

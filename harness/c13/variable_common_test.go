package c13

import (
	"fmt"
	"sort"
	"strings"
	"sync"

	"github.com/iotaledger/hive.go/ds/reactive"
	"verifharness/internal/ctl"
)

// ---------------------------------------------------------------------------------------------------------
// The object under test (reactive.Variable[int] in three flavours, reactive.Event) behind one small adapter.
// Values are canonical ints; an Event is the value domain {0,1}.
// ---------------------------------------------------------------------------------------------------------

const (
	kindPlain = "int_plain" // NewVariable[int]() - no transformation function, no spy
	kindSpy   = "int_spy"   // NewVariable[int](identity) - the identity doubles as ground-truth recorder
	kindMax   = "int_max"   // NewVariable[int](max) - monotone transformation, recorded as well
	kindEvent = "event"     // NewEvent() - fixed transformation cur||new
)

var varKinds = []string{kindPlain, kindSpy, kindMax, kindEvent}

// spyRec is one write as seen inside the variable's critical section (the transformation function runs under
// the value mutex): the serial order of these records is the true history of the variable.
type spyRec struct {
	Cur, Req, Res int
	Stamp         int64
}

type spy struct {
	mu   sync.Mutex
	recs []spyRec
}

func (s *spy) add(r spyRec) {
	s.mu.Lock()
	s.recs = append(s.recs, r)
	s.mu.Unlock()
}

func (s *spy) snapshot() []spyRec {
	s.mu.Lock()
	defer s.mu.Unlock()
	return append([]spyRec(nil), s.recs...)
}

type adapter struct {
	kind      string
	spy       *spy                   // nil for kinds without a transformation function of ours
	norm      func(int) int          // canonical form of a requested value
	transform func(cur, req int) int // model of the transformation function
	set       func(int)              // Set
	init      func(int)              // Init (documented as a setter that can be chained with the constructor)
	compute   func(k int)            // Compute(cur -> cur+k)
	defaultTo func(d int)            // DefaultTo
	get       func() int             // Get
	trigger   func() bool            // Event.Trigger (nil otherwise)
	onUpdate  func(cb func(p, n int), flag bool) func()
	onOnce    func(cb func(p, n int), cond func(p, n int) bool) func()
	onTrigger func(cb func()) func() // Event.OnTrigger (nil otherwise)
}

func b2i(b bool) int {
	if b {
		return 1
	}
	return 0
}

func newAdapter(kind string, clock *ctl.Clock) *adapter {
	a := &adapter{kind: kind}
	if kind == kindEvent {
		e := reactive.NewEvent()
		a.norm = func(x int) int { return b2i(x != 0) }
		a.transform = func(cur, req int) int { return cur | req }
		a.set = func(x int) { e.Set(x != 0) }
		a.init = func(x int) { e.Init(x != 0) }
		a.compute = func(k int) { e.Compute(func(c bool) bool { return b2i(c)+k != 0 }) }
		a.defaultTo = func(d int) { e.DefaultTo(d != 0) }
		a.get = func() int { return b2i(e.Get()) }
		a.trigger = e.Trigger
		a.onUpdate = func(cb func(p, n int), flag bool) func() {
			return e.OnUpdate(func(p, n bool) { cb(b2i(p), b2i(n)) }, flag)
		}
		a.onOnce = func(cb func(p, n int), cond func(p, n int) bool) func() {
			if cond == nil {
				return e.OnUpdateOnce(func(p, n bool) { cb(b2i(p), b2i(n)) })
			}
			return e.OnUpdateOnce(func(p, n bool) { cb(b2i(p), b2i(n)) }, func(p, n bool) bool { return cond(b2i(p), b2i(n)) })
		}
		a.onTrigger = func(cb func()) func() { return e.OnTrigger(cb) }
		return a
	}

	var v reactive.Variable[int]
	a.norm = func(x int) int { return x }
	switch kind {
	case kindPlain:
		v = reactive.NewVariable[int]()
		a.transform = func(_, req int) int { return req }
	case kindSpy:
		a.spy = &spy{}
		a.transform = func(_, req int) int { return req }
		v = reactive.NewVariable[int](func(cur, req int) int {
			a.spy.add(spyRec{cur, req, req, clock.Tick()})
			return req
		})
	case kindMax:
		a.spy = &spy{}
		a.transform = func(cur, req int) int {
			if cur > req {
				return cur
			}
			return req
		}
		v = reactive.NewVariable[int](func(cur, req int) int {
			res := a.transform(cur, req)
			a.spy.add(spyRec{cur, req, res, clock.Tick()})
			return res
		})
	default:
		panic("unknown kind " + kind)
	}
	a.set = func(x int) { v.Set(x) }
	a.init = func(x int) { v.Init(x) }
	a.compute = func(k int) { v.Compute(func(c int) int { return c + k }) }
	a.defaultTo = func(d int) { v.DefaultTo(d) }
	a.get = v.Get
	a.onUpdate = func(cb func(p, n int), flag bool) func() { return v.OnUpdate(cb, flag) }
	a.onOnce = func(cb func(p, n int), cond func(p, n int) bool) func() {
		if cond == nil {
			return v.OnUpdateOnce(cb)
		}
		return v.OnUpdateOnce(cb, cond)
	}
	return a
}

// modelWrite returns the value the variable must hold after the given write when it currently holds cur.
func (a *adapter) modelWrite(op string, arg, cur int) int {
	switch op {
	case "set", "init":
		return a.transform(cur, a.norm(arg))
	case "compute":
		return a.transform(cur, a.norm(cur+arg))
	case "default":
		if cur == 0 {
			return a.transform(cur, a.norm(arg))
		}
		return a.transform(cur, cur)
	case "trigger":
		return a.transform(cur, 1)
	}
	panic("not a write: " + op)
}

func (a *adapter) doWrite(op string, arg int) {
	switch op {
	case "set":
		a.set(arg)
	case "init":
		a.init(arg)
	case "compute":
		a.compute(arg)
	case "default":
		a.defaultTo(arg)
	case "trigger":
		a.trigger()
	default:
		panic("not a write: " + op)
	}
}

// ---------------------------------------------------------------------------------------------------------
// subscriptions
// ---------------------------------------------------------------------------------------------------------

const (
	subUpdate     = "update"      // OnUpdate(cb)
	subUpdateInit = "update_init" // OnUpdate(cb, true)
	subOnce       = "once"        // OnUpdateOnce(cb)
	subOnceCond   = "once_cond"   // OnUpdateOnce(cb, new >= Cond)
	subTrigger    = "trigger"     // Event.OnTrigger(cb)
)

func isOnce(kind string) bool { return kind == subOnce || kind == subOnceCond }

type pair struct{ Prev, New int }

func (p pair) String() string { return fmt.Sprintf("(%d->%d)", p.Prev, p.New) }

type cbRec struct {
	Prev, New int
	In, Out   int64 // logical stamps at callback entry / exit
}

func (c cbRec) pair() pair { return pair{c.Prev, c.New} }

func pairsOf(l []cbRec) []pair {
	out := make([]pair, len(l))
	for i, c := range l {
		out[i] = c.pair()
	}
	return out
}

func pairsStr(l []pair) string {
	s := make([]string, len(l))
	for i, p := range l {
		s[i] = p.String()
	}
	return "[" + strings.Join(s, " ") + "]"
}

func condFor(kind string, c int) func(p, n int) bool {
	if kind != subOnceCond {
		return nil
	}
	return func(_, n int) bool { return n >= c }
}

// register attaches cb with the API call the subscription kind stands for.
func (a *adapter) register(kind string, cond int, cb func(p, n int)) func() {
	switch kind {
	case subUpdate:
		return a.onUpdate(cb, false)
	case subUpdateInit:
		return a.onUpdate(cb, true)
	case subOnce, subOnceCond:
		return a.onOnce(cb, condFor(kind, cond))
	case subTrigger:
		return a.onTrigger(func() { cb(0, 1) })
	}
	panic("unknown subscription kind " + kind)
}

func sortedInts(m map[int]bool) []int {
	out := make([]int, 0, len(m))
	for k, v := range m {
		if v {
			out = append(out, k)
		}
	}
	sort.Ints(out)
	return out
}

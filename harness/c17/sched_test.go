package c17

// Schedule controller for lock scripts.
//
// A script is a set of goroutine programs (well-formed sequences of Lock/Unlock, RLock/RUnlock on
// small integer entities, acquired in ascending entity order so that the script is deadlock-free
// under correct reader/writer semantics) plus an "arrival order": the order in which the
// controller tries to issue the operations. The controller issues one operation at a time. After
// issuing it waits until, according to a reference RW model fed ONLY by observed events, no
// outstanding operation is certainly grantable any more (waiting for a grant that must come is
// bounded by ctl.HangTimeout = the lost-wake-up oracle); for an operation that must block it waits
// a short grace period so that the operation really reaches its wait inside the mutex before the
// next one is issued. The grace period only makes the intended arrival order more likely; no
// verdict depends on it.
//
// Exclusion monitor: a holder is registered when its Lock/RLock call RETURNED and is removed when
// its Unlock/RUnlock is about to be ISSUED. The registered interval is contained in the real
// holding interval, so two conflicting registered holders prove a real exclusion violation however
// well or badly the arrival order was enforced.

import (
	"fmt"
	"github.com/iotaledger/hive.go/runtime/debug"
	"sort"
	"strings"
	"sync"
	"sync/atomic"
	"time"

	"github.com/iotaledger/hive.go/runtime/syncutils"
	"verifharness/internal/ctl"
)

type opKind int

const (
	opLock opKind = iota
	opUnlock
	opRLock
	opRUnlock
)

type op struct {
	Kind opKind
	Ents []int
}

func (o op) acquire() bool { return o.Kind == opLock || o.Kind == opRLock }

func (o op) String() string {
	names := [...]string{"Lock", "Unlock", "RLock", "RUnlock"}
	parts := make([]string, len(o.Ents))
	for i, e := range o.Ents {
		parts[i] = fmt.Sprint(e)
	}
	return names[o.Kind] + "(" + strings.Join(parts, ",") + ")"
}

func lockOp(e int) op        { return op{opLock, []int{e}} }
func unlockOp(e int) op      { return op{opUnlock, []int{e}} }
func rlockOp(es ...int) op   { return op{opRLock, es} }
func runlockOp(es ...int) op { return op{opRUnlock, es} }
func pair(write bool, e int) []op {
	if write {
		return []op{lockOp(e), unlockOp(e)}
	}
	return []op{rlockOp(e), runlockOp(e)}
}

// script = programs + arrival order (a sequence of goroutine indices; the i-th occurrence of g
// stands for the i-th operation of goroutine g).
type script struct {
	Mutex string // "starving", "starving_zero" (zero value instead of the constructor) or "dag"
	Progs [][]op
	Order []int
}

func (s script) progStrings() []string {
	out := make([]string, len(s.Progs))
	for g, p := range s.Progs {
		parts := make([]string, len(p))
		for i, o := range p {
			parts[i] = o.String()
		}
		out[g] = fmt.Sprintf("G%d: %s", g, strings.Join(parts, "; "))
	}
	return out
}

func (s script) key() string {
	return s.Mutex + "|" + strings.Join(s.progStrings(), "|") + "|" + fmt.Sprint(s.Order)
}

func (s script) sample() any {
	return map[string]any{"mutex": s.Mutex, "programs": s.progStrings(), "arrival_order": s.Order}
}

// locker abstracts the two mutexes under test.
type locker interface {
	Lock(e int)
	Unlock(e int)
	RLock(es ...int)
	RUnlock(es ...int)
	State() string
}

type starvingLocker struct{ m *syncutils.StarvingMutex }

func (l starvingLocker) Lock(int)       { l.m.Lock() }
func (l starvingLocker) Unlock(int)     { l.m.Unlock() }
func (l starvingLocker) RLock(...int)   { l.m.RLock() }
func (l starvingLocker) RUnlock(...int) { l.m.RUnlock() }
func (l starvingLocker) State() string  { return "(StarvingMutex)" }

type dagLocker struct{ m *syncutils.DAGMutex[int] }

func (l dagLocker) Lock(e int)        { l.m.Lock(e) }
func (l dagLocker) Unlock(e int)      { l.m.Unlock(e) }
func (l dagLocker) RLock(es ...int)   { l.m.RLock(es...) }
func (l dagLocker) RUnlock(es ...int) { l.m.RUnlock(es...) }
func (l dagLocker) State() string     { return "(DAGMutex)" }

func newLocker(kind string) locker {
	switch kind {
	case "starving":
		return starvingLocker{syncutils.NewStarvingMutex()}
	case "starving_copied":
		// "A StarvingMutex must not be copied after first use": a copy made before the first use is a mutex of its own
		holder := &struct{ mu syncutils.StarvingMutex }{mu: *syncutils.NewStarvingMutex()} //nolint:govet // copy before first use
		return starvingLocker{&holder.mu}
	case "starving_zero":
		// "The zero value for a StarvingMutex is an unlocked mutex."
		return starvingLocker{new(syncutils.StarvingMutex)}
	}
	return dagLocker{syncutils.NewDAGMutex[int]()}
}

// monitor holds the registered holders (observed events only).
type monitor struct {
	mu      sync.Mutex
	writer  map[int]int         // entity -> goroutine
	readers map[int]map[int]int // entity -> goroutine -> count
}

func newMonitor() *monitor {
	return &monitor{writer: map[int]int{}, readers: map[int]map[int]int{}}
}

func (m *monitor) describeLocked() string {
	var parts []string
	ents := map[int]bool{}
	for e := range m.writer {
		ents[e] = true
	}
	for e, r := range m.readers {
		if len(r) > 0 {
			ents[e] = true
		}
	}
	var es []int
	for e := range ents {
		es = append(es, e)
	}
	sort.Ints(es)
	for _, e := range es {
		s := fmt.Sprintf("e%d:", e)
		if g, ok := m.writer[e]; ok {
			s += fmt.Sprintf(" W=G%d", g)
		}
		var gs []int
		for g := range m.readers[e] {
			gs = append(gs, g)
		}
		sort.Ints(gs)
		for _, g := range gs {
			s += fmt.Sprintf(" R=G%d", g)
		}
		parts = append(parts, s)
	}
	if len(parts) == 0 {
		return "no holders"
	}
	return strings.Join(parts, "; ")
}

func (m *monitor) describe() string {
	m.mu.Lock()
	defer m.mu.Unlock()
	return m.describeLocked()
}

// grant registers g as holder after its acquire call returned; returns a violation text if a
// conflicting holder is registered.
func (m *monitor) grant(g int, o op) string {
	m.mu.Lock()
	defer m.mu.Unlock()
	viol := ""
	for _, e := range o.Ents {
		if o.Kind == opLock {
			if w, ok := m.writer[e]; ok {
				viol = fmt.Sprintf("write lock on entity %d granted to G%d while G%d holds the write lock (holders: %s)", e, g, w, m.describeLocked())
			} else if len(m.readers[e]) > 0 {
				viol = fmt.Sprintf("write lock on entity %d granted to G%d while read locks are held (holders: %s)", e, g, m.describeLocked())
			}
		} else if w, ok := m.writer[e]; ok {
			viol = fmt.Sprintf("read lock on entity %d granted to G%d while G%d holds the write lock (holders: %s)", e, g, w, m.describeLocked())
		}
	}
	for _, e := range o.Ents {
		if o.Kind == opLock {
			m.writer[e] = g
		} else {
			if m.readers[e] == nil {
				m.readers[e] = map[int]int{}
			}
			m.readers[e][g]++
		}
	}
	return viol
}

// release removes g as holder; called before the unlock call is issued.
func (m *monitor) release(g int, o op) {
	m.mu.Lock()
	defer m.mu.Unlock()
	for _, e := range o.Ents {
		if o.Kind == opUnlock {
			delete(m.writer, e)
		} else {
			if m.readers[e][g]--; m.readers[e][g] <= 0 {
				delete(m.readers[e], g)
			}
		}
	}
}

func (m *monitor) hasWriter(e int) bool { return m.hasWriterOther(e, -1) }

func (m *monitor) hasReader(e int) bool { return m.hasReaderOther(e, -1) }

// hasWriterOther: a goroutine other than g is registered as writer of e. (A goroutine never acquires
// an entity it already holds, so a registration of g itself on the entity of g's outstanding
// operation is that operation's own grant whose return event has not been handled yet.)
func (m *monitor) hasWriterOther(e, g int) bool {
	m.mu.Lock()
	defer m.mu.Unlock()
	w, ok := m.writer[e]
	return ok && w != g
}

func (m *monitor) hasReaderOther(e, g int) bool {
	m.mu.Lock()
	defer m.mu.Unlock()
	for r := range m.readers[e] {
		if r != g {
			return true
		}
	}
	return false
}

func (m *monitor) isWriter(e, g int) bool {
	m.mu.Lock()
	defer m.mu.Unlock()
	w, ok := m.writer[e]
	return ok && w == g
}

func (m *monitor) isReader(e, g int) bool {
	m.mu.Lock()
	defer m.mu.Unlock()
	return m.readers[e][g] > 0
}

func (m *monitor) hasHolderOther(e, g int) bool {
	return m.hasWriterOther(e, g) || m.hasReaderOther(e, g)
}

// blockedSet computes which outstanding acquire operations may legitimately be blocked given the
// registered holders and the other outstanding operations:
//   - an RLock may be blocked iff one of its entities has a registered writer, or a Lock of another goroutine is
//     outstanding on it that may already have been granted (no reader is registered on the entity). While only readers
//     hold an entity a blocked reader must be granted, pending writers or not: RLock does not wait for pending writers
//     ("a blocked Lock call does not exclude new readers"), so a reader that stays asleep behind a mere reader is a lost
//     wake-up (and, with goroutines that hold other DAG entities meanwhile, a deadlock). A blocked multi-entity RLock
//     may invisibly hold read locks on the entities before the one it is stuck at;
//   - a Lock may be blocked iff its entity has a registered holder or a legitimately blocked
//     multi-entity RLock may hold it.
//
// Every outstanding operation NOT in the set must be granted (or another outstanding operation must
// be) without any further action of the controller.
func blockedSet(mon *monitor, outstanding map[int]op) map[int]bool {
	b := map[int]bool{}
	mayHold := map[int]bool{}
	pendingWriter := func(e, g int) bool {
		for g2, o := range outstanding {
			// an outstanding Lock may already have been granted inside the mutex (its return event is on the way) and then
			// blocks readers - unless a reader is registered on the entity: then that Lock certainly has not been granted
			// (exclusion), only readers hold the entity, and a blocked reader has to be woken up and granted
			if g2 != g && o.Kind == opLock && o.Ents[0] == e && !mon.hasReaderOther(e, g2) {
				return true
			}
		}
		return false
	}
	for g, o := range outstanding {
		if o.Kind != opRLock || mon.isReader(o.Ents[0], g) {
			// (g registered on an entity of its own outstanding operation: the operation has been granted,
			// its return event is on the way - a goroutine never acquires an entity it already holds)
			continue
		}
		last := -1
		for i, e := range o.Ents {
			if mon.hasWriterOther(e, g) || pendingWriter(e, g) {
				last = i
			}
		}
		if last >= 0 {
			b[g] = true
			for _, e := range o.Ents[:last] {
				mayHold[e] = true
			}
		}
	}
	for g, o := range outstanding {
		if o.Kind != opLock || mon.isWriter(o.Ents[0], g) { // (own grant registered: return event on the way)
			continue
		}
		if e := o.Ents[0]; mon.hasHolderOther(e, g) || mayHold[e] {
			b[g] = true
		}
	}
	return b
}

type event struct {
	g, idx int
	pv     any    // recovered panic value of the call (nil = returned normally)
	viol   string // exclusion violation detected at grant
}

// injection is an unlock of something that is not held, executed by the controller itself after
// Pos operations have been issued and the system has settled. It is only executed if, from the
// observed events, the lock is certainly not held in that mode.
type injection struct {
	Pos int
	Op  op
}

type result struct {
	Kind       string // "" = ok; "exclusion", "lost_wakeup", "deadlock", "unlock_hang", "panic", "no_panic", "final_state"
	Violation  string
	Trace      []string
	Blocked    int  // operations that were observed outstanding while another operation was issued and were granted later
	MaxQueued  int  // max number of outstanding (blocked) operations on one entity
	Parked     int  // must-block operations confirmed parked in sync.Cond.Wait before the next operation was issued
	NotParked  int  // ... not confirmed within the budget (arrival order not enforced for that operation)
	Injected   bool // the injection was executed (certainly-not-held held at Pos)
	InjPanic   string
	InjClass   string // nothing_held | wrong_mode, optionally +waiters
	Goroutines string // goroutine dump taken when a hang was detected (tells a stall from a deadlock)
}

func (r result) payload(s script, inj *injection) map[string]any {
	p := map[string]any{"mutex": s.Mutex, "programs": s.progStrings(), "arrival_order": s.Order,
		"kind": r.Kind, "observed": r.Violation, "trace": r.Trace}
	if r.Goroutines != "" {
		p["goroutines_at_hang"] = r.Goroutines
	}
	if inj != nil {
		p["wrong_unlock"] = map[string]any{"after_issued_ops": inj.Pos, "op": inj.Op.String(), "executed": r.Injected, "panic": r.InjPanic}
	}
	return p
}

var graceDur = 150 * time.Microsecond

// graceBudget bounds the best-effort wait for a must-block operation to park.
var graceBudget = 3 * time.Millisecond

// runScript executes the script on a fresh mutex under the controller.
// debugFlipAt: number of issued operations after which runScript switches hive.go's debug mode (-1 = never). Set by the
// test that drew it for the duration of one script; tests of this package run one script at a time.
var debugFlipAt = -1

func runScript(s script, inj *injection) (res result) {
	debugFlipped := false
	l := newLocker(s.Mutex)
	mon := newMonitor()
	n := len(s.Progs)
	total := 0
	for _, p := range s.Progs {
		total += len(p)
	}
	events := make(chan event, total+4)
	cmds := make([]chan int, n)
	gids := make([]atomic.Int64, n)
	for g := 0; g < n; g++ {
		cmds[g] = make(chan int, 1)
		go func(g int) {
			gids[g].Store(curGoroutineID())
			for idx := range cmds[g] {
				o := s.Progs[g][idx]
				var pv any
				func() {
					defer func() { pv = recover() }()
					switch o.Kind {
					case opLock:
						l.Lock(o.Ents[0])
					case opUnlock:
						l.Unlock(o.Ents[0])
					case opRLock:
						l.RLock(o.Ents...)
					case opRUnlock:
						l.RUnlock(o.Ents...)
					}
				}()
				viol := ""
				if pv == nil && o.acquire() {
					viol = mon.grant(g, o)
				}
				events <- event{g, idx, pv, viol}
			}
		}(g)
	}
	finished := false
	defer func() {
		if finished {
			for _, c := range cmds {
				close(c)
			}
		}
	}()

	trace := func(f string, a ...any) {
		if len(res.Trace) < 400 {
			res.Trace = append(res.Trace, fmt.Sprintf(f, a...))
		}
	}
	fail := func(kind, f string, a ...any) {
		if res.Kind == "" {
			res.Kind = kind
			res.Violation = fmt.Sprintf(f, a...)
			trace("VIOLATION %s: %s", kind, res.Violation)
			if kind == "lost_wakeup" || kind == "deadlock" || kind == "unlock_hang" || kind == "final_state" {
				res.Goroutines = ctl.Dump()
			}
		}
	}

	busy := make([]bool, n)
	next := make([]int, n)
	outstanding := map[int]op{}  // g -> acquire op issued and not returned
	wasBlocked := map[int]bool{} // g -> its outstanding op was outstanding while another op was issued
	queue := append([]int(nil), s.Order...)

	handle := func(ev event) {
		o := s.Progs[ev.g][ev.idx]
		busy[ev.g] = false
		if o.acquire() {
			delete(outstanding, ev.g)
			if wasBlocked[ev.g] {
				res.Blocked++
				delete(wasBlocked, ev.g)
			}
		}
		if ev.pv != nil {
			trace("G%d %s PANICKED: %v", ev.g, o, ev.pv)
			fail("panic", "G%d: %s panicked although the operation is legal at this point: %v", ev.g, o, ev.pv)
			return
		}
		trace("G%d %s returned", ev.g, o)
		if ev.viol != "" {
			fail("exclusion", "%s", ev.viol)
		}
	}
	describeOutstanding := func() string {
		var gs []int
		for g := range outstanding {
			gs = append(gs, g)
		}
		sort.Ints(gs)
		b := blockedSet(mon, outstanding)
		var parts []string
		for _, g := range gs {
			st := "MUST be granted"
			if b[g] {
				st = "may block"
			}
			parts = append(parts, fmt.Sprintf("G%d %s [%s]", g, outstanding[g], st))
		}
		return strings.Join(parts, ", ")
	}
	waitEvent := func(d time.Duration) bool {
		select {
		case ev := <-events:
			handle(ev)
			return true
		default:
		}
		if d >= ctl.HangTimeout { // hang verdicts use the stall-tolerant watchdog
			ev, ok := patientRecv(events, d)
			if ok {
				handle(ev)
			}
			return ok
		}
		t := time.NewTimer(d)
		defer t.Stop()
		select {
		case ev := <-events:
			handle(ev)
			return true
		case <-t.C:
			return false
		}
	}
	// settle waits until every outstanding operation may legitimately be blocked.
	settle := func(graceFor int) bool {
		for res.Kind == "" {
			b := blockedSet(mon, outstanding)
			must := false
			for g := range outstanding {
				if !b[g] {
					must = true
				}
			}
			if must {
				if !waitEvent(ctl.HangTimeout) {
					fail("lost_wakeup", "no operation returned within %s although the holders have released: outstanding %s; registered holders: %s %s",
						ctl.HangTimeout, describeOutstanding(), mon.describe(), l.State())
				}
				continue
			}
			if graceFor >= 0 {
				// the operation must block: let it reach its wait inside the mutex before the next
				// operation is issued (best effort; counts how often the parked state was confirmed)
				g := graceFor
				graceFor = -1
				if waitParked(gids[g].Load, func() bool { return len(events) > 0 }, graceBudget) {
					res.Parked++
				} else {
					res.NotParked++
				}
				if len(events) > 0 {
					waitEvent(graceDur)
					continue
				}
			}
			return true
		}
		return false
	}
	queuedStats := func() {
		per := map[int]int{}
		for _, o := range outstanding {
			for _, e := range o.Ents {
				per[e]++
			}
		}
		for _, c := range per {
			if c > res.MaxQueued {
				res.MaxQueued = c
			}
		}
	}

	issued := 0
	injPending := inj != nil
	doInjection := func() bool {
		o := inj.Op
		// certainly not held in that mode?
		for _, e := range o.Ents {
			if o.Kind == opUnlock && mon.hasWriter(e) {
				return true
			}
			if o.Kind == opRUnlock {
				if mon.hasReader(e) {
					return true
				}
				// an outstanding RLock may hold e invisibly unless it is certainly stuck at or before e:
				// e itself or an earlier entity of its list has a REGISTERED writer
				for g, oo := range outstanding {
					if oo.Kind != opRLock {
						continue
					}
					pos, stuckAt := -1, -1
					for i, e2 := range oo.Ents {
						if e2 == e {
							pos = i
						}
						if stuckAt < 0 && mon.hasWriterOther(e2, g) {
							stuckAt = i
						}
					}
					if pos >= 0 && !(stuckAt >= 0 && stuckAt <= pos) {
						return true
					}
				}
			}
		}
		res.Injected = true
		res.InjClass = "nothing_held"
		for _, e := range o.Ents {
			if mon.hasHolderOther(e, -1) {
				res.InjClass = "wrong_mode"
			}
		}
		for _, oo := range outstanding {
			for _, e := range oo.Ents {
				for _, e2 := range o.Ents {
					if e == e2 && !strings.HasSuffix(res.InjClass, "+waiters") {
						res.InjClass += "+waiters"
					}
				}
			}
		}
		var pv any
		returned := withinHang(func() {
			defer func() { pv = recover() }()
			if o.Kind == opUnlock {
				l.Unlock(o.Ents[0])
			} else {
				l.RUnlock(o.Ents...)
			}
		})
		if !returned {
			fail("unlock_hang", "%s of a lock that is not held did not return within %s (holders: %s)", o, ctl.HangTimeout, mon.describe())
			return false
		}
		if pv == nil {
			trace("controller: %s (not held) returned WITHOUT panic", o)
			fail("no_panic", "%s returned normally although the lock is not held in that mode (registered holders: %s)", o, mon.describe())
			return false
		}
		res.InjPanic = fmt.Sprint(pv)
		trace("controller: %s (not held) panicked: %v", o, pv)
		return true
	}

	for res.Kind == "" {
		if debugFlipAt >= 0 && issued == debugFlipAt && !debugFlipped {
			// hive.go's process-wide debug mode is switched while operations may be blocked (they chose their wait path
			// under the old setting and leave it under the new one)
			debugFlipped = true
			debug.SetEnabled(!debug.GetEnabled())
			trace("controller: debug mode switched to %v", debug.GetEnabled())
		}
		if injPending && issued == inj.Pos {
			injPending = false
			if !doInjection() {
				break
			}
		}
		pick := -1
		for qi, g := range queue {
			if !busy[g] {
				pick = qi
				break
			}
		}
		if pick == -1 {
			if len(queue) == 0 && len(outstanding) == 0 {
				break
			}
			if len(outstanding) == 0 {
				panic(fmt.Sprintf("harness bug: operations left but no goroutine free and nothing outstanding: %s", s.key()))
			}
			// Nothing is issuable: every goroutine that still has operations is inside an acquire call. The
			// script acquires in ascending entity order, so under correct semantics (including the writer
			// priority over sleeping readers) the wait-for chain reader -> pending writer -> holder -> higher
			// entity ends at an operation that must be granted: some operation has to return.
			if !waitEvent(ctl.HangTimeout) {
				fail("deadlock", "every goroutine is blocked in an acquire operation and none was granted within %s: outstanding %s; registered holders: %s %s",
					ctl.HangTimeout, describeOutstanding(), mon.describe(), l.State())
			}
			continue
		}
		g := queue[pick]
		queue = append(queue[:pick], queue[pick+1:]...)
		idx := next[g]
		next[g]++
		o := s.Progs[g][idx]
		for og := range outstanding {
			wasBlocked[og] = true
		}
		issued++
		busy[g] = true
		if o.acquire() {
			outstanding[g] = o
			trace("issue G%d %s", g, o)
			cmds[g] <- idx
			queuedStats()
			graceFor := -1
			if blockedSet(mon, outstanding)[g] {
				graceFor = g
			}
			if !settle(graceFor) {
				break
			}
		} else {
			mon.release(g, o)
			trace("issue G%d %s", g, o)
			cmds[g] <- idx
			for busy[g] && res.Kind == "" {
				if !waitEvent(ctl.HangTimeout) {
					fail("unlock_hang", "G%d: %s did not return within %s; outstanding %s; registered holders: %s", g, o, ctl.HangTimeout, describeOutstanding(), mon.describe())
				}
			}
			if res.Kind != "" || !settle(-1) {
				break
			}
		}
	}
	if res.Kind == "" && inj != nil {
		// "who can lock afterwards": everything has been released, so every entity must be lockable
		// in both modes on the same mutex.
		ents := map[int]bool{}
		for _, p := range s.Progs {
			for _, o := range p {
				for _, e := range o.Ents {
					ents[e] = true
				}
			}
		}
		for _, e := range inj.Op.Ents {
			ents[e] = true
		}
		var es []int
		for e := range ents {
			es = append(es, e)
		}
		sort.Ints(es)
		for _, e := range es {
			var pv any
			ok := withinHang(func() {
				defer func() { pv = recover() }()
				l.Lock(e)
				l.Unlock(e)
				l.RLock(e)
				l.RUnlock(e)
			})
			if !ok {
				fail("final_state", "after the script completed (all locks released) Lock/Unlock/RLock/RUnlock of entity %d did not return within %s", e, ctl.HangTimeout)
				break
			}
			if pv != nil {
				fail("final_state", "after the script completed (all locks released) Lock/Unlock/RLock/RUnlock of entity %d panicked: %v", e, pv)
				break
			}
		}
	}
	if res.Kind == "" {
		finished = true
	}
	return res
}

// multiset permutations of the arrival order: every goroutine g appears counts[g] times.
func arrivalOrders(counts []int, visit func(order []int) bool) {
	total := 0
	for _, c := range counts {
		total += c
	}
	cur := make([]int, 0, total)
	left := append([]int(nil), counts...)
	var rec func() bool
	rec = func() bool {
		if len(cur) == total {
			return visit(append([]int(nil), cur...))
		}
		for g := range left {
			if left[g] == 0 {
				continue
			}
			left[g]--
			cur = append(cur, g)
			ok := rec()
			cur = cur[:len(cur)-1]
			left[g]++
			if !ok {
				return false
			}
		}
		return true
	}
	rec()
}

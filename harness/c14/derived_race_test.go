package c14

import (
	"fmt"
	"runtime"
	"sync"
	"testing"

	"github.com/iotaledger/hive.go/ds/reactive"
	"pgregory.net/rapid"
	"verifharness/internal/ctl"
	"verifharness/internal/stats"
)

// yieldingVar is a caller-defined input: reading it yields the processor, which widens every window between an
// input read and the derived variable's update without changing any semantics.
type yieldingVar struct {
	reactive.Variable[int]
	yields int
}

func (y *yieldingVar) Get() int {
	v := y.Variable.Get()
	for i := 0; i < y.yields; i++ {
		runtime.Gosched()
	}

	return v
}

// TestDerivedVariableWriterRace: targeted generator for "writers on different inputs of one derived variable": every
// round builds a fresh NewDerivedVariable2/3 over inputs that are plain variables or yielding wrappers, lets one
// writer per input perform its drawn writes concurrently and compares the derived value with compute(inputs) once
// all writers have returned.
func TestDerivedVariableWriterRace(t *testing.T) {
	const check = "derived_variable_writer_race"
	stats.Rule(check, "rapid draws the arity (2 or 3), which inputs are yielding caller-defined variables (Get yields 1..3 times), 1..3 writes per input and whether writers yield between writes; each case runs 600 rounds (4000 in the thorough tier) of: fresh inputs, fresh NewDerivedVariable2/3 with compute = a + 1000*b (+ 1000000*c), one goroutine per input released together; at quiescence derived.Get() must equal compute(current inputs). Hang watchdog 20 s. Distinct by drawn configuration; non-trivial = at least one yielding input")
	rounds := stats.Scale(600, 4000)
	rapid.Check(t, func(rt *rapid.T) {
		arity := rapid.IntRange(2, 3).Draw(rt, "arity")
		yields := make([]int, arity)
		writes := make([][]int, arity)
		anyYield := false
		for i := range yields {
			if rapid.Bool().Draw(rt, fmt.Sprintf("yielding%d", i)) {
				yields[i] = rapid.IntRange(1, 3).Draw(rt, fmt.Sprintf("yields%d", i))
				anyYield = true
			}
			writes[i] = rapid.SliceOfN(rapid.IntRange(1, 9), 1, 3).Draw(rt, fmt.Sprintf("writes%d", i))
		}
		writerYield := rapid.Bool().Draw(rt, "writerYield")
		desc := fmt.Sprintf("arity=%d yields=%v writes=%v writerYield=%v", arity, yields, writes, writerYield)
		for round := 0; round < rounds; round++ {
			vars := make([]reactive.Variable[int], arity)
			ins := make([]reactive.ReadableVariable[int], arity)
			for i := range vars {
				vars[i] = reactive.NewVariable[int]()
				if yields[i] > 0 {
					ins[i] = &yieldingVar{Variable: vars[i], yields: yields[i]}
				} else {
					ins[i] = vars[i]
				}
			}
			var derived reactive.DerivedVariable[int]
			if arity == 2 {
				derived = reactive.NewDerivedVariable2(func(_ int, a, b int) int { return a + 1000*b }, ins[0], ins[1])
			} else {
				derived = reactive.NewDerivedVariable3(func(_ int, a, b, c int) int { return a + 1000*b + 1000000*c }, ins[0], ins[1], ins[2])
			}
			var wg sync.WaitGroup
			start := make(chan struct{})
			for i := range vars {
				wg.Add(1)
				go func(i int) {
					defer wg.Done()
					<-start
					for _, w := range writes[i] {
						vars[i].Set(w)
						if writerYield {
							runtime.Gosched()
						}
					}
				}(i)
			}
			close(start)
			if !ctl.WithinHang(wg.Wait) {
				stats.Violation(check, map[string]any{"config": desc, "round": round, "problem": "writers did not return", "stacks": ctl.Dump()})
				rt.Fatalf("%s: writers did not return within %v", desc, ctl.HangTimeout)
			}
			want := vars[0].Get() + 1000*vars[1].Get()
			if arity == 3 {
				want += 1000000 * vars[2].Get()
			}
			if got := derived.Get(); got != want {
				stats.Violation(check, map[string]any{"config": desc, "round": round, "problem": fmt.Sprintf("derived = %d, compute(inputs) = %d", got, want)})
				rt.Fatalf("%s round %d: all writers returned but the derived variable is %d, compute(current inputs) = %d", desc, round, got, want)
			}
			derived.Unsubscribe()
		}
		stats.Case(check, anyYield, desc, func() any { return desc })
	})
}

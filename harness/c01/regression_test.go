package c01

import (
	"bytes"
	"context"
	"math"
	"reflect"
	"testing"
	"testing/iotest"
	"time"

	"github.com/iotaledger/hive.go/serializer/v2"
	"github.com/iotaledger/hive.go/serializer/v2/serix"
	"github.com/iotaledger/hive.go/serializer/v2/stream"
)

// Plain regression checks (no generator) for the defects this property's search found and that were repaired.

type regShape interface{ Name() string }
type regCircle struct {
	R uint16 `serix:""`
}

func (*regCircle) Name() string { return "c" }

type regArr struct {
	A [2]uint16 `serix:",lenPrefix=uint8"`
}
type regMap struct {
	M map[int64]regShape `serix:",lenPrefix=uint8"`
}

func regAPI(t *testing.T) *serix.API {
	api := serix.NewAPI()
	if err := api.RegisterTypeSettings(regCircle{}, serix.TypeSettings{}.WithObjectType(uint8(7))); err != nil {
		t.Fatal(err)
	}
	if err := api.RegisterInterfaceObjects((*regShape)(nil), (*regCircle)(nil)); err != nil {
		t.Fatal(err)
	}
	return api
}

func roundTrip(t *testing.T, api *serix.API, in any) {
	t.Helper()
	ctx := context.Background()
	b, err := api.Encode(ctx, in)
	if err != nil {
		t.Fatalf("encode: %v", err)
	}
	out := reflect.New(reflect.TypeOf(in).Elem())
	n, err := api.Decode(ctx, b, out.Interface())
	if err != nil || n != len(b) {
		t.Fatalf("decode: n=%d/%d err=%v", n, len(b), err)
	}
	if !reflect.DeepEqual(in, out.Interface()) {
		t.Fatalf("round trip: %+v != %+v", in, out.Interface())
	}
	j, err := api.JSONEncode(ctx, in)
	if err != nil {
		t.Fatalf("json encode: %v", err)
	}
	jout := reflect.New(reflect.TypeOf(in).Elem())
	if err := api.JSONDecode(ctx, j, jout.Interface()); err != nil {
		t.Fatalf("json decode of %s: %v", j, err)
	}
	if !reflect.DeepEqual(in, jout.Interface()) {
		t.Fatalf("json round trip: %+v != %+v", in, jout.Interface())
	}
}

func TestRegressionArrayOfObjects(t *testing.T) {
	roundTrip(t, regAPI(t), &regArr{A: [2]uint16{1, 65535}})
}

func TestRegressionMapWithInterfaceValues(t *testing.T) {
	roundTrip(t, regAPI(t), &regMap{M: map[int64]regShape{3: &regCircle{R: 9}, 1: &regCircle{R: 2}}})
}

func TestRegressionTimeInLastRepresentableSecond(t *testing.T) {
	tm := time.Unix(serializer.MaxNanoTimestampInt64Seconds, 999_999_999)
	if got := serializer.TimeToUint64(tm); got != math.MaxInt64 {
		t.Fatalf("TimeToUint64 of a time beyond MaxInt64 ns = %d, want saturation to %d", got, int64(math.MaxInt64))
	}
	var back time.Time
	src := []byte{0, 0, 0, 0, 0, 0, 0, 0x80} // 2^63 ns
	if _, err := serializer.NewDeserializer(src).ReadTime(&back, func(err error) error { return err }).Done(); err != nil {
		t.Fatal(err)
	}
	if back.UnixNano() != math.MaxInt64 {
		t.Fatalf("ReadTime of 2^63 ns = %d, want saturation", back.UnixNano())
	}
}

func TestRegressionReadBytesSplitReads(t *testing.T) {
	data := []byte{1, 2, 3, 4, 5, 6, 7, 8, 9}
	got, err := stream.ReadBytes(iotest.OneByteReader(bytes.NewReader(data)), len(data))
	if err != nil || !bytes.Equal(got, data) {
		t.Fatalf("ReadBytes through a one-byte reader: %x, %v", got, err)
	}
	if got, err := stream.ReadBytes(bytes.NewReader(nil), 0); err != nil || len(got) != 0 {
		t.Fatalf("ReadBytes(0) at end of stream: %x, %v", got, err)
	}
}

// RegInner is exported because serix refuses inlined unexported embedded structs.
type RegInner struct {
	X uint8 `serix:""`
}
type regKeyedInline struct {
	RegInner `serix:"inner,inlined"`
	Y        uint8 `serix:""`
}

func TestRegressionInlinedFieldWithKeyJSON(t *testing.T) {
	roundTrip(t, serix.NewAPI(), &regKeyedInline{RegInner: RegInner{X: 3}, Y: 4})
}

type regInner struct {
	A string `serix:",lenPrefix=uint32"`
	B int8   `serix:""`
}
type regOnePtr struct {
	F [1]*regInner `serix:",lenPrefix=uint32"`
}
type regOnePtrMap struct {
	M map[int64]regOnePtr `serix:",lenPrefix=uint8"`
}

// A one-element array of pointers inside a struct that is not addressable (map value, struct handed to Encode by
// value) is stored directly in the reflect.Value's data word; sliceFromArray copied it with reflect.Copy, which read the
// first word of the pointed-to struct instead: Encode failed with a bogus string length or crashed.
func TestRegressionOneElementPointerArrayByValue(t *testing.T) {
	api := regAPI(t)
	want, err := api.Encode(context.Background(), &regOnePtr{F: [1]*regInner{{A: "ab", B: 28}}})
	if err != nil {
		t.Fatalf("encode through a pointer: %v", err)
	}
	got, err := api.Encode(context.Background(), regOnePtr{F: [1]*regInner{{A: "ab", B: 28}}})
	if err != nil || !bytes.Equal(got, want) {
		t.Fatalf("encode by value: %x, %v; through a pointer: %x", got, err, want)
	}
	roundTrip(t, api, &regOnePtrMap{M: map[int64]regOnePtr{0: {F: [1]*regInner{{A: "ab", B: 28}}}, 16: {F: [1]*regInner{{A: "", B: -2}}}}})
}

type RegEmbInner struct {
	A uint8 `serix:""`
}
type regEmbPtrHolder struct {
	*RegEmbInner `serix:""`
	B            uint8 `serix:""`
	C            uint8 `serix:""`
}

// Encode silently left out the fields of a nil embedded struct pointer; the bytes then failed to decode, or decoded with
// the following fields shifted into the embedded struct. A value that has no encoding must be refused.
func TestRegressionNilEmbeddedPointerIsRefused(t *testing.T) {
	api := regAPI(t)
	ctx := context.Background()
	if b, err := api.Encode(ctx, &regEmbPtrHolder{B: 1, C: 2}); err == nil {
		t.Fatalf("Encode accepted a nil embedded struct pointer and produced %x", b)
	}
	if j, err := api.JSONEncode(ctx, &regEmbPtrHolder{B: 1, C: 2}); err == nil {
		t.Fatalf("JSONEncode accepted a nil embedded struct pointer and produced %s", j)
	}
	roundTrip(t, api, &regEmbPtrHolder{RegEmbInner: &RegEmbInner{A: 9}, B: 1, C: 2})
}

// ---- auditors' findings on the JSON form ----

type regTypeClash struct {
	Type uint8 `serix:""`
}

type regInl struct {
	A uint8 `serix:""`
}

type regInlHolder struct {
	I *regInl `serix:",inlined,optional"`
	Z uint8   `serix:""`
}

// jsonRoundTripOrRefusal: "the JSON form of every value that form can express" - JSONEncode may refuse a value, but
// what it produces has to decode back to an equal value.
func jsonRoundTripOrRefusal(t *testing.T, api *serix.API, in any) (refused bool, problem string) {
	t.Helper()
	ctx := context.Background()
	j, err := api.JSONEncode(ctx, in)
	if err != nil {
		return true, ""
	}
	out := reflect.New(reflect.TypeOf(in).Elem())
	if err := api.JSONDecode(ctx, j, out.Interface()); err != nil {
		return false, "JSONDecode of JSONEncode's output " + string(j) + " failed: " + err.Error()
	}
	if !reflect.DeepEqual(in, out.Interface()) {
		return false, "JSON round trip of " + string(j) + " changed the value"
	}

	return false, ""
}

// A struct with an object type and a field whose key is "type": the field overwrote the struct's type code in the map
// form (fixed in /repo: MapEncode refuses keys that are used twice).
func TestRegressionJSONKeyUsedTwice(t *testing.T) {
	api := serix.NewAPI()
	if err := api.RegisterTypeSettings(regTypeClash{}, serix.TypeSettings{}.WithObjectType(uint8(8))); err != nil {
		t.Fatal(err)
	}
	if _, problem := jsonRoundTripOrRefusal(t, api, &regTypeClash{Type: 3}); problem != "" {
		t.Fatal(problem)
	}
	roundTripBinary(t, api, &regTypeClash{Type: 3})
}

func roundTripBinary(t *testing.T, api *serix.API, in any) {
	t.Helper()
	ctx := context.Background()
	b, err := api.Encode(ctx, in)
	if err != nil {
		t.Fatalf("encode: %v", err)
	}
	out := reflect.New(reflect.TypeOf(in).Elem())
	n, err := api.Decode(ctx, b, out.Interface())
	if err != nil || n != len(b) {
		t.Fatalf("decode: n=%d/%d err=%v", n, len(b), err)
	}
	if !reflect.DeepEqual(in, out.Interface()) {
		t.Fatalf("round trip: %+v != %+v", in, out.Interface())
	}
}

type regOmitType struct {
	Type uint8 `serix:",omitempty"`
	V    uint8 `serix:""`
}

type regNote struct {
	N uint8 `serix:""`
}

type RegInlNote struct {
	Note *regNote `serix:",optional"`
}

type regParentNote struct {
	Note       *regNote `serix:",optional"`
	RegInlNote `serix:",inlined"`
}

// The duplicate-key check only saw keys that were actually written: with the colliding member left out (omitempty zero
// value, nil optional) the document was written and decoded to ANOTHER value (found by an independent auditor, sixth
// round). Key collisions are decided per type now.
func TestRegressionJSONKeyUsedTwiceWithOmittedMember(t *testing.T) {
	api := serix.NewAPI()
	if err := api.RegisterTypeSettings(regOmitType{}, serix.TypeSettings{}.WithObjectType(uint8(5))); err != nil {
		t.Fatal(err)
	}
	for _, v := range []any{&regOmitType{Type: 0, V: 1}, &regOmitType{Type: 3, V: 1},
		&regParentNote{RegInlNote: RegInlNote{Note: &regNote{N: 3}}}, &regParentNote{Note: &regNote{N: 2}}} {
		if _, problem := jsonRoundTripOrRefusal(t, api, v); problem != "" {
			t.Fatalf("%+v: %s", v, problem)
		}
		roundTripBinary(t, api, v)
	}
}

// Demonstration of an independent auditor (seventh round), kept as a regression test; see known_findings.json.
package c01

import (
	"context"
	"reflect"
	"testing"

	"github.com/iotaledger/hive.go/serializer/v2/serix"
)

// Repair b492f7f lets MapDecode skip an inlined member that MapEncode left out (optional and nil / omitempty and empty)
// by asking hasKeyOfStruct whether one of the member's keys is in the document. hasKeyOfStruct answers "yes" for
// everything it does not look into (an inlined interface, a struct that has an inlined map member), so for those members
// the decoder still demands what the encoder left out: JSONDecode refuses the output of JSONEncode.

type hunt29Iface interface{ hunt29() }

type hunt29Impl struct {
	X uint8 `serix:""`
}

func (hunt29Impl) hunt29() {}

type hunt29OuterOptional struct {
	Name uint8       `serix:""`
	Addr hunt29Iface `serix:",inlined,optional"`
}

type hunt29OuterOmitEmpty struct {
	Name uint8       `serix:""`
	Addr hunt29Iface `serix:",inlined,omitempty"`
}

type hunt29InnerWithMap struct {
	M map[string]string `serix:",inlined"`
	X uint8             `serix:",omitempty"`
}

type hunt29OuterInnerWithMap struct {
	N  uint8               `serix:""`
	In *hunt29InnerWithMap `serix:",inlined,optional"`
}

func TestRegressionAudit29_InlinedOptionalInterfaceNil(t *testing.T) {
	ctx := context.Background()
	api := serix.NewAPI()
	if err := api.RegisterTypeSettings(hunt29Impl{}, serix.TypeSettings{}.WithObjectType(uint8(1))); err != nil {
		t.Fatal(err)
	}
	if err := api.RegisterInterfaceObjects((*hunt29Iface)(nil), hunt29Impl{}); err != nil {
		t.Fatal(err)
	}

	// sanity: the non-nil value round-trips through JSON
	src := hunt29OuterOptional{Name: 3, Addr: hunt29Impl{X: 9}}
	j, err := api.JSONEncode(ctx, src)
	if err != nil {
		t.Fatal(err)
	}
	var dst hunt29OuterOptional
	if err := api.JSONDecode(ctx, j, &dst); err != nil {
		t.Fatalf("non-nil: %s: %v", j, err)
	}
	if !reflect.DeepEqual(src, dst) {
		t.Fatalf("non-nil: %+v != %+v", src, dst)
	}

	// sanity: the nil value round-trips through the binary form
	srcNil := hunt29OuterOptional{Name: 3}
	b, err := api.Encode(ctx, srcNil)
	if err != nil {
		t.Fatal(err)
	}
	var dstB hunt29OuterOptional
	if n, err := api.Decode(ctx, b, &dstB); err != nil || n != len(b) || !reflect.DeepEqual(srcNil, dstB) {
		t.Fatalf("binary: %v %d %+v", err, n, dstB)
	}

	// optional interface, nil
	j, err = api.JSONEncode(ctx, srcNil)
	if err != nil {
		t.Fatal(err)
	}
	var dstNil hunt29OuterOptional
	if err := api.JSONDecode(ctx, j, &dstNil); err != nil {
		t.Errorf("inlined,optional interface: JSONDecode refuses the output of JSONEncode %s: %v", j, err)
	} else if !reflect.DeepEqual(srcNil, dstNil) {
		t.Errorf("inlined,optional interface: %+v != %+v", srcNil, dstNil)
	}

	// omitempty interface, nil
	srcOmit := hunt29OuterOmitEmpty{Name: 3}
	j, err = api.JSONEncode(ctx, srcOmit)
	if err != nil {
		t.Fatal(err)
	}
	var dstOmit hunt29OuterOmitEmpty
	if err := api.JSONDecode(ctx, j, &dstOmit); err != nil {
		t.Errorf("inlined,omitempty interface: JSONDecode refuses the output of JSONEncode %s: %v", j, err)
	} else if !reflect.DeepEqual(srcOmit, dstOmit) {
		t.Errorf("inlined,omitempty interface: %+v != %+v", srcOmit, dstOmit)
	}

	// nil optional inlined struct that has an inlined map member (which repair 3a83468 writes under its own key)
	srcMap := hunt29OuterInnerWithMap{N: 1}
	j, err = api.JSONEncode(ctx, srcMap)
	if err != nil {
		t.Fatal(err)
	}
	var dstMap hunt29OuterInnerWithMap
	if err := api.JSONDecode(ctx, j, &dstMap); err != nil {
		t.Errorf("inlined,optional struct with a map member: JSONDecode refuses the output of JSONEncode %s: %v", j, err)
	} else if !reflect.DeepEqual(srcMap, dstMap) {
		t.Errorf("inlined,optional struct with a map member: %+v != %+v", srcMap, dstMap)
	}
}

package c17

import (
	"fmt"
	"sync"
	"testing"
	"time"

	"github.com/iotaledger/hive.go/runtime/syncutils"
	"pgregory.net/rapid"
	"verifharness/internal/ctl"
	"verifharness/internal/stats"
)

// TestStackRemovalWakesAllSizeWaiters: several goroutines wait for the stack to shrink (WaitIsEmpty / WaitSizeIsBelow)
// at the same time; the elements are removed through Pop or through PopOrWait (the path a worker pool's dispatcher
// uses). Once the stack is empty every one of these conditions holds, so every waiter has to return.
func TestStackRemovalWakesAllSizeWaiters(t *testing.T) {
	const check = "stack_removal_wakes_all_size_waiters"
	stats.Rule(check, "rapid draws 1..4 initial elements, 2..5 waiters (WaitIsEmpty or WaitSizeIsBelow(1..size), all false at launch) that are given a moment to park, and for every element whether it is removed with Pop() or with PopOrWait(always-true condition); the controller is the only mutator. Oracle: after the last removal every waiter returns within the stall-tolerant 20 s watchdog; a waiter never returns while its condition has not held since its launch (the size is only ever decreased by the controller, so the check is: not before the size reached its threshold). Distinct by configuration; non-trivial = >= 2 waiters and at least one removal through PopOrWait")
	rapid.Check(t, func(rt *rapid.T) {
		size := rapid.IntRange(1, 4).Draw(rt, "size")
		nw := rapid.IntRange(2, 5).Draw(rt, "waiters")
		s := syncutils.NewStack[int]()
		for i := 0; i < size; i++ {
			s.Push(i)
		}
		type waiter struct {
			name     string
			below    int // returns once size < below
			returned chan struct{}
		}
		ws := make([]*waiter, nw)
		var clock ctl.Clock
		var reachedMu sync.Mutex
		reached := map[int]int64{} // size -> stamp at which the controller had reduced the stack to that size
		for i := range ws {
			w := &waiter{returned: make(chan struct{})}
			if rapid.Bool().Draw(rt, fmt.Sprintf("isEmpty%d", i)) {
				w.name, w.below = "WaitIsEmpty()", 1
			} else {
				w.below = rapid.IntRange(1, size).Draw(rt, fmt.Sprintf("below%d", i))
				w.name = fmt.Sprintf("WaitSizeIsBelow(%d)", w.below)
			}
			ws[i] = w
			go func() {
				if w.below == 1 && w.name == "WaitIsEmpty()" {
					s.WaitIsEmpty()
				} else {
					s.WaitSizeIsBelow(w.below)
				}
				stamp := clock.Tick()
				reachedMu.Lock()
				r, ok := reached[w.below-1]
				reachedMu.Unlock()
				if !ok || r > stamp {
					w.name += " [returned before its condition held]"
				}
				close(w.returned)
			}()
		}
		ctl.Settle(time.Millisecond)
		usedPopOrWait := false
		desc := fmt.Sprintf("size=%d waiters=%v removals=", size, func() (n []string) {
			for _, w := range ws {
				n = append(n, w.name)
			}
			return
		}())
		for cur := size; cur > 0; cur-- {
			if rapid.Bool().Draw(rt, fmt.Sprintf("viaPopOrWait%d", cur)) {
				usedPopOrWait = true
				desc += "PopOrWait "
				reachedMu.Lock()
				reached[cur-1] = clock.Tick() // stamped before the removal: a return after this stamp is legitimate
				reachedMu.Unlock()
				if _, ok := s.PopOrWait(func() bool { return true }); !ok {
					rt.Fatalf("%s: PopOrWait on a stack of %d elements returned nothing", desc, cur)
				}
			} else {
				desc += "Pop "
				reachedMu.Lock()
				reached[cur-1] = clock.Tick()
				reachedMu.Unlock()
				if _, ok := s.Pop(); !ok {
					rt.Fatalf("%s: Pop on a stack of %d elements returned nothing", desc, cur)
				}
			}
		}
		for _, w := range ws {
			if !ctl.WaitHang(w.returned) {
				stats.Violation(check, map[string]any{"case": desc, "problem": w.name + " did not return although the stack is empty", "stacks": ctl.Dump()})
				rt.Fatalf("%s: %s did not return within %v although the stack is empty (size %d)", desc, w.name, ctl.HangTimeout, s.Size())
			}
			if len(w.name) > 30 && w.name[len(w.name)-1] == ']' {
				stats.Violation(check, map[string]any{"case": desc, "problem": w.name})
				rt.Fatalf("%s: %s", desc, w.name)
			}
		}
		stats.Case(check, nw >= 2 && usedPopOrWait, desc, func() any { return desc })
	})
}

// Demonstration of an independent auditor (repair audit round), kept as a regression test; see known_findings.json.
package c01

import (
	"context"
	"fmt"
	"math/big"
	"testing"
	"time"

	"github.com/stretchr/testify/require"

	"github.com/iotaledger/hive.go/serializer/v2/serix"
)

// an interface with three registered implementations: a struct, time.Time and *big.Int (all three have a String method)
type hunt19Stringer interface {
	String() string
}

type hunt19Struct struct {
	A uint64 `serix:""`
}

func (h hunt19Struct) String() string { return fmt.Sprint(h.A) }

type hunt19Holder struct {
	S hunt19Stringer `serix:""`
}

func hunt19API(t *testing.T) *serix.API {
	api := serix.NewAPI()
	require.NoError(t, api.RegisterTypeSettings(hunt19Struct{}, serix.TypeSettings{}.WithObjectType(uint8(0))))
	require.NoError(t, api.RegisterTypeSettings(time.Time{}, serix.TypeSettings{}.WithObjectType(uint8(1))))
	require.NoError(t, api.RegisterTypeSettings((*big.Int)(nil), serix.TypeSettings{}.WithObjectType(uint8(2))))
	require.NoError(t, api.RegisterInterfaceObjects((*hunt19Stringer)(nil), hunt19Struct{}, time.Time{}, (*big.Int)(nil)))

	return api
}

// The repair 2820349 made every kind of value write the type code of its type settings ("the type code is how the decoder
// finds the implementation of an interface, so it has to be part of the serialized form of every kind of object"), but
// the two kinds that serix encodes natively - time.Time and *big.Int - were left out: as implementations of an interface
// they are written without type code, and Decode takes the first byte(s) of the time stamp / number for the type code.
func TestRegressionAudit19TimeAndBigIntAsInterfaceImplementation(t *testing.T) {
	api := hunt19API(t)
	ctx := context.Background()

	values := map[string]hunt19Stringer{
		"struct (control)": hunt19Struct{A: 7},
		"time.Time":        time.Unix(1700000000, 0).UTC(),
		"time.Time epoch":  time.Unix(0, 0).UTC(),
		"*big.Int 77":      big.NewInt(77),
		"*big.Int 1":       big.NewInt(1),
		"*big.Int 2":       big.NewInt(2),
	}

	for name, v := range values {
		for _, validation := range []bool{false, true} {
			var opts []serix.Option
			if validation {
				opts = append(opts, serix.WithValidation())
			}

			src := hunt19Holder{S: v}
			b, err := api.Encode(ctx, src, opts...)
			if err != nil {
				t.Logf("%s: Encode refuses the value: %s", name, err)

				continue // refusing would be fine
			}

			var dst hunt19Holder
			n, err := api.Decode(ctx, b, &dst, opts...)
			if err != nil {
				t.Errorf("%s (validation=%v): Encode accepted the value (bytes %x), Decode refuses them: %.160s", name, validation, b, err.Error())

				continue
			}
			if n != len(b) {
				t.Errorf("%s (validation=%v): Decode consumed %d of the %d bytes %x and produced %T(%v)", name, validation, n, len(b), b, dst.S, dst.S)

				continue
			}
			if fmt.Sprintf("%T(%v)", src.S, src.S) != fmt.Sprintf("%T(%v)", dst.S, dst.S) {
				t.Errorf("%s (validation=%v): encoded %T(%v) as %x, decoded %T(%v)", name, validation, src.S, src.S, b, dst.S, dst.S)
			}
		}
	}
}

// the same values round-trip when the interface is not involved (the type code is neither written nor expected)
func TestRegressionAudit19ControlWithoutInterface(t *testing.T) {
	api := hunt19API(t)
	ctx := context.Background()

	type plain struct {
		T time.Time `serix:""`
		N *big.Int  `serix:""`
	}
	src := plain{T: time.Unix(1700000000, 0).UTC(), N: big.NewInt(77)}
	b, err := api.Encode(ctx, src)
	require.NoError(t, err)
	var dst plain
	n, err := api.Decode(ctx, b, &dst)
	require.NoError(t, err)
	require.Equal(t, len(b), n)
	require.True(t, src.T.Equal(dst.T))
	require.Zero(t, src.N.Cmp(dst.N))
}

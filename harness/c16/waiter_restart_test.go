package c16

import (
	"fmt"
	"strings"
	"sync"
	"sync/atomic"
	"testing"

	"github.com/iotaledger/hive.go/runtime/workerpool"
	"pgregory.net/rapid"
	"verifharness/internal/ctl"
	"verifharness/internal/stats"
)

// Waiters on ShutdownComplete overlapping a restart: ShutdownComplete used to be one exported sync.WaitGroup that every
// Start armed again, and goroutines blocked in ShutdownComplete.Wait() while another goroutine restarted the pool made
// the runtime panic ("sync: WaitGroup is reused before previous Wait has returned" / "WaitGroup misuse: Add called
// concurrently with Wait") - the former known finding KF-C16-1, repaired in /repo by a restart-safe wait group. The
// generated programs of this package never overlap a waiter with a restart; this test does, and every panic is a
// violation.
func isWaitGroupReusePanic(v any) bool {
	s := fmt.Sprint(v)

	return strings.Contains(s, "WaitGroup is reused before previous Wait has returned") || strings.Contains(s, "WaitGroup misuse: Add called concurrently with Wait")
}

// TestWaiterRacingRestart: Shutdown, then k waiters on ShutdownComplete and a restarting goroutine released together.
// All waiters and Start return, nobody panics, the tasks of the new run all run, the closing Shutdown +
// ShutdownComplete.Wait returns.
func TestWaiterRacingRestart(t *testing.T) {
	const check = "waiter_racing_restart"
	stats.Rule(check, "rapid draws 1..4 workers, cancel-on-shutdown on/off, 1..16 waiters, 0..6 tasks of the first run and 1..6 of the second; 30 trials (thorough 300) per case on fresh pools: Start, tasks, Shutdown, then the waiters (ShutdownComplete.Wait, each with recover) and one Start (with recover) are released together by a spin barrier; afterwards tasks are submitted to the restarted pool, WaitIsZero, Shutdown, ShutdownComplete.Wait - all under the stall-tolerant 20 s watchdog. Oracle: no panic (a sync.WaitGroup re-use panic was the former known finding KF-C16-1); Start returns; every waiter returns at the latest after the closing shutdown; the tasks accepted by the restarted pool all ran exactly once; counter 0 at the end. Distinct by configuration; non-trivial = >= 4 waiters")
	trials := stats.Scale(30, 300)
	rapid.Check(t, func(rt *rapid.T) {
		workers := rapid.IntRange(1, 4).Draw(rt, "workers")
		cancel := rapid.Bool().Draw(rt, "cancelOnShutdown")
		waiters := rapid.IntRange(1, 16).Draw(rt, "waiters")
		first := rapid.IntRange(0, 6).Draw(rt, "firstRunTasks")
		second := rapid.IntRange(1, 6).Draw(rt, "secondRunTasks")
		desc := fmt.Sprintf("workers=%d cancelOnShutdown=%v waiters=%d tasks=%d/%d", workers, cancel, waiters, first, second)
		fail := func(format string, a ...any) {
			msg := fmt.Sprintf(format, a...)
			stats.Violation(check, map[string]any{"config": desc, "problem": msg})
			rt.Fatalf("%s: %s", desc, msg)
		}
		for trial := 0; trial < trials; trial++ {
			wp := workerpool.New("p", workerpool.WithWorkerCount(workers), workerpool.WithCancelPendingTasksOnShutdown(cancel)).Start()
			var ran1 atomic.Int32
			for i := 0; i < first; i++ {
				wp.Submit(func() { ran1.Add(1) })
			}
			wp.Shutdown()

			var ready atomic.Int32
			var mu sync.Mutex
			var known, other []string
			guard := func(who string, f func()) {
				defer func() {
					if v := recover(); v != nil {
						mu.Lock()
						if isWaitGroupReusePanic(v) {
							known = append(known, who+": "+fmt.Sprint(v))
						} else {
							other = append(other, who+": "+fmt.Sprint(v))
						}
						mu.Unlock()
					}
				}()
				ready.Add(1)
				for int(ready.Load()) < waiters+1 {
				}
				f()
			}
			// calls issued after the barrier (they can be hit by the same re-use: a stale wake-up token of the first run
			// wakes a waiter of the second run early)
			guardLate := func(who string, f func()) func() {
				return func() {
					defer func() {
						if v := recover(); v != nil {
							mu.Lock()
							if isWaitGroupReusePanic(v) {
								known = append(known, who+": "+fmt.Sprint(v))
							} else {
								other = append(other, who+": "+fmt.Sprint(v))
							}
							mu.Unlock()
						}
					}()
					f()
				}
			}
			var wgWaiters sync.WaitGroup
			for k := 0; k < waiters; k++ {
				wgWaiters.Add(1)
				go func() {
					defer wgWaiters.Done()
					guard("waiter", wp.ShutdownComplete.Wait)
				}()
			}
			startDone := make(chan struct{})
			go func() {
				defer close(startDone)
				guard("Start", func() { wp.Start() })
			}()
			if !waitHang(startDone) {
				fail("trial %d: Start (restart racing with waiters) did not return\n%s", trial, ctl.Dump())
			}
			mu.Lock()
			k, o := len(known), len(other)
			mu.Unlock()
			if o > 0 {
				fail("trial %d: unexpected panic: %v", trial, other)
			}
			if k > 0 {
				fail("trial %d: sync.WaitGroup re-use panic while waiters on ShutdownComplete overlap a restart: %v", trial, known)
			}
			var ran2 atomic.Int32
			for i := 0; i < second; i++ {
				wp.Submit(func() { ran2.Add(1) })
			}
			if !withinHang(wp.PendingTasksCounter.WaitIsZero) {
				fail("trial %d: the pending counter of the restarted pool did not return to zero\n%s", trial, ctl.Dump())
			}
			if got := int(ran2.Load()); got != second {
				fail("trial %d: %d of %d tasks accepted by the restarted pool ran", trial, got, second)
			}
			if !withinHang(guardLate("closing Shutdown", func() { wp.Shutdown() })) || !withinHang(guardLate("closing ShutdownComplete.Wait", wp.ShutdownComplete.Wait)) {
				fail("trial %d: the closing Shutdown / ShutdownComplete.Wait did not return\n%s", trial, ctl.Dump())
			}
			if !withinHang(wgWaiters.Wait) {
				fail("trial %d: a waiter on ShutdownComplete did not return although the pool was shut down (twice)\n%s", trial, ctl.Dump())
			}
			mu.Lock()
			k, o = len(known), len(other)
			mu.Unlock()
			if o > 0 {
				fail("trial %d: unexpected panic: %v", trial, other)
			}
			if k > 0 {
				fail("trial %d: sync.WaitGroup re-use panic in the closing phase: %v", trial, known)
			}
			if c := wp.PendingTasksCounter.Get(); c != 0 {
				fail("trial %d: pending counter is %d after the closing shutdown", trial, c)
			}
			if !cancel && int(ran1.Load()) != first {
				fail("trial %d: %d of %d tasks of the first run ran (no cancel-on-shutdown)", trial, ran1.Load(), first)
			}
		}
		stats.NoteAdd(check, "trials", int64(trials))
		stats.Case(check, waiters >= 4, desc, func() any { return desc })
	})
}

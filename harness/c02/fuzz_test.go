package c02

import (
	"encoding/json"
	"testing"

	"verifharness/internal/serixgen"
)

// Native coverage-guided targets (thorough tier only; cannot be pinned to a seed; a saved crasher is the
// reproducible unit). The first input byte selects one of 48 pre-generated shapes; the oracle is the same as in
// TestDecodeTotalBounded / TestJSONDecodeTotal.

var fuzzTable []serixgen.TableEntry

func table() []serixgen.TableEntry {
	if fuzzTable == nil {
		fuzzTable = serixgen.Table(48, serixgen.QuickConfig)
	}
	return fuzzTable
}

func FuzzDecode(f *testing.F) {
	tb := table()
	for i, e := range tb {
		f.Add(append([]byte{byte(i)}, e.Enc.B...))
		for _, fr := range e.Enc.F {
			if fr.Kind == "len" || fr.Kind == "count" || fr.Kind == "optlen" {
				b := append([]byte{byte(i)}, e.Enc.B...)
				for k := 0; k < fr.W; k++ {
					b[1+fr.Off+k] = 0xff
				}
				if fr.W == 4 {
					b[1+fr.Off+3] = 0x3f
				}
				f.Add(b)
				break
			}
		}
	}
	f.Fuzz(func(t *testing.T, data []byte) {
		if len(data) == 0 {
			return
		}
		e := tb[int(data[0])%len(tb)]
		input := data[1:]
		for _, validate := range []bool{false, true} {
			out := e.Case.Decode(input, validate) // warm-up, see TestDecodeTotalBounded
			alloc := measure(func() { out = e.Case.Decode(input, validate) })
			if out.Panic != nil {
				t.Fatalf("Decode panicked: %v\nschema %s\ninput %x validate=%v", out.Panic, e.Case.Root, input, validate)
			}
			if out.N < 0 || out.N > len(input) {
				t.Fatalf("Decode reports %d consumed of %d\nschema %s\ninput %x", out.N, len(input), e.Case.Root, input)
			}
			if alloc > allocCap(len(input)) {
				t.Fatalf("Decode allocated %d bytes for %d input bytes\nschema %s\ninput %x", alloc, len(input), e.Case.Root, input)
			}
		}
	})
}

func FuzzJSONDecode(f *testing.F) {
	tb := table()
	for i, e := range tb {
		if je := e.Case.JSONEncode(e.Value, false); je.Panic == nil && je.Err == nil {
			f.Add(byte(i), je.Bytes)
		}
	}
	f.Add(byte(0), []byte(`{"type":null}`))
	f.Fuzz(func(t *testing.T, idx byte, doc []byte) {
		if !json.Valid(doc) {
			return
		}
		e := tb[int(idx)%len(tb)]
		for _, validate := range []bool{false, true} {
			if out := e.Case.JSONDecode(doc, validate); out.Panic != nil {
				t.Fatalf("JSONDecode panicked: %v\nschema %s\ndocument %s", out.Panic, e.Case.Root, doc)
			}
		}
	})
}

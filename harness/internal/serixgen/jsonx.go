package serixgen

import (
	"reflect"
	"time"
	"unicode/utf8"
)

// JSONExpressible tells whether the JSON/map form can express every value of the shape. The exclusions are the
// combinations the map encoder cannot represent by construction (each is counted by the checks):
//   - map keys whose map encoding is not a JSON string (bool and the 8/16/32-bit integers become JSON numbers);
//   - byte arrays with an object code used by value (encoded as {type,data} object, which only the pointer form reads back).
func JSONExpressible(n *Node) (bool, string) {
	switch n.Kind {
	case KMap:
		switch n.Key.Kind {
		case KString, KInt64, KUint64:
		case KByteArr:
			if n.Key.Code != nil {
				return false, "coded_byte_array_by_value"
			}
		default:
			return false, "map_key_not_a_json_string"
		}
		return JSONExpressible(n.Elem)
	case KPtr:
		if n.Elem.Kind == KByteArr {
			return true, "" // {type, key: hex} object, read back through the pointer
		}
		return JSONExpressible(n.Elem)
	case KSlice, KArray:
		return JSONExpressible(n.Elem)
	case KStruct:
		for _, f := range n.Fields {
			fn := f.N
			if ok, why := JSONExpressible(fn); !ok {
				return false, why
			}
		}
	case KIface:
		for _, im := range n.Impls {
			if ok, why := JSONExpressible(im); !ok {
				return false, why
			}
		}
	}

	return true, ""
}

// HasInvalidUTF8 reports whether any string inside v is not valid UTF-8 (JSON cannot carry such strings).
func HasInvalidUTF8(n *Node, v reflect.Value) bool {
	switch n.Kind {
	case KString:
		return !utf8.ValidString(v.String())
	case KSlice, KArray:
		for i := 0; i < v.Len(); i++ {
			if HasInvalidUTF8(n.Elem, v.Index(i)) {
				return true
			}
		}
	case KMap:
		it := v.MapRange()
		for it.Next() {
			if HasInvalidUTF8(n.Key, it.Key()) || HasInvalidUTF8(n.Elem, it.Value()) {
				return true
			}
		}
	case KStruct:
		for _, f := range n.Fields {
			fv := v.Field(f.Index)
			fn := f.N
			if (fn.Kind == KPtr || fn.Kind == KIface) && fv.IsNil() {
				continue
			}
			if HasInvalidUTF8(fn, fv) {
				return true
			}
		}
	case KPtr:
		if !v.IsNil() {
			return HasInvalidUTF8(n.Elem, v.Elem())
		}
	case KIface:
		if !v.IsNil() {
			dyn := v.Elem()
			for _, im := range n.Impls {
				if im.T == dyn.Type() {
					return HasInvalidUTF8(im, dyn)
				}
			}
		}
	}

	return false
}

// HasSaturatedTime reports whether any time stamp inside v sits at the saturation value MaxInt64 ns (or at 0 via a
// negative time): such a value may stem from a wire stamp beyond the int64 range, which the format maps non-injectively.
func HasSaturatedTime(n *Node, v reflect.Value) bool {
	switch n.Kind {
	case KTime:
		tm, _ := v.Interface().(time.Time)
		return TimeNanos(tm) == MaxNanos
	case KSlice, KArray:
		for i := 0; i < v.Len(); i++ {
			if HasSaturatedTime(n.Elem, v.Index(i)) {
				return true
			}
		}
	case KMap:
		it := v.MapRange()
		for it.Next() {
			if HasSaturatedTime(n.Key, it.Key()) || HasSaturatedTime(n.Elem, it.Value()) {
				return true
			}
		}
	case KStruct:
		for _, f := range n.Fields {
			fv := v.Field(f.Index)
			if (f.N.Kind == KPtr || f.N.Kind == KIface) && fv.IsNil() {
				continue
			}
			if HasSaturatedTime(f.N, fv) {
				return true
			}
		}
	case KPtr:
		if !v.IsNil() {
			return HasSaturatedTime(n.Elem, v.Elem())
		}
	case KIface:
		if !v.IsNil() {
			dyn := v.Elem()
			for _, im := range n.Impls {
				if im.T == dyn.Type() {
					return HasSaturatedTime(im, dyn)
				}
			}
		}
	}

	return false
}

// Package ctl holds the small schedule-control helpers shared by the concurrent checks:
// a watchdog for "this call must return", a logical clock for stamping histories, and a
// goroutine dump for hang reports.
package ctl

import (
	"runtime"
	"sync/atomic"
	"time"
)

// HangTimeout is the bound used wherever a scenario is deadlock-free by construction and an
// operation that normally takes microseconds must return. It is four orders of magnitude
// above normal latency; expiry is an oracle failure (hang), reported with a goroutine dump.
const HangTimeout = 20 * time.Second

// Within runs f in a new goroutine and reports whether it returned within d.
// If it did not, the goroutine is leaked (the case ends there).
func Within(d time.Duration, f func()) bool {
	done := make(chan struct{})
	go func() {
		defer close(done)
		f()
	}()
	select {
	case <-done:
		return true
	case <-time.After(d):
		return false
	}
}

// WaitChan waits for ch to be closed (or receive) within d.
func WaitChan[T any](ch <-chan T, d time.Duration) bool {
	select {
	case <-ch:
		return true
	case <-time.After(d):
		return false
	}
}

// Dump returns the stacks of all goroutines (truncated to 64 KiB).
func Dump() string {
	buf := make([]byte, 1<<16)
	n := runtime.Stack(buf, true)
	return string(buf[:n])
}

// Clock is a logical clock: every Tick returns a unique, totally ordered stamp. Stamps taken by
// one goroutine before it starts an operation and after the operation returned bracket the
// operation's real-time interval (atomic increments are sequentially consistent).
type Clock struct{ n atomic.Int64 }

// Tick returns the next stamp.
func (c *Clock) Tick() int64 { return c.n.Add(1) }

// Now returns the current stamp without advancing.
func (c *Clock) Now() int64 { return c.n.Load() }

// Settle gives other goroutines a chance to run: a few Gosched calls and a short sleep. It is only
// ever used to make an interesting interleaving more likely, never as a correctness signal.
func Settle(d time.Duration) {
	for i := 0; i < 4; i++ {
		runtime.Gosched()
	}
	if d > 0 {
		time.Sleep(d)
	}
}

package c13

import (
	"fmt"
	"testing"

	"github.com/iotaledger/hive.go/ds"
	"github.com/iotaledger/hive.go/ds/reactive"
	"verifharness/internal/stats"
)

// TestRegressionSetReplaceReportsDifference replays the shrunk cases of defect D13 (reactive part) without rapid:
// reactive.Set.Replace reported every new element as added and every previous element as deleted, so a
// subscriber folding the reports (additions, then deletions - the order of ds.Set.Apply that DerivedSet and
// SortedSet use) lost every element the set retained.
func TestRegressionSetReplaceReportsDifference(t *testing.T) {
	const check = "regression_set_replace"
	stats.Rule(check, "fixed cases: (add 3; subscribe; Replace{3}) and ({1,2}; subscribe; Replace{2,3}); the reports must fold to the contents")

	// shrunk case found by set_sequential
	p := setSeqProg{Actions: []setSeqAction{
		{Op: "add", Set: setOp{Op: "add", A: []int{3}}},
		{Op: "sub"},
		{Op: "replace", Set: setOp{Op: "replace", A: []int{3}}},
	}}
	v := runSetSeq(p)
	stats.Case(check, true, "add3-sub-replace3", func() any { return p.strings() })
	if v.Msg != "" {
		stats.Violation(check, map[string]any{"program": p, "readable": p.strings(), "problem": v.Msg})
		t.Fatalf("%s", v.Msg)
	}

	// the same directly against the API
	s := reactive.NewSet[int](1, 2)
	fold := ds.NewSet[int]()
	var reports []string
	unsubscribe := s.OnUpdate(func(m ds.SetMutations[int]) {
		reports = append(reports, fmt.Sprintf("+%v-%v", sliceOf(m.AddedElements()), sliceOf(m.DeletedElements())))
		fold.Apply(m)
	})
	defer unsubscribe()
	s.Replace(ds.NewSet(2, 3))
	stats.Case(check, true, "12-replace23", func() any { return []string{"init [1 2]", "sub", "replace [2 3]"} })
	if got, want := fmt.Sprint(sliceOf(fold)), fmt.Sprint(sliceOf(s)); got != want || want != "[2 3]" {
		stats.Violation(check, map[string]any{"program": []string{"init [1 2]", "sub", "replace [2 3]"}, "reports": reports, "fold": got, "contents": want})
		t.Fatalf("Replace{2,3} on {1,2}: reports %v fold to %s, set holds %s", reports, got, want)
	}
	if len(reports) != 2 || reports[1] != "+[3]-[1]" {
		stats.Violation(check, map[string]any{"program": []string{"init [1 2]", "sub", "replace [2 3]"}, "reports": reports})
		t.Fatalf("Replace{2,3} on {1,2} must be reported as +[3]-[1], reports: %v", reports)
	}
}

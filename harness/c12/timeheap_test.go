package c12

import (
	"math"
	"testing"
	"time"

	"github.com/iotaledger/hive.go/ds/timeheap"
	"pgregory.net/rapid"
	"verifharness/internal/stats"
)

// Only two windows are ever used, chosen so that the wall clock cannot change a verdict:
//   - 1 hour: nothing added during a history (milliseconds to seconds, even on a loaded machine) can fall
//     out of it, so the windowed sum is the sum of everything added and not cleared;
//   - 1 millisecond, asked only after time.Sleep(3 ms) (Sleep never returns early on the monotonic clock the
//     heap's time.Since uses): everything added before the sleep is older than the window, the sum is 0.
//
// Machine load can only make entries older, which both windows tolerate.
const (
	thLongWindow  = time.Hour
	thShortWindow = time.Millisecond
	thSleep       = 3 * time.Millisecond
	thMaxExpiries = 2
)

// thSum converts AveragePerSecond over the long window back to the windowed sum. The average is a float32 of
// sum/3600; for sums below 10^6 the rounding error of the product is below 0.1, so rounding is exact.
func thSum(avgPerSecond float32) int64 {
	return int64(math.Round(float64(avgPerSecond) * thLongWindow.Seconds()))
}

// TestTimeHeap: the heap reports the windowed sum of what was added and neither cleared nor expired.
func TestTimeHeap(t *testing.T) {
	const check = "timeheap"
	stats.Rule(check, "rapid state machine over timeheap.TimeHeap: Add(count 0..1000), Clear, Expire (= Sleep 3 ms then AveragePerSecond(1 ms) must be 0; at most 2 per history); after every step AveragePerSecond(1 h)*3600 must equal the sum of counts added since the last Clear/Expire; non-trivial = a Clear or Expire happened while the sum was positive and an Add followed; distinct by operation list")
	rapid.Check(t, func(rt *rapid.T) {
		h := newHist(check, "")
		defer h.guard(rt)
		th := timeheap.NewTimeHeap()
		var sum int64
		expiries := 0
		dropped, addAfterDrop := false, false

		acts := weighted{}
		acts.add("Add", 6, func(rt *rapid.T) {
			c := rapid.Uint64Range(0, 1000).Draw(rt, "count")
			th.Add(c)
			h.op("Add(%d)", c)
			sum += int64(c)
			if dropped {
				addAfterDrop = true
			}
		})
		acts.add("Clear", 2, func(rt *rapid.T) {
			th.Clear()
			h.op("Clear()")
			if sum > 0 {
				dropped = true
				h.label("clear_with_positive_sum")
			}
			sum = 0
		})
		acts.add("Expire", 1, func(rt *rapid.T) {
			if expiries >= thMaxExpiries {
				rt.Skip("expiry budget used")
			}
			expiries++
			time.Sleep(thSleep)
			avg := th.AveragePerSecond(thShortWindow)
			h.op("Sleep(3ms); AveragePerSecond(1ms)=%v", avg)
			if sum > 0 {
				dropped = true
				h.label("expire_with_positive_sum")
			}
			sum = 0
			if avg != 0 {
				h.fail(rt, "AveragePerSecond(1ms) = %v after sleeping 3 ms, want 0 (everything is older than the window)", avg)
			}
		})
		acts[""] = func(rt *rapid.T) {
			avg := th.AveragePerSecond(thLongWindow)
			if got := thSum(avg); got != sum {
				h.op("AveragePerSecond(1h)=%v", avg)
				h.fail(rt, "AveragePerSecond(1h) = %v i.e. a windowed sum of %d, want %d (sum of counts added and not cleared/expired)", avg, got, sum)
			}
		}
		rt.Repeat(acts)
		h.done(dropped && addAfterDrop)
	})
}

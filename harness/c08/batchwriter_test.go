package c08

import (
	"strings"
	"testing"

	"github.com/iotaledger/hive.go/kvstore"
	"pgregory.net/rapid"
	"verifharness/internal/stats"
)

func init() { kvstore.SetVerifEnqueueHook(enqueueHook) }

func genConfig(t *rapid.T, hooked bool) config {
	c := config{
		QueueSize: rapid.SampledFrom([]int{0, 0, 1, 1, 2, 3, 4, 8}).Draw(t, "queueSize"),
		BatchSize: rapid.IntRange(1, 6).Draw(t, "batchSize"),
	}
	switch cls := rapid.IntRange(0, 19).Draw(t, "timeoutCls"); {
	case cls < 14 || hooked:
		c.TimeoutUS = rapid.IntRange(200, 2000).Draw(t, "timeoutUS")
	case cls < 19:
		c.TimeoutUS = rapid.IntRange(2000, 5000).Draw(t, "timeoutUS")
	default:
		// a long time-out, or none at all: zero and negative time-outs are legal option values (the batch is written at once)
		c.TimeoutUS = rapid.SampledFrom([]int{20000, 20000, 0, -500}).Draw(t, "timeoutEdge")
	}

	return c
}

func genProgram(t *rapid.T, hooked bool) program {
	p := program{Cfg: genConfig(t, hooked), NObj: rapid.IntRange(1, 8).Draw(t, "objects")}
	np := rapid.IntRange(1, 4).Draw(t, "producers")
	kinds := []string{"enq", "enq", "enq", "enq", "enq", "gosched", "sleep", "flush"}
	for i := 0; i < np; i++ {
		n := rapid.IntRange(1, 8).Draw(t, "nSteps")
		steps := make([]pStep, 0, n+1)
		for j := 0; j < n; j++ {
			s := pStep{Kind: rapid.SampledFrom(kinds).Draw(t, "kind")}
			switch s.Kind {
			case "enq":
				s.Obj = rapid.IntRange(0, p.NObj-1).Draw(t, "obj")
			case "sleep":
				s.SleepUS = rapid.IntRange(1, 300).Draw(t, "sleepUS")
			}
			steps = append(steps, s)
		}
		if i == 0 {
			// at least one Enqueue in every program
			steps = append([]pStep{{Kind: "enq", Obj: rapid.IntRange(0, p.NObj-1).Draw(t, "obj0")}}, steps...)
		}
		p.Producers = append(p.Producers, steps)
	}
	if p.NObj >= 2 && rapid.IntRange(0, 2).Draw(t, "chains") == 0 {
		for i, n := 0, rapid.IntRange(1, 2).Draw(t, "nChains"); i < n; i++ {
			from := rapid.IntRange(0, p.NObj-1).Draw(t, "chainFrom")
			to := rapid.IntRange(0, p.NObj-2).Draw(t, "chainTo")
			if to >= from {
				to++
			}
			p.Chains = append(p.Chains, chain{From: from, To: to, At: rapid.SampledFrom([]string{"write", "done"}).Draw(t, "chainAt")})
		}
		if p.Cfg.QueueSize < p.NObj {
			p.Cfg.QueueSize = p.NObj // see chain: the writer goroutine must never block on its own queue
		}
	}
	p.EarlyStop = rapid.IntRange(0, 5).Draw(t, "earlyStop") == 0
	p.SecondStop = rapid.SampledFrom([]string{"none", "none", "concurrent", "after"}).Draw(t, "secondStop")
	total := p.totalEnqueues()
	if hooked {
		var candidates []int
		for i, pr := range p.Producers {
			for _, s := range pr {
				if s.Kind == "enq" {
					candidates = append(candidates, i)

					break
				}
			}
		}
		h := &hookPlan{Producer: rapid.SampledFrom(candidates).Draw(t, "hookProducer")}
		n := 0
		for _, s := range p.Producers[h.Producer] {
			if s.Kind == "enq" {
				n++
			}
		}
		h.EnqIndex = rapid.IntRange(0, n-1).Draw(t, "hookEnqueue")
		h.Site = rapid.SampledFrom([]int{kvstore.VerifEnqueueAfterRunningCheck, kvstore.VerifEnqueueAfterRunningCheck, kvstore.VerifEnqueueBeforeQueueSend}).Draw(t, "hookSite")
		p.Hook = h
		p.StopAfter = total + 1
	} else {
		p.InlineStop = rapid.IntRange(0, 2).Draw(t, "inlineStop") == 0
		switch rapid.IntRange(0, 3).Draw(t, "stopCls") {
		case 0:
			p.StopAfter = 1
		case 1:
			p.StopAfter = total + 1
		default:
			p.StopAfter = rapid.IntRange(1, total).Draw(t, "stopAfter")
		}
	}

	return p
}

func runCase(t *rapid.T, check string, p program) {
	res := execute(p)
	key := strings.Join(p.strings(), "|")
	stats.Case(check, res.nontrivial, key, func() any {
		return map[string]any{"program": p.strings(), "history": res.history}
	}, res.labels...)
	if res.violation != "" {
		stats.Violation(check, map[string]any{"program": p.strings(), "config": p.Cfg, "hook": p.Hook, "problem": res.violation, "history": res.history})
		t.Fatalf("%s\nprogram:\n  %s\nhistory:\n  %s", res.violation, strings.Join(p.strings(), "\n  "), strings.Join(res.history, "\n  "))
	}
}

const ruleFree = "rapid draws queue size {0,1,2,3,4,8}, batch size 1..6, batch time-out 0.2..20 ms (rarely 0 or negative), 1..8 objects, 1..4 producers x 1..9 steps (bump object version + Enqueue, Gosched, sleep, Flush), in a third of the programs 1..2 objects whose first BatchWrite / BatchWriteDone call-back enqueues another object from the writer goroutine (queue then holds every object); even versions are written as Delete+Set, an optional Stop before anything, the instant of the main StopBatchWriter (after the k-th Enqueue returned, k=1 often, or after all producers), an optional second Stop (concurrent / afterwards). Goroutines run free; every Enqueue/Stop/BatchWrite/Commit/BatchWriteDone is stamped with a logical clock and the history invariants of C08 are judged. Non-trivial = Stop was invoked while at least one accepted object had not been written yet (a BatchWrite happened after Stop's invocation)"

func TestBatchedWriterPrograms(t *testing.T) {
	const check = "batchedwriter_programs"
	stats.Rule(check, ruleFree)
	rapid.Check(t, func(rt *rapid.T) { runCase(rt, check, genProgram(rt, false)) })
}

func TestBatchedWriterHookedStop(t *testing.T) {
	const check = "batchedwriter_hooked_stop"
	stats.Rule(check, "same programs, but one drawn Enqueue call is parked at a yield point inside Enqueue (site 0: right after the running check; site 1: after scheduledCount was incremented, before the queue send) via the verif build-tag hook; StopBatchWriter is invoked while it is parked and gets a bounded head start (3 x batch time-out + 15 ms, or until it returns), then the producer is released. Every call must return, the parked object must end up written completely or untouched. Non-trivial = a producer was actually parked at the site when Stop was invoked")
	rapid.Check(t, func(rt *rapid.T) { runCase(rt, check, genProgram(rt, true)) })
}

package c08

import (
	"encoding/binary"
	"fmt"
	"sync"
	"sync/atomic"
	"testing"
	"time"

	"github.com/iotaledger/hive.go/kvstore"
	"github.com/iotaledger/hive.go/kvstore/mapdb"
	"pgregory.net/rapid"
	"verifharness/internal/ctl"
	"verifharness/internal/stats"
)

// plainObject is a minimal BatchWriteObject (atomic test-and-set scheduled flag, one key per object).
type plainObject struct {
	id        int
	scheduled atomic.Bool
	writes    atomic.Int32
	dones     atomic.Int32
}

func (o *plainObject) BatchWriteScheduled() bool { return !o.scheduled.CompareAndSwap(false, true) }
func (o *plainObject) ResetBatchWriteScheduled() { o.scheduled.Store(false) }
func (o *plainObject) BatchWriteDone()           { o.dones.Add(1) }
func (o *plainObject) BatchWrite(m kvstore.BatchedMutations) {
	var b [8]byte
	binary.BigEndian.PutUint64(b[:], uint64(o.id)+1)
	if err := m.Set(objKey(o.id), b[:]); err != nil {
		panic(err)
	}
	o.writes.Add(1)
}

// TestConcurrentFirstEnqueues: the writer is started lazily by the first Enqueue. Several producers issue the very first
// Enqueue calls of a fresh writer at the same instant; no Stop has been invoked, so every one of these objects was
// enqueued "before StopBatchWriter was invoked" and has to be written.
func TestConcurrentFirstEnqueues(t *testing.T) {
	const check = "concurrent_first_enqueues"
	stats.Rule(check, "rapid draws 2..8 producers, queue size from {0,1,4,64}, batch size 1..8, batch time-out 0.2..2 ms; 200 rounds (thorough 1500) per case: fresh BatchedWriter (never started), every producer spins on a barrier and then enqueues its own object as the writer's first calls; after all Enqueue calls returned StopBatchWriter is invoked (20 s watchdog). Oracle: every object got exactly one BatchWrite and one BatchWriteDone and is in the store when Stop returns; nothing is left marked as scheduled. Distinct by configuration; non-trivial = >= 4 producers")
	rounds := stats.Scale(200, 1500)
	rapid.Check(t, func(rt *rapid.T) {
		k := rapid.IntRange(2, 8).Draw(rt, "producers")
		queue := rapid.SampledFrom([]int{0, 1, 4, 64}).Draw(rt, "queue")
		batch := rapid.IntRange(1, 8).Draw(rt, "batch")
		timeoutUS := rapid.IntRange(200, 2000).Draw(rt, "timeoutUS")
		desc := fmt.Sprintf("producers=%d queue=%d batch=%d timeout=%dus", k, queue, batch, timeoutUS)
		fail := func(format string, a ...any) {
			msg := fmt.Sprintf(format, a...)
			stats.Violation(check, map[string]any{"config": desc, "problem": msg})
			rt.Fatalf("%s: %s", desc, msg)
		}
		for round := 0; round < rounds; round++ {
			store := mapdb.NewMapDB()
			bw := kvstore.NewBatchedWriter(store, kvstore.WithQueueSize(queue), kvstore.WithBatchSize(batch),
				kvstore.WithBatchTimeout(time.Duration(timeoutUS)*time.Microsecond))
			objs := make([]*plainObject, k)
			var ready atomic.Int32
			var wg sync.WaitGroup
			for i := range objs {
				objs[i] = &plainObject{id: i}
				wg.Add(1)
				go func(o *plainObject) {
					defer wg.Done()
					ready.Add(1)
					for ready.Load() < int32(k) { // spin barrier: all producers leave it within nanoseconds
					}
					bw.Enqueue(o)
				}(objs[i])
			}
			if !ctl.WithinHang(wg.Wait) {
				fail("round %d: an Enqueue call did not return (no Stop invoked)\n%s", round, ctl.Dump())
			}
			if !ctl.WithinHang(bw.StopBatchWriter) {
				fail("round %d: StopBatchWriter did not return\n%s", round, ctl.Dump())
			}
			for _, o := range objs {
				has, _ := store.Has(objKey(o.id))
				if o.writes.Load() != 1 || o.dones.Load() != 1 || !has || o.scheduled.Load() {
					fail("round %d: object %d was enqueued before Stop was invoked (its Enqueue had returned), but: BatchWrite calls %d, BatchWriteDone calls %d, in the store %v, still marked scheduled %v",
						round, o.id, o.writes.Load(), o.dones.Load(), has, o.scheduled.Load())
				}
			}
		}
		stats.Case(check, k >= 4, desc, func() any { return desc })
	})
}

package c09

import "testing"

// TestRegressionNilEncodedEmptyValue replays the shrunk case of the defect found in ads.Map.Set: a value whose encoder
// returns a nil slice (the zero value of a byte-slice type) was written to the trie, the raw-key store and the size
// counter, but Has/Get/Delete treated the key as absent (the trie reports absent keys as nil values), a second Set
// of the same key counted it twice, and after Commit + reopen the key suddenly existed.
func TestRegressionNilEncodedEmptyValue(t *testing.T) {
	for _, c := range []*caseSpec{
		{Flavour: "map", Store: "mapdb", Keys: []string{"61", "62"}, Actions: []action{{Kind: "put", Key: 0, Val: 0}}},
		{Flavour: "map", Store: "mapdb", Keys: []string{"61", "62"}, Actions: []action{
			{Kind: "put", Key: 0, Val: 2}, {Kind: "overwrite", Key: 0, Val: 0}, {Kind: "put", Key: 0, Val: 0},
			{Kind: "commit_reopen"}, {Kind: "del_present", Key: 0}, {Kind: "commit_reopen"},
		}},
	} {
		if f := runCase(c, nil); f != nil {
			t.Fatalf("%s\ncase: %s", f, c.canon())
		}
	}
}

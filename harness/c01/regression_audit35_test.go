// Demonstration of an independent auditor (ninth round), kept as a regression test; see known_findings.json.
package c01

import (
	"context"
	"reflect"
	"testing"

	"github.com/iotaledger/hive.go/serializer/v2/serix"
)

// a linked list whose link lives in an embedded struct pointer (e.g. a shared "list element" base type)
type HuntLink struct {
	Next *HuntNode `serix:",optional"`
}

type HuntNode struct {
	ID        uint8 `serix:""`
	*HuntLink `serix:""`
}

func huntBuildList(n int) *HuntNode {
	var head *HuntNode
	for i := 0; i < n; i++ {
		head = &HuntNode{ID: uint8(i), HuntLink: &HuntLink{Next: head}}
	}

	return head
}

// Encode counts one nesting level per node, Decode (since 72be4ae) two: a list of 501..999 nodes is encoded without
// error into bytes that Decode refuses.
func TestRegressionAudit35_EmbeddedPtrDepthBinary(t *testing.T) {
	api := serix.NewAPI()
	for _, validation := range []bool{false, true} {
		var opts []serix.Option
		if validation {
			opts = append(opts, serix.WithValidation())
		}
		for _, n := range []int{100, 499, 510, 600, 900} {
			v := huntBuildList(n)
			b, err := api.Encode(context.Background(), v, opts...)
			if err != nil {
				t.Logf("n=%d encode refused: %.100v", n, err)

				continue
			}
			var out *HuntNode
			read, err := api.Decode(context.Background(), b, &out, opts...)
			if err != nil {
				l := len(err.Error())
				t.Errorf("validation=%v n=%d: Encode accepted the value (%d bytes) but Decode refuses its output: ...%s", validation, n, len(b), err.Error()[l-120:])

				continue
			}
			if read != len(b) {
				t.Errorf("n=%d read %d of %d", n, read, len(b))
			}
			if !reflect.DeepEqual(v, out) {
				t.Errorf("n=%d: not equal", n)
			}
		}
	}
}

func TestRegressionAudit35_EmbeddedPtrDepthJSON(t *testing.T) {
	api := serix.NewAPI()
	for _, n := range []int{100, 499, 510, 600, 900} {
		v := huntBuildList(n)
		b, err := api.JSONEncode(context.Background(), v)
		if err != nil {
			t.Logf("n=%d encode refused: %.100v", n, err)

			continue
		}
		var out *HuntNode
		err = api.JSONDecode(context.Background(), b, &out)
		if err != nil {
			l := len(err.Error())
			t.Errorf("n=%d: JSONEncode accepted the value (%d bytes) but JSONDecode refuses its output: ...%s", n, len(b), err.Error()[l-120:])

			continue
		}
		if !reflect.DeepEqual(v, out) {
			t.Errorf("n=%d: not equal", n)
		}
	}
}

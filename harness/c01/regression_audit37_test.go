// Demonstration of an independent auditor (tenth round), kept as a regression test; see known_findings.json.
package c01

import (
	"context"
	"testing"

	"github.com/iancoleman/orderedmap"

	"github.com/iotaledger/hive.go/ierrors"
	"github.com/iotaledger/hive.go/serializer/v2/serix"
)

// a struct with a custom JSON codec (SerializableJSON / DeserializableJSON): its map form is whatever EncodeJSON returns
type huntMeta struct {
	Foo uint8
}

func (m huntMeta) EncodeJSON() (any, error) {
	o := orderedmap.New()
	o.Set("foo", m.Foo)

	return o, nil
}

func (m *huntMeta) DecodeJSON(v any) error {
	mm, ok := v.(map[string]any)
	if !ok {
		return ierrors.New("not a map")
	}
	f, ok := mm["foo"].(float64)
	if !ok {
		return ierrors.New("no entry foo")
	}
	m.Foo = uint8(f)

	return nil
}

type huntOuterRequired struct {
	X    uint8     `serix:"x"`
	Meta *huntMeta `serix:",inlined"`
}

type huntOuterOptional struct {
	X    uint8     `serix:"x"`
	Meta *huntMeta `serix:",inlined,optional"`
}

type huntOuterOmitEmpty struct {
	X    uint8    `serix:"x"`
	Meta huntMeta `serix:",inlined,omitempty"`
}

// TestRegressionAudit37_InlinedOptionalCustomJSONMemberIsLost: JSONEncode splices the map form of an inlined member that has a custom
// JSON codec into the object of the struct (and JSONDecode reads it back when the member is not optional). As soon as
// the member is tagged optional / omitempty, JSONDecode decides with hasKeyOfMember - which only knows the serix fields
// of the member's type (none) - that the member was left out, and silently drops a member that is present.
func TestRegressionAudit37_InlinedOptionalCustomJSONMemberIsLost(t *testing.T) {
	ctx := context.Background()
	api := serix.NewAPI()

	// control: the same member without optional round-trips
	{
		j, err := api.JSONEncode(ctx, huntOuterRequired{X: 1, Meta: &huntMeta{Foo: 9}})
		if err != nil {
			t.Fatalf("control encode: %v", err)
		}
		var out huntOuterRequired
		if err = api.JSONDecode(ctx, j, &out); err != nil || out.Meta == nil || out.Meta.Foo != 9 {
			t.Fatalf("control: %s -> %+v (%v)", j, out, err)
		}
	}

	j, err := api.JSONEncode(ctx, huntOuterOptional{X: 1, Meta: &huntMeta{Foo: 9}})
	if err != nil {
		t.Fatalf("JSONEncode refused the value: %v", err)
	}
	var out huntOuterOptional
	if err = api.JSONDecode(ctx, j, &out); err != nil {
		t.Fatalf("JSONDecode refused the encoder's own output %s: %v", j, err)
	}
	if out.Meta == nil || out.Meta.Foo != 9 {
		t.Errorf("optional: JSONEncode wrote %s, JSONDecode returned %+v (Meta=%v): the inlined member is silently lost", j, out, out.Meta)
	}

	j, err = api.JSONEncode(ctx, huntOuterOmitEmpty{X: 1, Meta: huntMeta{Foo: 9}})
	if err != nil {
		t.Fatalf("JSONEncode refused the value: %v", err)
	}
	var out2 huntOuterOmitEmpty
	if err = api.JSONDecode(ctx, j, &out2); err != nil {
		t.Fatalf("JSONDecode refused the encoder's own output %s: %v", j, err)
	}
	if out2.Meta.Foo != 9 {
		t.Errorf("omitempty: JSONEncode wrote %s, JSONDecode returned %+v: the inlined member is silently lost", j, out2)
	}
}

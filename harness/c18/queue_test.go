package c18

import (
	"fmt"
	"strings"
	"sync"
	"testing"
	"time"

	"github.com/iotaledger/hive.go/runtime/timed"
	"pgregory.net/rapid"
	"verifharness/internal/ctl"
	"verifharness/internal/stats"
)

const checkQueue = "queue_scripts"

// genQueueScript draws a controller script for a timed.Queue[int] with a single consumer goroutine.
// With a size bound the script has a restricted shape (all Adds first, then everything else) so that the number of
// overflowing Adds is known exactly without asking the queue.
func genQueueScript(t *rapid.T) (maxSize int, ops []op) {
	maxSize = rapid.SampledFrom([]int{0, 0, 0, 0, 1, 2, 3}).Draw(t, "maxSize")
	n := rapid.IntRange(3, 14).Draw(t, "n")
	shutdownDone := false
	nAdds := 0
	if maxSize > 0 {
		k := rapid.IntRange(1, 6).Draw(t, "adds")
		for i := 0; i < k; i++ {
			ops = append(ops, op{Kind: "add", D: rapid.SampledFrom(delaysMs).Draw(t, "d")})
		}
		nAdds = k
	}
	for len(ops) < n {
		var kinds []string
		if maxSize == 0 {
			kinds = append(kinds, "add", "add", "add")
		}
		kinds = append(kinds, "poll", "poll", "sleep")
		if nAdds > 0 {
			kinds = append(kinds, "cancel", "cancel")
		}
		if !shutdownDone && 2*len(ops) >= n {
			kinds = append(kinds, "shutdown", "shutdown")
		}
		switch k := rapid.SampledFrom(kinds).Draw(t, "kind"); k {
		case "add":
			ops = append(ops, op{Kind: "add", D: rapid.SampledFrom(delaysMs).Draw(t, "d")})
			nAdds++
		case "poll":
			ops = append(ops, op{Kind: "poll", Wait: rapid.Bool().Draw(t, "wait")})
		case "sleep":
			ops = append(ops, op{Kind: "sleep", D: rapid.SampledFrom(sleepsMs).Draw(t, "ms")})
		case "cancel":
			ops = append(ops, op{Kind: "cancel", K: rapid.IntRange(0, nAdds-1).Draw(t, "k")})
		case "shutdown":
			ops = append(ops, op{Kind: "shutdown", Flags: drawFlags(t, false)})
			shutdownDone = true
		}
	}

	return maxSize, ops
}

type qElem struct {
	id        int
	sched     time.Time
	handle    *timed.QueueElement[int]
	cancelRet time.Time // zero: never cancelled
	certain   bool      // cancelled while no Poll had ever been issued (the element was in the heap)
	ignBefore bool      // an IgnorePendingTimeouts shutdown had begun before the Cancel returned
}

type qDelivery struct {
	v     int
	stamp time.Time
}

type pollCmd struct {
	wait  bool
	drain bool
}

func TestQueueScripts(t *testing.T) {
	stats.Rule(checkQueue, "rapid draws a script of Add(now+d) with d from {-5,0,2,5,10,20,40}ms, Cancel(element), Poll(waitIfEmpty) handed to one consumer goroutine, Sleep and one Shutdown with every combination of {CancelPendingElements, IgnorePendingTimeouts}, on a queue with max size from {none,1,2,3}; at the end the queue is shut down (if it was not) and drained. Oracle over the delivery log with monotonic stamps. Distinct by the script text. Non-trivial = a Cancel in the sound zone (or before any Poll) together with a later delivery of another element, or a shutdown while elements were pending, or an overflowing Add")
	rapid.Check(t, func(rt *rapid.T) {
		maxSize, ops := genQueueScript(rt)
		runQueueScript(rt, maxSize, ops)
	})
}

func runQueueScript(t fataler, maxSize int, ops []op) {
	payload := map[string]any{"maxSize": maxSize, "ops": opStrings(ops)}

	var (
		elems      []*qElem
		mu         sync.Mutex
		deliveries []qDelivery
		labels     = map[string]bool{}
		nontrivial bool
	)
	var sleepTotal time.Duration
	for _, o := range ops {
		if o.Kind == "sleep" {
			sleepTotal += time.Duration(o.D) * time.Millisecond
		}
	}

	body := func() string {
		var q *timed.Queue[int]
		if maxSize > 0 {
			q = timed.NewQueue(timed.WithMaxSize[int](maxSize))
		} else {
			q = timed.NewQueue[int]()
		}
		cmds := make(chan pollCmd, len(ops)+2)
		done := make(chan struct{})
		go func() {
			defer close(done)
			for c := range cmds {
				for {
					v := q.Poll(c.wait)
					st := time.Now()
					mu.Lock()
					deliveries = append(deliveries, qDelivery{v, st})
					mu.Unlock()
					if !c.drain || v == 0 {
						break
					}
				}
			}
		}()

		var (
			shutdownCalled bool
			shutdownFlags  int
			shutdownStart  time.Time
			pollIssued     bool
			cmdsClosed     bool
			lastDue        = time.Now()
		)
		defer func() {
			// no-op after a regular end of the script; lets the consumer exit when the script ended with a failure
			q.Shutdown(timed.CancelPendingElements)
			if !cmdsClosed {
				close(cmds)
			}
		}()
		for _, o := range ops {
			switch o.Kind {
			case "add":
				e := &qElem{id: len(elems) + 1}
				e.sched = time.Now().Add(time.Duration(o.D) * time.Millisecond)
				e.handle = q.Add(e.id, e.sched)
				elems = append(elems, e)
				if (e.handle == nil) != shutdownCalled {
					return fmt.Sprintf("Add of element %d returned nil=%v although Shutdown called=%v", e.id, e.handle == nil, shutdownCalled)
				}
				if e.sched.After(lastDue) {
					lastDue = e.sched
				}
			case "cancel":
				e := elems[o.K%len(elems)]
				if e.handle == nil {
					continue
				}
				e.handle.Cancel()
				ret := time.Now()
				if e.cancelRet.IsZero() {
					e.cancelRet = ret
					e.certain = !pollIssued
					e.ignBefore = shutdownCalled && shutdownFlags&fIgnore != 0
				}
			case "poll":
				pollIssued = true
				cmds <- pollCmd{wait: o.Wait}
			case "sleep":
				time.Sleep(time.Duration(o.D) * time.Millisecond)
			case "shutdown":
				shutdownFlags = o.Flags
				shutdownStart = time.Now()
				shutdownCalled = true
				q.Shutdown(flagList(o.Flags)...)
			}
		}
		if !shutdownCalled {
			shutdownStart = time.Now()
			shutdownCalled = true
			q.Shutdown()
			labels["final_shutdown_plain"] = true
		}
		cmds <- pollCmd{wait: true, drain: true}
		close(cmds)
		cmdsClosed = true
		// "eventually": the consumer must get through everything once the last element is due.
		if !ctl.WaitChan(done, time.Until(lastDue)+ctl.HangTimeout) {
			return "hang: consumer did not drain the shut down queue within " + ctl.HangTimeout.String() + " after the last due time\n" + ctl.Dump()
		}

		// ---- oracle over the delivery log ----
		mu.Lock()
		defer mu.Unlock()
		count := make(map[int]int)
		first := make(map[int]time.Time)
		for _, d := range deliveries {
			if d.v == 0 {
				continue
			}
			if d.v < 1 || d.v > len(elems) || elems[d.v-1].handle == nil {
				return fmt.Sprintf("Poll returned %d which was never (successfully) added", d.v)
			}
			count[d.v]++
			if count[d.v] > 1 {
				return fmt.Sprintf("element %d delivered %d times", d.v, count[d.v])
			}
			first[d.v] = d.stamp
			e := elems[d.v-1]
			if d.stamp.Before(e.sched) {
				if !(shutdownFlags&fIgnore != 0 && !d.stamp.Before(shutdownStart)) {
					return fmt.Sprintf("element %d delivered %.3fms before its scheduled time (no IgnorePendingTimeouts shutdown before the delivery)", d.v, msOf(e.sched.Sub(d.stamp)))
				}
				labels["early_by_ignore_flag"] = true
			}
		}
		added, undeliveredUnexcused, pendingAtShutdown := 0, 0, 0
		soundCancel, otherDeliveredLater := false, false
		for _, e := range elems {
			if e.handle == nil {
				labels["add_after_shutdown"] = true
				continue
			}
			added++
			st, delivered := first[e.id]
			if !delivered || !st.Before(shutdownStart) {
				pendingAtShutdown++
			}
			if !e.cancelRet.IsZero() {
				sound := e.certain || (!e.ignBefore && !e.cancelRet.After(e.sched.Add(-soundMargin)))
				switch {
				case e.certain:
					labels["cancel_before_any_poll"] = true
				case sound:
					labels["cancel_sound_zone"] = true
				default:
					labels["cancel_unasserted_zone"] = true
				}
				if sound {
					soundCancel = true
					if delivered {
						return fmt.Sprintf("element %d delivered although its Cancel returned %.3fms before the scheduled time (before any Poll: %v)", e.id, msOf(e.sched.Sub(e.cancelRet)), e.certain)
					}
					for id, s := range first {
						if id != e.id && s.After(e.cancelRet) {
							otherDeliveredLater = true
						}
					}
				}

				continue
			}
			if !delivered && shutdownFlags&fCancel == 0 {
				undeliveredUnexcused++
			}
		}
		drops := 0
		if maxSize > 0 && added > maxSize {
			drops = added - maxSize
			labels["size_bound_overflow"] = true
		}
		if undeliveredUnexcused > drops {
			var miss []string
			for _, e := range elems {
				if _, ok := first[e.id]; !ok && e.handle != nil && e.cancelRet.IsZero() {
					miss = append(miss, fmt.Sprint(e.id))
				}
			}

			return fmt.Sprintf("%d element(s) [%s] neither cancelled nor delivered, but only %d can have been dropped by the size bound and shutdown had no CancelPendingElements flag", undeliveredUnexcused, strings.Join(miss, ","), drops)
		}
		if maxSize > 0 && len(first) > maxSize {
			return fmt.Sprintf("%d elements delivered from a queue bounded to %d that was only polled after the last Add", len(first), maxSize)
		}
		if pendingAtShutdown > 0 {
			labels["shutdown_"+flagName(shutdownFlags)+"_with_pending"] = true
		}
		nontrivial = (soundCancel && otherDeliveredLater) || pendingAtShutdown > 0 || drops > 0
		if maxSize > 0 {
			labels["max_size"] = true
		}

		return ""
	}

	failure, _ := runGuarded(sleepTotal+2*time.Second+2*ctl.HangTimeout, body)
	if failure != "" {
		fail(t, checkQueue, payload, failure)
	}
	var ls []string
	for l := range labels {
		ls = append(ls, l)
	}
	key := fmt.Sprint(maxSize, payload["ops"])
	stats.Case(checkQueue, nontrivial, key, func() any { return payload }, ls...)
}

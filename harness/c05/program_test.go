package c05

import (
	"encoding/hex"
	"fmt"
	"runtime"
	"strings"
	"sync"
	"sync/atomic"

	"github.com/iotaledger/hive.go/kvstore"
	"github.com/iotaledger/hive.go/kvstore/debug"
	"github.com/iotaledger/hive.go/kvstore/flushkv"
	"github.com/iotaledger/hive.go/kvstore/mapdb"
	"pgregory.net/rapid"
	"verifharness/internal/ctl"
)

var stacks = []string{"mapdb", "flush(mapdb)", "debug(mapdb)", "flush(debug(mapdb))", "debug(flush(mapdb))"}

// realms and keys are strings over {a,b}: realm||key collisions between views are the norm
// ("" + "ab" = "a" + "b" = "ab" + "").
var realmPool = []string{"", "a", "b", "ab", "aa", "ba"}
var keyPool = []string{"", "a", "b", "aa", "ab", "ba", "bb"}
var prefixPool = []string{"", "", "a", "a", "b", "b", "aa", "ab", "ba", "bb", "aba"}

type viewSpec struct {
	Realm  string `json:"realm"`
	Parent int    `json:"parent"` // -1: root.WithRealm(realm); else views[Parent].WithExtendedRealm(suffix)
}

type bwrite struct {
	Del bool   `json:"del,omitempty"`
	Key string `json:"key"`
}

type op struct {
	Kind  string   `json:"kind"` // get has set delete deleteprefix clear iterate iteratekeys batch
	View  int      `json:"view"`
	Arg   string   `json:"arg"` // key or prefix
	Back  bool     `json:"back,omitempty"`
	NoDir bool     `json:"nodir,omitempty"` // iterate without a direction argument (default = forward)
	Stop  int      `json:"stop,omitempty"`
	Batch []bwrite `json:"batch,omitempty"`
	Yield int      `json:"yield,omitempty"` // runtime.Gosched() calls before the operation
	// Fresh: the goroutine first derives a private view object of the same realm (WithRealm on the root for even
	// views, WithExtendedRealm(nil) on the shared view for odd ones) and issues the operation through it: view
	// creation runs concurrently with everything else, and the per-view lock is not shared.
	Fresh bool `json:"fresh,omitempty"`
	// Reenter: the consumer of an iteration calls back into the view it is iterating (Delete of an absent filler key,
	// which needs the view's write access without changing anything, and Has) when it is invoked for the first time
	Reenter bool `json:"reenter,omitempty"`
}

func (o op) String() string {
	s := fmt.Sprintf("v%d.%s(%q", o.View, o.Kind, o.Arg)
	switch o.Kind {
	case "iterate", "iteratekeys":
		s += fmt.Sprintf(",back=%v,stop=%d", o.Back, o.Stop)
	case "batch":
		s = fmt.Sprintf("v%d.batch(", o.View)
		for i, w := range o.Batch {
			if i > 0 {
				s += ","
			}
			if w.Del {
				s += "del " + fmt.Sprintf("%q", w.Key)
			} else {
				s += "set " + fmt.Sprintf("%q", w.Key)
			}
		}
	}
	s += ")"
	if o.Fresh {
		s += "*"
	}
	if o.Reenter {
		s += "+reenter"
	}
	if o.Yield > 0 {
		s += fmt.Sprintf("~%d", o.Yield)
	}
	return s
}

type program struct {
	Stack string     `json:"stack"`
	Views []viewSpec `json:"views"`
	Keys  []string   `json:"keys"`
	// Filler = number of unrelated entries ("z....", never addressed by the program, skipped by every consumer)
	// stored before the goroutines start. mapdb scans the whole map under its lock for every prefix operation, so
	// fillers stretch those critical sections from well under a microsecond to tens of microseconds and make other
	// goroutines pile up on the lock - which is what makes non-atomic behaviour observable.
	Filler int    `json:"filler"`
	Gor    [][]op `json:"goroutines"`
}

func isFiller(fullKey []byte) bool { return len(fullKey) > 0 && fullKey[0] == 'z' }

func (p program) key() string {
	var b strings.Builder
	b.WriteString(p.Stack)
	fmt.Fprintf(&b, "|f%d", p.Filler)
	for _, v := range p.Views {
		fmt.Fprintf(&b, "|%q<%d", v.Realm, v.Parent)
	}
	for _, g := range p.Gor {
		b.WriteString("#")
		for _, o := range g {
			b.WriteString(o.String())
			b.WriteString(";")
		}
	}
	return b.String()
}

func (p program) render() map[string]any {
	gs := make([][]string, len(p.Gor))
	for i, g := range p.Gor {
		for _, o := range g {
			gs[i] = append(gs[i], o.String())
		}
	}
	return map[string]any{"stack": p.Stack, "views": p.Views, "keys": p.Keys, "filler": p.Filler, "goroutines": gs}
}

// weight = number of porcupine operations the op becomes
func (o op) weight() int {
	if o.Kind == "batch" {
		return len(o.Batch)
	}
	return 1
}

var pointKinds = []string{"set", "set", "set", "set", "get", "get", "get", "has", "delete", "delete", "batch", "batch"}
var allKinds = append(append([]string{}, pointKinds...), "deleteprefix", "clear", "iterate", "iterate", "iterate", "iteratekeys", "iteratekeys")

// genProgram draws a concurrent program. maxOps bounds the number of porcupine operations of the whole history;
// pointOnly restricts to operations on single keys (per-key partitioned judging of large programs).
func genProgram(t *rapid.T, minG, maxG, minPer, maxPer, maxOps int, pointOnly bool) program {
	p := program{Stack: rapid.SampledFrom(stacks).Draw(t, "stack")}
	nv := rapid.IntRange(2, 4).Draw(t, "views")
	for i := 0; i < nv; i++ {
		r := rapid.SampledFrom(realmPool).Draw(t, "realm")
		vs := viewSpec{Realm: r, Parent: -1}
		// build through WithExtendedRealm of an earlier view whose realm is a prefix, half of the time
		var cands []int
		for j := 0; j < i; j++ {
			if strings.HasPrefix(r, p.Views[j].Realm) {
				cands = append(cands, j)
			}
		}
		if len(cands) > 0 && rapid.Bool().Draw(t, "extended") {
			vs.Parent = rapid.SampledFrom(cands).Draw(t, "parent")
		}
		p.Views = append(p.Views, vs)
	}
	nk := rapid.IntRange(2, 6).Draw(t, "nkeys")
	p.Keys = rapid.SliceOfNDistinct(rapid.SampledFrom(keyPool), nk, nk, rapid.ID[string]).Draw(t, "keys")
	p.Filler = rapid.SampledFrom([]int{0, 200, 2000, 2000}).Draw(t, "filler")
	g := rapid.IntRange(minG, maxG).Draw(t, "goroutines")
	if g > 8 && maxG == 16 && minG == 2 && rapid.Bool().Draw(t, "fewer") {
		g = (g + 1) / 2 // small programs: half of the wide ones are narrowed (keeps the judge's search feasible)
	}
	per := maxOps / g
	if per > maxPer {
		per = maxPer
	}
	if per < minPer {
		per = minPer
	}
	if !pointOnly && g > 10 {
		// the judge's search grows with (ops per goroutine + 1)^(goroutines that overlap): wide programs with prefix
		// operations stay short (wide AND long programs are the per-key judged point-operation programs)
		minPer, per = 2, 3
	}
	kinds := allKinds
	if pointOnly {
		kinds = pointKinds
	}
	for i := 0; i < g; i++ {
		n := rapid.IntRange(minPer, per).Draw(t, "nops")
		var ops []op
		for w := 0; w < n; {
			o := op{Kind: rapid.SampledFrom(kinds).Draw(t, "kind"), View: rapid.IntRange(0, nv-1).Draw(t, "view")}
			switch o.Kind {
			case "get", "has", "set", "delete":
				o.Arg = rapid.SampledFrom(p.Keys).Draw(t, "key")
			case "deleteprefix":
				o.Arg = rapid.SampledFrom(prefixPool).Draw(t, "prefix")
			case "iterate", "iteratekeys":
				o.Arg = rapid.SampledFrom(prefixPool).Draw(t, "prefix")
				switch rapid.IntRange(0, 2).Draw(t, "dir") {
				case 0:
					o.NoDir = true
				case 2:
					o.Back = true
				}
				if rapid.IntRange(0, 3).Draw(t, "stops") == 0 {
					o.Stop = rapid.IntRange(1, 3).Draw(t, "stop")
				}
				o.Reenter = rapid.IntRange(0, 2).Draw(t, "reenter") == 0
			case "batch":
				nb := rapid.IntRange(1, 4).Draw(t, "nbatch")
				for j := 0; j < nb; j++ {
					o.Batch = append(o.Batch, bwrite{Del: rapid.IntRange(0, 2).Draw(t, "bdel") == 0, Key: rapid.SampledFrom(p.Keys).Draw(t, "bkey")})
				}
			}
			o.Fresh = rapid.IntRange(0, 5).Draw(t, "fresh") == 0
			if rapid.IntRange(0, 3).Draw(t, "yields") == 0 {
				o.Yield = rapid.IntRange(1, 2).Draw(t, "yield")
			}
			ops = append(ops, o)
			w += o.weight()
		}
		p.Gor = append(p.Gor, ops)
	}
	return p
}

// ---------------------------------------------------------------------------------------------------------------------
// execution

func valBytes(id int) []byte { return []byte{byte(id >> 8), byte(id), 0xee} }

func valID(b []byte) int {
	if len(b) != 3 || b[2] != 0xee {
		return -1
	}
	id := int(b[0])<<8 | int(b[1])
	if id == 0 {
		return -1
	}
	return id
}

func hx(s string) string { return hex.EncodeToString([]byte(s)) }

type runResult struct {
	Hist    []hop
	Hung    bool
	Dump    string
	OpError string // an operation returned an unexpected error
}

func buildStack(stack string, cb debug.AccessCallback) kvstore.KVStore {
	switch stack {
	case "mapdb":
		return mapdb.NewMapDB()
	case "flush(mapdb)":
		return flushkv.New(mapdb.NewMapDB())
	case "debug(mapdb)":
		return debug.New(mapdb.NewMapDB(), cb)
	case "flush(debug(mapdb))":
		return flushkv.New(debug.New(mapdb.NewMapDB(), cb))
	case "debug(flush(mapdb))":
		return debug.New(flushkv.New(mapdb.NewMapDB()), cb)
	}
	panic("unknown stack " + stack)
}

// execute runs the program: one goroutine per op list, released together by a spin barrier; every operation is
// bracketed by two ticks of a shared logical clock. Value ids are assigned per (goroutine, op, write) so every write
// carries a unique value. After all goroutines returned, the whole store is read back once (hop of goroutine -1).
func execute(p program) runResult {
	var dbgCalls atomic.Int64
	root := buildStack(p.Stack, func(debug.Command, ...[]byte) { dbgCalls.Add(1) })
	views := make([]kvstore.KVStore, len(p.Views))
	for i, vs := range p.Views {
		var err error
		if vs.Parent < 0 {
			views[i], err = root.WithRealm([]byte(vs.Realm))
		} else {
			views[i], err = views[vs.Parent].WithExtendedRealm([]byte(strings.TrimPrefix(vs.Realm, p.Views[vs.Parent].Realm)))
		}
		if err != nil {
			return runResult{OpError: fmt.Sprintf("creating view %d: %v", i, err)}
		}
	}

	for i := 0; i < p.Filler; i++ {
		if err := root.Set([]byte(fmt.Sprintf("z%04x", i)), []byte{0xee}); err != nil {
			return runResult{OpError: fmt.Sprintf("storing filler %d: %v", i, err)}
		}
	}

	// unique value ids, fixed before the run (deterministic in the program)
	type planned struct {
		o    op
		vals []int // set: one id; batch: one per write (0 for deletes)
	}
	plans := make([][]planned, len(p.Gor))
	next, batchSeq := 1, 0
	for g, ops := range p.Gor {
		for _, o := range ops {
			pl := planned{o: o}
			switch o.Kind {
			case "set":
				pl.vals = []int{next}
				next++
			case "batch":
				for _, w := range o.Batch {
					if w.Del {
						pl.vals = append(pl.vals, 0)
					} else {
						pl.vals = append(pl.vals, next)
						next++
					}
				}
			}
			plans[g] = append(plans[g], pl)
		}
	}

	var clock ctl.Clock
	hists := make([][]hop, len(p.Gor))
	errs := make([]string, len(p.Gor))
	var arrived atomic.Int32
	var wg sync.WaitGroup
	n := int32(len(p.Gor))

	runOne := func(g int, pl planned, batchID int) ([]hop, string) {
		o := pl.o
		st := views[o.View]
		realm := hx(p.Views[o.View].Realm)
		h := hop{G: g, Kind: o.Kind, Realm: realm, Arg: hx(o.Arg)}
		if o.Fresh {
			var err error
			if o.View%2 == 0 {
				st, err = root.WithRealm([]byte(p.Views[o.View].Realm))
			} else {
				st, err = st.WithExtendedRealm(nil)
			}
			if err != nil {
				return nil, fmt.Sprintf("%s: deriving a private view: %v", o, err)
			}
		}
		for i := 0; i < o.Yield; i++ {
			runtime.Gosched()
		}
		switch o.Kind {
		case "get":
			h.Call = clock.Tick()
			v, err := st.Get([]byte(o.Arg))
			h.Ret = clock.Tick()
			switch {
			case err == nil:
				h.Found, h.OutVal = true, valID(v)
			case isNotFound(err):
			default:
				return nil, fmt.Sprintf("%s: %v", o, err)
			}
		case "has":
			h.Call = clock.Tick()
			ok, err := st.Has([]byte(o.Arg))
			h.Ret = clock.Tick()
			if err != nil {
				return nil, fmt.Sprintf("%s: %v", o, err)
			}
			h.Found = ok
		case "set":
			h.Val = pl.vals[0]
			h.Call = clock.Tick()
			err := st.Set([]byte(o.Arg), valBytes(h.Val))
			h.Ret = clock.Tick()
			if err != nil {
				return nil, fmt.Sprintf("%s: %v", o, err)
			}
		case "delete":
			h.Call = clock.Tick()
			err := st.Delete([]byte(o.Arg))
			h.Ret = clock.Tick()
			if err != nil {
				return nil, fmt.Sprintf("%s: %v", o, err)
			}
		case "deleteprefix":
			h.Call = clock.Tick()
			err := st.DeletePrefix([]byte(o.Arg))
			h.Ret = clock.Tick()
			if err != nil {
				return nil, fmt.Sprintf("%s: %v", o, err)
			}
		case "clear":
			h.Call = clock.Tick()
			err := st.Clear()
			h.Ret = clock.Tick()
			if err != nil {
				return nil, fmt.Sprintf("%s: %v", o, err)
			}
		case "iterate", "iteratekeys":
			h.Back, h.Stop = o.Back, o.Stop
			var dirs []kvstore.IterDirection
			if !o.NoDir {
				dirs = []kvstore.IterDirection{kvstore.IterDirectionForward}
				if o.Back {
					dirs[0] = kvstore.IterDirectionBackward
				}
			}
			calls := 0
			var err error
			h.OutKeys = []string{}
			reenterErr := ""
			reenter := func() {
				if !o.Reenter || calls != 1 {
					return
				}
				if e := st.Delete([]byte("zreenter")); e != nil {
					reenterErr = "Delete from inside the consumer: " + e.Error()
				}
				if _, e := st.Has([]byte("zreenter")); e != nil {
					reenterErr = "Has from inside the consumer: " + e.Error()
				}
			}
			h.Call = clock.Tick()
			if o.Kind == "iterate" {
				h.OutVals = []int{}
				err = st.Iterate([]byte(o.Arg), func(k kvstore.Key, v kvstore.Value) bool {
					if isFiller(k) {
						return true
					}
					calls++
					h.OutKeys = append(h.OutKeys, hex.EncodeToString(k))
					h.OutVals = append(h.OutVals, valID(v))
					reenter()
					return o.Stop == 0 || calls < o.Stop
				}, dirs...)
			} else {
				err = st.IterateKeys([]byte(o.Arg), func(k kvstore.Key) bool {
					if isFiller(k) {
						return true
					}
					calls++
					h.OutKeys = append(h.OutKeys, hex.EncodeToString(k))
					reenter()
					return o.Stop == 0 || calls < o.Stop
				}, dirs...)
			}
			h.Ret = clock.Tick()
			if err != nil {
				return nil, fmt.Sprintf("%s: %v", o, err)
			}
			if reenterErr != "" {
				return nil, fmt.Sprintf("%s: %s", o, reenterErr)
			}
		case "batch":
			b, err := st.Batched()
			if err != nil {
				return nil, fmt.Sprintf("%s: Batched: %v", o, err)
			}
			// last operation per key wins (harness side of the contract)
			type last struct {
				del bool
				val int
			}
			lastOp := map[string]last{}
			var order []string
			for i, w := range o.Batch {
				if w.Del {
					err = b.Delete([]byte(w.Key))
				} else {
					err = b.Set([]byte(w.Key), valBytes(pl.vals[i]))
				}
				if err != nil {
					return nil, fmt.Sprintf("%s: batch write %d: %v", o, i, err)
				}
				if _, ok := lastOp[w.Key]; !ok {
					order = append(order, w.Key)
				}
				lastOp[w.Key] = last{del: w.Del, val: pl.vals[i]}
			}
			call := clock.Tick()
			err = b.Commit()
			ret := clock.Tick()
			if err != nil {
				return nil, fmt.Sprintf("%s: Commit: %v", o, err)
			}
			var out []hop
			for _, k := range order {
				l := lastOp[k]
				w := hop{G: g, Kind: "bset", Realm: realm, Arg: hx(k), Val: l.val, Batch: batchID, Call: call, Ret: ret}
				if l.del {
					w.Kind, w.Val = "bdelete", 0
				}
				out = append(out, w)
			}
			return out, ""
		default:
			panic("unknown op kind " + o.Kind)
		}
		return []hop{h}, ""
	}

	batchBase := make([]int, len(p.Gor))
	for g := range p.Gor {
		batchBase[g] = batchSeq
		for _, o := range p.Gor[g] {
			if o.Kind == "batch" {
				batchSeq++
			}
		}
	}

	done := func() {
		for g := range p.Gor {
			wg.Add(1)
			go func(g int) {
				defer wg.Done()
				// spin barrier: all goroutines start their first operation together
				arrived.Add(1)
				for arrived.Load() < n {
					runtime.Gosched()
				}
				bid := batchBase[g]
				for _, pl := range plans[g] {
					if pl.o.Kind == "batch" {
						bid++
					}
					hs, e := runOne(g, pl, bid)
					if e != "" {
						errs[g] = e
						return
					}
					hists[g] = append(hists[g], hs...)
				}
			}(g)
		}
		wg.Wait()
	}
	if !ctl.Within(ctl.HangTimeout, done) {
		return runResult{Hung: true, Dump: ctl.Dump()}
	}
	var res runResult
	for g := range p.Gor {
		if errs[g] != "" && res.OpError == "" {
			res.OpError = fmt.Sprintf("goroutine %d: %s", g, errs[g])
		}
		res.Hist = append(res.Hist, hists[g]...)
	}
	if res.OpError != "" {
		return res
	}
	// final sequential read-back of the whole store through the root (empty realm): makes every lost or
	// invented write visible to the judge
	final := hop{G: -1, Kind: "iterate", OutKeys: []string{}, OutVals: []int{}}
	final.Call = clock.Tick()
	err := root.Iterate(kvstore.EmptyPrefix, func(k kvstore.Key, v kvstore.Value) bool {
		if isFiller(k) {
			return true
		}
		final.OutKeys = append(final.OutKeys, hex.EncodeToString(k))
		final.OutVals = append(final.OutVals, valID(v))
		return true
	})
	final.Ret = clock.Tick()
	if err != nil {
		res.OpError = fmt.Sprintf("final read-back: %v", err)
		return res
	}
	res.Hist = append(res.Hist, final)
	return res
}

func ctlHang() any { return ctl.HangTimeout }

package c16

import (
	"fmt"
	"testing"

	"pgregory.net/rapid"
	"verifharness/internal/stats"
)

type genModel struct {
	prog    program
	running []bool
	held    []int // ids of held, unreleased tasks
	nextID  int
	gShut   map[int]bool
}

func (m *genModel) genTask(t *rapid.T, pool int, depth int) taskSpec {
	m.nextID++
	ts := taskSpec{ID: m.nextID, Pool: pool, Held: rapid.IntRange(0, 2).Draw(t, "held") == 0}
	if ts.Held {
		m.held = append(m.held, ts.ID)
	}
	if depth < 2 {
		for i, n := 0, rapid.SampledFrom([]int{0, 0, 0, 1, 1, 2}).Draw(t, "children"); i < n; i++ {
			cp := pool
			if len(m.prog.Pools) > 1 && rapid.Bool().Draw(t, "crossPool") {
				cp = rapid.IntRange(0, len(m.prog.Pools)-1).Draw(t, "childPool")
			}
			ts.Children = append(ts.Children, m.genTask(t, cp, depth+1))
		}
	}
	return ts
}

// genProgram draws a layout and a step list; hookedWeight 0 = no hooked submits.
func genProgram(t *rapid.T, hookedWeight int, minSteps, maxSteps int) program {
	m := &genModel{gShut: map[int]bool{}}
	layout := rapid.SampledFrom([]string{"single", "single", "two", "group", "tree"}).Draw(t, "layout")
	pool := func(group int) poolSpec {
		cancel := rapid.Bool().Draw(t, "cancel")
		return poolSpec{Group: group, Workers: rapid.IntRange(1, 4).Draw(t, "workers"), Cancel: cancel}
	}
	switch layout {
	case "single":
		m.prog.Pools = []poolSpec{pool(-1)}
	case "two":
		m.prog.Pools = []poolSpec{pool(-1), pool(-1)}
	case "group":
		m.prog.Groups = []int{-1}
		m.prog.Pools = []poolSpec{pool(0), pool(0)}
	case "tree":
		m.prog.Groups = []int{-1, 0}
		m.prog.Pools = []poolSpec{pool(0), pool(1), pool(1)}
	}
	np := len(m.prog.Pools)
	m.running = make([]bool, np)
	for i := range m.running {
		m.running[i] = true
	}
	m.prog.Attributed = rapid.IntRange(0, 3).Draw(t, "attributed") > 0
	anyPool := func(label string) int { return rapid.IntRange(0, np-1).Draw(t, label) }
	poolWhere := func(label string, want bool) (int, bool) {
		var c []int
		for i, r := range m.running {
			if r == want {
				c = append(c, i)
			}
		}
		if len(c) == 0 {
			return 0, false
		}
		return rapid.SampledFrom(c).Draw(t, label), true
	}
	hasPool := func(want bool) bool {
		for _, r := range m.running {
			if r == want {
				return true
			}
		}
		return false
	}
	n := rapid.IntRange(minSteps, maxSteps).Draw(t, "nsteps")
	hookedDone := false
	for len(m.prog.Steps) < n {
		type cand struct {
			kind   string
			weight int
		}
		cands := []cand{{"submit", 6}, {"restart", 2}, {"waitZero", 1}}
		if len(m.held) > 0 {
			cands = append(cands, cand{"release", 2})
		}
		if hasPool(true) {
			cands = append(cands, cand{"shutdown", 2})
			if hookedWeight > 0 {
				cands = append(cands, cand{"hooked", hookedWeight})
			}
		}
		if hasPool(false) {
			cands = append(cands, cand{"waitShutdown", 1})
		}
		if len(m.prog.Groups) > 0 {
			cands = append(cands, cand{"waitChildren", 1}, cand{"waitParents", 1}, cand{"groupShutdown", 1})
		}
		total := 0
		for _, c := range cands {
			total += c.weight
		}
		x := rapid.IntRange(0, total-1).Draw(t, "kind")
		kind := ""
		for _, c := range cands {
			if x < c.weight {
				kind = c.kind
				break
			}
			x -= c.weight
		}
		if hookedWeight > 0 && !hookedDone && len(m.prog.Steps) == n-1 {
			if hasPool(true) {
				kind = "hooked" // a hooked program contains at least one hooked submit
			}
		}
		st := step{Kind: kind}
		switch kind {
		case "submit":
			st.Pool = anyPool("pool")
			if !m.running[st.Pool] && rapid.IntRange(0, 2).Draw(t, "preferRunning") > 0 {
				if p, ok := poolWhere("runningPool", true); ok {
					st.Pool = p
				}
			}
			ts := m.genTask(t, st.Pool, 0)
			st.Task = &ts
		case "hooked":
			st.Pool, _ = poolWhere("pool", true)
			ts := m.genTask(t, st.Pool, 1)
			st.Task = &ts
			st.Then = rapid.SampledFrom([]string{"shutdown", "shutdown", "shutdown+wait", "shutdown+start"}).Draw(t, "then")
			// model: after the step the pool is shut down unless Start ran; the executor tracks the real outcome,
			// the generator only needs a plausible model to keep later steps applicable
			m.running[st.Pool] = false
			hookedDone = true
		case "release":
			i := rapid.IntRange(0, len(m.held)-1).Draw(t, "rel")
			st.Rel = m.held[i]
			m.held = append(m.held[:i], m.held[i+1:]...)
		case "shutdown":
			st.Pool, _ = poolWhere("pool", true)
			m.running[st.Pool] = false
		case "waitShutdown":
			st.Pool, _ = poolWhere("pool", false)
		case "restart":
			st.Pool = anyPool("pool")
			if m.running[st.Pool] {
				if p, ok := poolWhere("stoppedPool", false); ok {
					st.Pool = p
				}
			}
			m.running[st.Pool] = true
		case "waitZero":
			st.Pool = anyPool("pool")
		case "waitChildren", "waitParents", "groupShutdown":
			st.Group = rapid.IntRange(0, len(m.prog.Groups)-1).Draw(t, "group")
			if kind == "groupShutdown" {
				// mirrors Group.shutdown: every group shuts its pools down only once
				var shut func(g int)
				shut = func(g int) {
					if m.gShut[g] {
						return
					}
					m.gShut[g] = true
					for i, ps := range m.prog.Pools {
						if ps.Group == g {
							m.running[i] = false
						}
					}
					for child, parent := range m.prog.Groups {
						if parent == g {
							shut(child)
						}
					}
				}
				shut(st.Group)
			}
		}
		m.prog.Steps = append(m.prog.Steps, st)
	}
	return m.prog
}

func labelsOf(p program, res result) []string {
	labels := []string{fmt.Sprintf("pools:%d", len(p.Pools)), fmt.Sprintf("groups:%d", len(p.Groups))}
	if p.Attributed {
		labels = append(labels, "attributed")
	}
	kinds := map[string]bool{}
	nested, cross := false, false
	for _, s := range p.Steps {
		kinds[s.Kind] = true
		if s.Task != nil {
			var walk func(ts taskSpec)
			walk = func(ts taskSpec) {
				for _, c := range ts.Children {
					nested = true
					if c.Pool != ts.Pool {
						cross = true
					}
					walk(c)
				}
			}
			walk(*s.Task)
		}
	}
	for k := range kinds {
		labels = append(labels, "step:"+k)
	}
	if nested {
		labels = append(labels, "task_submits_tasks")
	}
	if cross {
		labels = append(labels, "cross_pool_child")
	}
	for _, ps := range p.Pools {
		if ps.Cancel {
			labels = append(labels, "cancel_on_shutdown_pool")
			break
		}
	}
	if res.ShutdownBusy > 0 {
		labels = append(labels, "shutdown_while_pending")
	}
	if res.HookParked > 0 {
		labels = append(labels, "submitter_parked_in_window")
	}
	if res.Restarts > 0 {
		labels = append(labels, "restart_after_shutdown")
	}
	if res.Cancelled > 0 {
		labels = append(labels, "tasks_cancelled")
	}
	if res.Rejected > 0 {
		labels = append(labels, "submit_after_shutdown")
	}
	return labels
}

func checkPrograms(t *testing.T, check string, hookedWeight, minSteps, maxSteps int) {
	rapid.Check(t, func(rt *rapid.T) {
		prog := genProgram(rt, hookedWeight, minSteps, maxSteps)
		r := &run{prog: prog}
		res := r.execute()
		nontrivial := res.ShutdownBusy > 0 || res.HookParked > 0 || res.Restarts > 0
		stats.Case(check, nontrivial, prog.key(), prog.sample, labelsOf(prog, res)...)
		if res.Kind != "" {
			pl := prog.sample().(map[string]any)
			pl["kind"], pl["observed"], pl["trace"] = res.Kind, res.Violation, res.Trace
			if res.Goroutines != "" {
				pl["goroutines_at_hang"] = res.Goroutines
			}
			stats.Violation(check, pl)
			rt.Fatalf("%s: %s\nprogram: pools %+v groups %v attributed=%v\nsteps:\n  %s\ntrace:\n  %s", res.Kind, res.Violation, prog.Pools, prog.Groups, prog.Attributed, joinLines(prog.stepStrings()), joinLines(res.Trace))
		}
	})
}

func joinLines(l []string) string {
	out := ""
	for i, s := range l {
		if i > 0 {
			out += "\n  "
		}
		out += s
	}
	return out
}

const programRule = "rapid draws a layout (1-2 stand-alone pools, or a Group with 2 pools, or Group > sub-group with 3 pools; 1-4 workers and cancel-on-shutdown drawn per pool) and 3-14 controller steps (submit a task that may be held by the controller and may submit 1-2 further tasks, also into other pools; release; Shutdown; ShutdownComplete.Wait; restart; WaitIsZero; Group.WaitChildren/WaitParents/Shutdown); acceptance of every Submit is observed through a subscription on the pending-task counter (3/4 of the programs serialise Submit calls so that each increment is attributed); oracles: runs<=1 per task, accepted&&!cancel => runs==1, not accepted => runs==0, counter 0 and increments==decrements after Shutdown+ShutdownComplete.Wait, no task starts after completion, every blocking call returns within ctl.HangTimeout once the held tasks it depends on are released, waits return only after every task accepted before the call (and what those submitted) finished; non-trivial = Shutdown invoked while >=1 task queued or running, or a submitter parked in the Submit window, or a restart after a shutdown; distinct by (layout, steps)"

func TestPrograms(t *testing.T) {
	stats.Rule("programs", programRule)
	checkPrograms(t, "programs", 0, 3, 14)
}

func TestHookedSchedules(t *testing.T) {
	stats.Rule("hooked_schedules", "as programs (2-8 steps), but every program contains at least one hooked submit: the submitter is parked at the verif yield point in WorkerPool.Submit between the running-check and increasePendingTasks/Queue.Push while Shutdown (optionally followed by ShutdownComplete.Wait or Start) is given the chance to run to completion, then released. "+programRule)
	checkPrograms(t, "hooked_schedules", 4, 2, 8)
}

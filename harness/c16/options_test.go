package c16

import (
	"fmt"
	"sync/atomic"
	"testing"
	"time"

	"github.com/iotaledger/hive.go/runtime/debug"
	"github.com/iotaledger/hive.go/runtime/workerpool"
	"pgregory.net/rapid"
	"verifharness/internal/ctl"
	"verifharness/internal/stats"
)

// TestPanicOnSubmitAfterShutdown: with WithPanicOnSubmitAfterShutdown a rejected Submit panics. A caller that recovers
// from that panic must find the pool unharmed: nothing was accepted, restart and shutdown still work, accepted tasks run.
func TestPanicOnSubmitAfterShutdown(t *testing.T) {
	const check = "panic_on_submit_after_shutdown"
	stats.Rule(check, "rapid draws 1..4 workers, cancel-on-shutdown on/off, 1..3 rejected submissions per stop and 1..3 rounds of: (pool stopped - never started in round 0, shut down afterwards) Submit k times, each must panic (recovered) and leave the pending counter at 0 and its task un-run; Start; 1..8 tasks, WaitIsZero, all ran; Shutdown; ShutdownComplete.Wait - every call under the stall-tolerant 20 s watchdog. Distinct by configuration; non-trivial = >= 2 rounds (a restart after recovered panics)")
	rapid.Check(t, func(rt *rapid.T) {
		workers := rapid.IntRange(1, 4).Draw(rt, "workers")
		cancel := rapid.Bool().Draw(rt, "cancelOnShutdown")
		rejects := rapid.IntRange(1, 3).Draw(rt, "rejects")
		rounds := rapid.IntRange(1, 3).Draw(rt, "rounds")
		tasks := rapid.IntRange(1, 8).Draw(rt, "tasks")
		desc := fmt.Sprintf("workers=%d cancelOnShutdown=%v rejects=%d rounds=%d tasks=%d", workers, cancel, rejects, rounds, tasks)
		fail := func(format string, a ...any) {
			msg := fmt.Sprintf(format, a...)
			stats.Violation(check, map[string]any{"config": desc, "problem": msg})
			rt.Fatalf("%s: %s", desc, msg)
		}
		wp := workerpool.New("p", workerpool.WithWorkerCount(workers), workerpool.WithCancelPendingTasksOnShutdown(cancel),
			workerpool.WithPanicOnSubmitAfterShutdown(true))
		var ranRejected atomic.Bool
		for round := 0; round < rounds; round++ {
			for k := 0; k < rejects; k++ {
				panicked := false
				if !withinHang(func() {
					defer func() { panicked = recover() != nil }()
					wp.Submit(func() { ranRejected.Store(true) })
				}) {
					fail("round %d: Submit to the stopped pool did not return\n%s", round, ctl.Dump())
				}
				if !panicked {
					fail("round %d: Submit to a stopped pool created with WithPanicOnSubmitAfterShutdown(true) did not panic", round)
				}
				if c := wp.PendingTasksCounter.Get(); c != 0 {
					fail("round %d: a rejected Submit left the pending counter at %d", round, c)
				}
			}
			if !withinHang(func() { wp.Start() }) {
				fail("round %d: Start after %d rejected (recovered) submissions did not return\n%s", round, rejects, ctl.Dump())
			}
			var ran atomic.Int32
			for i := 0; i < tasks; i++ {
				if !withinHang(func() { wp.Submit(func() { ran.Add(1) }) }) {
					fail("round %d: Submit to the running pool did not return\n%s", round, ctl.Dump())
				}
			}
			if !withinHang(wp.PendingTasksCounter.WaitIsZero) {
				fail("round %d: pending counter did not return to zero (ran %d of %d)\n%s", round, ran.Load(), tasks, ctl.Dump())
			}
			if got := int(ran.Load()); got != tasks {
				fail("round %d: %d of %d accepted tasks ran", round, got, tasks)
			}
			if !withinHang(func() { wp.Shutdown() }) {
				fail("round %d: Shutdown did not return\n%s", round, ctl.Dump())
			}
			if !withinHang(wp.ShutdownComplete.Wait) {
				fail("round %d: ShutdownComplete.Wait did not return\n%s", round, ctl.Dump())
			}
		}
		if ranRejected.Load() {
			fail("a task whose Submit was rejected ran")
		}
		stats.Case(check, rounds >= 2, desc, func() any { return desc })
	})
}

// TestSlowTaskInDebugMode: hive.go's debug mode attaches a deadlock detector to every task, which reports tasks that run
// longer than debug.DeadlockDetectionTimeout. Reporting is all it may do: a slow task stays pending until it finishes,
// and finishes exactly once.
func TestSlowTaskInDebugMode(t *testing.T) {
	const check = "slow_task_in_debug_mode"
	stats.Rule(check, "debug mode on, detection time-out lowered to 15 ms (both restored afterwards); rapid draws 1..3 workers, pool stand-alone or inside a Group, 1..3 slow tasks (held by the controller for 45 ms, three time-outs) and 0..4 quick ones. Oracle: while the slow tasks are held the pending counter equals their number and WaitIsZero / Group.WaitChildren have not returned; after the release the counter returns to exactly 0 (never below), the waits return, Shutdown + ShutdownComplete.Wait (or Group.Shutdown) return - 20 s stall-tolerant watchdog. Distinct by configuration; non-trivial = pool inside a group")
	oldTimeout := debug.DeadlockDetectionTimeout
	debug.SetEnabled(true)
	debug.DeadlockDetectionTimeout = 15 * time.Millisecond
	defer func() {
		debug.SetEnabled(false)
		debug.DeadlockDetectionTimeout = oldTimeout
	}()
	rapid.Check(t, func(rt *rapid.T) {
		workers := rapid.IntRange(1, 3).Draw(rt, "workers")
		grouped := rapid.Bool().Draw(rt, "grouped")
		slow := rapid.IntRange(1, workers).Draw(rt, "slow")
		quick := rapid.IntRange(0, 4).Draw(rt, "quick")
		desc := fmt.Sprintf("workers=%d grouped=%v slow=%d quick=%d", workers, grouped, slow, quick)
		fail := func(format string, a ...any) {
			msg := fmt.Sprintf(format, a...)
			stats.Violation(check, map[string]any{"config": desc, "problem": msg})
			rt.Fatalf("%s: %s", desc, msg)
		}
		var wp *workerpool.WorkerPool
		var g *workerpool.Group
		if grouped {
			g = workerpool.NewGroup("g")
			wp = g.CreatePool("p", workerpool.WithWorkerCount(workers))
		} else {
			wp = workerpool.New("p", workerpool.WithWorkerCount(workers)).Start()
		}
		var minSeen atomic.Int64
		wp.PendingTasksCounter.Subscribe(func(_, newValue int) {
			for {
				cur := minSeen.Load()
				if int64(newValue) >= cur || minSeen.CompareAndSwap(cur, int64(newValue)) {
					return
				}
			}
		})
		release := make(chan struct{})
		var started, finished atomic.Int32
		for i := 0; i < slow; i++ {
			wp.Submit(func() { started.Add(1); <-release; finished.Add(1) })
		}
		for started.Load() < int32(slow) {
			time.Sleep(100 * time.Microsecond)
		}
		for i := 0; i < quick; i++ {
			wp.Submit(func() { finished.Add(1) })
		}
		zero := make(chan struct{})
		go func() { wp.PendingTasksCounter.WaitIsZero(); close(zero) }()
		children := make(chan struct{})
		if grouped {
			go func() { g.WaitChildren(); close(children) }()
		}
		time.Sleep(45 * time.Millisecond)
		if c := wp.PendingTasksCounter.Get(); c < slow {
			close(release)
			fail("%d slow tasks are still running (held), but the pending counter is %d", slow, c)
		}
		select {
		case <-zero:
			close(release)
			fail("WaitIsZero returned while %d accepted tasks are still running", slow)
		default:
		}
		if grouped {
			select {
			case <-children:
				close(release)
				fail("Group.WaitChildren returned while %d accepted tasks are still running", slow)
			default:
			}
		}
		close(release)
		if !waitHang(zero) {
			fail("the pending counter did not return to zero after the slow tasks finished (counter %d)\n%s", wp.PendingTasksCounter.Get(), ctl.Dump())
		}
		if grouped && !waitHang(children) {
			fail("Group.WaitChildren did not return after every task finished\n%s", ctl.Dump())
		}
		if grouped {
			if !withinHang(g.Shutdown) {
				fail("Group.Shutdown did not return\n%s", ctl.Dump())
			}
		} else {
			if !withinHang(func() { wp.Shutdown() }) || !withinHang(wp.ShutdownComplete.Wait) {
				fail("Shutdown / ShutdownComplete.Wait did not return\n%s", ctl.Dump())
			}
		}
		if got := int(finished.Load()); got != slow+quick {
			fail("%d of %d accepted tasks ran to completion", got, slow+quick)
		}
		if c, m := wp.PendingTasksCounter.Get(), minSeen.Load(); c != 0 || m < 0 {
			fail("pending counter ends at %d and went down to %d: it must return to zero and never drop below", c, m)
		}
		stats.Case(check, grouped, desc, func() any { return desc })
	})
}

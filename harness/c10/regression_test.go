package c10

import (
	"testing"

	"verifharness/internal/stats"
)

// replay runs an explicit history through the same differential oracle, without rapid.
func replay(t *testing.T, check string, flavours [numLists]bool, actions []action) {
	t.Helper()
	w := newWorld(flavours)
	for _, a := range actions {
		if msg := w.apply(a); msg != "" {
			stats.Violation(check, w.payload(msg))
			t.Fatalf("%s\nlists: %v\nactions: %v", msg, w.flavourNames(), w.log)
		}
	}
	stats.Case(check, true, w.key(), func() any { return w.payload("") })
}

var bothFlavours = [numLists]bool{true, false, true}

// D10: MoveBefore/MoveAfter derived the position element from the element argument and were no-ops.
// Shrunk case found by TestListDifferential: PushBack(1) PushBack(2) MoveBefore(h1,h0) -> ds [1 2], container/list [2 1].
func TestRegressionMoveBeforeAfter(t *testing.T) {
	stats.Rule("regression_move_before_after", "fixed replay of the shrunk D10 cases on both flavours")
	for L := 0; L < 2; L++ {
		replay(t, "regression_move_before_after", bothFlavours, []action{
			{Op: "PushBack", L: L, H: -1, M: -1, V: 1},
			{Op: "PushBack", L: L, H: -1, M: -1, V: 2},
			{Op: "MoveBefore", L: L, H: 1, M: 0},
		})
		replay(t, "regression_move_before_after", bothFlavours, []action{
			{Op: "PushBack", L: L, H: -1, M: -1, V: 1},
			{Op: "PushBack", L: L, H: -1, M: -1, V: 2},
			{Op: "MoveAfter", L: L, H: 0, M: 1},
		})
		// three elements, move across the middle, then with a foreign and a removed mark (must stay no-ops)
		replay(t, "regression_move_before_after", bothFlavours, []action{
			{Op: "PushBack", L: L, H: -1, M: -1, V: 1},
			{Op: "PushBack", L: L, H: -1, M: -1, V: 2},
			{Op: "PushBack", L: L, H: -1, M: -1, V: 3},
			{Op: "PushBack", L: 2, H: -1, M: -1, V: 4},
			{Op: "MoveAfter", L: L, H: 0, M: 2},
			{Op: "MoveBefore", L: L, H: 0, M: 1},
			{Op: "MoveBefore", L: L, H: 0, M: 3}, // foreign mark
			{Op: "MoveAfter", L: L, H: 3, M: 0},  // foreign element
			{Op: "Remove", L: L, H: 1, M: -1},
			{Op: "MoveAfter", L: L, H: 0, M: 1},  // removed mark
			{Op: "MoveBefore", L: L, H: 1, M: 0}, // removed element
		})
	}
}

// D11: PushBackList/PushFrontList of the thread-safe list with itself re-entered its own RWMutex and hung.
func TestRegressionSelfPushThreadSafe(t *testing.T) {
	stats.Rule("regression_self_push", "fixed replay of the shrunk D11 cases (thread-safe and lock-free)")
	for L := 0; L < 2; L++ {
		for _, op := range []string{"PushBackList", "PushFrontList"} {
			replay(t, "regression_self_push", bothFlavours, []action{
				{Op: "PushBack", L: L, H: -1, M: -1, V: 1},
				{Op: "PushBack", L: L, H: -1, M: -1, V: 2},
				{Op: op, L: L, H: -1, M: -1, Other: L},
				{Op: op, L: L, H: -1, M: -1, Other: 1 - L},
			})
		}
	}
}

// Init of the thread-safe list returned its unsynchronised inner list instead of the list itself
// (container/list: "Init initializes or clears list l" and returns l).
func TestRegressionInitReturnsReceiver(t *testing.T) {
	stats.Rule("regression_init_return", "fixed replay: Init on both flavours, then keep using the list")
	for L := 0; L < 2; L++ {
		replay(t, "regression_init_return", bothFlavours, []action{
			{Op: "PushBack", L: L, H: -1, M: -1, V: 1},
			{Op: "Init", L: L, H: -1, M: -1},
			{Op: "PushBack", L: L, H: -1, M: -1, V: 2},
		})
	}
}

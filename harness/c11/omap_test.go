package c11

import (
	"fmt"
	"strings"
	"testing"

	"github.com/iotaledger/hive.go/ds/orderedmap"
	"github.com/iotaledger/hive.go/ds/serializableorderedmap"
	"github.com/iotaledger/hive.go/serializer/v2/serix"
	"pgregory.net/rapid"
	"verifharness/internal/stats"
)

const checkOMap = "orderedmap_model"

// mop is one explicit OrderedMap step (replayable without rapid).
type mop struct {
	Op      string // Set Get Has Delete ForEachStop ForEachDelete Clear Clone EncodeDecode
	K       E
	V       uint32
	Mask    int       // ForEachDelete: keys (by universe bit) deleted from inside the callback when they are visited
	N       int       // ForEachStop: stop after the (N mod size)+1-th visit
	Reverse bool      // iterate with ForEachReverse
	Script  []iterMut // ForEachScript: mutations the consumer performs while the iteration is in progress
}

func (o mop) String() string {
	dir := ""
	if o.Reverse {
		dir = "Reverse"
	}
	switch o.Op {
	case "Set":
		return fmt.Sprintf("Set(%d,%d)", o.K, o.V)
	case "Get", "Has", "Delete":
		return fmt.Sprintf("%s(%d)", o.Op, o.K)
	case "ForEachStop":
		return fmt.Sprintf("ForEach%s(stop@%d)", dir, o.N)
	case "ForEachDelete":
		return fmt.Sprintf("ForEach%s(delete-current mask=%b)", dir, o.Mask)
	case "ForEachDeleteNext":
		return fmt.Sprintf("ForEach%s(delete-successor@%d)", dir, o.N)
	case "ForEachAppend":
		return "ForEach(append-at-tail)"
	case "ForEachScript":
		return fmt.Sprintf("ForEach%s(consumer mutates: %v)", dir, o.Script)
	}

	return o.Op + "()"
}

// iterMut is one mutation performed from inside the consumer when it is called for the At-th time (0-based).
type iterMut struct {
	At   int
	Kind string // del | set | clear
	K    E
	V    uint32
}

func (m iterMut) String() string {
	switch m.Kind {
	case "del":
		return fmt.Sprintf("@%d:Delete(%d)", m.At, m.K)
	case "set":
		return fmt.Sprintf("@%d:Set(%d,%d)", m.At, m.K, m.V)
	}
	return fmt.Sprintf("@%d:Clear()", m.At)
}

type omapWorld struct {
	universe []E
	m        *serializableorderedmap.SerializableOrderedMap[E, uint32]
	keys     *oset
	vals     map[E]uint32
	log      []string
	api      *serix.API

	everDeleted map[E]bool
	reinserted  bool // a deleted key was set again while other keys were live
	overwrote   bool // Set of an existing key that is not the tail
	iterDelete  bool // delete-current-key from inside an iteration that went on afterwards
}

func newOmapWorld(universeSize int) *omapWorld {
	w := &omapWorld{m: serializableorderedmap.New[E, uint32](), keys: newOset(), vals: map[E]uint32{}, api: serix.NewAPI(), everDeleted: map[E]bool{}}
	for i := 0; i < universeSize; i++ {
		w.universe = append(w.universe, E(i))
	}

	return w
}

type kv struct {
	k E
	v uint32
}

func collect(m *orderedmap.OrderedMap[E, uint32], reverse bool) []kv {
	var out []kv
	f := func(k E, v uint32) bool { out = append(out, kv{k, v}); return true }
	if reverse {
		m.ForEachReverse(f)
	} else {
		m.ForEach(f)
	}

	return out
}

func (w *omapWorld) want(reverse bool) []kv {
	order := w.keys.slice()
	if reverse {
		order = reversedE(order)
	}
	out := make([]kv, 0, len(order))
	for _, k := range order {
		out = append(out, kv{k, w.vals[k]})
	}

	return out
}

func eqKV(a, b []kv) bool {
	if len(a) != len(b) {
		return false
	}
	for i := range a {
		if a[i] != b[i] {
			return false
		}
	}

	return true
}

func (w *omapWorld) apply(o mop) string {
	w.log = append(w.log, o.String())
	m := w.m.OrderedMap

	switch o.Op {
	case "Set":
		wantPrev, wantExisted := w.vals[o.K], w.keys.has(o.K)
		if wantExisted && len(w.keys.order) > 1 && w.keys.order[len(w.keys.order)-1] != o.K {
			w.overwrote = true
		}
		if !wantExisted && w.everDeleted[o.K] && w.keys.size() > 0 {
			w.reinserted = true
		}
		prev, existed := m.Set(o.K, o.V)
		if existed != wantExisted || (existed && prev != wantPrev) {
			return fmt.Sprintf("Set(%d,%d) returned (%d,%v), model (%d,%v)", o.K, o.V, prev, existed, wantPrev, wantExisted)
		}
		w.keys.add(o.K)
		w.vals[o.K] = o.V
	case "Get":
		v, ok := m.Get(o.K)
		if ok != w.keys.has(o.K) || (ok && v != w.vals[o.K]) {
			return fmt.Sprintf("Get(%d) = (%d,%v), model (%d,%v)", o.K, v, ok, w.vals[o.K], w.keys.has(o.K))
		}
	case "Has":
		if got := m.Has(o.K); got != w.keys.has(o.K) {
			return fmt.Sprintf("Has(%d) = %v, model %v", o.K, got, w.keys.has(o.K))
		}
	case "Delete":
		want := w.keys.del(o.K)
		if want {
			w.everDeleted[o.K] = true
			delete(w.vals, o.K)
		}
		if got := m.Delete(o.K); got != want {
			return fmt.Sprintf("Delete(%d) = %v, model %v", o.K, got, want)
		}
	case "ForEachStop":
		want := w.want(o.Reverse)
		if len(want) == 0 {
			break
		}
		stop := o.N%len(want) + 1
		var seen []kv
		f := func(k E, v uint32) bool { seen = append(seen, kv{k, v}); return len(seen) < stop }
		var completed bool
		if o.Reverse {
			completed = m.ForEachReverse(f)
		} else {
			completed = m.ForEach(f)
		}
		if completed || !eqKV(seen, want[:stop]) {
			return fmt.Sprintf("%s visited %v and returned %v, model: visits %v then reports the abort (false)", o, seen, completed, want[:stop])
		}
	case "ForEachDelete":
		// the callback deletes the key it is being called with; the iteration must still visit every entry that
		// was live at the start, in order (this is what Set.DeleteAll(s) of a set with itself relies on).
		want := w.want(o.Reverse)
		var seen []kv
		var problem string
		f := func(k E, v uint32) bool {
			seen = append(seen, kv{k, v})
			if o.Mask&(1<<int(k)) != 0 {
				if !m.Delete(k) {
					problem = fmt.Sprintf("Delete(%d) of the key being visited returned false", k)
				}
				if len(seen) < len(want) {
					w.iterDelete = true
				}
			}

			return true
		}
		var completed bool
		if o.Reverse {
			completed = m.ForEachReverse(f)
		} else {
			completed = m.ForEach(f)
		}
		if problem != "" {
			return problem
		}
		if !completed || !eqKV(seen, want) {
			return fmt.Sprintf("%s visited %v (completed=%v), model %v", o, seen, completed, want)
		}
		for _, e := range want {
			if o.Mask&(1<<int(e.k)) != 0 {
				w.keys.del(e.k)
				delete(w.vals, e.k)
				w.everDeleted[e.k] = true
			}
		}
	case "ForEachDeleteNext":
		// the callback, when it is called for the (N mod (size-1))+1-th entry, deletes the entry that would be visited
		// next: a key that is no longer live when the iteration gets there must not be visited
		want := w.want(o.Reverse)
		if len(want) < 2 {
			break
		}
		at := o.N % (len(want) - 1)
		victim := want[at+1].k
		var seen []kv
		var problem string
		f := func(k E, v uint32) bool {
			seen = append(seen, kv{k, v})
			if len(seen) == at+1 && !m.Delete(victim) {
				problem = fmt.Sprintf("Delete(%d) of the live successor returned false", victim)
			}

			return true
		}
		var completed bool
		if o.Reverse {
			completed = m.ForEachReverse(f)
		} else {
			completed = m.ForEach(f)
		}
		if problem != "" {
			return problem
		}
		expect := append(append([]kv{}, want[:at+1]...), want[at+2:]...)
		if !completed || !eqKV(seen, expect) {
			return fmt.Sprintf("%s (consumer deletes key %d while it is called for key %d) visited %v (completed=%v), model %v: a key deleted before the iteration reaches it is not live any more", o, victim, want[at].k, seen, completed, expect)
		}
		w.keys.del(victim)
		delete(w.vals, victim)
		w.everDeleted[victim] = true
		w.iterDelete = true
	case "ForEachAppend":
		// the callback, when it is called for the current tail, inserts a key that is not in the map: it becomes the new
		// tail and is live when the iteration advances, so it is visited as well
		want := w.want(false)
		var fresh E
		found := false
		for _, k := range w.universe {
			if !w.keys.has(k) {
				fresh, found = k, true

				break
			}
		}
		if len(want) == 0 || !found {
			break
		}
		var seen []kv
		f := func(k E, v uint32) bool {
			seen = append(seen, kv{k, v})
			if len(seen) == len(want) {
				m.Set(fresh, 77)
			}

			return true
		}
		completed := m.ForEach(f)
		expect := append(append([]kv{}, want...), kv{fresh, 77})
		if !completed || !eqKV(seen, expect) {
			return fmt.Sprintf("%s (consumer appends key %d while it is called for the tail) visited %v (completed=%v), model %v", o, fresh, seen, completed, expect)
		}
		if w.everDeleted[fresh] {
			w.reinserted = true
		}
		w.keys.add(fresh)
		w.vals[fresh] = 77
	case "ForEachScript":
		// the consumer mutates the map while the iteration is in progress: it deletes the entry it is called for, entries
		// before or behind it, sets old and new keys, clears the map. Validity predicate (like Go's own maps): every visited
		// entry is in the map, with that value, at the moment it is visited; visits follow the insertion order strictly (no
		// entry twice); every entry that was in the map from the start to the end of the iteration is visited; entries
		// inserted while it runs may or may not be visited.
		type ent struct {
			k   E
			v   uint32
			seq int
		}
		var live []ent
		for i, k := range w.keys.slice() {
			live = append(live, ent{k, w.vals[k], i})
		}
		nextSeq := len(live)
		find := func(k E) int {
			for i, e := range live {
				if e.k == k {
					return i
				}
			}
			return -1
		}
		modelMutate := func(mu iterMut) {
			switch mu.Kind {
			case "del":
				if i := find(mu.K); i >= 0 {
					live = append(live[:i:i], live[i+1:]...)
					w.everDeleted[mu.K] = true
				}
			case "set":
				if i := find(mu.K); i >= 0 {
					live[i].v = mu.V
				} else {
					live = append(live, ent{mu.K, mu.V, nextSeq})
					nextSeq++
				}
			default:
				for _, e := range live {
					w.everDeleted[e.k] = true
				}
				live = nil
			}
		}
		// the real run drives the reference: the consumer applies each scripted mutation to the map and to the model at the
		// same moment, and every visit is judged against the model as it is then
		atStart := map[E]int{}
		for _, e := range live {
			atStart[e.k] = e.seq
		}
		removedDuring := map[E]bool{}
		var seen []kv
		problem := ""
		lastSeq, haveLast := 0, false
		f := func(k E, v uint32) bool {
			seen = append(seen, kv{k, v})
			i := find(k)
			switch {
			case i < 0:
				problem = fmt.Sprintf("visit %d: key %d is not in the map at this moment (it was removed before the iteration reached it)", len(seen)-1, k)
			case live[i].v != v:
				problem = fmt.Sprintf("visit %d: key %d delivered with value %d, the map holds %d", len(seen)-1, k, v, live[i].v)
			case haveLast && !o.Reverse && live[i].seq <= lastSeq, haveLast && o.Reverse && live[i].seq >= lastSeq:
				problem = fmt.Sprintf("visit %d: key %d does not follow the previously visited entry in insertion order (visited twice or out of order)", len(seen)-1, k)
			}
			if i >= 0 {
				lastSeq, haveLast = live[i].seq, true
			}
			for _, mu := range o.Script {
				if mu.At != len(seen)-1 {
					continue
				}
				switch mu.Kind {
				case "del":
					if find(mu.K) >= 0 {
						removedDuring[mu.K] = true
					}
					m.Delete(mu.K)
				case "set":
					m.Set(mu.K, mu.V)
				default:
					for _, e := range live {
						removedDuring[e.k] = true
					}
					m.Clear()
				}
				modelMutate(mu)
			}

			return problem == "" && len(seen) < 64
		}
		if o.Reverse {
			m.ForEachReverse(f)
		} else {
			m.ForEach(f)
		}
		w.keys = newOset()
		w.vals = map[E]uint32{}
		for _, e := range live {
			w.keys.add(e.k)
			w.vals[e.k] = e.v
		}
		if problem == "" {
			// completeness: an entry that was in the map when the iteration started and was never removed while it ran has been
			// visited (entries inserted while it ran may or may not be visited)
			visited := map[E]bool{}
			for _, x := range seen {
				visited[x.k] = true
			}
			for k := range atStart {
				if !removedDuring[k] && !visited[k] {
					problem = fmt.Sprintf("key %d was in the map during the whole iteration but was not visited", k)
				}
			}
		}
		if problem != "" {
			return fmt.Sprintf("%s visited %v: %s", o, seen, problem)
		}
		expect := seen
		if len(o.Script) > 0 && len(expect) > 1 {
			w.iterDelete = true
		}
	case "Clear":
		m.Clear()
		for _, k := range w.keys.slice() {
			w.everDeleted[k] = true
		}
		w.keys = newOset()
		w.vals = map[E]uint32{}
	case "Clone":
		c := m.Clone()
		if got, want := collect(c, false), w.want(false); !eqKV(got, want) || c.Size() != len(want) {
			return fmt.Sprintf("Clone holds %v (size %d), model %v", got, c.Size(), want)
		}
		if got, want := collect(c, true), w.want(true); !eqKV(got, want) {
			return fmt.Sprintf("Clone in reverse holds %v, model %v", got, want)
		}
		// the clone is independent
		c.Set(o.K, o.V+1000)
		c.Delete(w.universe[(int(o.K)+1)%len(w.universe)])
	case "EncodeDecode":
		b, err := w.m.Encode(w.api)
		if err != nil {
			return fmt.Sprintf("Encode failed: %v", err)
		}
		fresh := serializableorderedmap.New[E, uint32]()
		n, err := fresh.Decode(w.api, b)
		if err != nil || n != len(b) {
			return fmt.Sprintf("Decode of %x consumed %d of %d bytes, err=%v", b, n, len(b), err)
		}
		if got, want := collect(fresh.OrderedMap, false), w.want(false); !eqKV(got, want) || fresh.Size() != len(want) {
			return fmt.Sprintf("Encode->Decode yields %v (size %d), model %v", got, fresh.Size(), want)
		}
		if got, want := collect(fresh.OrderedMap, true), w.want(true); !eqKV(got, want) {
			return fmt.Sprintf("Encode->Decode yields %v in reverse, model %v", got, want)
		}
	default:
		panic("unknown op " + o.Op)
	}

	return w.verify()
}

func (w *omapWorld) verify() string {
	m := w.m.OrderedMap
	if got, want := collect(m, false), w.want(false); !eqKV(got, want) {
		return fmt.Sprintf("ForEach visits %v, model (first-insertion order) %v", got, want)
	}
	if got, want := collect(m, true), w.want(true); !eqKV(got, want) {
		return fmt.Sprintf("ForEachReverse visits %v, model %v", got, want)
	}
	if m.Size() != w.keys.size() || m.IsEmpty() != (w.keys.size() == 0) {
		return fmt.Sprintf("Size()=%d IsEmpty()=%v, model size %d", m.Size(), m.IsEmpty(), w.keys.size())
	}
	hk, hv, hok := m.Head()
	tk, tv, tok := m.Tail()
	if w.keys.size() == 0 {
		if hok || tok {
			return fmt.Sprintf("Head/Tail of the empty map report exists=%v/%v", hok, tok)
		}
	} else {
		wh, wt := w.keys.order[0], w.keys.order[w.keys.size()-1]
		if !hok || hk != wh || hv != w.vals[wh] {
			return fmt.Sprintf("Head() = (%d,%d,%v), model (%d,%d,true)", hk, hv, hok, wh, w.vals[wh])
		}
		if !tok || tk != wt || tv != w.vals[wt] {
			return fmt.Sprintf("Tail() = (%d,%d,%v), model (%d,%d,true)", tk, tv, tok, wt, w.vals[wt])
		}
	}
	for _, k := range w.universe {
		v, ok := m.Get(k)
		if ok != w.keys.has(k) || m.Has(k) != ok || (ok && v != w.vals[k]) {
			return fmt.Sprintf("Get(%d) = (%d,%v) Has=%v, model (%d,%v)", k, v, ok, m.Has(k), w.vals[k], w.keys.has(k))
		}
	}

	return ""
}

func (w *omapWorld) nontrivial() bool { return w.reinserted && (w.overwrote || w.iterDelete) }

func (w *omapWorld) payload(problem string) map[string]any {
	return map[string]any{"universe": len(w.universe), "ops": append([]string(nil), w.log...), "problem": problem}
}

func TestOrderedMapModel(t *testing.T) {
	stats.Rule(checkOMap, "rapid state machine on one SerializableOrderedMap[uint16,uint32] (embeds OrderedMap) over a universe of 6-8 keys vs. a slice+map model; "+
		"actions Set/Get/Has/Delete/ForEach+ForEachReverse with early stop, with delete-current-key, delete-the-successor, append-at-the-tail and drawn scripts of 1-4 Delete/Set/Clear calls (any key) from inside the callback, judged by a validity predicate: only live entries, strictly in insertion order, nothing that stayed in the map is missed/Clear/Clone (+mutating the clone)/Encode->Decode into a fresh map; "+
		"after every action forward and reverse iteration (keys and values), Size, IsEmpty, Head, Tail and Get/Has of every universe key are compared; distinct by op list; "+
		"non-trivial = a deleted key was re-inserted while other keys were live AND (an existing non-tail key was overwritten OR a key was deleted from inside an iteration that continued)")

	rapid.Check(t, func(rt *rapid.T) {
		w := newOmapWorld(rapid.IntRange(6, 8).Draw(rt, "universe"))
		var labels []string
		failed := false
		lastClear := 0
		key := func() E { return E(rapid.IntRange(0, len(w.universe)-1).Draw(rt, "key")) }
		step := func(o mop) {
			labels = append(labels, "op:"+o.Op)
			if msg := w.apply(o); msg != "" {
				failed = true
				stats.Case(checkOMap, w.nontrivial(), strings.Join(w.log, ";"), func() any { return w.payload("") }, labels...)
				stats.Violation(checkOMap, w.payload(msg))
				rt.Fatalf("%s\nops: %v", msg, w.log)
			}
		}
		set := func(*rapid.T) { step(mop{Op: "Set", K: key(), V: uint32(rapid.IntRange(0, 99).Draw(rt, "value"))}) }
		del := func(*rapid.T) { step(mop{Op: "Delete", K: key()}) }
		rt.Repeat(map[string]func(*rapid.T){
			"Set":     set,
			"Set2":    set,
			"Set3":    set,
			"Delete":  del,
			"Delete2": del,
			"Get":     func(*rapid.T) { step(mop{Op: "Get", K: key()}) },
			"Has":     func(*rapid.T) { step(mop{Op: "Has", K: key()}) },
			"ForEachStop": func(*rapid.T) {
				step(mop{Op: "ForEachStop", N: rapid.IntRange(0, 7).Draw(rt, "stopAt"), Reverse: rapid.Bool().Draw(rt, "reverse")})
			},
			"ForEachDeleteNext": func(*rapid.T) {
				step(mop{Op: "ForEachDeleteNext", N: rapid.IntRange(0, 7).Draw(rt, "at"), Reverse: rapid.Bool().Draw(rt, "reverse")})
			},
			"ForEachAppend": func(*rapid.T) { step(mop{Op: "ForEachAppend"}) },
			"ForEachScript": func(*rapid.T) {
				var sc []iterMut
				for i, n := 0, rapid.IntRange(1, 4).Draw(rt, "muts"); i < n; i++ {
					sc = append(sc, iterMut{At: rapid.IntRange(0, 4).Draw(rt, "at"), Kind: rapid.SampledFrom([]string{"del", "del", "del", "set", "set", "clear"}).Draw(rt, "kind"),
						K: key(), V: uint32(rapid.IntRange(100, 199).Draw(rt, "v"))})
				}
				step(mop{Op: "ForEachScript", Script: sc, Reverse: rapid.Bool().Draw(rt, "reverse")})
			},
			"ForEachDelete": func(*rapid.T) {
				// mostly one or two keys so the map is not emptied all the time
				mask := 1 << rapid.IntRange(0, len(w.universe)-1).Draw(rt, "delKey")
				if rapid.Bool().Draw(rt, "two") {
					mask |= 1 << rapid.IntRange(0, len(w.universe)-1).Draw(rt, "delKey2")
				}
				if rapid.IntRange(0, 7).Draw(rt, "all") == 0 {
					mask = 1<<len(w.universe) - 1
				}
				step(mop{Op: "ForEachDelete", Mask: mask, Reverse: rapid.Bool().Draw(rt, "reverse")})
			},
			"Clear": func(*rapid.T) {
				if len(w.log)-lastClear < 15 {
					rt.Skip("keep Clear rare")
				}
				lastClear = len(w.log)
				step(mop{Op: "Clear"})
			},
			"Clone":        func(*rapid.T) { step(mop{Op: "Clone", K: key(), V: 7}) },
			"EncodeDecode": func(*rapid.T) { step(mop{Op: "EncodeDecode"}) },
		})
		if !failed {
			stats.Case(checkOMap, w.nontrivial(), strings.Join(w.log, ";"), func() any { return w.payload("") }, labels...)
		}
	})
}

package c12

import (
	"fmt"
	"testing"

	"github.com/iotaledger/hive.go/ds/walker"
	"pgregory.net/rapid"
	"verifharness/internal/stats"
)

const wkUniverse = 8

// walkerModel is the abstract walker: a queue plus the set of elements ever pushed since the last Reset.
type walkerModel struct {
	revisit bool
	queue   []int
	pushed  map[int]struct{}
	stopped bool
}

// admit reports whether a pushed element is queued: always with revisiting, otherwise only on first sight.
func (w *walkerModel) admit(x int) bool {
	_, seen := w.pushed[x]
	w.pushed[x] = struct{}{}
	return w.revisit || !seen
}

func (w *walkerModel) push(x int) {
	if w.admit(x) {
		w.queue = append(w.queue, x)
	}
}

// pushFront = pushing each element of the batch to the front, one after the other, skipping (not stopping
// at) elements that were already seen.
func (w *walkerModel) pushFront(xs ...int) {
	for _, x := range xs {
		if w.admit(x) {
			w.queue = append([]int{x}, w.queue...)
		}
	}
}

// The walker under test is a Walker[any]: element 0 of the universe is the nil interface value (a legal element of an
// interface-typed walker), every other element is the int itself.
func wkElem(x int) any {
	if x == 0 {
		return nil
	}

	return x
}

func wkElems(xs []int) []any {
	out := make([]any, len(xs))
	for i, x := range xs {
		out[i] = wkElem(x)
	}

	return out
}

func wkInt(e any) int {
	if e == nil {
		return 0
	}

	return e.(int)
}

// TestWalker: every pushed element is yielded once (every time with revisiting enabled) in queue order.
func TestWalker(t *testing.T) {
	const check = "walker"
	stats.Rule(check, "rapid state machine over walker.Walker[any], universe 0..7, revisit flag drawn; Push/PushAll/PushFront(batches of 0..4, repeats allowed)/Next (only while HasNext)/HasNext/Pushed/StopWalk/WalkStopped/Reset vs queue + pushed-set model, HasNext/WalkStopped/Pushed(whole universe) compared after every step and the queue drained at the end; non-trivial = an already seen element was pushed again (any push flavour) and a Next followed; distinct by (revisit, operation list)")
	rapid.Check(t, func(rt *rapid.T) {
		revisit := rapid.Bool().Draw(rt, "revisit")
		h := newHist(check, fmt.Sprintf("revisit=%v", revisit))
		defer h.guard(rt)
		var w *walker.Walker[any]
		if revisit {
			w = walker.New[any](true)
		} else if rapid.Bool().Draw(rt, "explicitFalse") {
			w = walker.New[any](false)
		} else {
			w = walker.New[any]()
		}
		m := &walkerModel{revisit: revisit, pushed: map[int]struct{}{}}
		elem := rapid.IntRange(0, wkUniverse-1)
		batch := rapid.SliceOfN(elem, 0, 4)
		repush, nextAfterRepush := false, false

		noteBatch := func(kind string, xs []int) {
			seenBefore := false
			local := map[int]struct{}{}
			for _, x := range xs {
				_, s := m.pushed[x]
				_, l := local[x]
				if s || l {
					repush = true
					seenBefore = true
					h.label(kind + "_seen_element")
				} else if seenBefore {
					h.label(kind + "_new_after_seen")
				}
				local[x] = struct{}{}
			}
		}

		acts := weighted{}
		acts.add("Push", 4, func(rt *rapid.T) {
			x := elem.Draw(rt, "x")
			noteBatch("push", []int{x})
			ret := w.Push(wkElem(x))
			h.op("Push(%d)", x)
			m.push(x)
			if ret != w {
				h.fail(rt, "Push did not return the walker")
			}
		})
		acts.add("PushAll", 2, func(rt *rapid.T) {
			xs := batch.Draw(rt, "xs")
			noteBatch("pushall", xs)
			ret := w.PushAll(wkElems(xs)...)
			h.op("PushAll(%v)", xs)
			for _, x := range xs {
				m.push(x)
			}
			if ret != w {
				h.fail(rt, "PushAll did not return the walker")
			}
		})
		acts.add("PushFront", 4, func(rt *rapid.T) {
			xs := batch.Draw(rt, "xs")
			noteBatch("pushfront", xs)
			ret := w.PushFront(wkElems(xs)...)
			h.op("PushFront(%v)", xs)
			m.pushFront(xs...)
			if ret != w {
				h.fail(rt, "PushFront did not return the walker")
			}
		})
		acts.add("Next", 6, func(rt *rapid.T) {
			if len(m.queue) == 0 || m.stopped {
				rt.Skip("nothing to visit")
			}
			if !w.HasNext() {
				h.op("HasNext()=false")
				h.fail(rt, "HasNext = false, model queue %v (stopped=%v)", m.queue, m.stopped)
			}
			got := wkInt(w.Next())
			h.op("Next()=%d", got)
			want := m.queue[0]
			m.queue = m.queue[1:]
			if repush {
				nextAfterRepush = true
			}
			if got != want {
				h.fail(rt, "Next = %d, want %d (rest of model queue %v)", got, want, m.queue)
			}
		})
		acts.add("StopWalk", 1, func(rt *rapid.T) {
			if rapid.IntRange(0, 2).Draw(rt, "really") != 0 {
				rt.Skip("thinned")
			}
			w.StopWalk()
			h.op("StopWalk()")
			m.stopped = true
			h.label("stopped")
		})
		acts.add("Reset", 1, func(rt *rapid.T) {
			if rapid.IntRange(0, 1).Draw(rt, "really") != 0 {
				rt.Skip("thinned")
			}
			w.Reset()
			h.op("Reset()")
			if len(m.queue) > 0 {
				h.label("reset_with_pending")
			}
			m.queue, m.pushed, m.stopped = nil, map[int]struct{}{}, false
		})
		acts[""] = func(rt *rapid.T) {
			if got, want := w.HasNext(), len(m.queue) > 0 && !m.stopped; got != want {
				h.fail(rt, "HasNext = %v, want %v (model queue %v, stopped=%v)", got, want, m.queue, m.stopped)
			}
			if got := w.WalkStopped(); got != m.stopped {
				h.fail(rt, "WalkStopped = %v, want %v", got, m.stopped)
			}
			for x := 0; x < wkUniverse; x++ {
				_, want := m.pushed[x]
				if got := w.Pushed(wkElem(x)); got != want {
					h.fail(rt, "Pushed(%d) = %v, want %v", x, got, want)
				}
			}
		}
		rt.Repeat(acts)
		// drain: the rest of the walk must come out in queue order
		if !m.stopped {
			for len(m.queue) > 0 {
				if !w.HasNext() {
					h.op("drain HasNext()=false")
					h.fail(rt, "HasNext = false while draining, model queue %v", m.queue)
				}
				got := wkInt(w.Next())
				h.op("drain Next()=%d", got)
				want := m.queue[0]
				m.queue = m.queue[1:]
				if got != want {
					h.fail(rt, "draining Next = %d, want %d (rest of model queue %v)", got, want, m.queue)
				}
			}
			if w.HasNext() {
				h.op("drain HasNext()=true")
				h.fail(rt, "HasNext = true after the model queue was drained")
			}
		}
		h.done(repush && nextAfterRepush)
	})
}

package c04

import (
	"bytes"
	"errors"
	"fmt"
	"sort"
	"strings"
	"testing"

	"github.com/iotaledger/hive.go/kvstore"
	"github.com/iotaledger/hive.go/kvstore/debug"
	"github.com/iotaledger/hive.go/kvstore/flushkv"
	"github.com/iotaledger/hive.go/kvstore/mapdb"
	"pgregory.net/rapid"
	"verifharness/internal/stats"
)

const checkName = "view_tree_model"

const (
	maxViews   = 8
	maxBatches = 4
)

var stacks = []string{"mapdb", "flush(mapdb)", "debug(mapdb)", "flush(debug(mapdb))", "debug(flush(mapdb))"}

var alphabet = []byte{0x00, 0x01, 'a', 0xff}

type view struct {
	st    kvstore.KVStore
	realm []byte
	name  string
}

type bop struct {
	del bool
	val []byte
}

type batch struct {
	h         kvstore.BatchedMutations
	view      int
	ops       map[string]bop // last operation per (view-relative) key
	bufs      [][]byte       // caller buffers handed to Set/Delete since the last Cancel
	committed bool           // Commit returned nil; the handle is only reused after Cancel (as mapdb's own test does)
	touchedSD bool           // some key was both set and deleted in the pending content
	sets      map[string]bool
	dels      map[string]bool
	name      string
	dead      bool // Commit failed with ErrStoreClosed at least once (store closed); still used for the matrix
}

type machine struct {
	stack   string
	dbgMode string
	views   []*view
	batches []*batch
	mod     *refModel
	log     []string
	labels  map[string]bool
	step    int

	ntCross, ntBatchSD, ntAfterClose bool
	dbgCalls                         int
	closeAfter                       int  // Close is not drawn before this many steps (keeps long open histories frequent)
	bulks                            int  // bulkSet actions so far (at most 1 per history)
	bulkAllowed                      bool // drawn per history (1 in 4): large stores make every later step slower
}

func (m *machine) label(l string) { m.labels[l] = true }

func (m *machine) act(format string, a ...any) {
	m.log = append(m.log, fmt.Sprintf(format, a...))
	if m.mod.closed {
		m.ntAfterClose = true
	}
}

func (m *machine) fail(t *rapid.T, format string, a ...any) {
	msg := fmt.Sprintf(format, a...)
	stats.Violation(checkName, map[string]any{
		"stack":   m.stack,
		"debug":   m.dbgMode,
		"actions": m.log,
		"problem": msg,
		"model":   renderKVs(m.mod.scan(nil, nil, false), false),
	})
	t.Fatalf("%s\nstack=%s debug=%s\nactions:\n  %s", msg, m.stack, m.dbgMode, strings.Join(m.log, "\n  "))
}

// ---------------------------------------------------------------------------------------------------------------------
// generators

func genBytes(t *rapid.T, label string) []byte {
	b := rapid.SliceOfN(rapid.SampledFrom(alphabet), 0, 3).Draw(t, label)
	if len(b) == 0 && rapid.Bool().Draw(t, label+"Nil") {
		return nil
	}
	return b
}

func genValue(t *rapid.T) []byte {
	b := rapid.SliceOfN(rapid.Byte(), 0, 4).Draw(t, "val")
	if len(b) == 0 && rapid.Bool().Draw(t, "valNil") {
		return nil
	}
	return b
}

// genKey draws a key for view v: half of the time one that exists inside the view's realm (whoever wrote it).
func (m *machine) genKey(t *rapid.T, v *view) []byte {
	if rapid.Bool().Draw(t, "existing") {
		if c := m.mod.fullKeys(string(v.realm)); len(c) > 0 {
			fk := rapid.SampledFrom(c).Draw(t, "fk")
			return []byte(fk[len(v.realm):])
		}
	}
	return genBytes(t, "key")
}

// genPrefix draws a prefix for view v: half of the time a (possibly empty / full) prefix of an existing key of the
// realm, which makes prefixes that end before, at or behind a nested view's realm boundary frequent.
func (m *machine) genPrefix(t *rapid.T, v *view, preferNonEmpty bool) []byte {
	if rapid.IntRange(0, 2).Draw(t, "existing") > 0 {
		if c := m.mod.fullKeys(string(v.realm)); len(c) > 0 {
			k := []byte(rapid.SampledFrom(c).Draw(t, "fk")[len(v.realm):])
			lo := 0
			if preferNonEmpty && len(k) > 0 && rapid.IntRange(0, 3).Draw(t, "nonEmpty") > 0 {
				lo = 1
			}
			n := rapid.IntRange(lo, len(k)).Draw(t, "cut")
			return clone(k[:n])
		}
	}
	return genBytes(t, "prefix")
}

// genRealm draws a realm that is frequently related to an existing view's realm.
func (m *machine) genRealm(t *rapid.T) []byte {
	switch rapid.IntRange(0, 5).Draw(t, "realmMode") {
	case 0: // extension of an existing realm by one symbol
		o := m.views[rapid.IntRange(0, len(m.views)-1).Draw(t, "of")]
		return append(clone(o.realm), rapid.SampledFrom(alphabet).Draw(t, "sym"))
	case 1: // prefix of an existing realm
		o := m.views[rapid.IntRange(0, len(m.views)-1).Draw(t, "of")]
		return clone(o.realm[:rapid.IntRange(0, len(o.realm)).Draw(t, "cut")])
	case 2: // empty
		if rapid.Bool().Draw(t, "nil") {
			return nil
		}
		return []byte{}
	default:
		return genBytes(t, "realm")
	}
}

func (m *machine) pickView(t *rapid.T) (int, *view) {
	i := rapid.IntRange(0, len(m.views)-1).Draw(t, "view")
	return i, m.views[i]
}

// ---------------------------------------------------------------------------------------------------------------------
// construction

func (m *machine) dbgCallback() debug.AccessCallback {
	return func(command debug.Command, parameters ...[]byte) { m.dbgCalls++ }
}

func (m *machine) wrapDebug(s kvstore.KVStore) kvstore.KVStore {
	switch m.dbgMode {
	case "nil-callback":
		return debug.New(s, nil)
	case "filtered":
		return debug.New(s, m.dbgCallback(), debug.SetCommand, debug.IterateCommand)
	default:
		return debug.New(s, m.dbgCallback())
	}
}

func (m *machine) build(stack string) kvstore.KVStore {
	switch stack {
	case "mapdb":
		return mapdb.NewMapDB()
	case "flush(mapdb)":
		return flushkv.New(mapdb.NewMapDB())
	case "debug(mapdb)":
		return m.wrapDebug(mapdb.NewMapDB())
	case "flush(debug(mapdb))":
		return flushkv.New(m.wrapDebug(mapdb.NewMapDB()))
	case "debug(flush(mapdb))":
		return m.wrapDebug(flushkv.New(mapdb.NewMapDB()))
	}
	panic("unknown stack " + stack)
}

// ---------------------------------------------------------------------------------------------------------------------
// actions

func isClosedErr(err error) bool { return errors.Is(err, kvstore.ErrStoreClosed) }

func (m *machine) noteRealmRelations() {
	for _, a := range m.views {
		for _, b := range m.views {
			if a == b {
				continue
			}
			if len(a.realm) < len(b.realm) && bytes.HasPrefix(b.realm, a.realm) {
				if len(a.realm) > 0 {
					m.label("views:nonempty_realm_is_strict_prefix_of_other")
				} else {
					m.label("views:empty_realm_and_nested")
				}
			}
			if bytes.Equal(a.realm, b.realm) {
				m.label("views:two_views_same_realm")
			}
		}
	}
}

func (m *machine) newView(t *rapid.T, extended bool) {
	if len(m.views) >= maxViews && !m.mod.closed {
		t.Skip()
	}
	pi, p := m.pickView(t)
	r := m.genRealm(t)
	arg := clone(r)
	var (
		st   kvstore.KVStore
		err  error
		want []byte
		name = fmt.Sprintf("v%d", len(m.views))
	)
	if extended {
		m.act("%s = v%d.WithExtendedRealm(%s)", name, pi, hx(r))
		st, err = p.st.WithExtendedRealm(arg)
		want = append(clone(p.realm), r...)
	} else {
		m.act("%s = v%d.WithRealm(%s)", name, pi, hx(r))
		st, err = p.st.WithRealm(arg)
		want = clone(r)
	}
	if m.mod.closed {
		if !isClosedErr(err) {
			m.fail(t, "view creation on closed store: err=%v, want ErrStoreClosed", err)
		}
		return
	}
	if err != nil {
		m.fail(t, "view creation failed on open store: %v", err)
	}
	if got := st.Realm(); !bytes.Equal(got, want) {
		m.fail(t, "new view reports realm %s, want %s", hx(got), hx(want))
	}
	m.views = append(m.views, &view{st: st, realm: want, name: name})
	if len(want) == 0 {
		m.label("views:child_with_empty_realm")
	}
	m.noteRealmRelations()
}

// wrap puts a further wrapper around an existing view (same realm): wrappers may sit anywhere in the tree.
func (m *machine) wrap(t *rapid.T) {
	if len(m.views) >= maxViews || m.mod.closed {
		t.Skip()
	}
	pi, p := m.pickView(t)
	name := fmt.Sprintf("v%d", len(m.views))
	var st kvstore.KVStore
	if rapid.Bool().Draw(t, "flush") {
		m.act("%s = flushkv.New(v%d)", name, pi)
		st = flushkv.New(p.st)
	} else {
		m.act("%s = debug.New(v%d)", name, pi)
		st = m.wrapDebug(p.st)
	}
	m.views = append(m.views, &view{st: st, realm: clone(p.realm), name: name})
	m.label("views:wrapper_inside_tree")
	m.noteRealmRelations()
}

func (m *machine) realm(t *rapid.T) {
	vi, v := m.pickView(t)
	m.act("v%d.Realm()", vi)
	got := v.st.Realm()
	if !m.mod.closed && !bytes.Equal(got, v.realm) {
		m.fail(t, "v%d.Realm() = %s, want %s", vi, hx(got), hx(v.realm))
	}
}

func (m *machine) keyLabels(k []byte) {
	if len(k) == 0 {
		m.label("key:empty")
	} else if k[len(k)-1] == 0xff {
		m.label("key:ff_terminated")
	}
}

func (m *machine) get(t *rapid.T) {
	vi, v := m.pickView(t)
	k := m.genKey(t, v)
	m.act("v%d.Get(%s)", vi, hx(k))
	m.keyLabels(k)
	got, err := v.st.Get(clone(k))
	if m.mod.closed {
		if !isClosedErr(err) {
			m.fail(t, "Get on closed store: err=%v, want ErrStoreClosed", err)
		}
		return
	}
	want, ok := m.mod.get(v.realm, k)
	if !ok {
		if !errors.Is(err, kvstore.ErrKeyNotFound) {
			m.fail(t, "v%d.Get(%s) of a missing key: value=%s err=%v, want ErrKeyNotFound", vi, hx(k), hx(got), err)
		}
		m.label("get:miss")
		return
	}
	if err != nil || !bytes.Equal(got, want) {
		m.fail(t, "v%d.Get(%s) = %s, %v; want %s", vi, hx(k), hx(got), err, hx(want))
	}
	m.label("get:hit")
	if m.mod.writer[full(v.realm, k)] != string(v.realm) {
		m.label("get:hit_written_through_other_realm")
	}
	// aliasing probe: the returned slice is ours now
	scribble(got)
}

func (m *machine) has(t *rapid.T) {
	vi, v := m.pickView(t)
	k := m.genKey(t, v)
	m.act("v%d.Has(%s)", vi, hx(k))
	m.keyLabels(k)
	got, err := v.st.Has(clone(k))
	if m.mod.closed {
		if !isClosedErr(err) {
			m.fail(t, "Has on closed store: err=%v, want ErrStoreClosed", err)
		}
		return
	}
	_, want := m.mod.get(v.realm, k)
	if err != nil || got != want {
		m.fail(t, "v%d.Has(%s) = %v, %v; want %v", vi, hx(k), got, err, want)
	}
}

func (m *machine) valueLabels(v []byte) {
	if v == nil {
		m.label("value:nil")
	} else if len(v) == 0 {
		m.label("value:empty")
	}
}

func (m *machine) set(t *rapid.T) {
	vi, v := m.pickView(t)
	k := m.genKey(t, v)
	val := genValue(t)
	m.act("v%d.Set(%s, %s)", vi, hx(k), hx(val))
	m.keyLabels(k)
	m.valueLabels(val)
	kb, vb := clone(k), clone(val)
	err := v.st.Set(kb, vb)
	// aliasing probe: Set has returned, the buffers are the caller's again
	scribble(kb)
	scribble(vb)
	if m.mod.closed {
		if !isClosedErr(err) {
			m.fail(t, "Set on closed store: err=%v, want ErrStoreClosed", err)
		}
		return
	}
	if err != nil {
		m.fail(t, "v%d.Set(%s) failed: %v", vi, hx(k), err)
	}
	if _, ok := m.mod.get(v.realm, k); ok {
		m.label("set:overwrite")
	}
	m.mod.set(v.realm, k, val)
}

// bulkSet writes 258..330 keys <prefix><hi><lo> through one view (and into the model): iterations, prefix deletions and
// scans then run over more entries than any fixed-size chunk or small buffer of an implementation holds, and a consumer
// that stops early stops in front of most of them.
func (m *machine) bulkSet(t *rapid.T) {
	if m.mod.closed || m.bulks >= 1 || !m.bulkAllowed {
		t.Skip("one bulk write per history, on an open store")
	}
	m.bulks++
	vi, v := m.pickView(t)
	prefix := rapid.SliceOfN(rapid.SampledFrom(alphabet), 0, 1).Draw(t, "bulkPrefix")
	n := rapid.IntRange(258, 330).Draw(t, "bulkN")
	m.act("v%d.Set(%s||i, i) for i<%d", vi, hx(prefix), n)
	m.label("bulk:set_258_to_330_keys")
	for i := 0; i < n; i++ {
		k := append(clone(prefix), byte(i>>8), byte(i))
		val := []byte{byte(i >> 8), byte(i)}
		if err := v.st.Set(clone(k), clone(val)); err != nil {
			m.fail(t, "v%d.Set(%s) failed: %v", vi, hx(k), err)
		}
		m.mod.set(v.realm, k, val)
	}
}

func (m *machine) delete(t *rapid.T) {
	vi, v := m.pickView(t)
	k := m.genKey(t, v)
	m.act("v%d.Delete(%s)", vi, hx(k))
	m.keyLabels(k)
	err := v.st.Delete(clone(k))
	if m.mod.closed {
		if !isClosedErr(err) {
			m.fail(t, "Delete on closed store: err=%v, want ErrStoreClosed", err)
		}
		return
	}
	if err != nil {
		m.fail(t, "v%d.Delete(%s) failed: %v", vi, hx(k), err)
	}
	if _, ok := m.mod.get(v.realm, k); ok {
		m.label("delete:existing")
	} else {
		m.label("delete:missing")
	}
	m.mod.del(v.realm, k)
}

// prefixLabels classifies a prefix operation on view v (before it is applied to the model).
func (m *machine) prefixLabels(op string, v *view, p []byte) {
	fp := full(v.realm, p)
	matched := m.mod.fullKeys(fp)
	if len(matched) > 0 {
		m.label(op + ":matches_some")
	} else {
		m.label(op + ":matches_none")
	}
	if len(p) == 0 {
		m.label(op + ":empty_prefix")
	} else if p[len(p)-1] == 0xff {
		m.label(op + ":ff_terminated_prefix")
	}
	if m.mod.crossRealmHit(v.realm, p) {
		m.label(op + ":matches_keys_written_through_nested_realms")
		if op != "clear" {
			m.ntCross = true
		}
	}
	// does realm||prefix end strictly inside / exactly at / behind another view's realm?
	for _, o := range m.views {
		or := string(o.realm)
		if len(or) <= len(v.realm) || !strings.HasPrefix(or, string(v.realm)) || len(p) == 0 {
			continue
		}
		switch {
		case len(fp) < len(or) && strings.HasPrefix(or, fp):
			m.label(op + ":prefix_ends_inside_nested_realm")
		case fp == or:
			m.label(op + ":prefix_ends_at_nested_realm_boundary")
		case strings.HasPrefix(fp, or):
			m.label(op + ":prefix_straddles_nested_realm_boundary")
		}
	}
	// keys of the whole store that do NOT belong to the view but share bytes with realm||prefix
	if len(matched) < len(m.mod.m) {
		m.label(op + ":store_has_keys_outside")
	}
}

func (m *machine) deletePrefix(t *rapid.T) {
	vi, v := m.pickView(t)
	p := m.genPrefix(t, v, true)
	m.act("v%d.DeletePrefix(%s)", vi, hx(p))
	err := v.st.DeletePrefix(clone(p))
	if m.mod.closed {
		if !isClosedErr(err) {
			m.fail(t, "DeletePrefix on closed store: err=%v, want ErrStoreClosed", err)
		}
		return
	}
	if err != nil {
		m.fail(t, "v%d.DeletePrefix(%s) failed: %v", vi, hx(p), err)
	}
	m.prefixLabels("deleteprefix", v, p)
	m.mod.deletePrefix(v.realm, p)
}

func (m *machine) clear(t *rapid.T) {
	vi, v := m.pickView(t)
	m.act("v%d.Clear()", vi)
	err := v.st.Clear()
	if m.mod.closed {
		if !isClosedErr(err) {
			m.fail(t, "Clear on closed store: err=%v, want ErrStoreClosed", err)
		}
		return
	}
	if err != nil {
		m.fail(t, "v%d.Clear() failed: %v", vi, err)
	}
	m.prefixLabels("clear", v, nil)
	m.mod.deletePrefix(v.realm, nil)
}

func (m *machine) flush(t *rapid.T) {
	vi, v := m.pickView(t)
	m.act("v%d.Flush()", vi)
	err := v.st.Flush()
	if m.mod.closed {
		if !isClosedErr(err) {
			m.fail(t, "Flush on closed store: err=%v, want ErrStoreClosed", err)
		}
		return
	}
	if err != nil {
		m.fail(t, "v%d.Flush() failed: %v", vi, err)
	}
}

var dirNames = []string{"default", "forward", "backward"}

func dirArgs(mode int) []kvstore.IterDirection {
	switch mode {
	case 1:
		return []kvstore.IterDirection{kvstore.IterDirectionForward}
	case 2:
		return []kvstore.IterDirection{kvstore.IterDirectionBackward}
	}
	return nil
}

// runIterate performs one Iterate / IterateKeys call; stop = 0 means the consumer never stops, otherwise it
// returns false on its stop-th invocation. It returns the observed entries, the number of consumer calls, the error.
func runIterate(st kvstore.KVStore, keysOnly bool, prefix []byte, dirMode int, stop int) ([]kv, int, error) {
	var got []kv
	calls := 0
	pb := clone(prefix)
	var err error
	if keysOnly {
		err = st.IterateKeys(pb, func(k kvstore.Key) bool {
			calls++
			got = append(got, kv{k: clone(k)})
			scribble(k) // aliasing probe
			return stop == 0 || calls < stop
		}, dirArgs(dirMode)...)
	} else {
		err = st.Iterate(pb, func(k kvstore.Key, v kvstore.Value) bool {
			calls++
			got = append(got, kv{k: clone(k), v: clone(v)})
			scribble(k) // aliasing probe
			scribble(v)
			return stop == 0 || calls < stop
		}, dirArgs(dirMode)...)
	}
	return got, calls, err
}

func (m *machine) iterate(t *rapid.T, keysOnly bool) {
	vi, v := m.pickView(t)
	p := m.genPrefix(t, v, false)
	dirMode := rapid.IntRange(0, 2).Draw(t, "dir")
	stop := 0
	if rapid.Bool().Draw(t, "stops") {
		stop = rapid.IntRange(1, 4).Draw(t, "stopAfter")
		if m.bulks > 0 && rapid.IntRange(0, 3).Draw(t, "farStop") == 0 {
			stop = rapid.SampledFrom([]int{255, 256, 257, 300}).Draw(t, "stopAfterFar")
		}
	}
	fn := "Iterate"
	if keysOnly {
		fn = "IterateKeys"
	}
	m.act("v%d.%s(%s, %s, stopAfter=%d)", vi, fn, hx(p), dirNames[dirMode], stop)
	got, calls, err := runIterate(v.st, keysOnly, p, dirMode, stop)
	if m.mod.closed {
		if !isClosedErr(err) || calls != 0 {
			m.fail(t, "%s on closed store: err=%v consumer calls=%d, want ErrStoreClosed and no call", fn, err, calls)
		}
		return
	}
	want := m.mod.scan(v.realm, p, dirMode == 2)
	all := len(want)
	if stop > 0 && len(want) > stop {
		want = want[:stop]
	}
	if err != nil || calls != len(want) || !sameKVs(got, want, keysOnly) {
		m.fail(t, "v%d.%s(%s, %s, stopAfter=%d): err=%v, %d consumer calls, entries %v; want %d calls, entries %v",
			vi, fn, hx(p), dirNames[dirMode], stop, err, calls, renderKVs(got, keysOnly), len(want), renderKVs(want, keysOnly))
	}
	op := "iterate"
	m.prefixLabels(op, v, p)
	if dirMode == 2 {
		m.label("iterate:backward")
		if all >= 2 {
			m.label("iterate:backward_2plus_entries")
		}
	}
	if stop > 0 && all > stop {
		m.label("iterate:consumer_stopped_early")
		if all > 256 {
			m.label("iterate:consumer_stopped_early_in_more_than_256_entries")
		}
	}
	if stop > 0 && all == stop {
		m.label("iterate:consumer_stopped_on_last_entry")
	}
	if len(v.realm) > 0 && all > 0 {
		m.label("iterate:nonempty_realm_stripped")
	}
}

// --- batches

func (m *machine) newBatch(t *rapid.T) {
	if len(m.batches) >= maxBatches && !m.mod.closed {
		t.Skip()
	}
	vi, v := m.pickView(t)
	name := fmt.Sprintf("b%d", len(m.batches))
	m.act("%s = v%d.Batched()", name, vi)
	h, err := v.st.Batched()
	if m.mod.closed {
		if !isClosedErr(err) {
			m.fail(t, "Batched on closed store: err=%v, want ErrStoreClosed", err)
		}
		return
	}
	if err != nil {
		m.fail(t, "v%d.Batched() failed: %v", vi, err)
	}
	m.batches = append(m.batches, &batch{h: h, view: vi, ops: map[string]bop{}, sets: map[string]bool{}, dels: map[string]bool{}, name: name})
	open := 0
	for _, b := range m.batches {
		if !b.committed {
			open++
		}
	}
	if open >= 2 {
		m.label("batch:several_open")
	}
}

// pickBatch picks a batch handle; wantOpen selects handles that may take Set/Delete/Commit (not committed).
func (m *machine) pickBatch(t *rapid.T, usable func(*batch) bool) (int, *batch) {
	var idx []int
	for i, b := range m.batches {
		if usable(b) {
			idx = append(idx, i)
		}
	}
	if len(idx) == 0 {
		t.Skip()
	}
	i := rapid.SampledFrom(idx).Draw(t, "batch")
	return i, m.batches[i]
}

func (m *machine) batchSet(t *rapid.T) {
	bi, b := m.pickBatch(t, func(b *batch) bool { return !b.committed })
	v := m.views[b.view]
	var k []byte
	if len(b.ops) > 0 && rapid.IntRange(0, 2).Draw(t, "again") == 0 {
		k = []byte(rapid.SampledFrom(sortedKeys(b.ops)).Draw(t, "bkey"))
	} else {
		k = m.genKey(t, v)
	}
	val := genValue(t)
	m.act("b%d.Set(%s, %s)", bi, hx(k), hx(val))
	m.keyLabels(k)
	m.valueLabels(val)
	kb, vb := clone(k), clone(val)
	err := b.h.Set(kb, vb)
	b.bufs = append(b.bufs, kb, vb)
	if m.mod.closed {
		return // result after Close is not asserted
	}
	if err != nil {
		m.fail(t, "b%d.Set failed: %v", bi, err)
	}
	b.ops[string(k)] = bop{val: clone(val)}
	b.sets[string(k)] = true
	if b.dels[string(k)] {
		b.touchedSD = true
		m.label("batch:set_after_delete_same_key")
	}
}

func (m *machine) batchDelete(t *rapid.T) {
	bi, b := m.pickBatch(t, func(b *batch) bool { return !b.committed })
	v := m.views[b.view]
	var k []byte
	if len(b.ops) > 0 && rapid.IntRange(0, 1).Draw(t, "again") == 0 {
		k = []byte(rapid.SampledFrom(sortedKeys(b.ops)).Draw(t, "bkey"))
	} else {
		k = m.genKey(t, v)
	}
	m.act("b%d.Delete(%s)", bi, hx(k))
	m.keyLabels(k)
	kb := clone(k)
	err := b.h.Delete(kb)
	b.bufs = append(b.bufs, kb)
	if m.mod.closed {
		return
	}
	if err != nil {
		m.fail(t, "b%d.Delete failed: %v", bi, err)
	}
	b.ops[string(k)] = bop{del: true}
	b.dels[string(k)] = true
	if b.sets[string(k)] {
		b.touchedSD = true
		m.label("batch:delete_after_set_same_key")
	}
}

func (m *machine) batchCancel(t *rapid.T) {
	bi, b := m.pickBatch(t, func(b *batch) bool { return true })
	m.act("b%d.Cancel()", bi)
	if len(b.ops) > 0 && !b.committed {
		m.label("batch:cancel_with_pending_ops")
	}
	if b.committed {
		m.label("batch:cancel_after_commit_then_reuse")
	}
	b.h.Cancel()
	for _, buf := range b.bufs {
		scribble(buf) // nothing may be stored from a cancelled batch
	}
	b.bufs = nil
	b.ops = map[string]bop{}
	b.sets, b.dels = map[string]bool{}, map[string]bool{}
	b.touchedSD = false
	b.committed = false
}

func (m *machine) batchCommit(t *rapid.T) {
	bi, b := m.pickBatch(t, func(b *batch) bool { return !b.committed })
	v := m.views[b.view]
	m.act("b%d.Commit()", bi)
	err := b.h.Commit()
	if m.mod.closed {
		if !isClosedErr(err) {
			m.fail(t, "batch Commit on closed store: err=%v, want ErrStoreClosed", err)
		}
		b.dead = true
		return
	}
	if err != nil {
		m.fail(t, "b%d.Commit() failed: %v", bi, err)
	}
	// aliasing probe: Commit has returned, the caller may reuse every buffer it handed to the batch
	for _, buf := range b.bufs {
		scribble(buf)
	}
	b.bufs = nil
	for _, k := range sortedKeys(b.ops) {
		o := b.ops[k]
		if o.del {
			m.mod.del(v.realm, []byte(k))
		} else {
			m.mod.set(v.realm, []byte(k), o.val)
		}
	}
	if b.touchedSD {
		m.ntBatchSD = true
		m.label("batch:committed_with_set_and_delete_of_one_key")
	}
	if len(b.ops) == 0 {
		m.label("batch:commit_empty")
	} else {
		m.label("batch:commit_nonempty")
	}
	for _, o := range m.batches {
		if o != b && !o.committed && len(o.ops) > 0 {
			m.label("batch:commit_while_other_batch_pending")
		}
	}
	b.committed = true
}

func sortedKeys(m map[string]bop) []string {
	out := make([]string, 0, len(m))
	for k := range m {
		out = append(out, k)
	}
	sort.Strings(out)
	return out
}

// --- close

func (m *machine) close(t *rapid.T) {
	if m.step < m.closeAfter {
		t.Skip()
	}
	vi, v := m.pickView(t)
	m.act("v%d.Close()", vi)
	if m.mod.closed {
		m.label("close:again")
	}
	if err := v.st.Close(); err != nil {
		m.fail(t, "v%d.Close() = %v, want nil", vi, err)
	}
	m.mod.closed = true
	m.label("closed")
	if vi != 0 {
		m.label("close:through_child_view")
	}
	m.closedMatrix(t)
}

// closedMatrix: after Close every read, write, iteration, view creation, batch creation, Flush and batch Commit
// call on EVERY view / batch handle must fail with ErrStoreClosed.
func (m *machine) closedMatrix(t *rapid.T) {
	k, val := []byte{'a'}, []byte{1}
	for i, v := range m.views {
		chk := func(op string, err error) {
			if !isClosedErr(err) {
				m.fail(t, "after Close: v%d.%s returned err=%v, want ErrStoreClosed", i, op, err)
			}
		}
		_, err := v.st.Get(clone(k))
		chk("Get", err)
		_, err = v.st.Has(clone(k))
		chk("Has", err)
		chk("Set", v.st.Set(clone(k), clone(val)))
		chk("Delete", v.st.Delete(clone(k)))
		chk("DeletePrefix", v.st.DeletePrefix(clone(k)))
		chk("Clear", v.st.Clear())
		calls := 0
		chk("Iterate", v.st.Iterate(kvstore.EmptyPrefix, func(kvstore.Key, kvstore.Value) bool { calls++; return true }))
		chk("IterateKeys", v.st.IterateKeys(kvstore.EmptyPrefix, func(kvstore.Key) bool { calls++; return true }))
		if calls != 0 {
			m.fail(t, "after Close: v%d iteration called the consumer %d times", i, calls)
		}
		_, err = v.st.WithRealm(clone(k))
		chk("WithRealm", err)
		_, err = v.st.WithExtendedRealm(clone(k))
		chk("WithExtendedRealm", err)
		_, err = v.st.Batched()
		chk("Batched", err)
		chk("Flush", v.st.Flush())
	}
	for i, b := range m.batches {
		if b.committed {
			continue // a committed handle is only touched again through Cancel
		}
		if err := b.h.Commit(); !isClosedErr(err) {
			m.fail(t, "after Close: b%d.Commit() returned err=%v, want ErrStoreClosed", i, err)
		}
		b.dead = true
	}
}

// --- invariant: every view, fully scanned, equals the model's restriction to its realm

func (m *machine) invariant(t *rapid.T) {
	m.step++
	if m.mod.closed {
		if m.step%8 == 0 {
			m.closedMatrix(t)
		}
		return
	}
	for i, v := range m.views {
		// the root view (whole store) is scanned after every action (every fourth action once a bulk write made the
		// store large), the others in rotation; direction and Iterate/IterateKeys alternate
		if i != 0 && (m.step+i)%3 != 0 {
			continue
		}
		if m.bulks > 0 && (m.step+i)%4 != 0 {
			continue
		}
		backward := (m.step+i)%2 == 0
		keysOnly := (m.step/2+i)%2 == 0
		dirMode := 1
		if backward {
			dirMode = 2
		}
		got, _, err := runIterate(v.st, keysOnly, nil, dirMode, 0)
		want := m.mod.scan(v.realm, nil, backward)
		if err != nil || !sameKVs(got, want, keysOnly) {
			m.fail(t, "full scan of v%d (realm %s, %s, keysOnly=%v): err=%v entries %v; want %v", i, hx(v.realm),
				dirNames[dirMode], keysOnly, err, renderKVs(got, keysOnly), renderKVs(want, keysOnly))
		}
	}
}

// ---------------------------------------------------------------------------------------------------------------------

func TestViewTreeModel(t *testing.T) {
	stats.Rule(checkName, "rapid state machine: wrapper stack from {mapdb, flush(mapdb), debug(mapdb), flush(debug(mapdb)), debug(flush(mapdb))} (+ wrappers "+
		"inserted around inner views), view tree grown by WithRealm/WithExtendedRealm with realms biased to be empty/equal/prefixes/extensions of existing realms, "+
		"keys/prefixes/realms of length 0-3 over {00,01,'a',ff} (half of the keys/prefixes derived from keys present in the view), values 0-4 bytes incl. nil/empty; "+
		"actions Get/Has/Set/Delete/DeletePrefix/Clear/Iterate/IterateKeys(prefix,dir,stopAfter)/Realm/Flush/Batched+Set/Delete/Cancel/Commit/Close; every result "+
		"compared with ONE sorted map keyed by realm||key, root view fully scanned after every action (other views in rotation, both directions), caller buffers "+
		"scribbled after Set/Commit, returned slices scribbled after Get/iterate; full ErrStoreClosed matrix on every view and batch after Close. "+
		"non-trivial = (iterate/DeletePrefix whose prefix matches keys written through two views with one realm a strict prefix of the other) OR (committed batch that "+
		"set and deleted one key) OR (any action after Close); distinct by canonical action list")
	rapid.Check(t, func(rt *rapid.T) {
		m := &machine{mod: newRefModel(), labels: map[string]bool{}}
		m.stack = rapid.SampledFrom(stacks).Draw(rt, "stack")
		m.dbgMode = "-"
		if strings.Contains(m.stack, "debug") {
			m.dbgMode = rapid.SampledFrom([]string{"callback", "callback", "nil-callback", "filtered"}).Draw(rt, "debugMode")
		}
		m.closeAfter = rapid.IntRange(0, 100).Draw(rt, "closeAfter")
		m.bulkAllowed = rapid.IntRange(0, 3).Draw(rt, "bulkAllowed") == 0
		m.views = []*view{{st: m.build(m.stack), realm: nil, name: "v0"}}
		m.log = append(m.log, "v0 = "+m.stack)
		// a few views up front, so that most histories run on a real tree from the first write on
		for i, n := 0, rapid.IntRange(0, 4).Draw(rt, "initialViews"); i < n; i++ {
			m.newView(rt, rapid.Bool().Draw(rt, "extended"))
		}

		rt.Repeat(map[string]func(*rapid.T){
			"":                  m.invariant,
			"withRealm":         func(t *rapid.T) { m.newView(t, false) },
			"withExtendedRealm": func(t *rapid.T) { m.newView(t, true) },
			"wrap":              m.wrap,
			"realm":             m.realm,
			"get":               m.get,
			"get2":              m.get,
			"has":               m.has,
			"set":               m.set,
			"set2":              m.set,
			"set3":              m.set,
			"set4":              m.set,
			"set5":              m.set,
			"bulkSet":           m.bulkSet,
			"get3":              m.get,
			"iterate3":          func(t *rapid.T) { m.iterate(t, false) },
			"iterateKeys2":      func(t *rapid.T) { m.iterate(t, true) },
			"deletePrefix2":     m.deletePrefix,
			"batchSet3":         m.batchSet,
			"delete":            m.delete,
			"deletePrefix":      m.deletePrefix,
			"clear":             m.clear,
			"iterate":           func(t *rapid.T) { m.iterate(t, false) },
			"iterate2":          func(t *rapid.T) { m.iterate(t, false) },
			"iterateKeys":       func(t *rapid.T) { m.iterate(t, true) },
			"flush":             m.flush,
			"batched":           m.newBatch,
			"batchSet":          m.batchSet,
			"batchSet2":         m.batchSet,
			"batchDelete":       m.batchDelete,
			"batchCancel":       m.batchCancel,
			"batchCommit":       m.batchCommit,
			"batchCommit2":      m.batchCommit,
			"close":             m.close,
		})

		labels := []string{"stack:" + m.stack}
		if m.dbgMode != "-" {
			labels = append(labels, "debug:"+m.dbgMode)
		}
		for l := range m.labels {
			labels = append(labels, l)
		}
		sort.Strings(labels)
		if m.ntCross {
			labels = append(labels, "nontrivial:cross_realm_prefix_op")
		}
		if m.ntBatchSD {
			labels = append(labels, "nontrivial:batch_set_and_delete_same_key")
		}
		if m.ntAfterClose {
			labels = append(labels, "nontrivial:actions_after_close")
		}
		log := m.log
		stats.Case(checkName, m.ntCross || m.ntBatchSD || m.ntAfterClose, m.stack+"|"+m.dbgMode+"|"+strings.Join(log, ";"),
			func() any { return map[string]any{"stack": m.stack, "debug": m.dbgMode, "actions": log} }, labels...)
	})
}

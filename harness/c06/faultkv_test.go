package c06

import (
	"errors"
	"sync"

	"github.com/iotaledger/hive.go/kvstore"
)

// errInjected is the failure returned by an armed store call.
var errInjected = errors.New("verif: injected store failure")

// injector counts every store call ("fault position") and fails exactly the calls whose
// 1-based index is in failAt. A failing call returns before it touches the inner store, which is
// how both a store error and a process that stops before the call takes effect look to the caller.
type injector struct {
	mu      sync.Mutex
	count   int
	failAt  map[int]bool
	fired   int
	calls   []string
	firedIn []string // names of the calls that failed
}

func newInjector(failAt ...int) *injector {
	in := &injector{failAt: map[int]bool{}}
	for _, p := range failAt {
		in.failAt[p] = true
	}

	return in
}

func (in *injector) hit(name string) error {
	in.mu.Lock()
	defer in.mu.Unlock()
	in.count++
	in.calls = append(in.calls, name)
	if in.failAt[in.count] {
		in.fired++
		in.firedIn = append(in.firedIn, name)

		return errInjected
	}

	return nil
}

func (in *injector) firedCount() int {
	in.mu.Lock()
	defer in.mu.Unlock()

	return in.fired
}

func (in *injector) callCount() int {
	in.mu.Lock()
	defer in.mu.Unlock()

	return in.count
}

// faultKV wraps a KVStore; every data call first consults the injector.
type faultKV struct {
	inner kvstore.KVStore
	in    *injector
}

func newFaultKV(inner kvstore.KVStore, in *injector) *faultKV { return &faultKV{inner: inner, in: in} }

func (f *faultKV) WithRealm(realm kvstore.Realm) (kvstore.KVStore, error) {
	s, err := f.inner.WithRealm(realm)
	if err != nil {
		return nil, err
	}

	return &faultKV{inner: s, in: f.in}, nil
}

func (f *faultKV) WithExtendedRealm(realm kvstore.Realm) (kvstore.KVStore, error) {
	s, err := f.inner.WithExtendedRealm(realm)
	if err != nil {
		return nil, err
	}

	return &faultKV{inner: s, in: f.in}, nil
}

func (f *faultKV) Realm() kvstore.Realm { return f.inner.Realm() }

func (f *faultKV) Iterate(prefix kvstore.KeyPrefix, c kvstore.IteratorKeyValueConsumerFunc, d ...kvstore.IterDirection) error {
	if err := f.in.hit("store.Iterate"); err != nil {
		return err
	}

	return f.inner.Iterate(prefix, c, d...)
}

func (f *faultKV) IterateKeys(prefix kvstore.KeyPrefix, c kvstore.IteratorKeyConsumerFunc, d ...kvstore.IterDirection) error {
	if err := f.in.hit("store.IterateKeys"); err != nil {
		return err
	}

	return f.inner.IterateKeys(prefix, c, d...)
}

func (f *faultKV) Clear() error {
	if err := f.in.hit("store.Clear"); err != nil {
		return err
	}

	return f.inner.Clear()
}

func (f *faultKV) Get(key kvstore.Key) (kvstore.Value, error) {
	if err := f.in.hit("store.Get"); err != nil {
		return nil, err
	}

	return f.inner.Get(key)
}

func (f *faultKV) Set(key kvstore.Key, value kvstore.Value) error {
	if err := f.in.hit("store.Set"); err != nil {
		return err
	}

	return f.inner.Set(key, value)
}

func (f *faultKV) Has(key kvstore.Key) (bool, error) {
	if err := f.in.hit("store.Has"); err != nil {
		return false, err
	}

	return f.inner.Has(key)
}

func (f *faultKV) Delete(key kvstore.Key) error {
	if err := f.in.hit("store.Delete"); err != nil {
		return err
	}

	return f.inner.Delete(key)
}

func (f *faultKV) DeletePrefix(prefix kvstore.KeyPrefix) error {
	if err := f.in.hit("store.DeletePrefix"); err != nil {
		return err
	}

	return f.inner.DeletePrefix(prefix)
}

func (f *faultKV) Flush() error { return f.inner.Flush() }
func (f *faultKV) Close() error { return f.inner.Close() }
func (f *faultKV) Batched() (kvstore.BatchedMutations, error) {
	return f.inner.Batched()
}

var _ kvstore.KVStore = &faultKV{}

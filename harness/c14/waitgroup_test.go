package c14

import (
	"fmt"
	"strings"
	"sync"
	"testing"

	"github.com/iotaledger/hive.go/ds"
	"github.com/iotaledger/hive.go/ds/reactive"
	"pgregory.net/rapid"
	"verifharness/internal/ctl"
	"verifharness/internal/stats"
)

// ---------------------------------------------------------------------------------------------------------
// reactive.WaitGroup over elements 0..3.
//
// Strict model (no interleaving): Done(e) of a pending e removes it; the group triggers exactly when such a Done
// makes the pending set empty. For runs in which an Add overlaps other calls (goroutines, or the verif yield
// point inside Add) only the weaker, interleaving-independent statements are asserted:
//   (a) at quiescence: pending == {} and at least one Done removed an element  =>  triggered
//   (b) triggered  =>  the pending set was empty at some point right after a removal
// (an Add that is in progress may legitimately hold the trigger back: "first increase the counter so that the
// trigger is not executed before all elements are added").
// ---------------------------------------------------------------------------------------------------------

const wgElems = 4

type wgOp struct {
	Op    string `json:"op"` // add | done
	Elems []int  `json:"elems"`
	Yld   int    `json:"yld,omitempty"`
	// Inter: operations another caller performs while this Add sits at its At-th yield point (one per element, between
	// the insertion into the pending set and the counter correction). Sequential variant only.
	Inter []wgInter `json:"inter,omitempty"`
}

type wgInter struct {
	At  int    `json:"at"`
	Ops []wgOp `json:"ops"`
}

func (o wgOp) String() string {
	s := fmt.Sprintf("%s%v", o.Op, o.Elems)
	for _, in := range o.Inter {
		var l []string
		for _, x := range in.Ops {
			l = append(l, x.String())
		}
		s += fmt.Sprintf(" {at yield %d: %s}", in.At, strings.Join(l, ", "))
	}
	return s
}

type wgSeqProg struct {
	Init []int  `json:"init"`
	Ops  []wgOp `json:"ops"`
}

func (p wgSeqProg) strings() []string {
	out := []string{fmt.Sprintf("init %v", p.Init)}
	for _, o := range p.Ops {
		out = append(out, o.String())
	}
	return out
}

type wgModel struct {
	pending     map[int]bool
	strict      bool // triggered by the strict rule
	removals    int
	everEmptied bool // pending was empty right after a removal
}

func (m *wgModel) done(elems []int) {
	for _, e := range elems {
		if m.pending[e] {
			delete(m.pending, e)
			m.removals++
			if len(m.pending) == 0 {
				m.strict = true
				m.everEmptied = true
			}
		}
	}
}

func doWG(w reactive.WaitGroup[int], o wgOp) {
	if o.Op == "add" {
		w.Add(o.Elems...)
	} else {
		w.Done(o.Elems...)
	}
}

func runWGSeq(p wgSeqProg) verdict {
	v := verdict{}
	labels := map[string]bool{}
	m := &wgModel{pending: map[int]bool{}}
	// the constructor adds the initial elements (no yield point is armed yet)
	reactive.VerifHookWaitGroupAdd = nil
	defer func() { reactive.VerifHookWaitGroupAdd = nil }()
	w := reactive.NewWaitGroup(p.Init...)
	for _, e := range p.Init {
		m.pending[e] = true
	}
	interleaved := false
	check := func(after string) bool {
		var errs []string
		if got, want := fmt.Sprint(sliceOf(w.PendingElements())), fmt.Sprint(sortedKeys(m.pending)); got != want {
			errs = append(errs, fmt.Sprintf("pending elements %s, model %s", got, want))
		}
		trig := w.WasTriggered()
		if !interleaved && trig != m.strict {
			errs = append(errs, fmt.Sprintf("WasTriggered() = %v, but the last pending element was marked done: %v (pending %v)", trig, m.strict, sortedKeys(m.pending)))
		}
		if len(m.pending) == 0 && m.removals > 0 && !trig {
			errs = append(errs, fmt.Sprintf("nothing is pending and %d elements were marked done, but the group never triggered", m.removals))
		}
		if trig && !m.everEmptied {
			errs = append(errs, "triggered although the pending set was never emptied by a Done")
		}
		if len(errs) > 0 {
			v.Msg = fmt.Sprintf("after %q: %s", after, strings.Join(errs, "; "))
			return false
		}
		return true
	}
	for _, o := range p.Ops {
		v.Trace = append(v.Trace, o.String())
		if o.Op == "done" {
			w.Done(o.Elems...)
			m.done(o.Elems)
		} else {
			// the library calls the yield point once per element, right after the insertion attempt: mirror Add
			// element by element so the model sees the interleaved operations at the same points
			yield := 0
			inHook := false
			idx := 0 // next element the library inserts
			reactive.VerifHookWaitGroupAdd = func() {
				if inHook {
					return // yield points of operations performed by the "other caller" are not used
				}
				inHook = true
				defer func() { inHook = false }()
				if idx < len(o.Elems) {
					if m.pending[o.Elems[idx]] {
						labels["add_of_pending_element"] = true
					}
					m.pending[o.Elems[idx]] = true
					idx++
				}
				for _, in := range o.Inter {
					if in.At == yield {
						for _, x := range in.Ops {
							interleaved = true
							labels["op_inside_add_window"] = true
							if x.Op == "done" {
								for _, e := range x.Elems {
									if m.pending[e] {
										labels["done_inside_add_window"] = true
									}
								}
							}
							doWG(w, x)
							if x.Op == "done" {
								m.done(x.Elems)
							} else {
								for _, e := range x.Elems {
									m.pending[e] = true
								}
							}
						}
					}
				}
				yield++
			}
			w.Add(o.Elems...)
			reactive.VerifHookWaitGroupAdd = nil
			if yield != len(o.Elems) {
				v.Msg = fmt.Sprintf("harness: Add%v passed %d yield points (the verif hook is expected once per element)", o.Elems, yield)
				break
			}
		}
		if !check(o.String()) {
			break
		}
	}
	if m.strict {
		labels["triggered"] = true
	}
	v.NonTrivial = labels["add_of_pending_element"] && m.removals > 0
	v.Labels = labelList(labels)
	return v
}

func genWGSimple() *rapid.Generator[wgOp] {
	return rapid.Custom(func(t *rapid.T) wgOp {
		return wgOp{
			Op:    rapid.SampledFrom([]string{"add", "done", "done"}).Draw(t, "op"),
			Elems: rapid.SliceOfN(rapid.IntRange(0, wgElems-1), 0, 3).Draw(t, "elems"),
		}
	})
}

const checkWGSeq = "waitgroup_sequential"

func TestWaitGroupSeq(t *testing.T) {
	stats.Rule(checkWGSeq, "rapid draws initial elements (0..3) and 1-12 Add / Done calls with 0-3 elements each (already pending, absent and repeated elements on purpose); an Add may carry operations that another caller performs while the Add sits at its k-th verif yield point (one per element, between the insertion into the pending set and the counter correction) - a deterministic, shrinkable enumeration of the Add||Done window. Oracle after every call: pending set == model; without interleaving: triggered <=> a Done removed the last pending element; always: nothing pending and >=1 removal => triggered, triggered => the pending set was emptied by a Done. Non-trivial = an Add hit an already pending element and some Done removed an element. Distinct by call list.")
	rapid.Check(t, func(rt *rapid.T) {
		p := wgSeqProg{Init: rapid.SliceOfN(rapid.IntRange(0, wgElems-1), 0, 3).Draw(rt, "init")}
		inter := rapid.Custom(func(t *rapid.T) wgInter {
			return wgInter{At: rapid.IntRange(0, 2).Draw(t, "at"), Ops: rapid.SliceOfN(genWGSimple(), 1, 2).Draw(t, "ops")}
		})
		op := rapid.Custom(func(t *rapid.T) wgOp {
			o := genWGSimple().Draw(t, "op")
			if o.Op == "add" {
				o.Inter = rapid.SliceOfN(inter, 0, 1).Draw(t, "inter")
			}
			return o
		})
		p.Ops = rapid.SliceOfN(op, 1, 12).Draw(rt, "ops")
		v := runWGSeq(p)
		key := strings.Join(p.strings(), "|")
		stats.Case(checkWGSeq, v.NonTrivial, key, func() any { return p.strings() }, v.Labels...)
		if v.Msg != "" {
			stats.Violation(checkWGSeq, map[string]any{"program": p, "readable": p.strings(), "problem": v.Msg})
			rt.Fatalf("%s\nprogram: %s", v.Msg, strings.Join(p.strings(), "; "))
		}
	})
}

// ---------------------------------------------------------------------------------------------------------
// concurrent
// ---------------------------------------------------------------------------------------------------------

type wgConcProg struct {
	Slow    int      `json:"slow"`
	Init    []int    `json:"init"`
	Scripts [][]wgOp `json:"scripts"`
}

func (p wgConcProg) strings() []string {
	out := []string{fmt.Sprintf("init %v slow %d", p.Init, p.Slow)}
	for i, s := range p.Scripts {
		var l []string
		for _, o := range s {
			l = append(l, fmt.Sprintf("y%d %s", o.Yld, o))
		}
		out = append(out, fmt.Sprintf("G%d: %s", i, strings.Join(l, ", ")))
	}
	return out
}

// judgeWGQuiescent checks (a) and (b) from the pending-set history seen by a subscriber that is present from the start.
type wgWatch struct {
	mu          sync.Mutex
	fold        map[int]bool
	removals    int
	everEmptied bool
}

func watchWG(w reactive.WaitGroup[int], slow int) *wgWatch {
	ww := &wgWatch{fold: map[int]bool{}}
	w.PendingElements().OnUpdate(func(m ds.SetMutations[int]) {
		gosched(slow) // stretches the window between the set operation and the counter update of the caller
		ww.mu.Lock()
		defer ww.mu.Unlock()
		m.AddedElements().Range(func(e int) { ww.fold[e] = true })
		m.DeletedElements().Range(func(e int) {
			delete(ww.fold, e)
			ww.removals++
		})
		if m.DeletedElements().Size() > 0 && len(ww.fold) == 0 {
			ww.everEmptied = true
		}
	})
	return ww
}

func (ww *wgWatch) judge(w reactive.WaitGroup[int]) []string {
	ww.mu.Lock()
	defer ww.mu.Unlock()
	var errs []string
	pending := sliceOf(w.PendingElements())
	trig := w.WasTriggered()
	if len(pending) == 0 && ww.removals > 0 && !trig {
		errs = append(errs, fmt.Sprintf("nothing is pending and %d elements were marked done, but the group never triggered", ww.removals))
	}
	if trig && !ww.everEmptied {
		errs = append(errs, "triggered although the pending set was never emptied by a Done")
	}
	return errs
}

func runWGConc(p wgConcProg) verdict {
	reactive.VerifHookWaitGroupAdd = nil
	w := reactive.NewWaitGroup(p.Init...)
	ww := watchWG(w, p.Slow)
	var clock ctl.Clock
	stamps := make([][]stampPair, len(p.Scripts))
	var start barrier
	var wg sync.WaitGroup
	for gi, script := range p.Scripts {
		wg.Add(1)
		go func(gi int, script []wgOp) {
			defer wg.Done()
			start.wait()
			for _, o := range script {
				gosched(o.Yld)
				st := stampPair{A: clock.Tick()}
				doWG(w, o)
				st.B = clock.Tick()
				stamps[gi] = append(stamps[gi], st)
			}
		}(gi, script)
	}
	v := verdict{}
	if !ctl.Within(hangTimeout(), func() { start.release(len(p.Scripts)); wg.Wait() }) {
		hangSeen.Store(true)
		v.Hang = true
		v.Msg = "run did not finish within the hang bound; goroutine dump:\n" + ctl.Dump()
		return v
	}
	labels := map[string]bool{}
	for i := range p.Scripts {
		for j := range p.Scripts {
			if i == j {
				continue
			}
			for x, sa := range stamps[i] {
				for y, sb := range stamps[j] {
					if overlaps(sa, sb) && p.Scripts[i][x].Op == "add" && p.Scripts[j][y].Op == "done" {
						labels["add_overlaps_done"] = true
					}
				}
			}
		}
	}
	if w.WasTriggered() {
		labels["triggered"] = true
	}
	v.NonTrivial = labels["add_overlaps_done"]
	if errs := ww.judge(w); len(errs) > 0 {
		v.Msg = "at quiescence: " + strings.Join(errs, "; ")
	}
	v.Labels = labelList(labels)
	return v
}

const checkWGConc = "waitgroup_concurrent"

func TestWaitGroupConc(t *testing.T) {
	stats.Rule(checkWGConc, "rapid draws initial elements and 2-4 goroutine scripts of 1-6 Add / Done calls (0-3 elements of 0..3 each, drawn yields); one program in three is the targeted shape 'one goroutine keeps adding e, two others keep marking e done' (4-24 calls each, no yields). Interleaving is the Go scheduler's. Oracle at quiescence, from the pending-set history seen by a subscriber present from the start: nothing pending and >=1 removal => triggered; triggered => the pending set was emptied by a Done; 20 s hang watchdog. Non-trivial = an Add overlapped a Done of another goroutine (by stamps). Distinct by program.")
	rapid.Check(t, func(rt *rapid.T) {
		p := wgConcProg{Init: rapid.SliceOfN(rapid.IntRange(0, wgElems-1), 0, 3).Draw(rt, "init"), Slow: rapid.IntRange(0, 2).Draw(rt, "slow")}
		op := rapid.Custom(func(t *rapid.T) wgOp {
			o := genWGSimple().Draw(t, "op")
			o.Yld = rapid.IntRange(0, 3).Draw(t, "yield")
			return o
		})
		if rapid.IntRange(0, 2).Draw(rt, "targeted") == 0 {
			// targeted shape: one goroutine keeps (re-)adding e while two others keep marking it done
			e := rapid.IntRange(0, wgElems-1).Draw(rt, "e")
			n := rapid.IntRange(4, 24).Draw(rt, "n")
			var adds, dones []wgOp
			for i := 0; i < n; i++ {
				adds = append(adds, wgOp{Op: "add", Elems: []int{e}})
				dones = append(dones, wgOp{Op: "done", Elems: []int{e}})
			}
			p.Scripts = [][]wgOp{adds, dones, append([]wgOp{}, dones...)}
			p.Scripts = append(p.Scripts, rapid.SliceOfN(rapid.SliceOfN(op, 1, 4), 0, 1).Draw(rt, "others")...)
		} else {
			p.Scripts = rapid.SliceOfN(rapid.SliceOfN(op, 1, 6), 2, 4).Draw(rt, "scripts")
		}
		v := runWGConc(p)
		key := strings.Join(p.strings(), "|")
		stats.Case(checkWGConc, v.NonTrivial, key, func() any { return p.strings() }, v.Labels...)
		if v.Msg != "" {
			stats.Violation(checkWGConc, map[string]any{"program": p, "readable": p.strings(), "problem": v.Msg, "hang": v.Hang})
			rt.Fatalf("%s\nprogram: %s", v.Msg, strings.Join(p.strings(), "; "))
		}
	})
}

// TestWaitGroupAddDoneLoop is the targeted free-running loop for the Add||Done window: x is pending, one goroutine
// re-adds x while another one marks it done. If nothing is pending afterwards the group must have triggered.
func TestWaitGroupAddDoneLoop(t *testing.T) {
	const check = "waitgroup_add_done_loop"
	stats.Rule(check, "targeted tight loop, not drawn: fresh WaitGroup(x); goroutine A: Add(x) (already pending), goroutine B: Done(x); at quiescence nothing pending => triggered. Free-running: the window between the failed insertion and the counter correction is hit about once in 10^5 trials, so this loop only decides something in the thorough tier; the deterministic decision is waitgroup_sequential (yield point). All trials are the same program: counted as one distinct case.")
	reactive.VerifHookWaitGroupAdd = nil
	shard, shards := stats.Shard()
	trials := stats.Scale(40000, 1600000) / shards
	_ = shard
	emptied := 0
	for i := 0; i < trials; i++ {
		w := reactive.NewWaitGroup(7)
		var start barrier
		var wg sync.WaitGroup
		wg.Add(2)
		go func() { defer wg.Done(); start.wait(); w.Add(7) }()
		go func() { defer wg.Done(); start.wait(); w.Done(7) }()
		start.release(2)
		wg.Wait()
		if w.PendingElements().IsEmpty() {
			emptied++
			if !w.WasTriggered() {
				stats.Bulk(check, int64(i+1), 1, false, []string{"init [7]", "A: add[7]", "B: done[7]"})
				stats.Violation(check, map[string]any{"program": []string{"init [7]", "A: add[7]", "B: done[7]"}, "trial": i, "problem": "nothing pending after Add(7) || Done(7) on a group with 7 pending, but the group never triggered"})
				t.Fatalf("trial %d: nothing pending after Add(7) || Done(7), but the group never triggered", i)
			}
		}
	}
	stats.Bulk(check, int64(trials), 1, false, []string{"init [7]", "A: add[7]", "B: done[7]"})
	stats.Note(check, "trials_ending_with_nothing_pending", emptied)
}

package c02

import (
	"context"
	"encoding/hex"
	"encoding/json"
	"errors"
	"fmt"
	"math/big"
	"strings"
	"testing"
	"time"

	"github.com/iotaledger/hive.go/ds/serializableorderedmap"
	"github.com/iotaledger/hive.go/serializer/v2"
	"github.com/iotaledger/hive.go/serializer/v2/serix"
	"github.com/iotaledger/hive.go/serializer/v2/typeutils"
	"pgregory.net/rapid"
	"verifharness/internal/stats"
)

// obj is a minimal serializer.Serializable: a type byte followed by one payload byte.
type obj struct{ ty, v byte }

func (o *obj) MarshalJSON() ([]byte, error) { return json.Marshal([]byte{o.ty, o.v}) }
func (o *obj) UnmarshalJSON([]byte) error   { return nil }
func (o *obj) Deserialize(data []byte, _ serializer.DeSerializationMode, _ interface{}) (int, error) {
	if len(data) < 2 {
		return 0, errors.New("obj: not enough data")
	}
	o.ty, o.v = data[0], data[1]
	return 2, nil
}
func (o *obj) Serialize(serializer.DeSerializationMode, interface{}) ([]byte, error) {
	return []byte{o.ty, o.v}, nil
}

var errp = func(err error) error { return err }

type dop struct {
	Name string
	A, B int
	LT   serializer.SeriLengthPrefixType
	Mode serializer.DeSerializationMode
	VM   serializer.ArrayValidationMode
}

func (o dop) String() string {
	return fmt.Sprintf("%s(%d,%d,p%d,m%d,v%d)", o.Name, o.A, o.B, int(o.LT)-199, o.Mode, o.VM)
}

var lts = []serializer.SeriLengthPrefixType{serializer.SeriLengthPrefixTypeAsByte, serializer.SeriLengthPrefixTypeAsUint16, serializer.SeriLengthPrefixTypeAsUint32}

func genOp(rt *rapid.T, label string) dop {
	names := []string{"ReadBool", "ReadByte", "ReadNum", "ReadUint256", "ReadBytes", "ReadBytesInPlace", "ReadVariableByteSlice", "ReadString", "ReadTime",
		"ReadPayloadLength", "Skip", "CheckTypePrefix", "GetObjectType", "ReadSequenceOfObjects", "ReadObject", "ReadSliceOfObjects", "ReadPayload"}
	o := dop{Name: rapid.SampledFrom(names).Draw(rt, label+".op")}
	o.LT = rapid.SampledFrom(lts).Draw(rt, label+".lt")
	o.A = rapid.IntRange(0, 9).Draw(rt, label+".a")
	o.B = rapid.IntRange(0, 40).Draw(rt, label+".b")
	o.Mode = serializer.DeSerializationMode(rapid.IntRange(0, 3).Draw(rt, label+".mode"))
	o.VM = serializer.ArrayValidationMode(rapid.IntRange(0, 15).Draw(rt, label+".vm"))
	return o
}

func applyOp(d *serializer.Deserializer, o dop, itemCalls *int) {
	switch o.Name {
	case "ReadBool":
		var b bool
		d.ReadBool(&b, errp)
	case "ReadByte":
		var b byte
		d.ReadByte(&b, errp)
	case "ReadNum":
		switch o.A {
		case 0:
			var x int8
			d.ReadNum(&x, errp)
		case 1:
			var x uint8
			d.ReadNum(&x, errp)
		case 2:
			var x int16
			d.ReadNum(&x, errp)
		case 3:
			var x uint16
			d.ReadNum(&x, errp)
		case 4:
			var x int32
			d.ReadNum(&x, errp)
		case 5:
			var x uint32
			d.ReadNum(&x, errp)
		case 6:
			var x int64
			d.ReadNum(&x, errp)
		case 7:
			var x uint64
			d.ReadNum(&x, errp)
		case 8:
			var x float32
			d.ReadNum(&x, errp)
		default:
			var x float64
			d.ReadNum(&x, errp)
		}
	case "ReadUint256":
		var b *big.Int
		d.ReadUint256(&b, errp)
	case "ReadBytes":
		var s []byte
		d.ReadBytes(&s, o.B, errp)
	case "ReadBytesInPlace":
		d.ReadBytesInPlace(make([]byte, o.B), errp)
	case "ReadVariableByteSlice":
		var s []byte
		d.ReadVariableByteSlice(&s, o.LT, errp, o.A/3, o.B/2)
	case "ReadString":
		var s string
		d.ReadString(&s, o.LT, errp, o.A/3, o.B/2)
	case "ReadTime":
		var tm time.Time
		d.ReadTime(&tm, errp)
	case "ReadPayloadLength":
		_, _ = d.ReadPayloadLength()
	case "Skip":
		d.Skip(o.B, errp)
	case "CheckTypePrefix":
		if o.A%2 == 0 {
			d.CheckTypePrefix(uint32(o.B), serializer.TypeDenotationByte, errp)
		} else {
			d.CheckTypePrefix(uint32(o.B), serializer.TypeDenotationUint32, errp)
		}
	case "GetObjectType":
		_, _ = d.GetObjectType(serializer.TypeDenotationType(o.A % 3))
	case "ReadSequenceOfObjects":
		rules := &serializer.ArrayRules{Min: uint(o.A / 4), Max: uint(o.B / 3), ValidationMode: o.VM}
		d.ReadSequenceOfObjects(func(b []byte) (int, error) {
			*itemCalls++
			w := 1 + o.A%4 // every item has a fixed width >= 1
			if len(b) < w {
				return 0, errors.New("item: not enough data")
			}
			return w, nil
		}, o.Mode, o.LT, rules, errp)
	case "ReadObject":
		var s serializer.Serializable
		d.ReadObject(&s, o.Mode, nil, serializer.TypeDenotationByte, func(ty uint32) (serializer.Serializable, error) {
			if ty > 200 {
				return nil, errors.New("unknown type")
			}
			return &obj{}, nil
		}, errp)
	case "ReadSliceOfObjects":
		rules := &serializer.ArrayRules{Min: uint(o.A / 4), Max: uint(o.B / 3), ValidationMode: o.VM &^ serializer.ArrayValidationModeAtMostOneOfEachTypeUint32,
			Guards: serializer.SerializableGuard{ReadGuard: func(ty uint32) (serializer.Serializable, error) {
				if ty > 200 {
					return nil, errors.New("unknown type")
				}
				return &obj{}, nil
			}}}
		if o.A%3 == 0 {
			rules.MustOccur = serializer.TypePrefixes{uint32(o.B % 4): struct{}{}}
		}
		d.ReadSliceOfObjects(func(seris serializer.Serializables) { *itemCalls += len(seris) }, o.Mode, nil, o.LT, serializer.TypeDenotationByte, rules, errp)
	case "ReadPayload":
		var s serializer.Serializable
		d.ReadPayload(&s, o.Mode, nil, func(ty uint32) (serializer.Serializable, error) {
			if ty%7 == 0 {
				return nil, errors.New("unknown payload")
			}
			return &obj{}, nil
		}, errp)
	}
}

func TestDeserializerScripts(t *testing.T) {
	const check = "deserializer_scripts"
	stats.Rule(check, "a rapid-drawn script of 1..8 Deserializer primitives (ReadBool/Byte/Num/Uint256/Bytes/BytesInPlace/VariableByteSlice/String/Time/PayloadLength/Skip/CheckTypePrefix/GetObjectType/ReadSequenceOfObjects/ReadObject/ReadSliceOfObjects/ReadPayload with drawn prefix widths, limits, modes and array rules) runs over an input of 0..64 bytes (random, or with hostile little-endian length constants spliced in); after every primitive: no panic, 0 <= offset <= len(input), offset never decreases while no error is set; at the end: bytes allocated <= 1 MiB + 2 KiB * len(input) and item callbacks <= len(input)+len(script). Distinct by (script, input); non-trivial = at least one primitive succeeded and a later one failed, or a hostile constant was spliced in")
	hostile := [][]byte{{0xff}, {0xff, 0xff}, {0xff, 0xff, 0xff, 0xff}, {0, 0, 0, 0x40}, {0, 0, 0, 0x80}, {0xff, 0xff, 0xff, 0x7f}, {0, 0, 1, 0}, {0x80}, {0, 0x80}}
	rapid.Check(t, func(rt *rapid.T) {
		input := rapid.SliceOfN(rapid.Byte(), 0, 64).Draw(rt, "input")
		spliced := false
		if rapid.Bool().Draw(rt, "splice") && len(input) > 0 {
			h := rapid.SampledFrom(hostile).Draw(rt, "hostile")
			at := rapid.IntRange(0, len(input)-1).Draw(rt, "at")
			input = append(append(append([]byte{}, input[:at]...), h...), input[at:]...)
			spliced = true
		}
		n := rapid.IntRange(1, 8).Draw(rt, "n")
		ops := make([]dop, n)
		for i := range ops {
			ops[i] = genOp(rt, fmt.Sprintf("op%d", i))
		}
		script := make([]string, n)
		for i, o := range ops {
			script[i] = o.String()
		}
		ex := map[string]any{"input": hex.EncodeToString(input), "script": strings.Join(script, " ")}
		fail := func(format string, a ...any) {
			ex["problem"] = fmt.Sprintf(format, a...)
			stats.Violation(check, ex)
			rt.Fatalf("%s: %v", check, ex)
		}
		itemCalls := 0
		okOps, failedAfterOK := 0, false
		var step int
		var pan any
		alloc := measure(func() {
			pan = catch(func() {
				d := serializer.NewDeserializer(input)
				prev := 0
				for i, o := range ops {
					step = i
					applyOp(d, o, &itemCalls)
					off, err := d.Done()
					if off < 0 || off > len(input) {
						panic(fmt.Sprintf("HARNESS: offset %d outside [0,%d] after %s", off, len(input), o))
					}
					if off < prev {
						panic(fmt.Sprintf("HARNESS: offset went back from %d to %d at %s", prev, off, o))
					}
					prev = off
					if err == nil {
						okOps++
					} else if okOps > 0 {
						failedAfterOK = true
					}
				}
			})
		})
		if pan != nil {
			fail("step %d (%s): %v", step, ops[step], pan)
		}
		if alloc > allocCap(len(input)) {
			fail("script allocated %d bytes for a %d-byte input", alloc, len(input))
		}
		if itemCalls > len(input)+len(ops) {
			fail("%d item callbacks for %d input bytes", itemCalls, len(input))
		}
		stats.Case(check, failedAfterOK || spliced, ex["script"].(string)+"|"+ex["input"].(string), func() any { return ex })
	})
}

func TestOtherDecoders(t *testing.T) {
	const check = "orderedmap_typeutils_decoders"
	stats.Rule(check, "SerializableOrderedMap[uint16,uint32].Decode, SerializableOrderedMap[string-with-uint8-prefix,[]byte-with-uint16-prefix].Decode, SerializableOrderedMap[interface key with a number and a byte-slice implementation, uint8].Decode and typeutils.Uint64FromBytes/ByteArray32FromBytes on random inputs of 0..80 bytes and on inputs starting with a hostile uint32 entry count; oracle: no panic, consumed <= len(input), allocation cap. Distinct by (decoder, input); non-trivial = input longer than the size prefix")
	type kstr string
	type vbytes []byte
	api := serix.NewAPI()
	if err := api.RegisterTypeSettings(kstr(""), serix.TypeSettings{}.WithLengthPrefixType(serix.LengthPrefixTypeAsByte)); err != nil {
		t.Fatal(err)
	}
	if err := api.RegisterTypeSettings(vbytes(nil), serix.TypeSettings{}.WithLengthPrefixType(serix.LengthPrefixTypeAsUint16)); err != nil {
		t.Fatal(err)
	}
	// an interface-typed key whose implementations (NumKey: a number, ListKey: a byte slice - not comparable) are
	// selected by the input (regression_orderedmap_test.go)
	if err := api.RegisterTypeSettings(NumKey(0), serix.TypeSettings{}.WithObjectType(uint8(0))); err != nil {
		t.Fatal(err)
	}
	if err := api.RegisterTypeSettings(ListKey{}, serix.TypeSettings{}.WithObjectType(uint8(1)).WithLengthPrefixType(serix.LengthPrefixTypeAsByte)); err != nil {
		t.Fatal(err)
	}
	if err := api.RegisterInterfaceObjects((*omKey)(nil), NumKey(0), ListKey{}); err != nil {
		t.Fatal(err)
	}
	_ = context.Background()
	rapid.Check(t, func(rt *rapid.T) {
		input := rapid.SliceOfN(rapid.Byte(), 0, 80).Draw(rt, "input")
		if rapid.Bool().Draw(rt, "hostileCount") && len(input) >= 4 {
			copy(input, rapid.SampledFrom([][]byte{{0xff, 0xff, 0xff, 0xff}, {0, 0, 0, 0x40}, {3, 0, 0, 0}, {0, 1, 0, 0}}).Draw(rt, "count"))
		}
		which := rapid.SampledFrom([]string{"omap_u16_u32", "omap_str_bytes", "omap_ifacekey_u8", "Uint64FromBytes", "ByteArray32FromBytes"}).Draw(rt, "decoder")
		if which == "omap_ifacekey_u8" && len(input) >= 7 && rapid.Bool().Draw(rt, "shapedEntries") {
			// entries that look like (type code, key, value) so that both implementations are reached
			copy(input, []byte{2, 0, 0, 0})
			for i := 4; i+2 < len(input); i += 3 {
				input[i] &= 1
			}
		}
		ex := map[string]any{"decoder": which, "input": hex.EncodeToString(input)}
		var n int
		var pan any
		alloc := measure(func() {
			pan = catch(func() {
				switch which {
				case "omap_u16_u32":
					n, _ = serializableorderedmap.New[uint16, uint32]().Decode(api, input)
				case "omap_str_bytes":
					n, _ = serializableorderedmap.New[kstr, vbytes]().Decode(api, input)
				case "omap_ifacekey_u8":
					n, _ = serializableorderedmap.New[omKey, uint8]().Decode(api, input)
				case "Uint64FromBytes":
					_, n, _ = typeutils.Uint64FromBytes(input)
				case "ByteArray32FromBytes":
					_, n, _ = typeutils.ByteArray32FromBytes(input)
				}
			})
		})
		fail := func(format string, a ...any) {
			ex["problem"] = fmt.Sprintf(format, a...)
			stats.Violation(check, ex)
			rt.Fatalf("%s: %v", check, ex)
		}
		if pan != nil {
			fail("panicked: %v", pan)
		}
		if n < 0 || n > len(input) {
			fail("reports %d consumed bytes of %d", n, len(input))
		}
		if alloc > allocCap(len(input)) {
			fail("allocated %d bytes for a %d-byte input", alloc, len(input))
		}
		stats.Case(check, len(input) > 4, which+"|"+hex.EncodeToString(input), func() any { return ex }, "decoder:"+which)
	})
}

package c09

import (
	"encoding/hex"
	"encoding/json"
	"fmt"
	"os"
	"testing"

	"pgregory.net/rapid"
	"verifharness/internal/stats"
)

const ruleText = "rapid draws a working set (1-2 clusters of 4-byte keys whose sha256 paths share 16..35 leading bits, plus short/odd keys), " +
	"a store flavour (mapdb, mapdb with realm, flushkv(mapdb), a realm of a database that also holds a committed neighbour map in a sibling realm, the same with the own realm = {0x00}), an identifier codec (bare 32 bytes or 0xAB-prefixed) and a history of put/overwrite/delete/delete-present/commit/reopen/commit+reopen/rebuild-compare/check actions; " +
	"after every action Size, Has and Get of every working-set key and Stream (as multiset) are compared with a plain map, the (contents, root) pair goes into per-process " +
	"contents->root and root->contents tables, rebuild actions (and the end of every history) compare the root with a fresh instance filled in another order with detours. " +
	"distinct by the full case; non-trivial = a delete of a key sharing >=16 path bits with a remaining key or an overwrite of a non-empty value with an empty one, " +
	"followed by a root comparison against a rebuilt instance, or a faithful reopen after >=2 commits"

// genCase draws one history.
func genCase(t *rapid.T, flavour string, maxSteps int) *caseSpec {
	p := getPool()
	c := &caseSpec{Flavour: flavour}
	c.Store = rapid.SampledFrom([]string{"mapdb", "mapdb", "mapdb_realm", "flushkv", "mapdb_sibling", "mapdb_realm0"}).Draw(t, "store")
	c.RootCodec = rapid.SampledFrom([]string{"", "", "prefixed"}).Draw(t, "rootCodec")
	// working set
	var ws []poolKey
	nClusters := rapid.SampledFrom([]int{0, 1, 1, 1, 2, 2}).Draw(t, "nClusters")
	first := rapid.IntRange(0, len(p.clusters)-1).Draw(t, "cluster")
	for i := 0; i < nClusters; i++ {
		cl := p.clusters[(first+i*5)%len(p.clusters)]
		// usually the whole cluster, sometimes a sub-range (keeps at least 3 keys)
		lo, hi := 0, len(cl)
		if rapid.IntRange(0, 3).Draw(t, "subrange") == 0 {
			lo = rapid.IntRange(0, len(cl)-3).Draw(t, "lo")
			hi = rapid.IntRange(lo+3, len(cl)).Draw(t, "hi")
		}
		ws = append(ws, cl[lo:hi]...)
	}
	nShort := rapid.IntRange(0, 4).Draw(t, "nShort")
	if len(ws) == 0 && nShort < 2 {
		nShort = 2
	}
	s0 := rapid.IntRange(0, len(p.shorts)-1).Draw(t, "short0")
	stride := rapid.SampledFrom([]int{1, 5, 7}).Draw(t, "stride") // all coprime to len(shorts) = 18, so the picks are distinct
	for i := 0; i < nShort; i++ {
		ws = append(ws, p.shorts[(s0+i*stride)%len(p.shorts)])
	}
	seen := map[string]bool{}
	for _, k := range ws {
		if !seen[k.key] {
			seen[k.key] = true
			c.Keys = append(c.Keys, hex.EncodeToString([]byte(k.key)))
		}
	}
	nKeys := len(c.Keys)

	profiles := map[string][]string{
		// deletes as likely as inserts: small maps, many collapses down to one leaf / the empty trie
		"churn": {
			"check", "put", "put", "put", "put", "put", "put", "overwrite", "overwrite",
			"del_present", "del_present", "del_present", "del_present", "del",
			"commit", "commit", "reopen", "commit_reopen", "commit_reopen", "rebuild", "rebuild",
		},
		// inserts dominate: the working set fills up, deletes then hit inner nodes with populated siblings
		"grow": {
			"check", "put", "put", "put", "put", "put", "put", "put", "put", "put", "put", "put", "put", "overwrite", "overwrite", "overwrite",
			"del_present", "del_present", "del",
			"commit", "commit", "reopen", "commit_reopen", "commit_reopen", "rebuild", "rebuild",
		},
	}
	profile := rapid.SampledFrom([]string{"churn", "grow", "grow"}).Draw(t, "profile")
	kinds := profiles[profile]
	// value indexes: empties are over-represented
	vals := []int{0, 0, 1, 1, 2, 2, 3, 4, 5, 6, 7, 8, 9}
	// rapid's integer and slice-length draws favour small values, so the length comes from an explicit ladder
	// (uniform over the ladder, shrinks towards 1); single actions shrink towards the neutral "check" action.
	var ladder []int
	for l := 1; l <= maxSteps; {
		ladder = append(ladder, l)
		switch {
		case l < 4:
			l++
		case l < 8:
			l += 2
		default:
			l += 4
		}
	}
	// (even SampledFrom prefers low indexes - about 45% of the draws hit the first four rungs - so the larger of two draws is used)
	n := max(rapid.SampledFrom(ladder).Draw(t, "n"), rapid.SampledFrom(ladder).Draw(t, "n2"))
	for i := 0; i < n; i++ {
		a := action{Kind: rapid.SampledFrom(kinds).Draw(t, "kind")}
		switch a.Kind {
		case "put", "overwrite":
			a.Key = rapid.IntRange(0, nKeys-1).Draw(t, "key")
			if flavour == "map" {
				a.Val = rapid.SampledFrom(vals).Draw(t, "val")
			}
		case "del", "del_present":
			a.Key = rapid.IntRange(0, nKeys-1).Draw(t, "key")
		case "rebuild":
			a.Mode = rapid.Uint64().Draw(t, "mode")
		}
		c.Actions = append(c.Actions, a)
	}

	return c
}

func sizeBucket(n int) string {
	switch {
	case n == 0:
		return "0"
	case n <= 2:
		return "1-2"
	case n <= 5:
		return "3-5"
	case n <= 9:
		return "6-9"
	default:
		return "10+"
	}
}

func stepBucket(n int) string {
	switch {
	case n <= 4:
		return "1-4"
	case n <= 12:
		return "5-12"
	case n <= 24:
		return "13-24"
	case n <= 40:
		return "25-40"
	default:
		return "41+"
	}
}

func histories(t *testing.T, flavour string) {
	check := flavour + "_histories"
	stats.Rule(check, ruleText)
	stats.Note(check, "key_clusters (hex key / path bits shared with the previous key in path order)", describePool(getPool()))
	maxSteps := stats.Scale(40, 80)
	if replaySaved(t, check) {
		return // `bin/verif replay`: the saved cases were re-executed without rapid and no longer fail
	}
	rapid.Check(t, func(rt *rapid.T) {
		c := genCase(rt, flavour, maxSteps)
		info := &runInfo{}
		f := runCase(c, info)
		labels := []string{"store:" + c.Store, "root_codec:" + map[string]string{"": "bare32", "prefixed": "prefixed"}[c.RootCodec], "steps:" + stepBucket(len(c.Actions)), "working_set:" + sizeBucket(len(c.Keys)), "max_size:" + sizeBucket(info.maxSize), fmt.Sprintf("commits:%s", sizeBucket(info.commits))}
		for l, n := range info.labels {
			_ = n
			labels = append(labels, "case_with:"+l)
		}
		stats.Case(check, info.nontrivial, c.canon(), c.render, labels...)
		for l, n := range info.labels {
			for i := 0; i < n; i++ {
				stats.Label(check, "ops:"+l)
			}
		}
		if f != nil {
			stats.Violation(check, map[string]any{"history": c, "rendered": c.render(), "failure": f})
			rt.Fatalf("C09 %s: %s\ncase: %s", flavour, f, c.canon())
		}
	})
	rtb := tables[flavour]
	stats.Note(check, "cross_history_table", map[string]any{"contents_seen_again_with_equal_root": rtb.hits, "distinct_contents_in_table": len(rtb.rootOfContents), "table_resets": rtb.resets})
}

func TestMapHistories(t *testing.T) { histories(t, "map") }
func TestSetHistories(t *testing.T) { histories(t, "set") }

// replaySaved re-executes the cases of a replay file (VERIF_REPLAY_CASES, set by `bin/verif replay`) without rapid.
// A cross-history failure names the other history; it is run first so that the tables hold its (contents, root) pairs.
func replaySaved(t *testing.T, check string) (replayed bool) {
	path := os.Getenv("VERIF_REPLAY_CASES")
	if path == "" {
		return false
	}
	b, err := os.ReadFile(path)
	if err != nil {
		return false
	}
	var file struct {
		Cases []struct {
			Check string `json:"check"`
			Case  struct {
				History *caseSpec `json:"history"`
				Failure struct {
					Detail struct {
						Other *caseSpec `json:"other_history"`
					} `json:"detail"`
				} `json:"failure"`
			} `json:"case"`
		} `json:"cases"`
	}
	if json.Unmarshal(b, &file) != nil {
		return false
	}
	for _, c := range file.Cases {
		if c.Check != check || c.Case.History == nil {
			continue
		}
		if o := c.Case.Failure.Detail.Other; o != nil {
			if f := runCase(o, nil); f != nil {
				t.Fatalf("saved case (other history) fails without rapid: %s\ncase: %s", f, o.canon())
			}
		}
		if f := runCase(c.Case.History, nil); f != nil {
			t.Fatalf("saved case fails without rapid: %s\ncase: %s", f, c.Case.History.canon())
		}
		t.Logf("saved case of %s passes without rapid", check)
		replayed = true
	}

	return replayed
}

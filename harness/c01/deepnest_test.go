package c01

import (
	"context"
	"fmt"
	"testing"

	"github.com/iotaledger/hive.go/serializer/v2/serix"
	"pgregory.net/rapid"
	"verifharness/internal/stats"
)

// deepNode is a recursive type: a singly linked list through an optional pointer, or a tree through a slice.
type deepNode struct {
	Val  uint8       `serix:""`
	Next *deepNode   `serix:",optional"`
	Kids []*deepNode `serix:",lenPrefix=uint8"`
}

// TestDeepNestingRoundTrip: values of a recursive type nested around the depth at which Decode stops accepting input
// (it limits the nesting of what it reads). Whatever Encode accepts has to be read back by Decode - a value that is
// nested too deep has to be refused by Encode already.
func TestDeepNestingRoundTrip(t *testing.T) {
	const check = "deep_nesting_roundtrip"
	stats.Rule(check, "rapid draws a nesting depth from {1..40, 480..520, 980..1020, 1990..2010, 3000} and how the levels are linked (optional pointer, one-element slice, alternating), validation on/off, and whether Decode gets an allocated destination or a nil pointer it has to allocate; the value is built iteratively. Oracle: Encode refuses the value, or Decode of its output succeeds, consumes everything and yields a list of the same depth and values; JSONEncode likewise against JSONDecode. Distinct by (depth, linking, validation); non-trivial = depth >= 480")
	api := serix.NewAPI()
	ctx := context.Background()
	rapid.Check(t, func(rt *rapid.T) {
		depth := rapid.OneOf(rapid.IntRange(1, 40), rapid.IntRange(480, 520), rapid.IntRange(980, 1020), rapid.IntRange(1990, 2010), rapid.Just(3000)).Draw(rt, "depth")
		link := rapid.SampledFrom([]string{"next", "kids", "alternating"}).Draw(rt, "link")
		var opts []serix.Option
		validate := rapid.Bool().Draw(rt, "validation")
		if validate {
			opts = append(opts, serix.WithValidation())
		}
		nilDestination := rapid.Bool().Draw(rt, "nilDestination")
		desc := fmt.Sprintf("depth=%d link=%s validation=%v nilDestination=%v", depth, link, validate, nilDestination)
		fail := func(format string, a ...any) {
			msg := fmt.Sprintf(format, a...)
			stats.Violation(check, map[string]any{"config": desc, "problem": msg})
			rt.Fatalf("%s: %s", desc, msg)
		}
		build := func() *deepNode {
			root := &deepNode{Val: 1}
			cur := root
			for i := 2; i <= depth; i++ {
				n := &deepNode{Val: uint8(i)}
				if link == "next" || (link == "alternating" && i%2 == 0) {
					cur.Next = n
				} else {
					cur.Kids = []*deepNode{n}
				}
				cur = n
			}

			return root
		}
		measure := func(n *deepNode) (levels int, ok bool) {
			for cur := n; cur != nil; levels++ {
				if cur.Val != uint8(levels+1) {
					return levels, false
				}
				switch {
				case cur.Next != nil && len(cur.Kids) == 0:
					cur = cur.Next
				case cur.Next == nil && len(cur.Kids) == 1:
					cur = cur.Kids[0]
				case cur.Next == nil && len(cur.Kids) == 0:
					cur = nil
				default:
					return levels, false
				}
			}

			return levels, true
		}
		in := build()
		labels := []string{"link:" + link}
		if b, err := api.Encode(ctx, in, opts...); err != nil {
			labels = append(labels, "encode_refused")
		} else {
			// the destination is an allocated value, or a nil pointer that Decode has to allocate (one more level)
			out := &deepNode{}
			var n int
			if nilDestination {
				var p *deepNode
				n, err = api.Decode(ctx, b, &p, opts...)
				if err == nil {
					out = p
				}
			} else {
				n, err = api.Decode(ctx, b, out, opts...)
			}
			if err != nil {
				fail("Encode produced %d bytes that Decode refuses (destination is a nil pointer: %v): %v", len(b), nilDestination, err)
			}
			if n != len(b) {
				fail("Decode consumed %d of %d bytes", n, len(b))
			}
			if levels, ok := measure(out); !ok || levels != depth {
				fail("decoded value has %d well-formed levels, want %d", levels, depth)
			}
			labels = append(labels, "binary_roundtrip")
		}
		if j, err := api.JSONEncode(ctx, in, opts...); err != nil {
			labels = append(labels, "jsonencode_refused")
		} else {
			out := &deepNode{}
			if err := api.JSONDecode(ctx, j, out, opts...); err != nil {
				fail("JSONEncode produced a document of %d bytes that JSONDecode refuses: %.200v", len(j), err)
			}
			// a nil Kids slice is written as [] and read back as an empty slice: measure() treats both as "no kids"
			if levels, ok := measure(out); !ok || levels != depth {
				fail("JSON-decoded value has %d well-formed levels, want %d", levels, depth)
			}
			labels = append(labels, "json_roundtrip")
		}
		stats.Case(check, depth >= 480, desc, func() any { return desc }, labels...)
	})
}

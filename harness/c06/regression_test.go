package c06

import (
	"bytes"
	"errors"
	"testing"

	"github.com/iotaledger/hive.go/kvstore"
	"github.com/iotaledger/hive.go/kvstore/mapdb"
)

// TestRegressionComputeEncodeFailure replays the shrunk case of D6 without rapid: the value encoder fails inside
// Compute. The failure must be returned, the stored bytes must stay the encoding of the last successfully written
// value and the cache must not run ahead of the store.
func TestRegressionComputeEncodeFailure(t *testing.T) {
	store := mapdb.NewMapDB()
	errEncode := errors.New("encoder failed")
	failEncode := false
	enc := func(v int) ([]byte, error) {
		if failEncode {
			return nil, errEncode
		}

		return encodeInt(v), nil
	}
	tv := kvstore.NewTypedValue[int](store, tvKey, enc, plainIntDecoder)
	if err := tv.Set(5); err != nil {
		t.Fatalf("Set: %v", err)
	}
	failEncode = true
	got, err := tv.Compute(func(cur int, exists bool) (int, error) { return cur + 1, nil })
	failEncode = false
	if !errors.Is(err, errEncode) {
		t.Errorf("Compute = (%d, %v): the encoder's failure is not reported", got, err)
	}
	if raw, _ := store.Get(tvKey); !bytes.Equal(raw, encodeInt(5)) {
		t.Errorf("stored bytes are %x, want %x (encoding of 5, the last successfully written value)", raw, encodeInt(5))
	}
	if v, gerr := tv.Get(); gerr != nil || v != 5 {
		t.Errorf("Get after the failed Compute = (%d, %v), want (5, nil): cache is ahead of the store", v, gerr)
	}
	fresh := kvstore.NewTypedValue[int](store, tvKey, enc, plainIntDecoder)
	if v, gerr := fresh.Get(); gerr != nil || v != 5 {
		t.Errorf("Get through a new TypedValue = (%d, %v), want (5, nil)", v, gerr)
	}
}

// TestRegressionComputeEncodeFailureAbsentKey: same on an absent key: nothing may be created.
func TestRegressionComputeEncodeFailureAbsentKey(t *testing.T) {
	store := mapdb.NewMapDB()
	errEncode := errors.New("encoder failed")
	tv := kvstore.NewTypedValue[int](store, tvKey, func(int) ([]byte, error) { return nil, errEncode }, plainIntDecoder)
	if _, err := tv.Compute(func(cur int, exists bool) (int, error) { return 1, nil }); !errors.Is(err, errEncode) {
		t.Errorf("Compute error = %v: the encoder's failure is not reported", err)
	}
	if has, _ := store.Has(tvKey); has {
		raw, _ := store.Get(tvKey)
		t.Errorf("a failed Compute created the key with bytes %x", raw)
	}
	if has, err := tv.Has(); err != nil || has {
		t.Errorf("Has after the failed Compute = (%v, %v), want (false, nil)", has, err)
	}
}

// Package inlgrid holds the member types, their values and the registrations of the inlined-member grids.
package inlgrid

import (
	"reflect"

	"github.com/iancoleman/orderedmap"

	"github.com/iotaledger/hive.go/ierrors"
	"github.com/iotaledger/hive.go/serializer/v2/serix"
)

// IfaceType is the interface type among the member types.
var IfaceType = reflect.TypeOf((*imIface)(nil)).Elem()

// Member types for the inlined-member grids (c01: TestInlinedMemberMatrix / TestInlinedMemberPairs, c02: hostile documents). Every one of them has a map form that is a JSON object (or is refused as an
// inlined member), and their keys are chosen so that some collide with the sibling field `foo` of the holder.
type (
	imPlain struct {
		A uint8  `serix:"a"`
		B uint16 `serix:"b"`
	}
	imAllOptional struct {
		Q *imPlain `serix:"q,optional"`
		R uint8    `serix:"r,omitempty"`
	}
	imTyped struct {
		TA uint8 `serix:"ta"`
	}
	imFoo struct {
		Foo uint8 `serix:"foo"`
	}
	ImBase struct {
		V uint8 `serix:"v"`
	}
	imEmb struct {
		ImBase `serix:""`
	}
	imEmbKeyed struct {
		ImBase `serix:"base"`
	}
	imNestFoo struct {
		In imFoo `serix:",inlined"`
	}
	imIface interface{ imIface() }
	imImplA struct {
		Foo uint8 `serix:"foo"`
	}
	imImplB struct {
		Bar uint8 `serix:"bar"`
	}
	imNestIface struct {
		I imIface `serix:",inlined"`
	}
	imNestIfaceOpt struct {
		I imIface `serix:",inlined,optional"`
	}
	imImplC struct {
		Radius uint8 `serix:"radius"`
		Foo    uint8 `serix:"foo,omitempty"`
	}
	imNestCodec struct {
		Level uint8   `serix:"level"`
		Note  imCodec `serix:",inlined"`
	}
	imArr   [4]byte
	imBlob  []byte
	imCodec struct {
		Foo uint8 `serix:""`
	}
)

func (imImplA) imIface() {}
func (imImplB) imIface() {}
func (imImplC) imIface() {}

func (m imCodec) EncodeJSON() (any, error) {
	o := orderedmap.New()
	o.Set("codecfoo", m.Foo)

	return o, nil
}

func (m *imCodec) DecodeJSON(v any) error {
	mm, ok := v.(map[string]any)
	if !ok {
		return ierrors.New("not a map")
	}
	f, ok := mm["codecfoo"].(float64)
	if !ok {
		return ierrors.New("no entry codecfoo")
	}
	m.Foo = uint8(f)

	return nil
}

type Member struct {
	Name string
	Typ  reflect.Type
	// values of the member: index 0 is the zero value of the type
	Values []any
}

func ptrTo[T any](v T) *T { return &v }

// Members returns the member types of the grid.
func Members() []Member {
	ifaceT := reflect.TypeOf((*imIface)(nil)).Elem()
	plain := imPlain{A: 7, B: 300}
	return []Member{
		{"struct", reflect.TypeOf(imPlain{}), []any{imPlain{}, plain, imPlain{A: 1}}},
		{"ptr_struct", reflect.TypeOf(&imPlain{}), []any{(*imPlain)(nil), &plain, &imPlain{}}},
		{"ptrptr_struct", reflect.TypeOf(ptrTo(&imPlain{})), []any{(**imPlain)(nil), ptrTo(&plain), ptrTo(&imPlain{})}},
		{"all_optional_struct", reflect.TypeOf(imAllOptional{}), []any{imAllOptional{}, imAllOptional{Q: &plain}, imAllOptional{R: 3}}},
		{"ptr_all_optional_struct", reflect.TypeOf(&imAllOptional{}), []any{(*imAllOptional)(nil), &imAllOptional{}, &imAllOptional{Q: &plain}, &imAllOptional{R: 3}}},
		{"typed_struct", reflect.TypeOf(imTyped{}), []any{imTyped{}, imTyped{TA: 9}}},
		{"ptr_typed_struct", reflect.TypeOf(&imTyped{}), []any{(*imTyped)(nil), &imTyped{}, &imTyped{TA: 9}}},
		{"foo_struct", reflect.TypeOf(imFoo{}), []any{imFoo{}, imFoo{Foo: 42}}},
		{"ptr_foo_struct", reflect.TypeOf(&imFoo{}), []any{(*imFoo)(nil), &imFoo{Foo: 42}}},
		{"embedding_struct", reflect.TypeOf(imEmb{}), []any{imEmb{}, imEmb{ImBase{V: 5}}}},
		{"ptr_embedding_struct", reflect.TypeOf(&imEmb{}), []any{(*imEmb)(nil), &imEmb{ImBase{V: 5}}, &imEmb{}}},
		{"ptr_embedding_keyed_struct", reflect.TypeOf(&imEmbKeyed{}), []any{(*imEmbKeyed)(nil), &imEmbKeyed{ImBase{V: 5}}}},
		{"nested_inlined_foo", reflect.TypeOf(imNestFoo{}), []any{imNestFoo{}, imNestFoo{In: imFoo{Foo: 42}}}},
		{"ptr_nested_inlined_foo", reflect.TypeOf(&imNestFoo{}), []any{(*imNestFoo)(nil), &imNestFoo{In: imFoo{Foo: 42}}}},
		{"iface", ifaceT, []any{nil, imImplA{Foo: 42}, imImplB{Bar: 8}, imImplC{Radius: 2}, imImplC{Radius: 2, Foo: 3}}},
		{"nested_inlined_json_codec", reflect.TypeOf(imNestCodec{}), []any{imNestCodec{}, imNestCodec{Level: 1, Note: imCodec{Foo: 9}}}},
		{"ptr_nested_inlined_json_codec", reflect.TypeOf(&imNestCodec{}), []any{(*imNestCodec)(nil), &imNestCodec{Level: 1, Note: imCodec{Foo: 9}}, &imNestCodec{}}},
		{"nested_inlined_iface", reflect.TypeOf(imNestIface{}), []any{imNestIface{}, imNestIface{I: imImplA{Foo: 42}}, imNestIface{I: imImplB{Bar: 8}}}},
		{"ptr_nested_inlined_optional_iface", reflect.TypeOf(&imNestIfaceOpt{}), []any{(*imNestIfaceOpt)(nil), &imNestIfaceOpt{}, &imNestIfaceOpt{I: imImplA{Foo: 42}}, &imNestIfaceOpt{I: imImplB{Bar: 8}}}},
		{"typed_byte_array", reflect.TypeOf(imArr{}), []any{imArr{}, imArr{1, 2, 3, 4}}},
		{"ptr_typed_byte_array", reflect.TypeOf(&imArr{}), []any{(*imArr)(nil), &imArr{1, 2, 3, 4}, &imArr{}}},
		{"typed_byte_slice", reflect.TypeOf(imBlob{}), []any{imBlob(nil), imBlob{1, 2}}},
		{"json_codec", reflect.TypeOf(imCodec{}), []any{imCodec{}, imCodec{Foo: 9}}},
		{"ptr_json_codec", reflect.TypeOf(&imCodec{}), []any{(*imCodec)(nil), &imCodec{Foo: 9}, &imCodec{}}},
	}
}

// NewAPI returns a serix API with the type settings and interface objects of the member types.
func NewAPI() *serix.API {
	api := serix.NewAPI()
	must := func(err error) {
		if err != nil {
			panic(err)
		}
	}
	must(api.RegisterTypeSettings(imTyped{}, serix.TypeSettings{}.WithObjectType(uint8(9))))
	must(api.RegisterTypeSettings(imArr{}, serix.TypeSettings{}.WithObjectType(uint8(4))))
	must(api.RegisterTypeSettings(imBlob{}, serix.TypeSettings{}.WithObjectType(uint8(5)).WithLengthPrefixType(serix.LengthPrefixTypeAsByte)))
	must(api.RegisterTypeSettings(imImplA{}, serix.TypeSettings{}.WithObjectType(uint8(1))))
	must(api.RegisterTypeSettings(imImplB{}, serix.TypeSettings{}.WithObjectType(uint8(2))))
	must(api.RegisterTypeSettings(imImplC{}, serix.TypeSettings{}.WithObjectType(uint8(3))))
	must(api.RegisterInterfaceObjects((*imIface)(nil), imImplA{}, imImplB{}, imImplC{}))

	return api
}

// Demonstration of an independent auditor (tenth round), kept as a regression test; see known_findings.json.
package c01

import (
	"context"
	"testing"

	"github.com/iotaledger/hive.go/serializer/v2/serix"
)

type huntPPInner struct {
	A uint8 `serix:"a"`
}

type huntPPRequired struct {
	X  uint8         `serix:"x"`
	In **huntPPInner `serix:",inlined"`
}

type huntPPOptional struct {
	X  uint8         `serix:"x"`
	In **huntPPInner `serix:",inlined,optional"`
}

type huntPPOmitEmpty struct {
	X  uint8         `serix:"x"`
	In **huntPPInner `serix:",inlined,omitempty"`
}

// TestRegressionAudit38_InlinedOptionalPointerToPointerIsLost: the encoder follows every pointer level of an inlined member (a **S is
// written like an S, spliced into the parent), hasKeyOfMember (and collectStructKeys) take off one level only and treat
// what is left (a pointer) as "neither struct nor interface", i.e. as a typed byte array that is present when the object
// has a "type" entry (repair e3afe73). An inlined optional / omitempty **S that is present is therefore skipped by
// JSONDecode: its content is silently lost.
func TestRegressionAudit38_InlinedOptionalPointerToPointerIsLost(t *testing.T) {
	ctx := context.Background()
	api := serix.NewAPI()

	// control: without optional the member round-trips
	{
		in := &huntPPInner{A: 7}
		j, err := api.JSONEncode(ctx, huntPPRequired{X: 1, In: &in})
		if err != nil {
			t.Fatalf("control encode: %v", err)
		}
		var out huntPPRequired
		if err = api.JSONDecode(ctx, j, &out); err != nil || out.In == nil || *out.In == nil || (*out.In).A != 7 {
			t.Fatalf("control: %s -> %+v (%v)", j, out, err)
		}
	}

	in := &huntPPInner{A: 7}
	j, err := api.JSONEncode(ctx, huntPPOptional{X: 1, In: &in})
	if err != nil {
		t.Fatalf("JSONEncode refused the value: %v", err)
	}
	var out huntPPOptional
	if err = api.JSONDecode(ctx, j, &out); err != nil {
		t.Fatalf("JSONDecode refused the encoder's own output %s: %v", j, err)
	}
	if out.In == nil || *out.In == nil || (*out.In).A != 7 {
		t.Errorf("optional: JSONEncode wrote %s, JSONDecode returned %+v: the inlined member is silently lost", j, out)
	}

	j, err = api.JSONEncode(ctx, huntPPOmitEmpty{X: 1, In: &in})
	if err != nil {
		t.Fatalf("JSONEncode refused the value: %v", err)
	}
	var out2 huntPPOmitEmpty
	if err = api.JSONDecode(ctx, j, &out2); err != nil {
		t.Fatalf("JSONDecode refused the encoder's own output %s: %v", j, err)
	}
	if out2.In == nil || *out2.In == nil || (*out2.In).A != 7 {
		t.Errorf("omitempty: JSONEncode wrote %s, JSONDecode returned %+v: the inlined member is silently lost", j, out2)
	}
}

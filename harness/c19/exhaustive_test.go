package c19

import (
	"fmt"
	"math/big"
	"testing"

	"github.com/iotaledger/hive.go/core/safemath"
	"verifharness/internal/stats"
)

// small-type exact arithmetic in int64 (operands < 2^16 in magnitude, so nothing here can overflow int64).
func exactSmall(op string, a, b int64) (int64, bool) {
	switch op {
	case "add":
		return a + b, true
	case "sub":
		return a - b, true
	case "mul":
		return a * b, true
	case "div":
		if b == 0 {
			return 0, false
		}
		return a / b, true // Go truncates toward zero, like the mathematical definition used by the library
	}
	panic(op)
}

func fail(t *testing.T, check string, payload map[string]any, msg string) {
	t.Helper()
	payload["problem"] = msg
	stats.Violation(check, payload)
	t.Fatalf("%s: %v: %s", check, payload, msg)
}

// sweepBin enumerates operand pairs x in [lo,hi) (as index into the type's value space), all y.
func sweepBin[T safemath.Integer](t *testing.T, check string, xFrom, xTo int64) (evals, nontrivial int64) {
	ti := infoOf[T]()
	min, max := ti.min.Int64(), ti.max.Int64()
	for xi := xFrom; xi < xTo; xi++ {
		x := T(min + xi)
		for yi := min; yi <= max; yi++ {
			y := T(yi)
			for _, op := range binOps {
				evals++
				ex, ok := exactSmall(op, int64(min+xi), yi)
				var exp expectation
				switch {
				case !ok:
					exp = expectation{kind: "divzero", near: true}
				case ex < min || ex > max:
					exp = expectation{kind: "overflow", near: true}
				default:
					exp = expectation{kind: "value", value: nil, near: ex-min <= 2 || max-ex <= 2}
				}
				got, err := callBin(op, x, y)
				var msg string
				if exp.kind == "value" {
					if err != nil {
						msg = fmt.Sprintf("spurious error %v, exact result %d is representable", err, ex)
					} else if toBig(got, ti.signed).Int64() != ex {
						msg = fmt.Sprintf("returned %d, exact result is %d", got, ex)
					}
				} else {
					msg = judge(ti, exp, got, err)
				}
				if msg != "" {
					fail(t, check, map[string]any{"type": ti.name, "op": op, "x": fmt.Sprint(x), "y": fmt.Sprint(y)}, msg)
				}
				if exp.near {
					nontrivial++
				}
			}
		}
	}
	return
}

func sweepShift[T safemath.Integer](t *testing.T, check string, xFrom, xTo int64) (evals, nontrivial int64) {
	ti := infoOf[T]()
	min := ti.min.Int64()
	for xi := xFrom; xi < xTo; xi++ {
		x := T(min + xi)
		for s := 0; s < 256; s++ {
			evals++
			msg, near := checkShiftBig(ti, x, uint8(s))
			if msg != "" {
				fail(t, check, map[string]any{"type": ti.name, "op": "shl", "x": fmt.Sprint(x), "shift": s}, msg)
			}
			if near {
				nontrivial++
			}
		}
	}
	return
}

const ruleExh = "complete enumeration of the stated operand space against exact integer arithmetic; every pair is distinct by construction; non-trivial = the exact result overflows, divides by zero, or lies within 2 of the type's minimum or maximum"

func TestExhaustive8(t *testing.T) {
	const check = "exhaustive_8bit"
	stats.Rule(check, ruleExh+"; space: int8 and uint8, all 65536 pairs x {add,sub,mul,div} and all 256 values x shifts 0..255")
	var ev, nt int64
	e, n := sweepBin[int8](t, check, 0, 256)
	ev, nt = ev+e, nt+n
	e, n = sweepBin[uint8](t, check, 0, 256)
	ev, nt = ev+e, nt+n
	e, n = sweepShift[int8](t, check, 0, 256)
	ev, nt = ev+e, nt+n
	e, n = sweepShift[uint8](t, check, 0, 256)
	ev, nt = ev+e, nt+n
	stats.Bulk(check, ev, nt, true, map[string]any{"type": "int8", "op": "mul", "x": "-1", "y": "-128", "expected": "ErrIntegerOverflow"})
}

func TestExhaustiveShift16(t *testing.T) {
	const check = "exhaustive_shift_16bit"
	stats.Rule(check, ruleExh+"; space: int16 and uint16, all 65536 values x shifts 0..255 (sharded by value range)")
	i, n := stats.Shard()
	from, to := int64(65536*i/n), int64(65536*(i+1)/n)
	e1, n1 := sweepShift[int16](t, check, from, to)
	e2, n2 := sweepShift[uint16](t, check, from, to)
	stats.Bulk(check, e1+e2, n1+n2, true, map[string]any{"type": "int16", "op": "shl", "x": "-1", "shift": 15, "expected": "-32768"})
}

func TestExhaustive16(t *testing.T) {
	const check = "exhaustive_16bit"
	stats.Rule(check, ruleExh+"; space: int16 and uint16, all 2^32 pairs x {add,sub,mul,div} (sharded by x range)")
	i, n := stats.Shard()
	from, to := int64(65536*i/n), int64(65536*(i+1)/n)
	e1, n1 := sweepBin[int16](t, check, from, to)
	e2, n2 := sweepBin[uint16](t, check, from, to)
	stats.Bulk(check, e1+e2, n1+n2, true, map[string]any{"type": "int16", "op": "div", "x": "-32768", "y": "-1", "expected": "ErrIntegerOverflow"})
}

// lattice returns the boundary lattice of a type: 0, ±1, ±2, min/max and neighbours, powers of two and
// neighbours, square-root neighbourhoods.
func lattice[T safemath.Integer]() []T {
	ti := infoOf[T]()
	seen := map[string]bool{}
	var out []T
	add := func(b *big.Int) {
		if b.Cmp(ti.min) < 0 || b.Cmp(ti.max) > 0 || seen[b.String()] {
			return
		}
		seen[b.String()] = true
		if ti.signed {
			out = append(out, T(b.Int64()))
		} else {
			out = append(out, T(b.Uint64()))
		}
	}
	around := func(b *big.Int) {
		for d := int64(-2); d <= 2; d++ {
			add(new(big.Int).Add(b, big.NewInt(d)))
			add(new(big.Int).Neg(new(big.Int).Add(b, big.NewInt(d))))
		}
	}
	around(big.NewInt(0))
	around(ti.min)
	around(ti.max)
	for k := uint(1); k <= ti.bits; k++ {
		around(new(big.Int).Lsh(big.NewInt(1), k))
		around(new(big.Int).Mul(big.NewInt(3), new(big.Int).Lsh(big.NewInt(1), k)))
	}
	around(new(big.Int).Sqrt(ti.max))
	around(new(big.Int).Quo(ti.max, big.NewInt(3)))
	around(new(big.Int).Quo(ti.max, big.NewInt(2)))
	return out
}

func latticeType[T safemath.Integer](t *testing.T, check string) {
	ti := infoOf[T]()
	l := lattice[T]()
	var ev, nt int64
	for _, x := range l {
		for _, y := range l {
			for _, op := range binOps {
				msg, near := checkBinBig(ti, op, x, y)
				ev++
				if near {
					nt++
				}
				if msg != "" {
					fail(t, check, map[string]any{"type": ti.name, "op": op, "x": fmt.Sprint(x), "y": fmt.Sprint(y)}, msg)
				}
			}
		}
		for s := 0; s < 256; s++ {
			msg, near := checkShiftBig(ti, x, uint8(s))
			ev++
			if near {
				nt++
			}
			if msg != "" {
				fail(t, check, map[string]any{"type": ti.name, "op": "shl", "x": fmt.Sprint(x), "shift": s}, msg)
			}
		}
	}
	stats.Bulk(check, ev, nt, false, map[string]any{"type": ti.name, "lattice_points": len(l)})
}

// defined types: the Integer constraint of safemath admits every type whose underlying type is one of the eight builtin
// integer types (amounts, slot indices, ... are declared like this by callers)
type (
	namedU8  uint8
	namedI8  int8
	namedU16 uint16
	namedI32 int32
	namedU64 uint64
	namedI64 int64
)

func TestLattice(t *testing.T) {
	const check = "boundary_lattice"
	stats.Rule(check, "all pairs of the boundary lattice (0, +-1, +-2, min/max, 2^k, 3*2^k, sqrt(max), max/2, max/3, each +-2 and negated) x {add,sub,mul,div}, and lattice x shifts 0..255, for all eight builtin types and six defined types over them (type Amount uint64 style), against math/big; distinct by construction; non-trivial as above")
	latticeType[int8](t, check)
	latticeType[uint8](t, check)
	latticeType[int16](t, check)
	latticeType[uint16](t, check)
	latticeType[int32](t, check)
	latticeType[uint32](t, check)
	latticeType[int64](t, check)
	latticeType[uint64](t, check)
	latticeType[namedU8](t, check)
	latticeType[namedI8](t, check)
	latticeType[namedU16](t, check)
	latticeType[namedI32](t, check)
	latticeType[namedU64](t, check)
	latticeType[namedI64](t, check)

	// 64-bit specials over the lattice
	ti64, tu64 := infoOf[int64](), infoOf[uint64]()
	var ev, nt int64
	for _, x := range lattice[int64]() {
		for _, y := range lattice[int64]() {
			exp := expectFor(ti64, new(big.Int).Mul(big.NewInt(x), big.NewInt(y)))
			got, err := safemath.SafeMulInt64(x, y)
			ev++
			if exp.near {
				nt++
			}
			if msg := judge(ti64, exp, got, err); msg != "" {
				fail(t, check, map[string]any{"fn": "SafeMulInt64", "x": fmt.Sprint(x), "y": fmt.Sprint(y)}, msg)
			}
		}
	}
	lu := lattice[uint64]()
	for _, x := range lu {
		for _, y := range lu {
			exp := expectFor(tu64, new(big.Int).Mul(toBig(x, false), toBig(y, false)))
			got, err := safemath.SafeMulUint64(x, y)
			ev++
			if exp.near {
				nt++
			}
			if msg := judge(tu64, exp, got, err); msg != "" {
				fail(t, check, map[string]any{"fn": "SafeMulUint64", "x": fmt.Sprint(x), "y": fmt.Sprint(y)}, msg)
			}
		}
	}
	stats.Bulk(check, ev, nt, false, nil)
}

// Demonstration of an independent auditor (eighth round), kept as a regression test; see known_findings.json.
package c02

import (
	"context"
	"os"
	"os/exec"
	"strings"
	"testing"

	"github.com/iotaledger/hive.go/serializer/v2/serix"
)

// A struct that embeds a pointer to itself. Legal Go, and parseStructFields accepts the tags. The type has no value
// that can be written (the embedded pointer is mandatory at every level), and both encoders say so with an ordinary
// error: Encode -> "embedded field HuntSelfEmb is a nil pointer", JSONEncode -> "struct ... is a member of itself"
// (the latter since fix fa3f5d5, which gave collectStructKeys and hasKeyOfMember a visited list for "a struct that
// embeds or inlines itself"). The decoders were not given one: the embedded branch of mapDecodeStructFields /
// decodeStructFields allocates the nil embedded pointer and calls itself without passing through mapDecode / decode,
// so the nesting limit (maxDecodeDepth) never sees the recursion.
type HuntSelfEmb struct {
	X            uint8 `serix:"x"`
	*HuntSelfEmb `serix:""`
}

func TestRegressionAuditC0210_SelfEmbeddedDecode(t *testing.T) {
	api := serix.NewAPI()
	ctx := context.Background()

	switch os.Getenv("HUNT_CHILD") {
	case "json":
		err := api.JSONDecode(ctx, []byte(os.Getenv("HUNT_DOC")), new(HuntSelfEmb))
		t.Logf("child: JSONDecode returned: %v", err != nil)

		return
	case "binary":
		// the recursion of the binary decoder is as deep as the input is long (one byte per level), not limited to
		// maxDecodeDepth: a few megabytes exhaust the 1 GB goroutine stack
		n, err := api.Decode(ctx, make([]byte, 4<<20), new(HuntSelfEmb))
		t.Logf("child: Decode returned: %d, %v", n, err != nil)

		return
	}

	// the encoders answer with ordinary errors
	if _, err := api.Encode(ctx, &HuntSelfEmb{X: 1}); err == nil {
		t.Fatalf("Encode succeeded")
	} else {
		t.Logf("Encode: %v", err)
	}
	if _, err := api.JSONEncode(ctx, &HuntSelfEmb{X: 1}); err == nil {
		t.Fatalf("JSONEncode succeeded")
	} else {
		t.Logf("JSONEncode: %v", err)
	}
	// and so do the decoders for some inputs
	if err := api.JSONDecode(ctx, []byte(`{}`), new(HuntSelfEmb)); err == nil {
		t.Fatalf("JSONDecode({}) succeeded")
	} else {
		t.Logf("JSONDecode({}): %v", err)
	}
	if n, err := api.Decode(ctx, make([]byte, 2000), new(HuntSelfEmb)); err == nil {
		t.Fatalf("Decode succeeded")
	} else {
		// 2000 levels of recursion: twice maxDecodeDepth, yet not the nesting-limit error
		t.Logf("Decode(2000 bytes): n=%d, error mentions the nesting limit: %v", n, strings.Contains(err.Error(), "nesting depth"))
	}

	run := func(mode, doc string) (string, error) {
		cmd := exec.Command(os.Args[0], "-test.run", "^TestRegressionAuditC0210_SelfEmbeddedDecode$", "-test.v")
		cmd.Env = append(os.Environ(), "HUNT_CHILD="+mode, "HUNT_DOC="+doc)
		out, err := cmd.CombinedOutput()

		return string(out), err
	}

	for _, c := range []struct{ mode, doc string }{
		{"json", `{"x":1}`},
		{"json", `{"x":1,"foo":[1,2,3]}`},
		{"binary", ""},
	} {
		out, err := run(c.mode, c.doc)
		if err != nil || strings.Contains(out, "stack overflow") {
			first := out
			if i := strings.Index(first, "\n\nruntime stack"); i > 0 {
				first = first[:i]
			}
			t.Errorf("%s decoder, input %q: the process died instead of returning an error (%v):\n%s", c.mode, c.doc, err, first)
		} else {
			t.Logf("%s decoder, input %q: returned", c.mode, c.doc)
		}
	}
}

// Demonstration of an independent auditor (seventh round), kept as a regression test; see known_findings.json.
package c01

import (
	"context"
	"reflect"
	"testing"

	"github.com/iotaledger/hive.go/serializer/v2/serix"
)

// hasKeyOfStruct (repair b492f7f) decides whether an inlined optional/omitempty struct member was written by looking for
// the keys of its fields - but it tests "has an explicit key" BEFORE "is an embedded struct", while the encoder (and
// collectStructKeys, and mapDecodeStructFields) test "is an embedded struct" first and ignore the key of an embedded
// struct (its fields are spliced into the parent). For a member whose only fields come from an embedded struct that
// carries a key in its tag, hasKeyOfStruct looks for that never-written key, reports "nothing there" and the decoder
// skips the member although the encoder wrote it: the content is silently lost. Before the repair the value round-tripped.

type Hunt32Emb struct {
	V uint8 `serix:""`
}

type hunt32Inner struct {
	Hunt32Emb `serix:"emb"`
}

type hunt32OuterOptional struct {
	N  uint8        `serix:""`
	In *hunt32Inner `serix:",inlined,optional"`
}

type hunt32OuterOmitEmpty struct {
	N  uint8       `serix:""`
	In hunt32Inner `serix:",inlined,omitempty"`
}

func TestRegressionAudit32_EmbeddedWithKeyInsideInlinedOptional(t *testing.T) {
	ctx := context.Background()
	api := serix.NewAPI()

	// the inner struct alone round-trips: the key of an embedded struct is ignored by encoder and decoder alike
	in := hunt32Inner{Hunt32Emb{V: 5}}
	j, err := api.JSONEncode(ctx, in)
	if err != nil {
		t.Fatal(err)
	}
	var inDst hunt32Inner
	if err := api.JSONDecode(ctx, j, &inDst); err != nil || inDst != in {
		t.Fatalf("inner: %s %v %+v", j, err, inDst)
	}

	src := hunt32OuterOptional{N: 1, In: &hunt32Inner{Hunt32Emb{V: 5}}}

	// binary form: fine
	b, err := api.Encode(ctx, src)
	if err != nil {
		t.Fatal(err)
	}
	var dstB hunt32OuterOptional
	if n, err := api.Decode(ctx, b, &dstB); err != nil || n != len(b) || !reflect.DeepEqual(src, dstB) {
		t.Fatalf("binary: %v %d %+v", err, n, dstB)
	}

	j, err = api.JSONEncode(ctx, src)
	if err != nil {
		t.Fatal(err)
	}
	var dst hunt32OuterOptional
	if err := api.JSONDecode(ctx, j, &dst); err != nil {
		t.Fatalf("JSONDecode refuses %s: %v", j, err)
	}
	if !reflect.DeepEqual(src, dst) {
		t.Errorf("inlined,optional: JSONEncode wrote %s, JSONDecode returned In=%v, want In=%+v", j, dst.In, *src.In)
	}

	src2 := hunt32OuterOmitEmpty{N: 1, In: hunt32Inner{Hunt32Emb{V: 5}}}
	j, err = api.JSONEncode(ctx, src2)
	if err != nil {
		t.Fatal(err)
	}
	var dst2 hunt32OuterOmitEmpty
	if err := api.JSONDecode(ctx, j, &dst2); err != nil {
		t.Fatalf("JSONDecode refuses %s: %v", j, err)
	}
	if !reflect.DeepEqual(src2, dst2) {
		t.Errorf("inlined,omitempty: JSONEncode wrote %s, JSONDecode returned %+v, want %+v", j, dst2, src2)
	}
}

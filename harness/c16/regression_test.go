package c16

import (
	"fmt"
	"sync/atomic"
	"testing"

	"github.com/iotaledger/hive.go/runtime/workerpool"
	"verifharness/internal/ctl"
	"verifharness/internal/stats"
)

func runFixed(t *testing.T, check string, prog program) {
	t.Helper()
	r := &run{prog: prog}
	res := r.execute()
	stats.Case(check, true, prog.key(), prog.sample, labelsOf(prog, res)...)
	if res.Kind != "" {
		pl := prog.sample().(map[string]any)
		pl["kind"], pl["observed"], pl["trace"] = res.Kind, res.Violation, res.Trace
		if res.Goroutines != "" {
			pl["goroutines_at_hang"] = res.Goroutines
		}
		stats.Violation(check, pl)
		t.Fatalf("%s: %s\nsteps:\n  %s\ntrace:\n  %s", res.Kind, res.Violation, joinLines(prog.stepStrings()), joinLines(res.Trace))
	}
}

// D20: Submit passed the running-check, Shutdown (and the whole shutdown sequence) runs, then Submit
// counts and queues the task: counted but never dispatched; the counter stays at 1 for ever.
// Shrunk case of TestHookedSchedules on the unfixed tree.
func TestRegressionSubmitShutdownWindow(t *testing.T) {
	stats.Rule("regression", "fixed replay cases of the defects found (no rapid)")
	for _, then := range []string{"shutdown+wait", "shutdown"} {
		for _, cancel := range []bool{false, true} {
			runFixed(t, "regression", program{
				Pools:      []poolSpec{{Group: -1, Workers: 1, Cancel: cancel}},
				Attributed: true,
				Steps:      []step{{Kind: "hooked", Pool: 0, Task: &taskSpec{ID: 1, Pool: 0}, Then: then}},
			})
		}
	}
}

// D28: Shutdown while the dispatcher still has tasks to hand over, then Start: Start held the pool
// mutex while waiting for the previous workers, the previous dispatcher needed that mutex for
// IsRunning -> Start (and everything behind it) blocked for ever. Shrunk case of TestPrograms.
func TestRegressionRestartWhileDraining(t *testing.T) {
	stats.Rule("regression", "fixed replay cases of the defects found (no rapid)")
	for _, cancel := range []bool{false, true} {
		runFixed(t, "regression", program{
			Pools:      []poolSpec{{Group: -1, Workers: 1, Cancel: cancel}},
			Attributed: true,
			Steps: []step{
				{Kind: "submit", Pool: 0, Task: &taskSpec{ID: 1, Pool: 0, Held: true}},
				{Kind: "submit", Pool: 0, Task: &taskSpec{ID: 2, Pool: 0}},
				{Kind: "submit", Pool: 0, Task: &taskSpec{ID: 3, Pool: 0}},
				{Kind: "submit", Pool: 0, Task: &taskSpec{ID: 4, Pool: 0}},
				{Kind: "shutdown", Pool: 0},
				{Kind: "restart", Pool: 0},
				{Kind: "submit", Pool: 0, Task: &taskSpec{ID: 5, Pool: 0}},
				{Kind: "waitZero", Pool: 0},
			},
		})
	}
}

// D28, second face: a task of the previous run calls Submit while Start waits for it.
func TestRegressionRestartWhileTaskSubmits(t *testing.T) {
	stats.Rule("regression", "fixed replay cases of the defects found (no rapid)")
	runFixed(t, "regression", program{
		Pools:      []poolSpec{{Group: -1, Workers: 1, Cancel: false}},
		Attributed: false,
		Steps: []step{
			{Kind: "submit", Pool: 0, Task: &taskSpec{ID: 1, Pool: 0, Held: true, Children: []taskSpec{{ID: 2, Pool: 0}}}},
			{Kind: "shutdown", Pool: 0},
			{Kind: "restart", Pool: 0},
			{Kind: "waitZero", Pool: 0},
		},
	})
}

// TestSubmitShutdownRace: free-running Submit || Shutdown without any owned schedule (the window of
// D20 and the missed wake-up of D21 were hit about once in 2000 such trials on the unfixed tree).
func TestSubmitShutdownRace(t *testing.T) {
	const check = "submit_shutdown_race"
	stats.Rule(check, "free-running trials on a fresh pool (1-2 workers): variant A: a goroutine calls Submit while the test calls Shutdown; variant B: a running task submits a child while the test calls Shutdown; then ShutdownComplete.Wait must return (ctl.HangTimeout), the counter must be 0 and the task must have run iff the counter accounted for it; the interleaving is the scheduler's")
	trials := stats.Scale(20000, 50000) // per process; the thorough tier runs 16 processes
	for i := 0; i < trials; i++ {
		wp := workerpool.New(fmt.Sprintf("race%d", i), workerpool.WithWorkerCount(1+i%2)).Start()
		var inc, ran atomic.Int64
		wp.PendingTasksCounter.Subscribe(func(o, n int) {
			if n > o {
				inc.Add(1)
			}
		})
		started := make(chan struct{})
		submitted := make(chan struct{})
		if i%4 < 2 {
			go func() {
				close(started)
				wp.Submit(func() { ran.Add(1) })
				close(submitted)
			}()
		} else {
			wp.Submit(func() {
				ran.Add(1)
				close(started)
				wp.Submit(func() { ran.Add(1) })
				close(submitted)
			})
		}
		<-started
		for y := 0; y < i%3; y++ {
			ctl.Settle(0)
		}
		wp.Shutdown()
		fail := func(msg string) {
			stats.Violation(check, map[string]any{"trial": i, "observed": msg, "counter": wp.PendingTasksCounter.Get(), "accepted": inc.Load(), "ran": ran.Load()})
			t.Fatalf("trial %d: %s (counter=%d accepted=%d ran=%d)", i, msg, wp.PendingTasksCounter.Get(), inc.Load(), ran.Load())
		}
		if !waitHang(submitted) {
			fail("Submit did not return")
		}
		if !withinHang(wp.ShutdownComplete.Wait) {
			fail("Shutdown; ShutdownComplete.Wait did not return")
		}
		if c := wp.PendingTasksCounter.Get(); c != 0 || inc.Load() != ran.Load() {
			fail("after shutdown completion: counter must be 0 and every accepted task must have run exactly once")
		}
	}
	stats.Bulk(check, int64(trials), 12, false, map[string]any{"trials": trials})
}

package c07

import (
	"encoding/binary"
	"fmt"
	"math"
	"strings"
	"testing"

	"github.com/iotaledger/hive.go/kvstore"
	"github.com/iotaledger/hive.go/kvstore/mapdb"
	"pgregory.net/rapid"
	"verifharness/internal/stats"
)

// TestSequenceHugeIntervals: "restarts with any interval" includes intervals near the top of the uint64 range (the
// package's own test uses math.MaxUint64). A lease that would reach beyond the largest number must not wrap around:
// numbers stay strictly increasing over all lifetimes, and the only error a fault-free Next may return is the
// exhaustion of the sequence - when the store's mark has reached the top.
func TestSequenceHugeIntervals(t *testing.T) {
	const check = "sequence_huge_intervals"
	stats.Rule(check, "fault free, one live object at a time: rapid draws 3..25 actions from next x1..3 / Release / restart with a new interval (the previous object is released first) / crash (the object is abandoned, a new one with a new interval takes over); intervals from {1,2,5, 2^32, 2^62, 2^63, 2^63+1, MaxUint64-1, MaxUint64}. Oracle: every number returned is larger than every number returned before (over all lifetimes); Next fails only with an \"exhausted\" error and only when the stored mark is MaxUint64, and keeps failing afterwards; Release never fails. Distinct by action list; non-trivial = a lease was requested that reaches beyond MaxUint64")
	intervals := []uint64{1, 2, 5, 1 << 32, 1 << 62, 1 << 63, 1<<63 + 1, math.MaxUint64 - 1, math.MaxUint64}
	rapid.Check(t, func(rt *rapid.T) {
		store := mapdb.NewMapDB()
		var log []string
		fail := func(format string, a ...any) {
			msg := fmt.Sprintf(format, a...)
			stats.Violation(check, map[string]any{"actions": log, "problem": msg})
			rt.Fatalf("%s\nactions: %s", msg, strings.Join(log, " "))
		}
		mark := func() (uint64, bool) {
			b, err := store.Get(seqKey)
			if err != nil || len(b) != 8 {
				return 0, false
			}

			return binary.BigEndian.Uint64(b), true
		}
		newSeq := func() (*kvstore.Sequence, uint64) {
			iv := rapid.SampledFrom(intervals).Draw(rt, "interval")
			s, err := kvstore.NewSequence(store, seqKey, iv)
			if err != nil {
				fail("NewSequence failed: %v", err)
			}
			log = append(log, fmt.Sprintf("new(interval=%d)", iv))

			return s, iv
		}
		seq, interval := newSeq()
		have, last := false, uint64(0)
		exhausted, beyond := false, false
		for i, n := 0, rapid.IntRange(3, 25).Draw(rt, "actions"); i < n; i++ {
			switch rapid.SampledFrom([]string{"next", "next", "next", "release", "restart", "crash"}).Draw(rt, "kind") {
			case "next":
				for k := rapid.IntRange(1, 3).Draw(rt, "k"); k > 0; k-- {
					before, hadMark := mark()
					if hadMark && before+interval < before {
						beyond = true
					}
					got, err := seq.Next()
					log = append(log, fmt.Sprintf("next=%d,%v", got, err))
					if err != nil {
						m, ok := mark()
						if !strings.Contains(err.Error(), "exhausted") || !ok || m != math.MaxUint64 {
							fail("Next failed with %v although no fault was injected and the stored mark is %d (present %v): only an exhausted sequence (mark MaxUint64) may refuse", err, m, ok)
						}
						exhausted = true

						continue
					}
					if exhausted {
						fail("Next returned %d after the sequence had reported its exhaustion", got)
					}
					if have && got <= last {
						fail("Next returned %d after %d had already been handed out: numbers must be strictly increasing over all lifetimes", got, last)
					}
					have, last = true, got
				}
			case "release":
				log = append(log, "release")
				if err := seq.Release(); err != nil {
					fail("Release failed without a fault: %v", err)
				}
			case "restart":
				log = append(log, "release+restart")
				if err := seq.Release(); err != nil {
					fail("Release failed without a fault: %v", err)
				}
				seq, interval = newSeq()
			default:
				log = append(log, "crash")
				seq, interval = newSeq()
			}
		}
		stats.Case(check, beyond, strings.Join(log, " "), func() any { return log })
	})
}

package c10

import (
	"testing"

	"pgregory.net/rapid"
	"verifharness/internal/stats"
)

const checkDiff = "list_differential"

// pickHandle draws a handle argument for a call on list L. Each of the three classes named by the property
// (live handle of this list, removed handle, handle of another list) has a fixed minimum probability; if the
// drawn class is empty any usable handle is taken. Retired handles (live when Init ran) are never drawn.
func pickHandle(t *rapid.T, w *world, L int, label string) int {
	var live, removed, foreign, any []int
	for i, h := range w.hs {
		switch w.argClass(L, i) {
		case "live":
			live = append(live, i)
		case "removed":
			removed = append(removed, i)
		case "foreign":
			foreign = append(foreign, i)
		default:
			_ = h
			continue
		}
		any = append(any, i)
	}
	if len(any) == 0 {
		panic("harness bug: pickHandle without usable handles (needHandles must run first)")
	}
	var pool []int
	switch c := rapid.IntRange(0, 9).Draw(t, label+"Class"); {
	case c <= 5:
		pool = live
	case c <= 7:
		pool = removed
	default:
		pool = foreign
	}
	if len(pool) == 0 {
		pool = any
	}

	return pool[rapid.IntRange(0, len(pool)-1).Draw(t, label)]
}

func TestListDifferential(t *testing.T) {
	stats.Rule(checkDiff, "rapid state machine over 3 ds.List/container/list pairs (L0 lock-free, L1 thread-safe, L2 drawn) and a handle table; "+
		"actions PushFront/PushBack/InsertBefore/InsertAfter/MoveToFront/MoveToBack/MoveBefore/MoveAfter/Remove/PushBackList/PushFrontList(other list, empty list, the list itself)/Init; "+
		"handle arguments drawn from {live handle of this list 60%, removed 20%, handle of another list 20%}; after every action Values/ForEach/ForEachReverse/Range/RangeReverse/early abort/Len/Front/Back of every list "+
		"and Prev/Next/Value of every handle ever created are compared with container/list; distinct by (flavours, action list); "+
		"non-trivial = history has a MoveBefore/MoveAfter/InsertBefore/InsertAfter relative to a live handle AND a call with a removed or foreign handle")

	rapid.Check(t, func(rt *rapid.T) {
		w := newWorld([numLists]bool{true, false, rapid.Bool().Draw(rt, "L2lockFree")})
		nextVal := 0
		val := func() int { nextVal++; return nextVal }
		var labels []string
		var failure string
		sinceInit := 0

		step := func(a action) {
			sinceInit++
			labels = append(labels, "op:"+a.Op)
			if a.H >= 0 {
				labels = append(labels, "arg:"+w.argClass(a.L, a.H))
			}
			if a.M >= 0 {
				labels = append(labels, "arg:"+w.argClass(a.L, a.M))
			}
			if (a.Op == "PushBackList" || a.Op == "PushFrontList") && a.Other == a.L {
				labels = append(labels, "selfpush:"+map[bool]string{true: "lockFree", false: "threadSafe"}[w.lockFree[a.L]])
			}
			a.K = rapid.IntRange(0, 7).Draw(rt, "abortAt")
			if msg := w.apply(a); msg != "" {
				failure = msg
				stats.Case(checkDiff, w.nontrivial(), w.key(), func() any { return w.payload("") }, labels...)
				stats.Violation(checkDiff, w.payload(msg))
				rt.Fatalf("%s\nlists: %v\nactions: %v", msg, w.flavourNames(), w.log)
			}
		}
		list := func() int { return rapid.IntRange(0, numLists-1).Draw(rt, "list") }
		// rapid treats a Skip before the first draw of an action as "pick another action" (no penalty), so all
		// applicability tests come first and depend on the state only.
		needHandles := func() {
			for _, h := range w.hs {
				if h.st != stRetired {
					return
				}
			}
			rt.Skip("no handle to pass yet")
		}
		unary := func(op string) func(*rapid.T) {
			return func(*rapid.T) {
				needHandles()
				L := list()
				step(action{Op: op, L: L, H: pickHandle(rt, w, L, "h"), M: -1})
			}
		}
		binary := func(op string) func(*rapid.T) {
			return func(*rapid.T) {
				needHandles()
				L := list()
				step(action{Op: op, L: L, H: pickHandle(rt, w, L, "h"), M: pickHandle(rt, w, L, "mark")})
			}
		}
		insert := func(op string) func(*rapid.T) {
			return func(*rapid.T) {
				needHandles()
				L := list()
				step(action{Op: op, L: L, H: -1, M: pickHandle(rt, w, L, "mark"), V: val()})
			}
		}
		push := func(op string) func(*rapid.T) {
			return func(*rapid.T) { step(action{Op: op, L: list(), H: -1, M: -1, V: val()}) }
		}
		pushList := func(op string) func(*rapid.T) {
			return func(*rapid.T) {
				for _, r := range w.r {
					if r.Len() > 40 {
						rt.Skip("lists long enough")
					}
				}
				L := list()
				other := rapid.IntRange(-1, numLists).Draw(rt, "other") // -1 empty list, numLists = the list itself
				if other == numLists {
					other = L
				}
				step(action{Op: op, L: L, H: -1, M: -1, Other: other, V: val()})
			}
		}

		rt.Repeat(map[string]func(*rapid.T){
			"PushFront":     push("PushFront"),
			"PushBack":      push("PushBack"),
			"PushBack2":     push("PushBack"),
			"InsertBefore":  insert("InsertBefore"),
			"InsertAfter":   insert("InsertAfter"),
			"MoveToFront":   unary("MoveToFront"),
			"MoveToBack":    unary("MoveToBack"),
			"MoveBefore":    binary("MoveBefore"),
			"MoveAfter":     binary("MoveAfter"),
			"Remove":        unary("Remove"),
			"PushBackList":  pushList("PushBackList"),
			"PushFrontList": pushList("PushFrontList"),
			"Init": func(*rapid.T) {
				if sinceInit < 10 && len(w.log) > 0 { // keep Init rare: it retires every live handle of the list
					rt.Skip("too soon after the last Init")
				}
				sinceInit = 0
				step(action{Op: "Init", L: list(), H: -1, M: -1})
			},
		})

		if failure == "" {
			stats.Case(checkDiff, w.nontrivial(), w.key(), func() any { return w.payload("") }, labels...)
		}
	})
}

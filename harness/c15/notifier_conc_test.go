package c15

import (
	"context"
	"fmt"
	"runtime"
	"strings"
	"sync"
	"testing"
	"time"

	"github.com/iotaledger/hive.go/runtime/valuenotifier"
	"pgregory.net/rapid"
	"verifharness/internal/ctl"
	"verifharness/internal/stats"
)

// ---------------------------------------------------------------------------------------------------------------
// Concurrent programs for runtime/valuenotifier.
//
// Domain: 1-5 listener tasks over the values {1,2}. A task creates its listener before the start gate or as its
// first racing step, then blocks in Wait(ctx) in its own goroutine; optionally a second goroutine calls
// l.Deregister() and/or a third cancels the context, each after a drawn number of yields; optionally the task
// listens again for the same value after its Wait returned (second round). 1-2 notifier goroutines call Notify(v).
// Deadlock-free by construction: when notifiers, deregisterers and cancellers are done, the harness first waits
// for the "clean" listeners (created before the gate, never deregistered or cancelled by the program, and some
// Notify of their value is in the program: their Wait must return nil by itself), then cancels every remaining
// context, so every Wait returns.
//
// Oracle over logical-clock stamps (every call bracketed by two ticks):
//   nil                     => some Notify(v) ended after the listener's creation began and began before the
//                              listener's deregistration completed (explicit Deregister return, else Wait's return);
//   ErrListenerDeregistered => a Deregister call of this listener began before Wait returned;
//   context error           => the cancel of this context began before Wait returned;
//   clean listeners         => nil, without the final cancel.
// ---------------------------------------------------------------------------------------------------------------

const nconcCheck = "notifier_concurrent"

type ncRound struct {
	l                *valuenotifier.Listener
	ctx              context.Context
	cancel           context.CancelFunc
	createS, createE int64
	waitS, waitE     int64
	result           string
	deregS, deregE   int64 // explicit Deregister by the program (0 = none)
	cancelS          int64 // first cancel of the context (0 = none)
	done             chan struct{}
}

type ncTask struct {
	id          int
	v           int
	pre         bool // listener created before the gate
	waitYields  int
	dereg       bool
	deregYields int
	cancel      bool
	cancYields  int
	second      bool // listen again after the first Wait returned
	rounds      [2]*ncRound
}

type ncNotify struct {
	v, yields  int
	start, end int64
}

type ncProgram struct {
	tasks     []*ncTask
	notifiers [][]*ncNotify
}

func (p *ncProgram) String() string {
	var b strings.Builder
	for _, t := range p.tasks {
		fmt.Fprintf(&b, "L%d v=%d pre=%v waitY=%d", t.id, t.v, t.pre, t.waitYields)
		if t.dereg {
			fmt.Fprintf(&b, " dereg@y%d", t.deregYields)
		}
		if t.cancel {
			fmt.Fprintf(&b, " cancel@y%d", t.cancYields)
		}
		if t.second {
			b.WriteString(" relisten")
		}
		b.WriteString("|")
	}
	for i, g := range p.notifiers {
		fmt.Fprintf(&b, "N%d:", i)
		for _, n := range g {
			fmt.Fprintf(&b, " y%d Notify(%d)", n.yields, n.v)
		}
		b.WriteString("|")
	}
	return b.String()
}

func (p *ncProgram) lines() []string { return strings.Split(strings.TrimSuffix(p.String(), "|"), "|") }

func drawNCProgram(t *rapid.T) *ncProgram {
	p := &ncProgram{}
	for i, n := 0, rapid.IntRange(1, 5).Draw(t, "listeners"); i < n; i++ {
		task := &ncTask{id: i, v: rapid.IntRange(1, 2).Draw(t, "v"), pre: rapid.Bool().Draw(t, "pre"), waitYields: rapid.IntRange(0, 4).Draw(t, "waitYields")}
		if rapid.IntRange(0, 2).Draw(t, "dereg") == 0 {
			task.dereg, task.deregYields = true, rapid.IntRange(0, 6).Draw(t, "deregYields")
		}
		if rapid.IntRange(0, 3).Draw(t, "cancel") == 0 {
			task.cancel, task.cancYields = true, rapid.IntRange(0, 6).Draw(t, "cancelYields")
		}
		task.second = rapid.IntRange(0, 2).Draw(t, "second") == 0
		p.tasks = append(p.tasks, task)
	}
	for g, n := 0, rapid.IntRange(1, 2).Draw(t, "notifiers"); g < n; g++ {
		var l []*ncNotify
		for i, k := 0, rapid.IntRange(1, 4).Draw(t, "nNotify"); i < k; i++ {
			l = append(l, &ncNotify{v: rapid.IntRange(1, 2).Draw(t, "v"), yields: rapid.IntRange(0, 4).Draw(t, "yields")})
		}
		p.notifiers = append(p.notifiers, l)
	}
	return p
}

type ncRun struct {
	p     *ncProgram
	n     *valuenotifier.Notifier[int]
	clock ctl.Clock
	mu    sync.Mutex // guards cancelS of rounds (canceller goroutine vs. final cancel)
}

func (r *ncRun) newRound(v int) *ncRound {
	rd := &ncRound{done: make(chan struct{})}
	rd.ctx, rd.cancel = context.WithCancel(context.Background())
	rd.createS = r.clock.Tick()
	rd.l = r.n.Listener(v)
	rd.createE = r.clock.Tick()
	return rd
}

func (r *ncRun) wait(rd *ncRound) {
	rd.waitS = r.clock.Tick()
	err := rd.l.Wait(rd.ctx)
	rd.waitE = r.clock.Tick()
	rd.result = errName(err)
	close(rd.done)
}

func (r *ncRun) cancelRound(rd *ncRound) {
	r.mu.Lock()
	if rd.cancelS == 0 {
		rd.cancelS = r.clock.Tick()
	}
	r.mu.Unlock()
	rd.cancel()
}

// execute returns "" or a hang description.
func (r *ncRun) execute() string {
	p := r.p
	r.n = valuenotifier.New[int]()
	for _, t := range p.tasks {
		if t.pre {
			t.rounds[0] = r.newRound(t.v)
		}
	}
	gate := make(chan struct{})
	var helpers, waiters sync.WaitGroup
	round0Ready := make([]chan struct{}, len(p.tasks))
	for i, t := range p.tasks {
		round0Ready[i] = make(chan struct{})
		waiters.Add(1)
		go func(t *ncTask, ready chan struct{}) {
			defer waiters.Done()
			<-gate
			if !t.pre {
				t.rounds[0] = r.newRound(t.v)
			}
			close(ready)
			yield(t.waitYields)
			r.wait(t.rounds[0])
			if t.second {
				rd := r.newRound(t.v)
				r.mu.Lock()
				t.rounds[1] = rd
				r.mu.Unlock()
				r.wait(rd)
			}
		}(t, round0Ready[i])
		if t.dereg {
			helpers.Add(1)
			go func(t *ncTask, ready chan struct{}) {
				defer helpers.Done()
				<-gate
				<-ready
				yield(t.deregYields)
				rd := t.rounds[0]
				s := r.clock.Tick()
				rd.l.Deregister()
				e := r.clock.Tick()
				r.mu.Lock()
				rd.deregS, rd.deregE = s, e
				r.mu.Unlock()
			}(t, round0Ready[i])
		}
		if t.cancel {
			helpers.Add(1)
			go func(t *ncTask, ready chan struct{}) {
				defer helpers.Done()
				<-gate
				<-ready
				yield(t.cancYields)
				r.cancelRound(t.rounds[0])
			}(t, round0Ready[i])
		}
	}
	for _, g := range p.notifiers {
		helpers.Add(1)
		go func(g []*ncNotify) {
			defer helpers.Done()
			<-gate
			for _, n := range g {
				yield(n.yields)
				n.start = r.clock.Tick()
				r.n.Notify(n.v)
				n.end = r.clock.Tick()
			}
		}(g)
	}
	close(gate)
	if !ctl.Within(ctl.HangTimeout, helpers.Wait) {
		return "Notify / Deregister / cancel goroutines did not all return"
	}
	// clean listeners must return nil by themselves
	for _, t := range p.tasks {
		if r.clean(t) {
			if !ctl.WaitChan(t.rounds[0].done, watchdogBound()) {
				hangSeen.Store(true)
				return fmt.Sprintf("listener L%d (value %d) was created before every Notify(%d) of the program and was never deregistered or cancelled, but its Wait did not return", t.id, t.v, t.v)
			}
		}
	}
	// release everything else: every Wait returns once its context is cancelled
	finalDone := make(chan struct{})
	go func() {
		defer close(finalDone)
		for _, t := range p.tasks {
			<-round0Ready[indexOf(p.tasks, t)]
			r.cancelRound(t.rounds[0])
			if t.second {
				<-t.rounds[0].done
				// the second round is created by the waiter goroutine right after the first Wait returned
				for {
					r.mu.Lock()
					rd := t.rounds[1]
					r.mu.Unlock()
					if rd != nil {
						r.cancelRound(rd)
						break
					}
					runtime.Gosched()
				}
			}
		}
	}()
	if !ctl.WaitChan(finalDone, ctl.HangTimeout) || !ctl.Within(watchdogBound(), waiters.Wait) {
		hangSeen.Store(true)
		return "a Wait did not return although its context was cancelled"
	}
	return ""
}

func indexOf(ts []*ncTask, t *ncTask) int {
	for i, x := range ts {
		if x == t {
			return i
		}
	}
	return -1
}

func (r *ncRun) clean(t *ncTask) bool {
	if !t.pre || t.dereg || t.cancel {
		return false
	}
	for _, g := range r.p.notifiers {
		for _, n := range g {
			if n.v == t.v {
				return true
			}
		}
	}
	return false
}

func (r *ncRun) judge() (string, map[string]any, []string) {
	p := r.p
	labels := map[string]bool{}
	for _, t := range p.tasks {
		for ri, rd := range t.rounds {
			if rd == nil {
				continue
			}
			d := map[string]any{"listener": fmt.Sprintf("L%d round %d", t.id, ri), "value": t.v, "result": rd.result,
				"create": []int64{rd.createS, rd.createE}, "wait": []int64{rd.waitS, rd.waitE},
				"deregister": []int64{rd.deregS, rd.deregE}, "cancel_start": rd.cancelS}
			var notes []string
			for _, g := range p.notifiers {
				for _, n := range g {
					if n.v == t.v {
						notes = append(notes, fmt.Sprintf("[%d,%d]", n.start, n.end))
					}
				}
			}
			d["notify_calls_for_value"] = notes
			labels["result_"+rd.result] = true
			if ri == 1 {
				labels["relisten_round"] = true
			}
			switch rd.result {
			case "nil":
				deregDone := rd.waitE
				if rd.deregE != 0 && rd.deregE < deregDone {
					deregDone = rd.deregE
				}
				ok := false
				for _, g := range p.notifiers {
					for _, n := range g {
						if n.v == t.v && n.end > rd.createS && n.start < deregDone {
							ok = true
						}
					}
				}
				if !ok {
					return "Wait returned nil but no Notify for the listener's value happened after its creation and before its deregistration", d, nil
				}
			case "ErrListenerDeregistered":
				if rd.deregS == 0 || rd.deregS > rd.waitE {
					return "Wait returned ErrListenerDeregistered but nobody had called Deregister on this listener", d, nil
				}
			case "context.Canceled":
				if rd.cancelS == 0 || rd.cancelS > rd.waitE {
					return "Wait returned context.Canceled before the context was cancelled", d, nil
				}
			default:
				return "Wait returned an unexpected error", d, nil
			}
			if ri == 0 && r.clean(t) {
				labels["clean_listener"] = true
				if rd.result != "nil" {
					return "a listener created before every Notify of its value, never deregistered or cancelled, did not return nil", d, nil
				}
			}
		}
	}
	var out []string
	for l := range labels {
		out = append(out, l)
	}
	return "", nil, out
}

func runNotifierConcurrent(t *rapid.T) {
	p := drawNCProgram(t)
	r := &ncRun{p: p}
	if hang := r.execute(); hang != "" {
		stats.Violation(nconcCheck, map[string]any{"program": p.lines(), "problem": hang, "goroutines": ctl.Dump()})
		t.Fatalf("%s\n%s", hang, strings.Join(p.lines(), "\n"))
	}
	problem, detail, labels := r.judge()
	relisten := false
	for _, tk := range p.tasks {
		relisten = relisten || tk.second
	}
	stats.Case(nconcCheck, relisten && len(p.tasks) >= 2, p.String(), func() any { return p.lines() }, labels...)
	if problem != "" {
		stats.Violation(nconcCheck, map[string]any{"program": p.lines(), "problem": problem, "detail": detail})
		t.Fatalf("%s\n%v\n%s", problem, detail, strings.Join(p.lines(), "\n"))
	}
}

func TestNotifierConcurrent(t *testing.T) {
	stats.Rule(nconcCheck, "rapid draws 1-5 listener tasks over values {1,2} (created before the gate or racing, Wait in its own goroutine, optional racing Deregister, optional racing cancel, optional re-listen after Wait returned) and 1-2 notifier goroutines with 1-4 Notify calls; schedule is the Go scheduler's; every Wait result must be justified by the stamped history; distinct by program text; non-trivial = >=2 listeners and at least one re-listens a value")
	rapid.Check(t, runNotifierConcurrent)
}

// ---------------------------------------------------------------------------------------------------------------
// Targeted window: l.Wait(ctx) racing with l.Deregister() on a notifier on which Notify is NEVER called. Whatever the
// schedule, Wait must not report success. The window (Deregister completes between Wait's deregistered-check and
// its select) is a few instructions wide, so this is a tight loop rather than a drawn program; the loop has no
// random input at all. Two shapes alternate (Deregister in the new goroutine / Wait in the new goroutine).
// ---------------------------------------------------------------------------------------------------------------

const windowCheck = "notifier_wait_deregister_window"

func waitDeregisterTrial(n *valuenotifier.Notifier[int], shape int) error {
	l := n.Listener(1)
	var wg sync.WaitGroup
	wg.Add(1)
	var err error
	if shape == 0 {
		go func() { defer wg.Done(); l.Deregister() }()
		err = l.Wait(context.Background())
	} else {
		go func() { defer wg.Done(); err = l.Wait(context.Background()) }()
		runtime.Gosched()
		l.Deregister()
	}
	wg.Wait()
	return err
}

func TestNotifierWaitDeregisterWindow(t *testing.T) {
	stats.Rule(windowCheck, "fixed tight loop: Listener(1); Wait(Background) racing with Deregister() of the same listener, Notify never called; two goroutine shapes alternate; every trial is the same input, the schedule varies; a trial is non-trivial when Wait really raced (returned ErrListenerDeregistered from inside the select or the early check - not distinguishable, so all trials count as one distinct case)")
	total := stats.Scale(3_000_000, 24_000_000)
	_, shards := stats.Shard()
	trials := total / shards
	n := valuenotifier.New[int]()
	deadline := time.Now().Add(10 * time.Minute) // budget guard only: hitting it ends the loop, it is never a verdict
	done := 0
	for i := 0; i < trials; i++ {
		err := waitDeregisterTrial(n, i&1)
		done++
		if err == nil {
			stats.Bulk(windowCheck, int64(done), 1, false, map[string]any{"trial": "l=Listener(1); go l.Deregister() || l.Wait(Background); Notify never called"})
			stats.Violation(windowCheck, map[string]any{"trial_index": i, "shape": i & 1, "problem": "Wait returned nil although Notify was never called on the notifier",
				"program": []string{"n = New()", "l = n.Listener(1)", "goroutine A: l.Deregister()", "goroutine B: l.Wait(Background)  -> nil"}})
			t.Fatalf("trial %d (shape %d): Wait returned nil although Notify was never called", i, i&1)
		}
		if errName(err) != "ErrListenerDeregistered" {
			t.Fatalf("trial %d: unexpected Wait result %v", i, err)
		}
		if i&0xffff == 0 && time.Now().After(deadline) {
			break
		}
	}
	stats.Bulk(windowCheck, int64(done), 1, false, map[string]any{"trial": "l=Listener(1); go l.Deregister() || l.Wait(Background); Notify never called", "trials": done})
}

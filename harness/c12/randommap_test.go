package c12

import (
	"testing"

	"github.com/iotaledger/hive.go/ds/randommap"
	"pgregory.net/rapid"
	"verifharness/internal/stats"
)

// TestRandomMap: RandomMap[int,int] against a plain map. Values carry their key (value = key*100+r), so a
// value identifies its entry: random picks must be current members, RandomUniqueEntries(n) must return
// min(max(n,0),size) entries of distinct keys with their current values.
func TestRandomMap(t *testing.T) {
	const check = "randommap"
	stats.Rule(check, "rapid state machine over RandomMap[int,int], keys 0..7, value=key*100+r, shrink options as for ShrinkingMap; Set/Get/Has/Delete/Size/ForEach/Keys/Values vs plain map (multisets), RandomKey/RandomEntry must be current members, RandomUniqueEntries(n in -2..size+2) = min(max(n,0),size) distinct current entries; non-trivial = a Delete that moved another key into the hole (not the physically last key) followed by a later successful Delete; distinct by (options, operation list)")
	rapid.Check(t, func(rt *rapid.T) {
		o := drawShrinkOpts(rt)
		h := newHist(check, o.String())
		defer h.guard(rt)
		m := randommap.New[int, int](shrinkOptions(o)...)
		model := map[int]int{}
		tr := &shrinkTracker{o: o}
		swapDeletes, deleteAfterSwap := 0, false
		key := rapid.IntRange(0, smUniverse-1)

		member := func(v int) bool {
			mv, ok := model[v/100]
			return ok && mv == v
		}

		acts := weighted{}
		acts.add("Set", 6, func(rt *rapid.T) {
			k := key.Draw(rt, "k")
			v := k*100 + rapid.IntRange(0, 99).Draw(rt, "r")
			m.Set(k, v)
			h.op("Set(%d,%d)", k, v)
			model[k] = v
		})
		acts.add("Get", 2, func(rt *rapid.T) {
			k := key.Draw(rt, "k")
			v, ok := m.Get(k)
			h.op("Get(%d)=%d,%v", k, v, ok)
			mv, mok := model[k]
			if ok != mok || v != mv {
				h.fail(rt, "Get(%d) = (%d,%v), model (%d,%v)", k, v, ok, mv, mok)
			}
		})
		acts.add("Has", 1, func(rt *rapid.T) {
			k := key.Draw(rt, "k")
			ok := m.Has(k)
			h.op("Has(%d)=%v", k, ok)
			if _, mok := model[k]; ok != mok {
				h.fail(rt, "Has(%d) = %v, model %v", k, ok, mok)
			}
		})
		acts.add("Delete", 6, func(rt *rapid.T) {
			k := key.Draw(rt, "k")
			mv, mok := model[k]
			// physical position of the key in the dense key slice, for labelling only
			pos, n := -1, 0
			if mok {
				ks := m.Keys()
				n = len(ks)
				for i, kk := range ks {
					if kk == k {
						pos = i
					}
				}
			}
			v, ok := m.Delete(k)
			h.op("Delete(%d)=%d,%v", k, v, ok)
			if ok != mok || v != mv {
				h.fail(rt, "Delete(%d) = (%d,%v), model (%d,%v)", k, v, ok, mv, mok)
			}
			if !mok {
				h.label("delete_missing")
				return
			}
			delete(model, k)
			if swapDeletes > 0 {
				deleteAfterSwap = true
			}
			switch {
			case n == 1:
				h.label("delete_only_key")
			case pos == n-1:
				h.label("delete_last_key")
			default:
				h.label("delete_middle_key")
				swapDeletes++
			}
			if tr.onDelete(len(model)) {
				h.label("auto_shrink")
			}
		})
		acts.add("RandomKey", 2, func(rt *rapid.T) {
			k, ok := m.RandomKey()
			h.op("RandomKey()=%d,%v", k, ok)
			if len(model) == 0 {
				if ok || k != 0 {
					h.fail(rt, "RandomKey on empty map = (%d,%v)", k, ok)
				}
				return
			}
			if _, mok := model[k]; !ok || !mok {
				h.fail(rt, "RandomKey = (%d,%v) is not a current key of %v", k, ok, model)
			}
		})
		acts.add("RandomEntry", 2, func(rt *rapid.T) {
			v, ok := m.RandomEntry()
			h.op("RandomEntry()=%d,%v", v, ok)
			if len(model) == 0 {
				if ok || v != 0 {
					h.fail(rt, "RandomEntry on empty map = (%d,%v)", v, ok)
				}
				return
			}
			if !ok || !member(v) {
				h.fail(rt, "RandomEntry = (%d,%v) is not a current value of %v", v, ok, model)
			}
		})
		acts.add("RandomUniqueEntries", 3, func(rt *rapid.T) {
			n := rapid.IntRange(-2, len(model)+2).Draw(rt, "n")
			vs := m.RandomUniqueEntries(n)
			h.op("RandomUniqueEntries(%d)=%v", n, sortedInts(vs))
			want := min(max(n, 0), len(model))
			if len(vs) != want {
				h.fail(rt, "RandomUniqueEntries(%d) returned %d entries %v, want %d (size %d)", n, len(vs), vs, want, len(model))
			}
			seen := map[int]struct{}{}
			for _, v := range vs {
				if !member(v) {
					h.fail(rt, "RandomUniqueEntries(%d) returned %d which is not a current value of %v", n, v, model)
				}
				if _, dup := seen[v/100]; dup {
					h.fail(rt, "RandomUniqueEntries(%d) returned the entry of key %d twice: %v", n, v/100, vs)
				}
				seen[v/100] = struct{}{}
			}
			if n > 0 && n < len(model) {
				h.label("unique_entries_proper_subset")
			}
		})
		acts.add("Values", 1, func(rt *rapid.T) {
			vs := sortedInts(m.Values())
			h.op("Values()=%v", vs)
			if !equalInts(vs, mapValues(model)) {
				h.fail(rt, "Values = %v, model %v", vs, mapValues(model))
			}
		})
		acts.add("ForEach", 1, func(rt *rapid.T) {
			limit := rapid.IntRange(1, smUniverse+1).Draw(rt, "stopAfter")
			seen := map[int]int{}
			calls := 0
			m.ForEach(func(k, v int) bool {
				calls++
				seen[k] = v
				return calls < limit
			})
			h.op("ForEach(stopAfter=%d) saw %d", limit, calls)
			want := min(limit, len(model))
			if calls != want || len(seen) != calls {
				h.fail(rt, "ForEach(stopAfter=%d) made %d calls over %d distinct keys, want %d", limit, calls, len(seen), want)
			}
			for k, v := range seen {
				if mv, ok := model[k]; !ok || mv != v {
					h.fail(rt, "ForEach yielded (%d,%d) which is not in the model %v", k, v, model)
				}
			}
		})
		acts[""] = func(rt *rapid.T) {
			if sz := m.Size(); sz != len(model) {
				h.fail(rt, "Size = %d, model %d", sz, len(model))
			}
			if ks := sortedInts(m.Keys()); !equalInts(ks, mapKeys(model)) {
				h.fail(rt, "Keys = %v, model %v", ks, mapKeys(model))
			}
		}
		rt.Repeat(acts)
		h.done(swapDeletes > 0 && deleteAfterSwap)
	})
}

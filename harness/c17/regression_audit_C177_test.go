// Demonstration of an independent auditor (third round), kept as a regression test; see known_findings.json.
package c17

import (
	"fmt"
	"testing"
	"time"

	"github.com/iotaledger/hive.go/runtime/syncutils"
)

// A nil value of an interface element type is a perfectly valid element of Stack[T any]. Pop / PopOrWait must hand it
// out (PopOrWait returns iff an element is available or the wait condition is false); WaitIsEmpty must return once the
// stack is empty.
func TestRegressionAuditC177_StackNilInterfaceElement(t *testing.T) {
	call := func(f func()) (panicked any) {
		defer func() { panicked = recover() }()
		f()
		return nil
	}

	t.Run("Pop", func(t *testing.T) {
		s := syncutils.NewStack[error]()
		s.Push(nil)
		if s.Size() != 1 {
			t.Fatalf("size %d", s.Size())
		}
		var ok bool
		if p := call(func() { _, ok = s.Pop() }); p != nil {
			t.Fatalf("Pop of a pushed nil error panicked: %v", p)
		}
		if !ok {
			t.Fatalf("Pop did not deliver the element")
		}
	})

	t.Run("PopOrWait", func(t *testing.T) {
		s := syncutils.NewStack[any]()
		s.Push(nil)
		s.Push(1)

		emptied := make(chan struct{})
		go func() { s.WaitIsEmpty(); close(emptied) }()
		time.Sleep(50 * time.Millisecond)

		var ok bool
		p := call(func() { _, ok = s.PopOrWait(func() bool { return true }) })
		if p != nil {
			t.Errorf("PopOrWait with an available element (a pushed nil) panicked instead of returning it: %v", p)
		} else if !ok {
			t.Errorf("PopOrWait did not deliver")
		}
		// whatever happened to the first one, take the second
		if p == nil {
			if _, ok := s.Pop(); !ok {
				t.Errorf("second element lost")
			}
		} else {
			// the panicking PopOrWait removed the nil element all the same
			if sz := s.Size(); sz != 1 {
				t.Errorf("size after panic %d", sz)
			}
			s.Pop()
		}
		select {
		case <-emptied:
		case <-time.After(2 * time.Second):
			t.Errorf("WaitIsEmpty did not return although the stack is empty (size %d)", s.Size())
		}
	})

	t.Run("WaitIsEmptyAfterPanickingPopOrWait", func(t *testing.T) {
		s := syncutils.NewStack[fmt.Stringer]()
		s.Push(nil)
		emptied := make(chan struct{})
		go func() { s.WaitIsEmpty(); close(emptied) }()
		time.Sleep(50 * time.Millisecond)
		p := call(func() { s.PopOrWait(func() bool { return true }) })
		if p != nil {
			t.Errorf("PopOrWait panicked: %v", p)
		}
		if s.Size() != 0 {
			t.Fatalf("size %d", s.Size())
		}
		select {
		case <-emptied:
		case <-time.After(2 * time.Second):
			t.Errorf("stack is empty (size 0), but WaitIsEmpty never returned: the removal was not announced")
		}
	})
}

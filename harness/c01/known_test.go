package c01

import (
	"context"
	"fmt"
	"testing"

	"github.com/iotaledger/hive.go/serializer/v2/serix"
	"pgregory.net/rapid"
	"verifharness/internal/stats"
)

// The former known finding KF-C01-2 (repaired in /repo, see known_findings.json; every deviation is a violation now): for a byte array that is the object of the call, the JSON
// form reads the type settings from the registry only and drops the settings handed over with the call
// (serix.WithTypeSettings): JSONEncode writes the typed object {"type":..,"data":..} asked for by the call-level object
// type (or uses the call-level field key), JSONDecode with the same options expects a plain hex string (or the registered
// key) and fails. The binary form honours call-level settings on both sides. Merging the call-level settings into that
// branch would also merge the settings of a struct FIELD that holds a pointer to a byte array (the field's key would
// replace the registered key inside the object) and change the JSON form of existing types, so it is not a minimal
// repair. The generated top-level objects of this package never hand call-level object types to byte arrays in the JSON
// form; this test does.

type knArr4 [4]byte

func TestKnownCallLevelSettingsForByteArrayJSON(t *testing.T) {
	const check = "known_call_level_settings_byte_array_json"
	stats.Rule(check, "rapid draws a [4]byte value, an object type (uint8) and optionally a field key handed over with the call (serix.WithTypeSettings), validation on/off. Oracle: the binary form round-trips with the call-level settings; the JSON form round-trips or JSONEncode refuses (the former known finding KF-C01-2: JSONDecode with the same options failed because it ignored the call-level settings), and JSONEncode of a pointer to the array writes the same document. Distinct by (value, settings); non-trivial = every case")
	ctx := context.Background()
	rapid.Check(t, func(rt *rapid.T) {
		api := serix.NewAPI()
		var in knArr4
		for i := range in {
			in[i] = rapid.Byte().Draw(rt, "b")
		}
		code := rapid.Uint8().Draw(rt, "code")
		ts := serix.TypeSettings{}.WithObjectType(code)
		withKey := rapid.Bool().Draw(rt, "fieldKey")
		if withKey {
			ts = ts.WithFieldKey("hash")
		}
		opts := []serix.Option{serix.WithTypeSettings(ts)}
		if rapid.Bool().Draw(rt, "validation") {
			opts = append(opts, serix.WithValidation())
		}
		desc := fmt.Sprintf("value=%x code=%d fieldKey=%v", in, code, withKey)
		fail := func(format string, a ...any) {
			msg := fmt.Sprintf(format, a...)
			stats.Violation(check, map[string]any{"config": desc, "problem": msg})
			rt.Fatalf("%s: %s", desc, msg)
		}
		b, err := api.Encode(ctx, in, opts...)
		if err != nil {
			fail("Encode failed: %v", err)
		}
		var bout knArr4
		if n, err := api.Decode(ctx, b, &bout, opts...); err != nil || n != len(b) || bout != in {
			fail("binary round trip with call-level settings failed: n=%d err=%v got %x", n, err, bout)
		}
		j, err := api.JSONEncode(ctx, in, opts...)
		if err != nil {
			stats.Case(check, true, desc, func() any { return desc }, "jsonencode_refused")

			return
		}
		var jout knArr4
		err = api.JSONDecode(ctx, j, &jout, opts...)
		switch {
		case err == nil && jout == in:
			stats.Label(check, "json_roundtrip")
		case err != nil:
			fail("JSONDecode of %s failed: %v", j, err)
		default:
			fail("JSON round trip of %s changed the value to %x", j, jout)
		}
		// the same object handed over through a pointer is written in the same way
		jp, err := api.JSONEncode(ctx, &in, opts...)
		if err != nil || string(jp) != string(j) {
			fail("JSONEncode of a pointer to the array wrote %s (err %v), JSONEncode of the array wrote %s", jp, err, j)
		}
		// ... and so is a pointer to a pointer to it; a nil pointer variable as the destination is allocated and filled
		pin := &in
		if jpp, err := api.JSONEncode(ctx, &pin, opts...); err != nil || string(jpp) != string(j) {
			fail("JSONEncode of a pointer to a pointer to the array wrote %s (err %v), JSONEncode of the array wrote %s", jpp, err, j)
		}
		var pout *knArr4
		if err := api.JSONDecode(ctx, j, &pout, opts...); err != nil || pout == nil || *pout != in {
			fail("JSONDecode of %s into a nil pointer variable failed: err=%v got %v", j, err, pout)
		}
		stats.Case(check, true, desc, func() any { return desc })
	})
}

package c01

import (
	"encoding/json"
	"reflect"
	"testing"

	"pgregory.net/rapid"
	"verifharness/internal/serixgen"
	"verifharness/internal/stats"
)

func TestJSONRoundTrip(t *testing.T) {
	const check = "json_roundtrip"
	stats.Rule(check, "shapes and values as in binary_roundtrip; for every JSON-expressible shape (map keys that encode to JSON strings, no pointers to scalars, no Token objects) and value (no invalid UTF-8) for which JSONEncode succeeds, JSONDecode of the document and MapDecode of the unmarshalled document must succeed and yield a model-equal value (NaN == NaN, omitempty zero == absent, times by saturated stamp); validation off and on. Distinct by (shape, value); non-trivial as in binary_roundtrip and JSONEncode succeeded")
	rapid.Check(t, func(rt *rapid.T) {
		c := serixgen.NewCase(rt, cfg())
		mode := serixgen.ValidMode
		if rapid.IntRange(0, 5).Draw(rt, "valueMode") == 0 {
			mode = serixgen.FreeMode
		}
		v, vl := serixgen.GenValue(rt, c.Root, mode, cfg())
		nt, feats := nontrivial(c.Root)
		labels := labelsOf(vl, "value:")
		for _, f := range feats {
			labels = append(labels, "shape:"+f)
		}
		if ok, why := serixgen.JSONExpressible(c.Root); !ok {
			// outside the property (the form cannot express the value); whether JSONEncode refuses cleanly is only counted
			ls := []string{"excluded_shape:" + why}
			if serixgen.RefEncode(c.Root, v, false).Reject == "" {
				if je := c.JSONEncode(v, false); je.Panic != nil {
					ls = append(ls, "excluded_shape_jsonencode_panicked")
				} else if je.Err != nil {
					ls = append(ls, "excluded_shape_jsonencode_refused")
				}
			}
			stats.Case(check, false, "", nil, ls...)
			return
		}
		if serixgen.HasInvalidUTF8(c.Root, v) {
			stats.Case(check, false, "", nil, "excluded_value:invalid_utf8")
			return
		}
		done := 0
		for _, validate := range []bool{false, true} {
			ex := map[string]any{"validate": validate}
			// the value domain is the one of the binary form: values that have a documented encoding in this mode
			// (a negative uint256, a nil non-optional pointer, ... are not values of the registered type)
			if ref := serixgen.RefEncode(c.Root, v, validate); ref.Reject != "" {
				labels = append(labels, "excluded_value:no_binary_encoding")
				// a value that the binary form refuses in EVERY mode (nil pointer, negative or oversized uint256, a custom
				// type that refuses) is no value of the type: the JSON form may refuse it as well, but what it does
				// produce has to be readable (no rule of a validation mode is involved here)
				if !validate {
					je := c.JSONEncode(v, false)
					if je.Panic != nil {
						// like the binary side: a crash on a value that has no encoding (e.g. a nil pointer whose custom codec
						// is called with a nil receiver) is outside every listed property and only counted
						labels = append(labels, "jsonencode_panicked_on_value_without_binary_encoding")
					} else if je.Err == nil {
						labels = append(labels, "json_accepts_value_without_binary_encoding")
						ex["json"] = string(je.Bytes)
						if jd := c.JSONDecode(je.Bytes, false); jd.Panic != nil || jd.Err != nil {
							violation(rt, check, c, v, ex, "JSONEncode accepted a value the binary form refuses (%s), and JSONDecode can not read the result: panic=%v err=%v", ref.Reject, jd.Panic, jd.Err)
						}
					}
				}
				continue
			}
			je := c.JSONEncode(v, validate)
			if je.Panic != nil {
				violation(rt, check, c, v, ex, "JSONEncode panicked on a value of a JSON-expressible shape that has a binary encoding: %v", je.Panic)
			}
			if je.Err != nil {
				labels = append(labels, "jsonencode_refused")
				continue
			}
			ex["json"] = string(je.Bytes)
			jd := c.JSONDecode(je.Bytes, validate)
			if jd.Panic != nil {
				violation(rt, check, c, v, ex, "JSONDecode panicked: %v", jd.Panic)
			}
			if jd.Err != nil {
				violation(rt, check, c, v, ex, "JSONDecode of JSONEncode's output failed: %v", jd.Err)
			}
			if d := serixgen.EqualJSON(c.Root, v, jd.Value); d != "" {
				violation(rt, check, c, v, ex, "JSON-decoded value differs: %s", d)
			}
			m := map[string]any{}
			if err := json.Unmarshal(je.Bytes, &m); err != nil {
				violation(rt, check, c, v, ex, "JSONEncode produced an unparsable document: %v", err)
			}
			md := c.MapDecode(m, validate)
			if md.Panic != nil || md.Err != nil {
				violation(rt, check, c, v, ex, "MapDecode of the unmarshalled document failed: panic=%v err=%v", md.Panic, md.Err)
			}
			if d := serixgen.EqualJSON(c.Root, v, md.Value); d != "" {
				violation(rt, check, c, v, ex, "map-decoded value differs: %s", d)
			}
			// the same value handed over as a struct instead of a pointer to it (nothing below is addressable then); the two
			// documents are compared as JSON values: the order of the keys of an encoded Go map is not part of the form
			jv := c.JSONEncodeByValue(v, validate)
			var byValue map[string]any
			if jv.Panic != nil || jv.Err != nil || json.Unmarshal(jv.Bytes, &byValue) != nil || !reflect.DeepEqual(byValue, m) {
				violation(rt, check, c, v, ex, "JSONEncode of the struct passed by value differs from JSONEncode of a pointer to it: %s (err %v, panic %v)", jv.Bytes, jv.Err, jv.Panic)
			}
			done++
		}
		stats.Case(check, nt && done > 0, c.Root.String()+"|"+serixgen.Render(c.Root, v), func() any {
			je := c.JSONEncode(v, false)
			return map[string]any{"schema": c.Root.String(), "json": string(je.Bytes)}
		}, labels...)
	})
}

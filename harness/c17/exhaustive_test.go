package c17

import (
	"fmt"
	"testing"

	"verifharness/internal/stats"
)

// shape of an exhaustively enumerated sub-space: goroutines x lock/unlock pairs per goroutine on ONE
// entity; every assignment of {read, write} to the pairs x every arrival order.
type shape struct {
	name         string
	goroutines   int
	pairs        int
	sampleStride int // 1 = complete; k>1 = every k-th case (quick-tier slice of a thorough-tier space)
}

func (sh shape) forEach(mutex string, visit func(idx int, s script) bool) int {
	idx := 0
	bits := sh.goroutines * sh.pairs
	counts := make([]int, sh.goroutines)
	for g := range counts {
		counts[g] = 2 * sh.pairs
	}
	for modes := 0; modes < 1<<bits; modes++ {
		progs := make([][]op, sh.goroutines)
		for g := 0; g < sh.goroutines; g++ {
			for p := 0; p < sh.pairs; p++ {
				progs[g] = append(progs[g], pair(modes>>(g*sh.pairs+p)&1 == 1, 0)...)
			}
		}
		cont := true
		arrivalOrders(counts, func(order []int) bool {
			cont = visit(idx, script{Mutex: mutex, Progs: progs, Order: order})
			idx++
			return cont
		})
		if !cont {
			break
		}
	}
	return idx
}

func runShape(t *testing.T, sh shape) {
	shard, shards := stats.Shard()
	for _, mutex := range []string{"starving", "starving_zero", "dag"} {
		check := "exhaustive_" + sh.name
		stats.Rule(check, fmt.Sprintf("every script of %d goroutines x %d lock/unlock pair(s) each on one entity x every {read,write} assignment x every arrival order (multiset permutations), on StarvingMutex and on DAGMutex, executed under the schedule controller (stride %d); non-trivial = an operation was observed outstanding when the next one was issued and was granted later, or >=2 operations were queued on the entity; distinct by (mutex, programs, arrival order)", sh.goroutines, sh.pairs, sh.sampleStride))
		n := sh.forEach(mutex, func(idx int, s script) bool {
			if idx%sh.sampleStride != 0 || (idx/sh.sampleStride)%shards != shard {
				return true
			}
			res := runScript(s, nil)
			noteParking(check, res)
			labels := []string{"mutex:" + mutex}
			if res.Blocked > 0 {
				labels = append(labels, "blocked_then_granted")
			}
			if res.MaxQueued >= 2 {
				labels = append(labels, "queued>=2")
			}
			stats.Case(check, res.Blocked > 0 || res.MaxQueued >= 2, s.key(), s.sample, labels...)
			if res.Kind != "" {
				stats.Violation(check, res.payload(s, nil))
				t.Fatalf("%s: %s\nscript: %v\narrival order: %v\ntrace:\n  %s", res.Kind, res.Violation, s.progStrings(), s.Order, joinLines(res.Trace))
			}
			return true
		})
		if shard == 0 {
			stats.Note(check, "space_size_"+mutex, n)
		}
		if sh.sampleStride == 1 {
			stats.Bulk(check, 0, 0, true, nil)
		}
	}
}

// noteParking records how well the arrival order was enforced (diagnostic only).
func noteParking(check string, res result) {
	stats.NoteAdd(check, "must_block_ops_confirmed_parked_before_next_issue", int64(res.Parked))
	stats.NoteAdd(check, "must_block_ops_not_confirmed_parked", int64(res.NotParked))
}

func joinLines(l []string) string {
	out := ""
	for i, s := range l {
		if i > 0 {
			out += "\n  "
		}
		out += s
	}
	return out
}

func TestExhaustive2(t *testing.T)   { runShape(t, shape{"2g_x1", 2, 1, 1}) }
func TestExhaustive3(t *testing.T)   { runShape(t, shape{"3g_x1", 3, 1, 1}) }
func TestExhaustive2x2(t *testing.T) { runShape(t, shape{"2g_x2", 2, 2, 1}) }

// TestExhaustive4 enumerates the 4-goroutine space completely in the thorough tier (40 320 runs per
// mutex) and every second case of it in the quick tier.
func TestExhaustive4(t *testing.T) {
	runShape(t, shape{"4g_x1", 4, 1, stats.Scale(2, 1)})
}

package c02

import (
	"bytes"
	"context"
	"testing"

	"github.com/iotaledger/hive.go/serializer/v2"
	"github.com/iotaledger/hive.go/serializer/v2/serix"
	"github.com/iotaledger/hive.go/serializer/v2/stream"
)

// Plain regression checks (no generator) for the repaired defects of this property.

func TestRegressionVariableByteSliceAllocation(t *testing.T) {
	src := []byte{0xff, 0xff, 0xff, 0x3f, 1, 2} // denotes 2^30-1 bytes, 2 available
	var out []byte
	alloc := measure(func() {
		_, err := serializer.NewDeserializer(src).ReadVariableByteSlice(&out, serializer.SeriLengthPrefixTypeAsUint32, func(err error) error { return err }, 0, 0).Done()
		if err == nil {
			t.Fatal("expected an error")
		}
	})
	if alloc > 1<<20 {
		t.Fatalf("ReadVariableByteSlice allocated %d bytes for a 6-byte input", alloc)
	}
}

func TestRegressionStreamHostilePrefix(t *testing.T) {
	in := []byte{0, 0, 0, 0, 0, 0, 0, 0x80, 1, 2, 3}
	if p := catch(func() { _, _ = stream.ReadBytesWithSize(bytes.NewReader(in), serializer.SeriLengthPrefixTypeAsUint64) }); p != nil {
		t.Fatalf("ReadBytesWithSize panicked: %v", p)
	}
	if n, err := stream.PeekSize(bytes.NewReader(in), serializer.SeriLengthPrefixTypeAsUint64); err == nil {
		t.Fatalf("PeekSize accepted a prefix of 2^63 and returned %d", n)
	}
	alloc := measure(func() {
		_, _ = stream.ReadBytesWithSize(bytes.NewReader([]byte{0xff, 0xff, 0xff, 0x3f, 1}), serializer.SeriLengthPrefixTypeAsUint32)
	})
	if alloc > 1<<20 {
		t.Fatalf("ReadBytesWithSize allocated %d bytes for a 5-byte input", alloc)
	}
}

func TestRegressionJSONWrongShape(t *testing.T) {
	type s struct {
		A []int8   `serix:",lenPrefix=uint8"`
		B uint8    `serix:""`
		C bool     `serix:""`
		D int64    `serix:""`
		E [4]byte  `serix:""`
		F [2]uint8 `serix:",lenPrefix=uint8"`
	}
	api := serix.NewAPI()
	for _, doc := range []string{`{"a":null,"b":1,"c":true,"d":"1","e":"0x01020304","f":"0x0102"}`, `{"a":[1],"b":"x","c":true,"d":"1","e":"0x01020304","f":"0x0102"}`,
		`{"a":[1],"b":1,"c":0,"d":"1","e":"0x01020304","f":"0x0102"}`, `{"a":[1],"b":1,"c":true,"d":1,"e":"0x01020304","f":"0x0102"}`,
		`{"a":[1],"b":1,"c":true,"d":"1","e":{},"f":"0x0102"}`, `{"a":[1],"b":1,"c":true,"d":"1","e":"0x01020304","f":7}`, `{"a":{"x":1},"b":1,"c":true,"d":"1","e":"0x01020304","f":"0x0102"}`} {
		if p := catch(func() { _ = api.JSONDecode(context.Background(), []byte(doc), &s{}) }); p != nil {
			t.Fatalf("JSONDecode(%s) panicked: %v", doc, p)
		}
	}
}

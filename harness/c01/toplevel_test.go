package c01

import (
	"bytes"
	"encoding/hex"
	"fmt"
	"testing"

	"pgregory.net/rapid"
	"verifharness/internal/serixgen"
	"verifharness/internal/stats"
)

// TestTopLevelRoundTrip: the round trip for values that are themselves the argument of Encode/Decode (not a field of a
// generated struct), with their settings passed through serix.WithTypeSettings where the registry has none.
func TestTopLevelRoundTrip(t *testing.T) {
	const check = "toplevel_roundtrip"
	stats.Rule(check, "a top-level object is drawn (named pool collection; unnamed slice with any array rules / map / array of non-bytes / string / byte slice with call-level settings; leaf; interface value decoded through a pointer to the interface; pool struct by value or pointer; custom (de)serializable; coded byte-array pointer) with a value (3/4 valid, 1/4 free), validation off and on. For every value Encode accepts: Decode yields an equal value, consumes exactly the produced bytes also when 1..9 junk bytes follow, decoding with the other validation mode agrees when the value is rule-abiding, and a second Encode gives identical bytes; if JSONEncode (same call-level settings) accepts the object, JSONDecode reads it back to a model-equal value. Distinct by (kind, shape, value); non-trivial = call-level settings or an interface value")
	rapid.Check(t, func(rt *rapid.T) {
		c := serixgen.NewCaseWithTop(rt, cfg())
		n := c.Top
		mode := serixgen.ValidMode
		if rapid.IntRange(0, 3).Draw(rt, "valueMode") == 0 {
			mode = serixgen.FreeMode
		}
		v, _ := serixgen.GenValue(rt, n, mode, cfg())
		if (n.Kind == serixgen.KPtr || n.Kind == serixgen.KIface) && v.IsNil() {
			stats.Case(check, false, "", nil, "nil_top_level_object_skipped")
			return
		}
		fail := func(ex map[string]any, format string, a ...any) {
			msg := fmt.Sprintf(format, a...)
			p := map[string]any{"kind": c.TopKind, "schema": n.String(), "value": serixgen.Render(n, v), "problem": msg}
			for k, x := range ex {
				p[k] = x
			}
			stats.Violation(check, p)
			rt.Fatalf("%s: %s\nkind: %s\nschema: %s\nvalue: %s\nextra: %v", check, msg, c.TopKind, n.String(), p["value"], ex)
		}
		labels := []string{"top:" + c.TopKind}
		accepted := 0
		for _, validate := range []bool{false, true} {
			enc := c.EncodeTop(v, validate)
			if enc.Panic != nil || enc.Err != nil {
				labels = append(labels, fmt.Sprintf("encode_refused(validate=%v)", validate))
				continue
			}
			accepted++
			ex := map[string]any{"validate": validate, "bytes": hex.EncodeToString(enc.Bytes)}
			junk := rapid.SliceOfN(rapid.Byte(), 1, 9).Draw(rt, "junk")
			for _, in := range [][]byte{enc.Bytes, append(append([]byte{}, enc.Bytes...), junk...)} {
				dec := c.DecodeTop(in, validate)
				if dec.Panic != nil || dec.Err != nil {
					fail(ex, "Decode of Encode's output (+%d trailing bytes) failed: panic=%v err=%v", len(in)-len(enc.Bytes), dec.Panic, dec.Err)
				}
				if dec.N != len(enc.Bytes) {
					fail(ex, "Decode consumed %d bytes, Encode produced %d (%d trailing bytes present)", dec.N, len(enc.Bytes), len(in)-len(enc.Bytes))
				}
				if d := serixgen.Equal(n, v, dec.Value); d != "" {
					ex["decoded"] = serixgen.Render(n, dec.Value)
					fail(ex, "decoded value differs: %s", d)
				}
			}
			if serixgen.RefEncode(n, v, true).Reject == "" {
				other := c.DecodeTop(enc.Bytes, !validate)
				if other.Panic != nil || other.Err != nil || other.N != len(enc.Bytes) || serixgen.Equal(n, v, other.Value) != "" {
					fail(ex, "bytes of a rule-abiding value do not round-trip through Decode with validation=%v: panic=%v err=%v n=%d", !validate, other.Panic, other.Err, other.N)
				}
			}
			if again := c.EncodeTop(v, validate); again.Err != nil || !bytes.Equal(again.Bytes, enc.Bytes) {
				fail(ex, "second Encode differs: %x (err %v)", again.Bytes, again.Err)
			}
			// the JSON form of the same object with the same call-level settings: most top-level kinds have no map form
			// that is an object and are refused; what JSONEncode accepts has to be read back
			if ok, _ := serixgen.JSONExpressible(n); ok && !serixgen.HasInvalidUTF8(n, v) {
				je := c.JSONEncodeTop(v, validate)
				switch {
				case je.Panic != nil:
					fail(ex, "JSONEncode of the top-level object panicked: %v", je.Panic)
				case je.Err != nil:
					labels = append(labels, "json_refused")
				default:
					ex["json"] = string(je.Bytes)
					jd := c.JSONDecodeTop(je.Bytes, validate)
					if jd.Panic != nil || jd.Err != nil {
						fail(ex, "JSONDecode of JSONEncode's output failed: panic=%v err=%v", jd.Panic, jd.Err)
					}
					if d := serixgen.EqualJSON(n, v, jd.Value); d != "" {
						ex["decoded"] = serixgen.Render(n, jd.Value)
						fail(ex, "JSON-decoded value differs: %s", d)
					}
					labels = append(labels, "json_roundtrip")
				}
			}
		}
		stats.Case(check, accepted > 0 && (c.TopCall != nil || n.Kind == serixgen.KIface), c.TopKind+"|"+n.String()+"|"+serixgen.Render(n, v), func() any {
			return map[string]any{"kind": c.TopKind, "schema": n.String(), "value": serixgen.Render(n, v)}
		}, labels...)
	})
}

// Demonstration of an independent auditor (seventh round), kept as a regression test; see known_findings.json.
package c02

import (
	"context"
	"os"
	"os/exec"
	"runtime/debug"
	"strings"
	"testing"

	"github.com/iotaledger/hive.go/serializer/v2/serix"
)

// A singly linked chain. In the binary form the "inlined" setting of a named field has no effect: the optional next
// element is written behind a payload length like any other optional field, and the type encodes and decodes fine.
type huntChainA struct {
	Next *huntChainA `serix:",inlined,optional"`
	Val  uint8       `serix:""`
}

// The same with the value in front. For this one JSONEncode answers with an error ("key "val" is used more than once
// in the map form of the struct"): the encoder notices that the type has no map form and says so.
type huntChainB struct {
	Val  uint8       `serix:",omitempty"`
	Next *huntChainB `serix:",inlined,optional"`
}

func huntChainDecode(api *serix.API, which, doc string) error {
	if which == "A" {
		return api.JSONDecode(context.Background(), []byte(doc), new(huntChainA))
	}

	return api.JSONDecode(context.Background(), []byte(doc), new(huntChainB))
}

func TestRegressionAuditC029_InlinedRecursiveJSONDecode(t *testing.T) {
	api := serix.NewAPI()
	ctx := context.Background()

	if os.Getenv("HUNT_CHILD") == "1" {
		debug.SetMaxStack(64 << 20) // die quickly instead of after 1 GB of stack
		err := huntChainDecode(api, os.Getenv("HUNT_TYPE"), os.Getenv("HUNT_DOC"))
		t.Logf("child: JSONDecode returned: %v", err)

		return
	}

	// both are perfectly good binary types
	{
		enc, err := api.Encode(ctx, &huntChainA{Val: 1, Next: &huntChainA{Val: 2}}, serix.WithValidation())
		if err != nil {
			t.Fatalf("binary encode: %v", err)
		}
		dst := new(huntChainA)
		if n, err := api.Decode(ctx, enc, dst, serix.WithValidation()); err != nil || n != len(enc) || dst.Next == nil || dst.Next.Val != 2 {
			t.Fatalf("binary decode: n=%d err=%v", n, err)
		}
	}
	{
		enc, err := api.Encode(ctx, &huntChainB{Val: 1, Next: &huntChainB{Val: 2}}, serix.WithValidation())
		if err != nil {
			t.Fatalf("binary encode: %v", err)
		}
		dst := new(huntChainB)
		if n, err := api.Decode(ctx, enc, dst, serix.WithValidation()); err != nil || n != len(enc) || dst.Next == nil || dst.Next.Val != 2 {
			t.Fatalf("binary decode: n=%d err=%v", n, err)
		}
	}
	// the JSON encoder refuses huntChainB with an error
	if _, err := api.JSONEncode(ctx, &huntChainB{Val: 1}); err == nil {
		t.Logf("JSONEncode(huntChainB) succeeded")
	} else {
		t.Logf("JSONEncode(huntChainB) returns an error, as it should: %v", err)
	}
	// and so does the JSON decoder as long as the document has a "val" entry (nesting limit)
	if err := huntChainDecode(api, "B", `{"val":1}`); err == nil {
		t.Logf(`JSONDecode({"val":1}) into huntChainB succeeded`)
	} else {
		t.Logf(`JSONDecode({"val":1}) into huntChainB returns an error (%d bytes long)`, len(err.Error()))
	}

	// JSONDecode must return a value or an error for every document
	for _, c := range [][2]string{
		{"B", `{}`}, {"B", `{"foo":[1,2,3]}`},
		{"A", `{}`}, {"A", `{"val":1}`},
	} {
		cmd := exec.Command(os.Args[0], "-test.run", "^TestHuntInlinedRecursiveJSONDecode$", "-test.v")
		cmd.Env = append(os.Environ(), "HUNT_CHILD=1", "HUNT_TYPE="+c[0], "HUNT_DOC="+c[1])
		out, err := cmd.CombinedOutput()
		if err != nil {
			s := string(out)
			var keep []string
			for _, line := range strings.Split(s, "\n") {
				if strings.HasPrefix(line, "\t/") || strings.HasPrefix(line, "\t\t") {
					continue
				}
				keep = append(keep, line)
				if len(keep) > 22 {
					keep = append(keep, "...[truncated]")

					break
				}
			}
			t.Errorf("JSONDecode of %s into *huntChain%s killed the process (%v):\n%s", c[1], c[0], err, strings.Join(keep, "\n"))
		}
	}
}

package c16

import (
	"fmt"
	"sync/atomic"
	"testing"

	"github.com/iotaledger/hive.go/runtime/workerpool"
	"pgregory.net/rapid"
	"verifharness/internal/ctl"
	"verifharness/internal/stats"
)

// TestRestartRunsAcceptedTasks: a pool that is shut down and started again is a running pool: every task it accepts
// while no shutdown is in progress has to run - also on a cancel-on-shutdown pool, where "cancelled" is only a legal
// outcome for tasks that were pending when a shutdown happened.
func TestRestartRunsAcceptedTasks(t *testing.T) {
	const check = "restart_runs_accepted_tasks"
	stats.Rule(check, "rapid draws worker count 1..6, cancel-on-shutdown on/off and tasks per round 1..20; one pool goes through 60 rounds (thorough 400) of: Start, submit the tasks, PendingTasksCounter.WaitIsZero (under the stall-tolerant watchdog) - no shutdown is in progress during this phase, so every accepted task must have RUN -, then Shutdown and ShutdownComplete.Wait. Distinct by configuration; non-trivial = cancel-on-shutdown pools with >= 2 workers")
	rounds := stats.Scale(60, 400)
	rapid.Check(t, func(rt *rapid.T) {
		workers := rapid.IntRange(1, 6).Draw(rt, "workers")
		cancel := rapid.Bool().Draw(rt, "cancelOnShutdown")
		tasks := rapid.IntRange(1, 20).Draw(rt, "tasksPerRound")
		desc := fmt.Sprintf("workers=%d cancelOnShutdown=%v tasksPerRound=%d", workers, cancel, tasks)
		fail := func(format string, a ...any) {
			msg := fmt.Sprintf(format, a...)
			stats.Violation(check, map[string]any{"config": desc, "problem": msg})
			rt.Fatalf("%s: %s", desc, msg)
		}
		wp := workerpool.New("p", workerpool.WithWorkerCount(workers), workerpool.WithCancelPendingTasksOnShutdown(cancel))
		for round := 0; round < rounds; round++ {
			if !withinHang(func() { wp.Start() }) {
				fail("round %d: Start did not return\n%s", round, ctl.Dump())
			}
			var ran atomic.Int32
			for i := 0; i < tasks; i++ {
				wp.Submit(func() { ran.Add(1) })
			}
			if !withinHang(wp.PendingTasksCounter.WaitIsZero) {
				fail("round %d: pending counter did not return to zero (ran %d of %d)\n%s", round, ran.Load(), tasks, ctl.Dump())
			}
			if got := int(ran.Load()); got != tasks {
				fail("round %d (restart no. %d): %d of %d tasks accepted by the running pool ran; the others were finished without running although no shutdown was in progress", round, round, got, tasks)
			}
			if !withinHang(func() { wp.Shutdown() }) {
				fail("round %d: Shutdown did not return\n%s", round, ctl.Dump())
			}
			if !withinHang(wp.ShutdownComplete.Wait) {
				fail("round %d: ShutdownComplete.Wait did not return\n%s", round, ctl.Dump())
			}
		}
		stats.Case(check, cancel && workers >= 2, desc, func() any { return desc })
	})
}

// TestRegressionRestartStaleShutdownSignal replays the defect found by TestRestartRunsAcceptedTasks without rapid: a
// cancel-on-shutdown pool with several workers is restarted many times; every task accepted by the running pool must run.
func TestRegressionRestartStaleShutdownSignal(t *testing.T) {
	wp := workerpool.New("p", workerpool.WithWorkerCount(4), workerpool.WithCancelPendingTasksOnShutdown(true))
	for round := 0; round < 1500; round++ {
		wp.Start()
		var ran atomic.Int32
		for i := 0; i < 8; i++ {
			wp.Submit(func() { ran.Add(1) })
		}
		if !withinHang(wp.PendingTasksCounter.WaitIsZero) {
			t.Fatalf("round %d: pending counter stuck", round)
		}
		if ran.Load() != 8 {
			t.Fatalf("round %d: %d of 8 accepted tasks ran on a running pool", round, ran.Load())
		}
		wp.Shutdown()
		if !withinHang(wp.ShutdownComplete.Wait) {
			t.Fatalf("round %d: shutdown did not complete", round)
		}
	}
}

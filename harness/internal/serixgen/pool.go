// Package serixgen generates serix *type shapes* together with values, an independent reference
// encoder for the documented wire format (with a field map used by structure-aware mutators) and a
// structural model equality. It is the shared engine of the checks C01, C02 and C03.
package serixgen

import (
	"encoding/binary"
	"encoding/hex"
	"errors"
	"fmt"
	"math/big"
	"time"
)

// ---------------------------------------------------------------------------------------------
// Hand-declared pool of named types. reflect cannot synthesise named types, types with methods or
// interfaces, so everything that needs a name (settings looked up in the registry by type), a method
// set (interface implementers, custom (de)serializers) or an unexported/embedded shape lives here.
// Per case a fresh serix.API is created and the *settings* of these types are drawn anew.
// ---------------------------------------------------------------------------------------------

// Named strings / byte slices (length prefix, min/max come from the registry).
type (
	NStrA   string
	NStrB   string
	NBytesA []byte
	NBytesB []byte
)

// Named fixed-width leaves.
type (
	NU16   uint16
	NI64   int64
	NU32   uint32
	NBool  bool
	NF64   float64
	NF32   float32
	NArr4  [4]byte
	NArr32 [32]byte
)

// Named collections (element types fixed at compile time, settings drawn per case).
type (
	NSlU16    []uint16
	NSlI8     []int8
	NSlStrA   []NStrA
	NSlBytesB []NBytesB
	NSlArr4   [][4]byte
	NSlSl     []NSlU16
	NSlShape  []Shape
	NSlPay    []Payload
	NSlCirc   []*Circle
	NSlDot    []Dot
	NSlTime   []time.Time
	NSlBig    []*big.Int
	NSlCust   []CustomU24

	NMapStrU32   map[NStrA]uint32
	NMapU8Bytes  map[uint8]NBytesA
	NMapArr4Str  map[NArr4]NStrB
	NMapI64Shape map[int64]Shape
	NMapU16Sl    map[uint16]NSlU16
	NMapBoolDot  map[bool]Dot

	NArr3U16  [3]uint16
	NArr2Circ [2]*Circle
)

// Shape is an interface whose implementers carry uint8 object codes.
type Shape interface{ ShapeName() string }

// Payload is an interface whose implementers carry uint32 object codes.
type Payload interface{ PayloadName() string }

// Circle is a Shape (registered as *Circle).
type Circle struct {
	R uint16 `serix:""`
}

func (*Circle) ShapeName() string { return "circle" }

// Rect is a Shape (registered as *Rect).
type Rect struct {
	W     uint8 `serix:""`
	H     int8  `serix:""`
	Label NStrA `serix:""`
}

func (*Rect) ShapeName() string { return "rect" }

// Poly is a Shape with a nested collection and an optional pointer (registered as *Poly).
type Poly struct {
	Pts NSlU16  `serix:""`
	Opt *Circle `serix:",optional"`
	On  bool    `serix:""`
}

func (*Poly) ShapeName() string { return "poly" }

// Dot is a Shape with a value receiver (registered as Dot, stored as Dot).
type Dot struct {
	X int8 `serix:""`
}

func (Dot) ShapeName() string { return "dot" }

// Addr is a byte array that is a Shape through its pointer (registered as Addr with an object code and - drawn per case -
// its own JSON key: the {type, <key>: hex} object form of byte arrays, which iota.go uses for addresses and identifiers).
type Addr [20]byte

func (*Addr) ShapeName() string { return "addr" }

// Unit is a Shape without any serialized field: its encoding is the object code alone (a marker object).
type Unit struct{}

func (*Unit) ShapeName() string { return "unit" }

// PayA is a Payload.
type PayA struct {
	V uint64 `serix:""`
}

func (*PayA) PayloadName() string { return "a" }

// PayB is a Payload with a tagged byte slice and a time stamp.
type PayB struct {
	Data []byte    `serix:",lenPrefix=uint16"`
	T    time.Time `serix:""`
}

func (*PayB) PayloadName() string { return "b" }

// PayC is a Payload that nests the other interface and a uint256.
type PayC struct {
	Inner Shape    `serix:""`
	Big   *big.Int `serix:""`
	Opt   Shape    `serix:",optional"`
}

func (*PayC) PayloadName() string { return "c" }

// CustomU24 serializes itself as a 3-byte little-endian number (value receiver Encode, pointer
// receiver Decode - the usual shape of custom types in iota.go).
type CustomU24 struct{ V uint32 }

// Encode implements serix.Serializable.
func (c CustomU24) Encode() ([]byte, error) {
	if c.V >= 1<<24 {
		return nil, errors.New("CustomU24 out of range")
	}

	return []byte{byte(c.V), byte(c.V >> 8), byte(c.V >> 16)}, nil
}

// Decode implements serix.Deserializable.
func (c *CustomU24) Decode(b []byte) (int, error) {
	if len(b) < 3 {
		return 0, errors.New("CustomU24: not enough data")
	}
	c.V = uint32(b[0]) | uint32(b[1])<<8 | uint32(b[2])<<16

	return 3, nil
}

// EncodeJSON implements serix.SerializableJSON.
func (c CustomU24) EncodeJSON() (any, error) {
	if c.V >= 1<<24 {
		return nil, errors.New("CustomU24 out of range")
	}

	return fmt.Sprintf("u24:%d", c.V), nil
}

// DecodeJSON implements serix.DeserializableJSON.
func (c *CustomU24) DecodeJSON(v any) error {
	s, ok := v.(string)
	if !ok {
		return errors.New("CustomU24: expected string")
	}
	var n uint32
	if _, err := fmt.Sscanf(s, "u24:%d", &n); err != nil {
		return err
	}
	if n >= 1<<24 {
		return errors.New("CustomU24: out of range")
	}
	c.V = n

	return nil
}

// CustomVar is a custom (de)serializable with a variable width: uint16 count followed by count bytes that must be
// strictly increasing (so the custom decoder is canonical and bounded).
type CustomVar struct{ B []byte }

// Encode implements serix.Serializable.
func (c CustomVar) Encode() ([]byte, error) {
	out := make([]byte, 2, 2+len(c.B))
	binary.LittleEndian.PutUint16(out, uint16(len(c.B)))

	return append(out, c.B...), nil
}

// Decode implements serix.Deserializable.
func (c *CustomVar) Decode(b []byte) (int, error) {
	if len(b) < 2 {
		return 0, errors.New("CustomVar: not enough data")
	}
	n := int(binary.LittleEndian.Uint16(b))
	if len(b)-2 < n {
		return 0, errors.New("CustomVar: not enough data")
	}
	c.B = append([]byte{}, b[2:2+n]...)

	return 2 + n, nil
}

// EncodeJSON implements serix.SerializableJSON.
func (c CustomVar) EncodeJSON() (any, error) { return fmt.Sprintf("var:%x", c.B), nil }

// DecodeJSON implements serix.DeserializableJSON.
func (c *CustomVar) DecodeJSON(v any) error {
	s, ok := v.(string)
	if !ok || len(s) < 4 || s[:4] != "var:" {
		return errors.New("CustomVar: expected var:<hex>")
	}
	b, err := hex.DecodeString(s[4:])
	if err != nil {
		return err
	}
	if len(b) > 65535 {
		return errors.New("CustomVar: too long")
	}
	c.B = b

	return nil
}

// Embedded pool structs.

// EmbA is embedded (exported) in generated structs.
type EmbA struct {
	X uint8 `serix:""`
	S NStrA `serix:""`
}

// embU is an unexported struct embedded in WithUnexported.
type embU struct {
	Y uint16 `serix:""`
}

// WithUnexported embeds an unexported struct (serix walks into it).
type WithUnexported struct {
	embU `serix:""`
	Z    int32 `serix:""`
}

// WithEmbPtr embeds a pointer to an exported struct.
type WithEmbPtr struct {
	*EmbA `serix:""`
	Q     uint8 `serix:""`
}

// WithIface embeds an interface (must be inlined according to serix).
type WithIface struct {
	Shape `serix:",inlined"`
	K     uint8 `serix:""`
}

// WithInlined has an inlined exported embedded struct.
type WithInlined struct {
	EmbA `serix:",inlined"`
	M    uint32 `serix:""`
}

// NoFields has serix-visible fields only behind a skipped field (field without tag is ignored).
type Mixed struct {
	Skipped string
	A       uint8 `serix:""`
	hidden  int
	B       NBool `serix:""`
}

var _ = Mixed{}.hidden

// CustomP16 implements its codec ONLY on the pointer type (Encode, Decode, EncodeJSON and DecodeJSON all have pointer
// receivers) and is held by value: the decoder reaches the methods through the address of the value, so the encoder
// has to do the same. Wire form: 2 bytes little-endian of V^0xA5A5 - not what reflection writes for the struct.
type CustomP16 struct{ V uint16 }

// Encode implements serix.Serializable (pointer receiver).
func (c *CustomP16) Encode() ([]byte, error) {
	x := c.V ^ 0xA5A5

	return []byte{byte(x), byte(x >> 8)}, nil
}

// Decode implements serix.Deserializable.
func (c *CustomP16) Decode(b []byte) (int, error) {
	if len(b) < 2 {
		return 0, errors.New("CustomP16: not enough data")
	}
	c.V = (uint16(b[0]) | uint16(b[1])<<8) ^ 0xA5A5

	return 2, nil
}

// EncodeJSON implements serix.SerializableJSON (pointer receiver).
func (c *CustomP16) EncodeJSON() (any, error) { return fmt.Sprintf("p16:%d", c.V), nil }

// DecodeJSON implements serix.DeserializableJSON.
func (c *CustomP16) DecodeJSON(v any) error {
	s, ok := v.(string)
	if !ok {
		return errors.New("CustomP16: expected string")
	}
	var n uint16
	if _, err := fmt.Sscanf(s, "p16:%d", &n); err != nil {
		return err
	}
	c.V = n

	return nil
}

// CustomPR is a custom (de)serializable that is held through a pointer and whose type settings (an object code) are
// registered under the POINTER type. Wire form after the code: 1 byte V^0x5A.
type CustomPR struct{ V uint8 }

// Encode implements serix.Serializable.
func (c *CustomPR) Encode() ([]byte, error) { return []byte{c.V ^ 0x5A}, nil }

// Decode implements serix.Deserializable.
func (c *CustomPR) Decode(b []byte) (int, error) {
	if len(b) < 1 {
		return 0, errors.New("CustomPR: not enough data")
	}
	c.V = b[0] ^ 0x5A

	return 1, nil
}

// EncodeJSON implements serix.SerializableJSON.
func (c *CustomPR) EncodeJSON() (any, error) { return fmt.Sprintf("pr:%d", c.V), nil }

// DecodeJSON implements serix.DeserializableJSON.
func (c *CustomPR) DecodeJSON(v any) error {
	s, ok := v.(string)
	if !ok {
		return errors.New("CustomPR: expected string")
	}
	var n uint8
	if _, err := fmt.Sscanf(s, "pr:%d", &n); err != nil {
		return err
	}
	c.V = n

	return nil
}

// Token is an interface whose implementers are NOT structs: a string, a number, a bool, a slice of numbers, a byte
// slice and a map (plus one struct). Their type code is the only thing that tells them apart on the wire. The JSON form
// has no typed representation for them, so values that contain a Token are not JSON-expressible.
type Token interface{ TokenName() string }

type (
	TokName   string
	TokNum    uint32
	TokFlag   bool
	TokList   []uint16
	TokBytes  []byte
	TokMap    map[uint64]uint16
	TokStruct struct {
		A uint8 `serix:""`
	}
)

func (TokName) TokenName() string   { return "name" }
func (TokNum) TokenName() string    { return "num" }
func (TokFlag) TokenName() string   { return "flag" }
func (TokList) TokenName() string   { return "list" }
func (TokBytes) TokenName() string  { return "bytes" }
func (TokMap) TokenName() string    { return "map" }
func (TokStruct) TokenName() string { return "struct" }

// Tag8 is a Shape that is a byte array held by VALUE in the interface (registered as Tag8).
type Tag8 [8]byte

func (Tag8) ShapeName() string { return "tag8" }

// Demonstration of an independent auditor (third round), kept as a regression test; see known_findings.json.
package c01

import (
	"context"
	"errors"
	"testing"

	"github.com/stretchr/testify/require"

	"github.com/iotaledger/hive.go/serializer/v2/serix"
)

type hunt17Payload interface{ IsPayload() }

// an implementation with a custom codec
type hunt17Custom struct{ Level uint8 }

func (h *hunt17Custom) IsPayload() {}
func (h *hunt17Custom) Encode() ([]byte, error) {
	return []byte{h.Level}, nil
}
func (h *hunt17Custom) Decode(b []byte) (int, error) {
	if len(b) < 1 {
		return 0, errors.New("not enough data")
	}
	h.Level = b[0]

	return 1, nil
}

// the same implementation without a custom codec (control)
type hunt17Plain struct {
	Level uint8 `serix:""`
}

func (h *hunt17Plain) IsPayload() {}

// an implementation with a custom codec that is NOT registered for the interface
type hunt17Stranger struct{ Level uint8 }

func (h *hunt17Stranger) IsPayload()              {}
func (h *hunt17Stranger) Encode() ([]byte, error) { return []byte{h.Level}, nil }
func (h *hunt17Stranger) Decode(b []byte) (int, error) {
	h.Level = b[0]

	return 1, nil
}

// the same without a custom codec (control)
type hunt17PlainStranger struct {
	Level uint8 `serix:""`
}

func (h *hunt17PlainStranger) IsPayload() {}

type hunt17Holder struct {
	Payload hunt17Payload `serix:""`
}

func hunt17API(t *testing.T) *serix.API {
	api := serix.NewAPI()
	require.NoError(t, api.RegisterTypeSettings(hunt17Custom{}, serix.TypeSettings{}.WithObjectType(uint8(1))))
	require.NoError(t, api.RegisterTypeSettings(hunt17Plain{}, serix.TypeSettings{}.WithObjectType(uint8(2))))
	require.NoError(t, api.RegisterInterfaceObjects((*hunt17Payload)(nil), (*hunt17Custom)(nil), (*hunt17Plain)(nil)))

	tooLarge := errors.New("level must not exceed 10")
	require.NoError(t, api.RegisterValidator(hunt17Custom{}, func(_ context.Context, h hunt17Custom) error {
		if h.Level > 10 {
			return tooLarge
		}

		return nil
	}))
	require.NoError(t, api.RegisterValidator(hunt17Plain{}, func(_ context.Context, h hunt17Plain) error {
		if h.Level > 10 {
			return tooLarge
		}

		return nil
	}))

	return api
}

// Encode(WithValidation) has to run the registered syntactic validator of every value it visits. It does not run it for
// an implementation with a custom codec that sits in an interface: the bytes it produces under validation are refused
// by Decode under validation.
func TestRegressionAudit17ValidatorSkippedForCustomCodecInInterface(t *testing.T) {
	api := hunt17API(t)
	ctx := context.Background()

	// controls: a valid value round-trips under validation; an invalid value is refused when the same type is held
	// directly or when the implementation has no custom codec
	b, err := api.Encode(ctx, &hunt17Holder{Payload: &hunt17Custom{Level: 5}}, serix.WithValidation())
	require.NoError(t, err)
	ctrl := &hunt17Holder{}
	n, err := api.Decode(ctx, b, ctrl, serix.WithValidation())
	require.NoError(t, err)
	require.Equal(t, len(b), n)
	require.Equal(t, &hunt17Custom{Level: 5}, ctrl.Payload)

	_, err = api.Encode(ctx, &hunt17Custom{Level: 50}, serix.WithValidation())
	require.Error(t, err, "control: held directly, the invalid value is refused")
	_, err = api.Encode(ctx, &hunt17Holder{Payload: &hunt17Plain{Level: 50}}, serix.WithValidation())
	require.Error(t, err, "control: without custom codec, the invalid value is refused")
	_, err = api.Encode(ctx, []hunt17Payload{&hunt17Plain{Level: 50}}, serix.WithValidation(),
		serix.WithTypeSettings(serix.TypeSettings{}.WithLengthPrefixType(serix.LengthPrefixTypeAsByte)))
	require.Error(t, err, "control: without custom codec, the invalid slice element is refused")

	// the case: custom codec inside the interface
	b, err = api.Encode(ctx, &hunt17Holder{Payload: &hunt17Custom{Level: 50}}, serix.WithValidation())
	if err != nil {
		return // refused: fine
	}
	dst := &hunt17Holder{}
	_, err = api.Decode(ctx, b, dst, serix.WithValidation())
	require.NoError(t, err,
		"Encode(WithValidation) accepted the value and produced %x, Decode(WithValidation) refuses these bytes", b)
}

// The same shortcut skips the check that the implementation is registered for the interface: a value that
// encodeInterface refuses (ErrInterfaceUnderlyingTypeNotRegistered) is written when it has a custom codec, and Decode
// resolves the first byte of the custom encoding as the type code of another implementation.
func TestRegressionAudit17UnregisteredCustomCodecInInterfaceIsWritten(t *testing.T) {
	api := hunt17API(t)
	ctx := context.Background()

	_, err := api.Encode(ctx, &hunt17Holder{Payload: &hunt17PlainStranger{Level: 2}})
	require.ErrorIs(t, err, serix.ErrInterfaceUnderlyingTypeNotRegistered, "control: refused without custom codec")

	b, err := api.Encode(ctx, &hunt17Holder{Payload: &hunt17Stranger{Level: 2}})
	if err != nil {
		return // refused: fine
	}

	dst := &hunt17Holder{}
	_, err = api.Decode(ctx, b, dst)
	if err != nil {
		t.Fatalf("Encode accepted an implementation that is not registered for the interface (bytes %x), Decode fails: %v", b, err)
	}
	require.Equal(t, &hunt17Stranger{Level: 2}, dst.Payload,
		"Encode accepted an implementation that is not registered for the interface (bytes %x), Decode yields another type", b)
}

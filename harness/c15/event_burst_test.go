package c15

import (
	"fmt"
	"sync"
	"sync/atomic"
	"testing"

	"pgregory.net/rapid"
	"verifharness/internal/ctl"
	"verifharness/internal/stats"
)

// ---------------------------------------------------------------------------------------------------------------
// "fires exactly min(n, number of triggers) times under any concurrency", in bulk.
//
// Domain: one event (arity 1 or 2), optionally WithMaxTriggerCount(ne); a sentinel hook without limit, an in-place
// hook WithMaxTriggerCount(nh) and a pooled hook WithMaxTriggerCount(np), all attached before the first Trigger and
// never unhooked by the program; G goroutines released by one gate, each calling Trigger `per` times back to back
// with globally unique ids. rapid draws G, per and the three limits (below, around and above the number of triggers).
// Oracle (exact, from the statement): the event fires F = min(ne, T) times (sentinel calls); the limited hooks are
// called min(nh, F) and min(np, F) times once the pool has drained; nobody is called twice with one id or with an
// id that was never triggered. The long back-to-back runs give a miscounting counter thousands of chances per case.
// ---------------------------------------------------------------------------------------------------------------

const burstCheck = "event_count_burst"

// min2 returns min(limit, n) where limit 0 means "no limit".
func min2(limit, n int) int {
	if limit == 0 || n < limit {
		return n
	}
	return limit
}

func runEventCountBurst(t *rapid.T) {
	arity := rapid.IntRange(1, 2).Draw(t, "arity")
	g := rapid.IntRange(2, 8).Draw(t, "goroutines")
	per := rapid.IntRange(50, 1500).Draw(t, "triggersPerGoroutine")
	total := g * per
	limit := func(name string) int {
		switch rapid.IntRange(0, 4).Draw(t, name+"Kind") {
		case 0:
			return rapid.IntRange(1, 20).Draw(t, name)
		case 1:
			return rapid.IntRange(total/2, total).Draw(t, name)
		case 2:
			return rapid.IntRange(total-3, total+3).Draw(t, name)
		case 3:
			return total + rapid.IntRange(1, 100).Draw(t, name)
		}
		return rapid.IntRange(1, total).Draw(t, name)
	}
	ne := 0
	if rapid.Bool().Draw(t, "eventLimited") {
		ne = limit("eventMax")
	}
	nh, np := limit("hookMax"), limit("pooledHookMax")
	prog := fmt.Sprintf("arity=%d goroutines=%d per=%d eventMax=%d hookMax=%d pooledHookMax=%d", arity, g, per, ne, nh, np)

	ev := newEvAPI(arity, nil, evOpts(ne, poolUnset)...)
	var calls [3][]atomic.Int32
	var bad atomic.Int64
	for i := range calls {
		calls[i] = make([]atomic.Int32, total+1)
	}
	cb := func(i int) func(int) {
		return func(arg int) {
			if arg < 1 || arg > total {
				bad.Store(int64(arg) + 1<<40)
				return
			}
			calls[i][arg].Add(1)
		}
	}
	ev.Hook(cb(0), evOpts(0, poolForced)...)
	ev.Hook(cb(1), evOpts(nh, poolForced)...)
	ev.Hook(cb(2), evOpts(np, poolShared)...)

	gate := make(chan struct{})
	var wg sync.WaitGroup
	for i := 0; i < g; i++ {
		wg.Add(1)
		go func(base int) {
			defer wg.Done()
			<-gate
			for k := 1; k <= per; k++ {
				ev.Trigger(base + k)
			}
		}(i * per)
	}
	close(gate)
	fail := func(problem string, extra map[string]any) {
		p := map[string]any{"program": prog, "problem": problem}
		for k, v := range extra {
			p[k] = v
		}
		stats.Violation(burstCheck, p)
		t.Fatalf("%s\n%s\n%v", problem, prog, extra)
	}
	if !ctl.Within(ctl.HangTimeout, wg.Wait) || !drainPool() {
		fail("trigger goroutines did not return or the pool did not drain", map[string]any{"goroutines": ctl.Dump()})
	}
	if b := bad.Load(); b != 0 {
		fail("a hook was called with an argument that no Trigger call passed", map[string]any{"arg": b - 1<<40})
	}
	var sum [3]int
	for i := range calls {
		for id := 1; id <= total; id++ {
			c := int(calls[i][id].Load())
			if c > 1 {
				fail("a hook was called more than once for one Trigger call", map[string]any{"hook": i, "trigger": id, "calls": c})
			}
			sum[i] += c
		}
	}
	fired := min2(ne, total)
	want := [3]int{fired, min2(nh, fired), min2(np, fired)}
	stats.Case(burstCheck, ne != 0 && ne <= total || nh <= total || np <= total, prog, func() any { return prog },
		fmt.Sprintf("arity:%d", arity), map[bool]string{true: "event_limit_binds", false: ""}[ne != 0 && ne <= total],
		map[bool]string{true: "hook_limit_binds", false: ""}[nh <= fired], map[bool]string{true: "pooled_hook_limit_binds", false: ""}[np <= fired])
	stats.NoteAdd(burstCheck, "trigger_calls", int64(total))
	if sum != want {
		fail("event or hook limited by WithMaxTriggerCount(n) did not fire exactly min(n, #triggers) times",
			map[string]any{"triggers": total, "calls_sentinel_hook_pooledhook": sum, "expected": want})
	}
}

func TestEventCountBurst(t *testing.T) {
	stats.Rule(burstCheck, "rapid draws arity, 2-8 goroutines x 50-1500 back-to-back Trigger calls with unique ids, an optional event limit and two hook limits (in-place and pooled) placed below / around / above the number of triggers; all hooks attached before and never unhooked; exact counts min(n, #triggers); distinct by parameter tuple; non-trivial = at least one limit is <= the number of triggers")
	rapid.Check(t, runEventCountBurst)
}

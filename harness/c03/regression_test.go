package c03

import (
	"context"
	"testing"

	"github.com/iotaledger/hive.go/serializer/v2/serix"
)

// Plain regression checks (no generator) for repaired defects of this property.

// WithMinLen / WithMaxLen wrote through the *ArrayRules shared with the settings value they were derived from: deriving a
// second settings value from a common base changed the bounds of the first one.
func TestRegressionSettingsDerivedFromOneBaseAreIndependent(t *testing.T) {
	base := serix.TypeSettings{}.WithLengthPrefixType(serix.LengthPrefixTypeAsByte).WithMinLen(1)
	small := base.WithMaxLen(2)
	large := base.WithMaxLen(10)
	if max, _ := small.MaxLen(); max != 2 {
		t.Fatalf("small.MaxLen() = %d after large was derived from the same base, want 2", max)
	}
	if max, _ := large.MaxLen(); max != 10 {
		t.Fatalf("large.MaxLen() = %d, want 10", max)
	}
	if _, set := base.MaxLen(); set {
		t.Fatal("deriving settings gave the base a maximum length")
	}
	api := serix.NewAPI()
	if _, err := api.Encode(context.Background(), []uint8{1, 2, 3, 4, 5}, serix.WithValidation(), serix.WithTypeSettings(small)); err == nil {
		t.Fatal("validated Encode accepted 5 elements under a maximum length of 2")
	}
}

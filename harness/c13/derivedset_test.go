package c13

import (
	"fmt"
	"sort"
	"strings"
	"testing"

	"github.com/iotaledger/hive.go/ds"
	"github.com/iotaledger/hive.go/ds/reactive"
	"pgregory.net/rapid"
	"verifharness/internal/stats"
)

// TestDerivedSetSubscriberFold: the subscriber clause for a DerivedSet that inherits from two source sets AND is written
// directly. Whatever the contents of such a set are defined to be, its subscribers must be told about every change
// exactly once: every reported addition concerns an element the subscriber did not have, every reported deletion one it
// had, and the fold of all reports equals the set's contents after every action.
func TestDerivedSetSubscriberFold(t *testing.T) {
	const check = "derivedset_subscriber_fold"
	stats.Rule(check, "sequential: a DerivedSet inheriting from two source Sets (universe 0..4) with 1..2 subscribers registered at drawn positions (they start from the contents at registration); 1..20 actions Add/Delete/AddAll/DeleteAll/Replace on a source or Add/Delete/AddAll/DeleteAll directly on the derived set, in any order (direct write first and inherited write of the same element afterwards included). Oracle after every action, per subscriber: each reported added element was absent from its fold and each reported deleted element present (nothing is reported twice), and the fold equals derived.ToSlice(). Distinct by action list; non-trivial = an element was written directly and through a source")
	rapid.Check(t, func(rt *rapid.T) {
		src := []reactive.Set[int]{reactive.NewSet[int](), reactive.NewSet[int]()}
		derived := reactive.NewDerivedSet[int]()
		unsubInherit := derived.InheritFrom(src[0], src[1])
		defer unsubInherit()
		type sub struct {
			at    int
			fold  map[int]bool
			unsub func()
		}
		nSub := rapid.IntRange(1, 2).Draw(rt, "subscribers")
		n := rapid.IntRange(1, 20).Draw(rt, "actions")
		subs := make([]*sub, nSub)
		for i := range subs {
			subs[i] = &sub{at: rapid.IntRange(0, n-1).Draw(rt, "subscribeAt")}
		}
		var log []string
		problem := ""
		fail := func(format string, a ...any) {
			if problem == "" {
				problem = fmt.Sprintf(format, a...)
			}
		}
		elems := func(label string) []int {
			return rapid.SliceOfNDistinct(rapid.IntRange(0, 4), 0, 4, func(v int) int { return v }).Draw(rt, label)
		}
		direct, inherited := map[int]bool{}, map[int]bool{}
		both := false
		for step := 0; step < n && problem == ""; step++ {
			for i, s := range subs {
				if s.at == step {
					s := s
					i := i
					s.fold = map[int]bool{}
					s.unsub = derived.OnUpdate(func(m ds.SetMutations[int]) {
						m.AddedElements().Range(func(e int) {
							if s.fold[e] {
								fail("subscriber %d was told that %d was added, but it already has %d (reported twice)", i, e, e)
							}
							s.fold[e] = true
						})
						m.DeletedElements().Range(func(e int) {
							if !s.fold[e] {
								fail("subscriber %d was told that %d was deleted, but it does not have %d (reported twice or never added)", i, e, e)
							}
							delete(s.fold, e)
						})
					})
					log = append(log, fmt.Sprintf("subscribe#%d", i))
				}
			}
			target := rapid.IntRange(0, 2).Draw(rt, "target") // 0,1 = sources, 2 = the derived set itself
			var set reactive.Set[int] = derived
			name := "derived"
			if target < 2 {
				set, name = src[target], fmt.Sprintf("source%d", target)
			}
			mark := func(es ...int) {
				for _, e := range es {
					if target == 2 {
						direct[e] = true
					} else {
						inherited[e] = true
					}
					if direct[e] && inherited[e] {
						both = true
					}
				}
			}
			switch op := rapid.SampledFrom([]string{"Add", "Add", "Delete", "Delete", "AddAll", "DeleteAll", "Replace"}).Draw(rt, "op"); op {
			case "Add":
				e := rapid.IntRange(0, 4).Draw(rt, "e")
				log = append(log, fmt.Sprintf("%s.Add(%d)", name, e))
				set.Add(e)
				mark(e)
			case "Delete":
				e := rapid.IntRange(0, 4).Draw(rt, "e")
				log = append(log, fmt.Sprintf("%s.Delete(%d)", name, e))
				set.Delete(e)
				mark(e)
			case "AddAll":
				es := elems("es")
				log = append(log, fmt.Sprintf("%s.AddAll(%v)", name, es))
				set.AddAll(ds.NewSet(es...))
				mark(es...)
			case "DeleteAll":
				es := elems("es")
				log = append(log, fmt.Sprintf("%s.DeleteAll(%v)", name, es))
				set.DeleteAll(ds.NewSet(es...))
				mark(es...)
			default:
				if target == 2 {
					continue // Replace is only drawn for sources
				}
				es := elems("es")
				log = append(log, fmt.Sprintf("%s.Replace(%v)", name, es))
				set.Replace(ds.NewSet(es...))
				mark(es...)
			}
			want := derived.ToSlice()
			sort.Ints(want)
			for i, s := range subs {
				if s.fold == nil {
					continue
				}
				var got []int
				for e := range s.fold {
					got = append(got, e)
				}
				sort.Ints(got)
				if fmt.Sprint(got) != fmt.Sprint(want) {
					fail("after %s the fold of subscriber %d's reports is %v, the derived set holds %v", log[len(log)-1], i, got, want)
				}
			}
		}
		for _, s := range subs {
			if s.unsub != nil {
				s.unsub()
			}
		}
		key := strings.Join(log, ";")
		stats.Case(check, both, key, func() any { return log })
		if problem != "" {
			stats.Violation(check, map[string]any{"actions": log, "problem": problem})
			rt.Fatalf("%s\nactions: %v", problem, log)
		}
	})
}

package c09

import (
	"crypto/sha256"
	"encoding/binary"
	"encoding/hex"
	"math/bits"
	"slices"
	"sort"
	"sync"
)

// The authenticated map places a key at the trie path sha256(keyBytes) (pokt-network/smt default path hasher).
// Deep trie shapes (long extension nodes, sibling collapses on delete) only appear when the paths of the keys
// in a map share long prefixes, so the pool is built from groups of 4-byte keys that were searched for that:
// all 2^19 big-endian counters are hashed once per process (deterministic, independent of any seed), sorted by
// path, and the windows around the closest neighbours are taken as clusters.

type poolKey struct {
	key  string
	path [32]byte
}

type keyPool struct {
	clusters [][]poolKey // each: >=3 keys, every key shares >=16 path bits with the first, at least one pair shares >=28
	shorts   []poolKey   // short/odd keys with unrelated paths
}

const poolCandidates = 1 << 19

var (
	poolOnce sync.Once
	thePool  *keyPool
)

func mkKey(b []byte) poolKey { return poolKey{key: string(b), path: sha256.Sum256(b)} }

// lcpBits is the number of leading bits the two paths have in common.
func lcpBits(a, b [32]byte) int {
	for i := 0; i < 32; i++ {
		if x := a[i] ^ b[i]; x != 0 {
			return i*8 + bits.LeadingZeros8(x)
		}
	}
	return 256
}

func pathOf(key string) [32]byte { return sha256.Sum256([]byte(key)) }

func getPool() *keyPool {
	poolOnce.Do(func() { thePool = buildPool() })
	return thePool
}

func buildPool() *keyPool {
	// each candidate is packed as (top 45 path bits | 19-bit counter) so that a plain integer sort orders by path
	const idxMask = uint64(poolCandidates - 1)
	cs := make([]uint64, poolCandidates)
	var kb [4]byte
	for i := range cs {
		binary.BigEndian.PutUint32(kb[:], uint32(i))
		h := sha256.Sum256(kb[:])
		cs[i] = binary.BigEndian.Uint64(h[:8])&^idxMask | uint64(i)
	}
	slices.Sort(cs)
	lcp := func(a, b int) int {
		n := bits.LeadingZeros64((cs[a] ^ cs[b]) &^ idxMask)
		if n > 45 {
			n = 45
		}
		return n
	}

	type window struct {
		lo, hi int // inclusive indexes into cs
		score  int
	}
	var ws []window
	for j := 0; j+1 < len(cs); j++ {
		if lcp(j, j+1) < 28 {
			continue
		}
		lo, hi := j, j+1
		score := lcp(j, j+1) * 4
		// extend towards the closer neighbour while it still shares >=16 bits with the pair, up to 6 keys
		for hi-lo+1 < 6 {
			l, r := -1, -1
			if lo > 0 {
				l = lcp(lo-1, j)
			}
			if hi+1 < len(cs) {
				r = lcp(hi+1, j)
			}
			if l < 16 && r < 16 {
				break
			}
			if l >= r {
				lo--
				score += l
			} else {
				hi++
				score += r
			}
		}
		if hi-lo+1 >= 3 {
			ws = append(ws, window{lo, hi, score})
		}
	}
	sort.Slice(ws, func(a, b int) bool {
		if ws[a].score != ws[b].score {
			return ws[a].score > ws[b].score
		}
		return ws[a].lo < ws[b].lo
	})
	p := &keyPool{}
	usedHi := []window{}
	for _, w := range ws {
		if len(p.clusters) == 12 {
			break
		}
		overlap := false
		for _, u := range usedHi {
			if w.lo <= u.hi && u.lo <= w.hi {
				overlap = true
			}
		}
		if overlap {
			continue
		}
		usedHi = append(usedHi, w)
		var cl []poolKey
		for x := w.lo; x <= w.hi; x++ {
			binary.BigEndian.PutUint32(kb[:], uint32(cs[x]&idxMask))
			cl = append(cl, mkKey(kb[:]))
		}
		p.clusters = append(p.clusters, cl)
	}
	for _, s := range []string{
		"a", "b", "c", "d", "ab", "abc", "\x00", "\x00\x00", "\xff", "\xff\xff\xff", "a\x00", "key-1", "key-2",
		"0123456789abcdef0123456789abcdef01234567", // 40 bytes
		"kkkkkkkkkkkkkkkkkkkkkkkkkkkkkkkkkkkkkkkkkkkkkkkkkkkkkkkkkkkkkkkkkkkkkkkkkkkkkkkkkkkkkkkkkkkkkkkkkkkkkkkkkkkk", // 108 bytes
		"\x01", "\x02", "\x03", // the realm / fixed-key bytes used inside the store
	} {
		p.shorts = append(p.shorts, mkKey([]byte(s)))
	}
	return p
}

// describePool renders the cluster structure (for evidence notes).
func describePool(p *keyPool) []string {
	var out []string
	for _, cl := range p.clusters {
		s := ""
		for i, k := range cl {
			if i > 0 {
				s += " "
			}
			s += hex.EncodeToString([]byte(k.key))
			if i > 0 {
				s += "/" + itoa(lcpBits(cl[i-1].path, k.path))
			}
		}
		out = append(out, s)
	}
	return out
}

func itoa(i int) string {
	if i == 0 {
		return "0"
	}
	neg := i < 0
	if neg {
		i = -i
	}
	var b []byte
	for i > 0 {
		b = append([]byte{byte('0' + i%10)}, b...)
		i /= 10
	}
	if neg {
		b = append([]byte{'-'}, b...)
	}
	return string(b)
}

package c01

import (
	"context"
	"reflect"
	"strings"
	"testing"

	"github.com/iotaledger/hive.go/serializer/v2/serix"
	"pgregory.net/rapid"
	"verifharness/internal/stats"
)

// knownInlinedOptionalNil is the open known finding KF-C01-1: a nil pointer field tagged `inlined,optional` is left out
// by MapEncode (like every nil optional field), but MapDecode has no key to look for and always decodes the inlined
// member from the parent's map, so it fails on the first key it misses. The binary form round-trips; the non-nil case
// round-trips in the JSON form. The generated shapes never combine `inlined` with `optional`; this test does.
const knownInlinedOptionalNil = "KF-C01-1"

type knInl struct {
	A uint8  `serix:""`
	B uint16 `serix:""`
}

type knHolder struct {
	Y uint16 `serix:""`
	I *knInl `serix:",inlined,optional"`
	Z uint8  `serix:""`
}

// TestKnownInlinedOptionalNilJSON: values of a struct with an `inlined,optional` pointer member, nil or not. The binary
// form has to round-trip always, the JSON form whenever JSONEncode accepts the value - except for the one signature of
// KF-C01-1: the member is nil, JSONEncode produced a document without its keys, and JSONDecode fails with a "missing
// map entry" error. That outcome is reported with stats.Known; everything else is judged.
func TestKnownInlinedOptionalNilJSON(t *testing.T) {
	const check = "known_inlined_optional_nil_json"
	stats.Rule(check, "rapid draws values of struct{Y uint16; I *struct{A uint8; B uint16} `inlined,optional`; Z uint8} (I nil in half of the cases) and validation on/off. Oracle: Encode/Decode round-trips to an equal value and consumes everything; JSONEncode/JSONDecode round-trips when I is not nil; when I is nil the JSON round trip either succeeds or shows exactly the signature of the known finding KF-C01-1 (JSONDecode fails with 'missing map entry' for a key of the inlined member) - anything else is a violation. Distinct by value; non-trivial = I is nil")
	api := serix.NewAPI()
	ctx := context.Background()
	rapid.Check(t, func(rt *rapid.T) {
		in := &knHolder{Y: rapid.Uint16().Draw(rt, "y"), Z: rapid.Uint8().Draw(rt, "z")}
		if rapid.Bool().Draw(rt, "present") {
			in.I = &knInl{A: rapid.Uint8().Draw(rt, "a"), B: rapid.Uint16().Draw(rt, "b")}
		}
		var opts []serix.Option
		if rapid.Bool().Draw(rt, "validation") {
			opts = append(opts, serix.WithValidation())
		}
		fail := func(problem string) {
			stats.Violation(check, map[string]any{"value": in, "inner": in.I, "problem": problem})
			rt.Fatalf("%+v (I=%+v): %s", in, in.I, problem)
		}
		b, err := api.Encode(ctx, in, opts...)
		if err != nil {
			fail("Encode failed: " + err.Error())
		}
		out := &knHolder{}
		if n, err := api.Decode(ctx, b, out, opts...); err != nil || n != len(b) || !reflect.DeepEqual(in, out) {
			fail("binary round trip failed")
		}
		j, err := api.JSONEncode(ctx, in, opts...)
		if err != nil {
			fail("JSONEncode failed: " + err.Error())
		}
		jout := &knHolder{}
		err = api.JSONDecode(ctx, j, jout, opts...)
		switch {
		case err == nil && reflect.DeepEqual(in, jout):
		case in.I == nil && err != nil && strings.Contains(err.Error(), "missing map entry") && !strings.Contains(string(j), `"a"`):
			stats.Known(knownInlinedOptionalNil)
			stats.Label(check, "known_KF-C01-1_observed")
		case err != nil:
			fail("JSONDecode of " + string(j) + " failed: " + err.Error())
		default:
			fail("JSON round trip of " + string(j) + " changed the value")
		}
		stats.Case(check, in.I == nil, string(j), func() any { return string(j) })
	})
}

package c14

import (
	"fmt"
	"testing"

	"github.com/iotaledger/hive.go/ds"
	"github.com/iotaledger/hive.go/ds/reactive"
	"verifharness/internal/stats"
)

func failRegression(t *testing.T, check string, readable []string, problem string) {
	t.Helper()
	stats.Violation(check, map[string]any{"readable": readable, "problem": problem})
	t.Fatalf("%s\nprogram: %v", problem, readable)
}

// TestRegressionDerivedSetReplace: defect D13. reactive.Set.Replace reported new ∪ old instead of the difference, so a
// DerivedSet (and a SortedSet) dropped every element its source retained.
func TestRegressionDerivedSetReplace(t *testing.T) {
	const check = "regression_derived_set_replace"
	stats.Rule(check, "fixed cases: source {1,2} -> Replace{2,3} under a DerivedSet, under SubtractReactive and as the Set of a SortedSet")

	p := graphSeqProg{VarInit: []int{0, 0}, SetInit: [][]int{{1, 2}, {}}, Actions: []gAction{
		{Op: "create", Node: nodeSpec{Kind: "dset", In: []int{0}}},
		{Op: "create", Node: nodeSpec{Kind: "subtract", In: []int{0, 1}}},
		{Op: "sop", I: 0, Set: setOp{Op: "replace", A: []int{2, 3}}},
	}}
	stats.Case(check, true, "graph", func() any { return p.strings() })
	if v := runGraphSeq(p); v.Msg != "" {
		failRegression(t, check, p.strings(), v.Msg)
	}

	// directly against the API (the probe of DESIGN section 3: source [2 3] derived [3])
	source := reactive.NewSet[int](1, 2)
	derived := reactive.NewDerivedSet[int]()
	defer derived.InheritFrom(source)()
	source.Replace(ds.NewSet(2, 3))
	stats.Case(check, true, "api", func() any { return []string{"source {1,2}", "derived.InheritFrom(source)", "source.Replace{2,3}"} })
	if got, want := fmt.Sprint(sliceOf(derived)), fmt.Sprint(sliceOf(source)); got != want {
		failRegression(t, check, []string{"source {1,2}", "derived.InheritFrom(source)", "source.Replace{2,3}"}, fmt.Sprintf("derived set holds %s, its only source holds %s", got, want))
	}

	sp := sortedSeqProg{Weights: []int{1, 2, 3, 0, 0, 0}, Actions: []sortedAction{
		{Op: "set", Set: setOp{Op: "addall", A: []int{1, 2}}},
		{Op: "set", Set: setOp{Op: "replace", A: []int{2, 3}}},
	}}
	stats.Case(check, true, "sorted", func() any { return sp.strings() })
	if v := runSortedSeq(sp); v.Msg != "" {
		failRegression(t, check, sp.strings(), v.Msg)
	}
}

// TestRegressionCounterUnsubscribe: the unsubscribe function returned by Counter.Monitor left the input's contribution
// in the counter, so the counter stayed above the number of monitored inputs satisfying the condition.
func TestRegressionCounterUnsubscribe(t *testing.T) {
	const check = "regression_counter_unsubscribe"
	stats.Rule(check, "fixed case: counter monitors a variable holding 1; the monitor is unsubscribed; nothing is monitored any more")
	p := graphSeqProg{VarInit: []int{0, 1}, SetInit: [][]int{{}, {}}, Actions: []gAction{
		{Op: "create", Node: nodeSpec{Kind: "counter", In: []int{1}, Cond: 0}},
		{Op: "unmonitor", I: 0, V: 0},
		{Op: "vset", I: 1, V: 0},
		{Op: "monitor", I: 0, V: 1},
		{Op: "vset", I: 1, V: 2},
	}}
	stats.Case(check, true, "graph", func() any { return p.strings() })
	if v := runGraphSeq(p); v.Msg != "" {
		failRegression(t, check, p.strings(), v.Msg)
	}

	v := reactive.NewVariable[int]().Init(1)
	c := reactive.NewCounter[int]()
	unsubscribe := c.Monitor(v)
	unsubscribe()
	stats.Case(check, true, "api", func() any { return []string{"v=1", "unsubscribe := counter.Monitor(v)", "unsubscribe()"} })
	if got := c.Get(); got != 0 {
		failRegression(t, check, []string{"v=1", "unsubscribe := counter.Monitor(v)", "unsubscribe()"}, fmt.Sprintf("counter = %d although no input is monitored", got))
	}
}

// TestRegressionWaitGroupAddDoneWindow: defect D18, replayed deterministically through the verif yield point in
// WaitGroup.Add: a Done that removes the last pending element while an Add of that (already pending) element sits between
// its failed insertion and the counter correction saw counter 1 (no trigger); the correction then brought the counter to
// 0 without triggering: nothing pending, never triggered.
func TestRegressionWaitGroupAddDoneWindow(t *testing.T) {
	const check = "regression_waitgroup_add_done_window"
	stats.Rule(check, "fixed cases: (Add(3,3) with Done(3) at the yield point of the second, already pending 3) and (group with 7 pending: Add(7) with Done(7) at the yield point)")
	for _, p := range []wgSeqProg{
		{Ops: []wgOp{{Op: "add", Elems: []int{3, 3}, Inter: []wgInter{{At: 1, Ops: []wgOp{{Op: "done", Elems: []int{3}}}}}}}},
		{Init: []int{7}, Ops: []wgOp{{Op: "add", Elems: []int{7}, Inter: []wgInter{{At: 0, Ops: []wgOp{{Op: "done", Elems: []int{7}}}}}}}},
	} {
		p := p
		stats.Case(check, true, fmt.Sprint(p.strings()), func() any { return p.strings() })
		if v := runWGSeq(p); v.Msg != "" {
			failRegression(t, check, p.strings(), v.Msg)
		}
	}
}

// TestRegressionSortedSetDeleteWeightDeadlock: defect D17. deleteSorted unsubscribed from the weight variable while holding
// the set mutex; a concurrent weight update holds the callback's execution lock and waits for the set mutex.
func TestRegressionSortedSetDeleteWeightDeadlock(t *testing.T) {
	const check = "regression_sortedset_delete_weight_deadlock"
	stats.Rule(check, "fixed program, repeated: one goroutine toggles membership of element 1 twelve times while another one sets weight(1) twelve times; the run must finish (20 s watchdog) and satisfy the SortedSet defining function")
	var toggle, weigh []sortedAction
	for i := 0; i < 12; i++ {
		op := "add"
		if i%2 == 1 {
			op = "delete"
		}
		toggle = append(toggle, sortedAction{Op: "set", Set: setOp{Op: op, A: []int{1}}})
		weigh = append(weigh, sortedAction{Op: "weight", E: 1, W: i % 4})
	}
	p := sortedConcProg{Weights: []int{0, 1, 2, 3, 0, 1}, Init: []int{1, 2, 3}, Scripts: [][]sortedAction{toggle, weigh}}
	rounds := stats.Scale(300, 3000)
	for i := 0; i < rounds; i++ {
		p.Less = i%2 == 0
		v := runSortedConc(p)
		if v.Msg != "" {
			stats.Bulk(check, int64(i+1), 1, false, p.strings())
			stats.Violation(check, map[string]any{"readable": p.strings(), "round": i, "problem": v.Msg, "hang": v.Hang})
			t.Fatalf("round %d: %s\nprogram: %v", i, v.Msg, p.strings())
		}
	}
	stats.Bulk(check, int64(rounds), 1, false, p.strings())
}

package serixgen

import (
	"bytes"
	"encoding/binary"
	"fmt"
	"math"
	"math/big"
	"reflect"
	"sort"
	"time"
	"unicode/utf8"
)

// FieldRef locates one structural field of a reference encoding (used by the mutators and for
// classifying inputs).
type FieldRef struct {
	Off   int
	W     int
	Kind  string // len | count | code | optlen | bool | time | elem | num | raw
	Group int    // for elem: id of the collection the element belongs to
	Coll  *Node  // for count: the collection node (its settings tell which rules apply)
}

// Enc is the result of the reference encoder.
type Enc struct {
	B      []byte
	F      []FieldRef
	Reject string // non-empty: serix.Encode must refuse this value (with the given validation mode)
}

type refEncoder struct {
	validate bool
	group    int
}

// MaxNanos is the largest representable time stamp.
const MaxNanos = uint64(math.MaxInt64)

// TimeNanos is the documented mapping of a time to the wire: nanoseconds since the epoch, times before the
// epoch become 0, times whose nanosecond stamp does not fit an int64 become MaxInt64.
func TimeNanos(tm time.Time) uint64 {
	sec := tm.Unix()
	if sec < 0 {
		return 0
	}
	// sec*1e9 + nsec must fit in int64
	b := new(big.Int).Mul(big.NewInt(sec), big.NewInt(1_000_000_000))
	b.Add(b, big.NewInt(int64(tm.Nanosecond())))
	if b.Cmp(big.NewInt(math.MaxInt64)) > 0 {
		return MaxNanos
	}

	return b.Uint64()
}

// RefEncode encodes v (a value of n.T) according to the documented wire layout, independently of serix.
func RefEncode(n *Node, v reflect.Value, validate bool) Enc {
	e := &refEncoder{validate: validate}
	return e.enc(n, v)
}

func putPrefix(w int, l int) ([]byte, bool) {
	switch w {
	case 1:
		if l > math.MaxUint8 {
			return nil, false
		}
		return []byte{byte(l)}, true
	case 2:
		if l > math.MaxUint16 {
			return nil, false
		}
		b := make([]byte, 2)
		binary.LittleEndian.PutUint16(b, uint16(l))
		return b, true
	case 4:
		if l > math.MaxUint32 {
			return nil, false
		}
		b := make([]byte, 4)
		binary.LittleEndian.PutUint32(b, uint32(l))
		return b, true
	case 8:
		b := make([]byte, 8)
		binary.LittleEndian.PutUint64(b, uint64(l))
		return b, true
	}

	return nil, false
}

func codeBytes(c *Code) []byte {
	if c.W == 1 {
		return []byte{byte(c.V)}
	}
	b := make([]byte, 4)
	binary.LittleEndian.PutUint32(b, c.V)

	return b
}

func reject(format string, a ...any) Enc { return Enc{Reject: fmt.Sprintf(format, a...)} }

func (e *refEncoder) boundsOK(s Settings, l int) bool {
	if s.Min != 0 && l < s.Min {
		return false
	}
	if s.Max != 0 && l > s.Max {
		return false
	}

	return true
}

// appendEnc appends sub to out, shifting the field map.
func appendEnc(out *Enc, sub Enc) {
	base := len(out.B)
	out.B = append(out.B, sub.B...)
	for _, f := range sub.F {
		f.Off += base
		out.F = append(out.F, f)
	}
}

func (e *refEncoder) enc(n *Node, v reflect.Value) Enc {
	if n.Code != nil {
		switch n.Kind {
		case KStruct, KByteArr, KCustom, KPtr, KIface:
			// these write their code themselves (below)
		default:
			// documented layout: the type code of a registered object precedes its serialized form, whatever its kind
			plain := *n
			plain.Code = nil
			inner := e.enc(&plain, v)
			if inner.Reject != "" {
				return inner
			}
			out := Enc{B: codeBytes(n.Code), F: []FieldRef{{Off: 0, W: n.Code.W, Kind: "code", Group: 0}}}
			appendEnc(&out, inner)

			return out
		}
	}
	switch n.Kind {
	case KBool:
		b := byte(0)
		if v.Bool() {
			b = 1
		}
		return Enc{B: []byte{b}, F: []FieldRef{{Off: 0, W: 1, Kind: "bool"}}}
	case KInt8, KUint8:
		var x byte
		if n.Kind == KInt8 {
			x = byte(v.Int())
		} else {
			x = byte(v.Uint())
		}
		return Enc{B: []byte{x}, F: []FieldRef{{Off: 0, W: 1, Kind: "num"}}}
	case KInt16, KUint16:
		b := make([]byte, 2)
		if n.Kind == KInt16 {
			binary.LittleEndian.PutUint16(b, uint16(v.Int()))
		} else {
			binary.LittleEndian.PutUint16(b, uint16(v.Uint()))
		}
		return Enc{B: b, F: []FieldRef{{Off: 0, W: 2, Kind: "num"}}}
	case KInt32, KUint32:
		b := make([]byte, 4)
		if n.Kind == KInt32 {
			binary.LittleEndian.PutUint32(b, uint32(v.Int()))
		} else {
			binary.LittleEndian.PutUint32(b, uint32(v.Uint()))
		}
		return Enc{B: b, F: []FieldRef{{Off: 0, W: 4, Kind: "num"}}}
	case KInt64, KUint64:
		b := make([]byte, 8)
		if n.Kind == KInt64 {
			binary.LittleEndian.PutUint64(b, uint64(v.Int()))
		} else {
			binary.LittleEndian.PutUint64(b, v.Uint())
		}
		return Enc{B: b, F: []FieldRef{{Off: 0, W: 8, Kind: "num"}}}
	case KFloat32:
		b := make([]byte, 4)
		f32, _ := v.Convert(numTypes[KFloat32]).Interface().(float32) // bit-exact (no float64 round trip)
		binary.LittleEndian.PutUint32(b, math.Float32bits(f32))
		return Enc{B: b, F: []FieldRef{{Off: 0, W: 4, Kind: "num"}}}
	case KFloat64:
		b := make([]byte, 8)
		binary.LittleEndian.PutUint64(b, math.Float64bits(v.Float()))
		return Enc{B: b, F: []FieldRef{{Off: 0, W: 8, Kind: "num"}}}
	case KString:
		s := v.String()
		if e.validate {
			if !utf8.ValidString(s) {
				return reject("string is not valid UTF-8")
			}
			if !e.boundsOK(n.S, len(s)) {
				return reject("string length %d outside [%d,%d]", len(s), n.S.Min, n.S.Max)
			}
		}
		p, ok := putPrefix(n.S.Prefix, len(s))
		if !ok {
			return reject("string length %d does not fit the %d-byte prefix", len(s), n.S.Prefix)
		}
		return Enc{B: append(p, s...), F: []FieldRef{{Off: 0, W: n.S.Prefix, Kind: "len"}}}
	case KBytes:
		b := v.Bytes()
		// byte slices are bounds-checked by the serializer with and without validation
		if !e.boundsOK(n.S, len(b)) {
			return reject("byte slice length %d outside [%d,%d]", len(b), n.S.Min, n.S.Max)
		}
		p, ok := putPrefix(n.S.Prefix, len(b))
		if !ok {
			return reject("byte slice length %d does not fit the %d-byte prefix", len(b), n.S.Prefix)
		}
		return Enc{B: append(p, b...), F: []FieldRef{{Off: 0, W: n.S.Prefix, Kind: "len"}}}
	case KByteArr:
		if e.validate && !e.boundsOK(n.S, n.N) {
			return reject("byte array length %d outside [%d,%d]", n.N, n.S.Min, n.S.Max)
		}
		out := Enc{}
		if n.Code != nil {
			out.B = append(out.B, codeBytes(n.Code)...)
			out.F = append(out.F, FieldRef{Off: 0, W: n.Code.W, Kind: "code", Group: 0})
		}
		raw := make([]byte, n.N)
		for i := 0; i < n.N; i++ {
			raw[i] = byte(v.Index(i).Uint())
		}
		out.F = append(out.F, FieldRef{Off: len(out.B), W: n.N, Kind: "raw", Group: 0})
		out.B = append(out.B, raw...)
		return out
	case KBigInt:
		bi := BigOf(v)
		if bi == nil {
			return reject("nil *big.Int")
		}
		if bi.Sign() < 0 {
			return reject("negative uint256")
		}
		if bi.BitLen() > 256 {
			return reject("uint256 too big")
		}
		be := bi.Bytes()
		out := make([]byte, 32)
		for i := range be {
			out[i] = be[len(be)-1-i]
		}
		return Enc{B: out, F: []FieldRef{{Off: 0, W: 32, Kind: "raw"}}}
	case KTime:
		tm, _ := v.Interface().(time.Time)
		b := make([]byte, 8)
		binary.LittleEndian.PutUint64(b, TimeNanos(tm))
		return Enc{B: b, F: []FieldRef{{Off: 0, W: 8, Kind: "time"}}}
	case KSlice, KArray:
		return e.encSeq(n, v)
	case KMap:
		return e.encMap(n, v)
	case KStruct:
		out := Enc{}
		if n.Code != nil {
			out.B = append(out.B, codeBytes(n.Code)...)
			out.F = append(out.F, FieldRef{Off: 0, W: n.Code.W, Kind: "code", Group: 0})
		}
		if r := e.encFields(&out, n, v); r != "" {
			return Enc{Reject: r}
		}
		return out
	case KPtr:
		if v.IsNil() {
			return reject("nil pointer")
		}
		return e.enc(n.Elem, v.Elem())
	case KIface:
		if v.IsNil() {
			return reject("nil interface")
		}
		dyn := v.Elem()
		for _, im := range n.Impls {
			if im.T == dyn.Type() {
				return e.enc(im, dyn)
			}
		}
		return reject("interface value of unregistered type %s", dyn.Type())
	case KCustom:
		out := Enc{}
		if n.Code != nil {
			out.B = append(out.B, codeBytes(n.Code)...)
			out.F = append(out.F, FieldRef{Off: 0, W: n.Code.W, Kind: "code", Group: 0})
		}
		switch n.Custom {
		case "u24":
			x := v.Interface().(CustomU24).V
			if x >= 1<<24 {
				return reject("custom type refuses to serialize itself")
			}
			out.F = append(out.F, FieldRef{Off: len(out.B), W: 3, Kind: "raw", Group: 0})
			out.B = append(out.B, byte(x), byte(x>>8), byte(x>>16))
		case "p16":
			x := v.Interface().(CustomP16).V ^ 0xA5A5
			out.F = append(out.F, FieldRef{Off: len(out.B), W: 2, Kind: "raw", Group: 0})
			out.B = append(out.B, byte(x), byte(x>>8))
		case "pr":
			out.F = append(out.F, FieldRef{Off: len(out.B), W: 1, Kind: "raw", Group: 0})
			out.B = append(out.B, v.Interface().(CustomPR).V^0x5A)
		case "var":
			b := v.Interface().(CustomVar).B
			if len(b) > math.MaxUint16 {
				return reject("custom var too long")
			}
			out.F = append(out.F, FieldRef{Off: len(out.B), W: 2, Kind: "len", Group: 0})
			out.B = append(out.B, byte(len(b)), byte(len(b)>>8))
			out.B = append(out.B, b...)
		}
		return out
	}
	panic(fmt.Sprintf("refenc: unhandled kind %d", n.Kind))
}

func (e *refEncoder) encFields(out *Enc, n *Node, v reflect.Value) string {
	for _, f := range n.Fields {
		fv := v.Field(f.Index)
		if f.Embedded {
			fn := f.N
			if f.EmbPtr {
				if fv.IsNil() {
					return "nil embedded struct pointer (its fields are part of the parent and cannot be left out)"
				}
				fv = fv.Elem()
				fn = fn.Elem
			}
			if r := e.encFields(out, fn, fv); r != "" {
				return r
			}
			continue
		}
		if f.Optional {
			if fv.IsNil() {
				out.F = append(out.F, FieldRef{Off: len(out.B), W: 4, Kind: "optlen", Group: 0})
				out.B = append(out.B, 0, 0, 0, 0)
				continue
			}
			sub := e.enc(f.N, fv)
			if sub.Reject != "" {
				return sub.Reject
			}
			l := make([]byte, 4)
			binary.LittleEndian.PutUint32(l, uint32(len(sub.B)))
			out.F = append(out.F, FieldRef{Off: len(out.B), W: 4, Kind: "optlen", Group: 0})
			out.B = append(out.B, l...)
			appendEnc(out, sub)
			continue
		}
		sub := e.enc(f.N, fv)
		if sub.Reject != "" {
			return sub.Reject
		}
		appendEnc(out, sub)
	}

	return ""
}

// TypeCodeOf returns the object code an element of node n carries at its front, if any.
func TypeCodeOf(n *Node, v reflect.Value) (*Code, bool) {
	switch n.Kind {
	case KIface:
		if v.IsNil() {
			return nil, false
		}
		dyn := v.Elem()
		for _, im := range n.Impls {
			if im.T == dyn.Type() {
				return TypeCodeOf(im, dyn)
			}
		}
		return nil, false
	case KPtr:
		if v.IsNil() {
			return nil, false
		}
		return TypeCodeOf(n.Elem, v.Elem())
	default:
		return n.Code, n.Code != nil
	}
}

func (e *refEncoder) encSeq(n *Node, v reflect.Value) Enc {
	cnt := v.Len()
	e.group++
	group := e.group
	if e.validate && len(n.S.MustOccur) > 0 {
		seen := map[uint32]bool{}
		for i := 0; i < cnt; i++ {
			c, ok := TypeCodeOf(n.Elem, v.Index(i))
			if !ok {
				return reject("must-occur: element without type code")
			}
			seen[c.V] = true
		}
		for _, m := range n.S.MustOccur {
			if !seen[m] {
				return reject("must-occur: type %d missing", m)
			}
		}
	}
	elems := make([]Enc, cnt)
	for i := 0; i < cnt; i++ {
		elems[i] = e.enc(n.Elem, v.Index(i))
		if elems[i].Reject != "" {
			return Enc{Reject: elems[i].Reject}
		}
	}
	if e.validate && !e.boundsOK(n.S, cnt) {
		return reject("element count %d outside [%d,%d]", cnt, n.S.Min, n.S.Max)
	}
	p, ok := putPrefix(n.S.Prefix, cnt)
	if !ok {
		return reject("element count %d does not fit the %d-byte prefix", cnt, n.S.Prefix)
	}
	if n.S.LexSort && n.S.LexValid {
		sort.SliceStable(elems, func(i, j int) bool { return bytes.Compare(elems[i].B, elems[j].B) < 0 })
	}
	if e.validate {
		if r := checkElemRules(n.S, elems); r != "" {
			return Enc{Reject: r}
		}
	}
	out := Enc{B: p, F: []FieldRef{{Off: 0, W: n.S.Prefix, Kind: "count", Group: group, Coll: n}}}
	for _, el := range elems {
		out.F = append(out.F, FieldRef{Off: len(out.B), W: len(el.B), Kind: "elem", Group: group})
		appendEnc(&out, el)
	}

	return out
}

// checkElemRules applies the documented array rules to the encoded elements (in wire order).
func checkElemRules(s Settings, elems []Enc) string {
	if s.LexValid {
		for i := 1; i < len(elems); i++ {
			c := bytes.Compare(elems[i-1].B, elems[i].B)
			if c > 0 {
				return "elements not in lexical order"
			}
			if c == 0 && s.NoDup {
				return "duplicate elements"
			}
		}
	} else if s.NoDup {
		seen := map[string]bool{}
		for _, el := range elems {
			if seen[string(el.B)] {
				return "duplicate elements"
			}
			seen[string(el.B)] = true
		}
	}
	if s.AtMostOne != 0 {
		seen := map[uint32]bool{}
		for _, el := range elems {
			if len(el.B) < s.AtMostOne {
				return "element too short to carry a type code"
			}
			var c uint32
			if s.AtMostOne == 1 {
				c = uint32(el.B[0])
			} else {
				c = binary.LittleEndian.Uint32(el.B)
			}
			if seen[c] {
				return "type occurs more than once"
			}
			seen[c] = true
		}
	}

	return ""
}

func (e *refEncoder) encMap(n *Node, v reflect.Value) Enc {
	cnt := v.Len()
	e.group++
	group := e.group
	if e.validate && !e.boundsOK(n.S, cnt) {
		return reject("map size %d outside [%d,%d]", cnt, n.S.Min, n.S.Max)
	}
	entries := make([]Enc, 0, cnt)
	it := v.MapRange()
	for it.Next() {
		k := e.enc(n.Key, it.Key())
		if k.Reject != "" {
			return Enc{Reject: k.Reject}
		}
		val := e.enc(n.Elem, it.Value())
		if val.Reject != "" {
			return Enc{Reject: val.Reject}
		}
		appendEnc(&k, val)
		entries = append(entries, k)
	}
	p, ok := putPrefix(n.S.Prefix, cnt)
	if !ok {
		return reject("map size %d does not fit the %d-byte prefix", cnt, n.S.Prefix)
	}
	// map entries always go out in byte-lexical order of key||value
	sort.Slice(entries, func(i, j int) bool { return bytes.Compare(entries[i].B, entries[j].B) < 0 })
	if e.validate {
		s := n.S
		s.LexValid = true
		if r := checkElemRules(s, entries); r != "" {
			return Enc{Reject: r}
		}
	}
	out := Enc{B: p, F: []FieldRef{{Off: 0, W: n.S.Prefix, Kind: "count", Group: group, Coll: n}}}
	for _, el := range entries {
		out.F = append(out.F, FieldRef{Off: len(out.B), W: len(el.B), Kind: "elem", Group: group})
		appendEnc(&out, el)
	}

	return out
}

package c14

import (
	"fmt"
	"math"
	"strings"
	"testing"

	"github.com/iotaledger/hive.go/ds/reactive"
	"pgregory.net/rapid"
	"verifharness/internal/ctl"
	"verifharness/internal/stats"
)

// TestEvictionSlotTypes: the same defining function as TestEvictionSeq (an event handed out for slot s has triggered
// <=> some Evict(t) with t >= s has returned) over the slot types the EvictionStateSlotType constraint admits: signed
// (negative slots), unsigned up to the largest value of the type, wide types with slots that are 2^40 apart, floats
// with fractional slots, and a defined type. NaN is not drawn (it is not ordered, the defining function says nothing).

const checkEvictionTypes = "eviction_slot_types"

type slotOp struct {
	Evict bool
	Slot  int // index into the alphabet of the drawn type
}

type mySlot int16

func runEvictionTyped[T reactive.EvictionStateSlotType](alphabet []T, ops []slotOp) (trace []string, problem string, nontrivial bool, labels []string) {
	e := reactive.NewEvictionState[T]()
	type handed struct {
		slot  T
		event reactive.Event
		fired *int
	}
	var events []handed
	var unsubs []func()
	defer func() {
		for _, u := range unsubs {
			u()
		}
	}()
	evicted := false
	var last T
	lbl := map[string]bool{}
	lastStr := func() string {
		if !evicted {
			return "none"
		}

		return fmt.Sprint(last)
	}
	for _, o := range ops {
		s := alphabet[o.Slot]
		if !o.Evict {
			trace = append(trace, fmt.Sprintf("event(%v)", s))
			n := new(int)
			ev := e.EvictionEvent(s)
			unsubs = append(unsubs, ev.OnTrigger(func() {
				*n++
				_ = e.LastEvictedSlot()
			}))
			events = append(events, handed{s, ev, n})
			if !evicted || s > last {
				lbl["event_for_future_slot"] = true
				if s < 0 {
					lbl["future_negative_slot"] = true
				}
				if float64(s) != math.Trunc(float64(s)) {
					lbl["future_fractional_slot"] = true
				}
			}
		} else {
			trace = append(trace, fmt.Sprintf("evict(%v)", s))
			if o.Slot == len(alphabet)-1 {
				lbl["evict_largest_slot_of_alphabet"] = true
			}
			if !ctl.WithinHang(func() { e.Evict(s) }) {
				unsubs = nil

				return trace, fmt.Sprintf("Evict(%v) did not return within %v (last evicted slot before: %s)\n%s", s, ctl.HangTimeout, lastStr(), ctl.Dump()), false, nil
			}
			if !evicted || s > last {
				evicted, last = true, s
			}
		}
		for _, h := range events {
			want := evicted && h.slot <= last
			if got := h.event.WasTriggered(); got != want {
				return trace, fmt.Sprintf("event handed out for slot %v: WasTriggered() = %v, highest evicted slot %s", h.slot, got, lastStr()), false, nil
			}
			wantCalls := 0
			if want {
				wantCalls = 1
			}
			if *h.fired != wantCalls {
				return trace, fmt.Sprintf("event handed out for slot %v: OnTrigger callback ran %d times, highest evicted slot %s", h.slot, *h.fired, lastStr()), false, nil
			}
		}
		var wantLast T
		if evicted {
			wantLast = last
		}
		if got := e.LastEvictedSlot(); got != wantLast {
			return trace, fmt.Sprintf("LastEvictedSlot() = %v, highest evicted slot %s", got, lastStr()), false, nil
		}
	}
	for l := range lbl {
		labels = append(labels, l)
	}

	return trace, "", lbl["event_for_future_slot"] && evicted, labels
}

func TestEvictionSlotTypes(t *testing.T) {
	stats.Rule(checkEvictionTypes, "rapid draws a slot type from {int8, uint8, int64, uint64, float64, float32, a defined int16 type} with an alphabet of 6..9 slots that contains the extremes of the type (smallest and largest value, -1/0/1, slots 2^40 apart, fractional and infinite floats; no NaN) and 1..14 calls EvictionEvent(slot) / Evict(slot), not monotone on purpose; every Evict runs under the stall-tolerant 20 s watchdog. Oracle after every call, for every event ever handed out: WasTriggered <=> something was evicted and slot <= highest evicted slot; its OnTrigger callback ran exactly that often; LastEvictedSlot() is the highest evicted slot (zero before the first eviction). Distinct by (type, call list); non-trivial = an event for a not yet evicted slot exists and something was evicted")
	rapid.Check(t, func(rt *rapid.T) {
		typ := rapid.SampledFrom([]string{"int8", "uint8", "int64", "uint64", "float64", "float32", "mySlot(int16)"}).Draw(rt, "type")
		sizes := map[string]int{"int8": 8, "uint8": 6, "int64": 8, "uint64": 6, "float64": 9, "float32": 7, "mySlot(int16)": 7}
		n := sizes[typ]
		ops := rapid.SliceOfN(rapid.Custom(func(t *rapid.T) slotOp {
			return slotOp{Evict: rapid.IntRange(0, 2).Draw(t, "kind") == 2, Slot: rapid.IntRange(0, n-1).Draw(t, "slot")}
		}), 1, 14).Draw(rt, "ops")
		var trace, labels []string
		var problem string
		var nontrivial bool
		switch typ {
		case "int8":
			trace, problem, nontrivial, labels = runEvictionTyped([]int8{math.MinInt8, -3, -1, 0, 1, 5, 126, math.MaxInt8}, ops)
		case "uint8":
			trace, problem, nontrivial, labels = runEvictionTyped([]uint8{0, 1, 2, 200, 254, math.MaxUint8}, ops)
		case "int64":
			trace, problem, nontrivial, labels = runEvictionTyped([]int64{math.MinInt64, -(1 << 40), -1, 0, 1, 1 << 40, math.MaxInt64 - 1, math.MaxInt64}, ops)
		case "uint64":
			trace, problem, nontrivial, labels = runEvictionTyped([]uint64{0, 1, 1 << 40, 1 << 41, math.MaxUint64 - 1, math.MaxUint64}, ops)
		case "float64":
			trace, problem, nontrivial, labels = runEvictionTyped([]float64{math.Inf(-1), -1e300, -1.5, -0.5, 0, 0.5, 1.5, 1e18, math.Inf(1)}, ops)
		case "float32":
			trace, problem, nontrivial, labels = runEvictionTyped([]float32{-2.5, -0.25, 0, 0.25, 1, 2.5, math.MaxFloat32}, ops)
		default:
			trace, problem, nontrivial, labels = runEvictionTyped([]mySlot{math.MinInt16, -2, -1, 0, 1, 2, math.MaxInt16}, ops)
		}
		labels = append(labels, "type:"+typ)
		stats.Case(checkEvictionTypes, nontrivial, typ+"|"+strings.Join(trace, "|"), func() any { return map[string]any{"type": typ, "calls": trace} }, labels...)
		if problem != "" {
			stats.Violation(checkEvictionTypes, map[string]any{"type": typ, "calls": trace, "problem": problem})
			rt.Fatalf("%s: %s\ncalls: %s", typ, problem, strings.Join(trace, "; "))
		}
	})
}

package c11

import (
	"fmt"
	"sort"
	"strings"

	"github.com/iotaledger/hive.go/ds"
)

// E is the element / key type of every check in this package (a uint so that a fresh serix.API can encode it).
type E = uint16

// oset is the reference model of an insertion-ordered set: a slice in first-insertion order plus membership.
type oset struct {
	order []E
}

func newOset(elems ...E) *oset {
	o := &oset{}
	for _, e := range elems {
		o.add(e)
	}

	return o
}

func (o *oset) has(e E) bool {
	for _, x := range o.order {
		if x == e {
			return true
		}
	}

	return false
}

// add appends e if absent and reports whether it was absent.
func (o *oset) add(e E) bool {
	if o.has(e) {
		return false
	}
	o.order = append(o.order, e)

	return true
}

// del removes e and reports whether it was present.
func (o *oset) del(e E) bool {
	for i, x := range o.order {
		if x == e {
			o.order = append(o.order[:i:i], o.order[i+1:]...)

			return true
		}
	}

	return false
}

func (o *oset) slice() []E { return append([]E{}, o.order...) }

func (o *oset) clone() *oset { return &oset{order: o.slice()} }

func (o *oset) size() int { return len(o.order) }

func sorted(in []E) []E {
	out := append([]E{}, in...)
	sort.Slice(out, func(i, j int) bool { return out[i] < out[j] })

	return out
}

func eqOrdered(a, b []E) bool {
	if len(a) != len(b) {
		return false
	}
	for i := range a {
		if a[i] != b[i] {
			return false
		}
	}

	return true
}

// eqContents compares as mathematical sets (used where the API fixes no order).
func eqContents(a, b []E) bool { return eqOrdered(sorted(a), sorted(b)) }

func reversedE(in []E) []E {
	out := make([]E, len(in))
	for i, v := range in {
		out[len(in)-1-i] = v
	}

	return out
}

func show(in []E) string {
	parts := make([]string, len(in))
	for i, v := range in {
		parts[i] = fmt.Sprint(v)
	}

	return "[" + strings.Join(parts, " ") + "]"
}

// fromMask returns the elements of universe selected by the bit mask, in universe order.
func fromMask(universe []E, mask int) []E {
	var out []E
	for i, e := range universe {
		if mask&(1<<i) != 0 {
			out = append(out, e)
		}
	}

	return out
}

func toSlice(s ds.ReadableSet[E]) []E {
	if s == nil {
		return nil
	}

	return s.ToSlice()
}

func minus(a, b []E) []E {
	var out []E
	for _, x := range a {
		if !contains(b, x) {
			out = append(out, x)
		}
	}

	return out
}

func intersect(a, b []E) []E {
	var out []E
	for _, x := range a {
		if contains(b, x) {
			out = append(out, x)
		}
	}

	return out
}

func contains(a []E, e E) bool {
	for _, x := range a {
		if x == e {
			return true
		}
	}

	return false
}

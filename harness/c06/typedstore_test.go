package c06

import (
	"bytes"
	"errors"
	"fmt"
	"sort"
	"strings"
	"testing"

	"github.com/iotaledger/hive.go/kvstore"
	"github.com/iotaledger/hive.go/kvstore/mapdb"
	"pgregory.net/rapid"
	"verifharness/internal/stats"
)

// key codec: string of lower-case letters <-> its bytes; anything else is malformed
func keyEncoder(in *injector) kvstore.ObjectToBytes[string] {
	return func(k string) ([]byte, error) {
		if err := in.hit("codec.encodeKey"); err != nil {
			return nil, err
		}

		return []byte(k), nil
	}
}

func decodeKey(b []byte) (string, error) {
	for _, c := range b {
		if c < 'a' || c > 'z' {
			return "", errMalformed
		}
	}

	return string(b), nil
}

func keyDecoder(in *injector) kvstore.BytesToObject[string] {
	return func(b []byte) (string, int, error) {
		if err := in.hit("codec.decodeKey"); err != nil {
			return "", 0, err
		}
		k, err := decodeKey(b)
		if err != nil {
			return "", 0, err
		}

		return k, len(b), nil
	}
}

// ---------------------------------------------------------------------------------------------
// history

type tsStep struct {
	Kind   string // get has set delete iterate iteratekeys deleteprefix clear rawset rawdelete
	Key    string // typed key, or raw key bytes for raw*
	V      int
	RawV   []byte // rawset
	Prefix string
	Back   bool
	Stop   int // stop after this many callbacks (0 = never)
}

func (s tsStep) String() string {
	dir := "fwd"
	if s.Back {
		dir = "back"
	}
	switch s.Kind {
	case "get", "has", "delete":
		return fmt.Sprintf("%s(%q)", s.Kind, s.Key)
	case "set":
		return fmt.Sprintf("set(%q,%d)", s.Key, s.V)
	case "iterate", "iteratekeys":
		return fmt.Sprintf("%s(prefix=%q,%s,stopAfter=%d)", s.Kind, s.Prefix, dir, s.Stop)
	case "deleteprefix":
		return fmt.Sprintf("deleteprefix(%q)", s.Prefix)
	case "rawset":
		return fmt.Sprintf("rawset(%q,%x)", s.Key, s.RawV)
	case "rawdelete":
		return fmt.Sprintf("rawdelete(%q)", s.Key)
	default:
		return s.Kind
	}
}

func tsStrings(steps []tsStep) []string {
	out := make([]string, len(steps))
	for i, s := range steps {
		out[i] = s.String()
	}

	return out
}

var tsKeys = []string{"a", "ab", "aba", "abb", "b", "ba", "bb"}
var tsPrefixes = []string{"", "", "a", "a", "ab", "b", "ba", "c"}

func genTSHistory(t *rapid.T) []tsStep {
	n := rapid.IntRange(1, 25).Draw(t, "nSteps")
	kinds := []string{"get", "get", "has", "set", "set", "set", "set", "delete", "iterate", "iterate", "iterate", "iteratekeys", "iteratekeys",
		"deleteprefix", "clear", "rawset", "rawset", "rawdelete"}
	steps := make([]tsStep, 0, n)
	for i := 0; i < n; i++ {
		s := tsStep{Kind: rapid.SampledFrom(kinds).Draw(t, "kind")}
		switch s.Kind {
		case "get", "has", "delete", "rawdelete":
			s.Key = rapid.SampledFrom(tsKeys).Draw(t, "key")
		case "set":
			s.Key = rapid.SampledFrom(tsKeys).Draw(t, "key")
			s.V = rapid.IntRange(-3, 1000).Draw(t, "v")
		case "iterate", "iteratekeys":
			s.Prefix = rapid.SampledFrom(tsPrefixes).Draw(t, "prefix")
			s.Back = rapid.Bool().Draw(t, "back")
			if rapid.Bool().Draw(t, "stops") {
				s.Stop = rapid.IntRange(1, 3).Draw(t, "stopAfter")
			}
		case "deleteprefix":
			s.Prefix = rapid.SampledFrom(tsPrefixes).Draw(t, "prefix")
		case "rawset":
			// a write behind the back of the typed store: well-formed, malformed value, or malformed key
			switch rapid.IntRange(0, 3).Draw(t, "rawClass") {
			case 0, 1:
				s.Key = rapid.SampledFrom(tsKeys).Draw(t, "key")
				s.RawV = encodeInt(rapid.IntRange(-3, 1000).Draw(t, "v"))
			case 2:
				s.Key = rapid.SampledFrom(tsKeys).Draw(t, "key")
				s.RawV = rapid.SampledFrom([][]byte{{}, {1, 2, 3}, {0, 0, 0, 0, 0, 0, 0, 0, 9}}).Draw(t, "badValue")
			default:
				s.Key = rapid.SampledFrom([]string{"a\xff", "ab\x00", "B", "b\xffb"}).Draw(t, "badKey")
				s.RawV = encodeInt(rapid.IntRange(-3, 1000).Draw(t, "v"))
			}
		}
		steps = append(steps, s)
	}

	return steps
}

// ---------------------------------------------------------------------------------------------
// executor + oracle

type tsRunner struct {
	inner kvstore.KVStore
	in    *injector
	store kvstore.KVStore
	ts    *kvstore.TypedStore[string, int]

	model map[string][]byte // raw key -> raw value

	out    tvOutcome
	labels map[string]bool
}

func (r *tsRunner) fail(format string, args ...any) {
	if r.out.violation == "" {
		r.out.violation = fmt.Sprintf(format, args...)
	}
}

func (r *tsRunner) sortedKeys(prefix string, back bool) []string {
	var keys []string
	for k := range r.model {
		if strings.HasPrefix(k, prefix) {
			keys = append(keys, k)
		}
	}
	sort.Strings(keys) // byte order
	if back {
		for i, j := 0, len(keys)-1; i < j; i, j = i+1, j-1 {
			keys[i], keys[j] = keys[j], keys[i]
		}
	}

	return keys
}

func (r *tsRunner) rawCheck(after string) string {
	got := map[string][]byte{}
	_ = r.inner.Iterate(kvstore.EmptyPrefix, func(k kvstore.Key, v kvstore.Value) bool {
		got[string(k)] = append([]byte{}, v...)

		return true
	})
	var rendered []string
	for k, v := range got {
		rendered = append(rendered, fmt.Sprintf("%q=%x", k, v))
	}
	sort.Strings(rendered)
	raw := strings.Join(rendered, ",")
	same := len(got) == len(r.model)
	for k, v := range r.model {
		if g, ok := got[k]; !ok || !bytes.Equal(g, v) {
			same = false
		}
	}
	if !same {
		var want []string
		for k, v := range r.model {
			want = append(want, fmt.Sprintf("%q=%x", k, v))
		}
		sort.Strings(want)
		r.fail("after %s the raw store is {%s}, want {%s}", after, raw, strings.Join(want, ","))
	}

	return raw
}

type kvPair struct {
	K string
	V int
}

// expectedIteration walks the model the way a transparent typed view must: entries in byte order of the raw keys,
// stop at the first entry that does not decode (reporting the decoder's error), stop when the consumer says so.
func (r *tsRunner) expectedIteration(s tsStep, withValues bool) (delivered []kvPair, err error) {
	for _, rk := range r.sortedKeys(s.Prefix, s.Back) {
		k, kerr := decodeKey([]byte(rk))
		if kerr != nil {
			return delivered, kerr
		}
		p := kvPair{K: k}
		if withValues {
			v, verr := decodeInt(r.model[rk])
			if verr != nil {
				return delivered, verr
			}
			p.V = v
		}
		delivered = append(delivered, p)
		if s.Stop != 0 && len(delivered) == s.Stop {
			return delivered, nil
		}
	}

	return delivered, nil
}

func (r *tsRunner) do(s tsStep) bool {
	firedPre, callsPre := r.in.firedCount(), r.in.callCount()
	name := s.String()
	var result string
	var err error
	var check func()
	var apply func()

	switch s.Kind {
	case "rawset":
		_ = r.inner.Set([]byte(s.Key), s.RawV)
		r.model[s.Key] = append([]byte{}, s.RawV...)
		if _, kerr := decodeKey([]byte(s.Key)); kerr != nil {
			r.labels["raw_malformed_key"] = true
		} else if _, verr := decodeInt(s.RawV); verr != nil {
			r.labels["raw_malformed_value"] = true
		}
		r.out.trace = append(r.out.trace, tvEvent{Step: name, Result: "written behind the back", Raw: r.rawCheck(name)})

		return false
	case "rawdelete":
		_ = r.inner.Delete([]byte(s.Key))
		delete(r.model, s.Key)
		r.out.trace = append(r.out.trace, tvEvent{Step: name, Result: "deleted behind the back", Raw: r.rawCheck(name)})

		return false
	case "get":
		var got int
		got, err = r.ts.Get(s.Key)
		result = fmt.Sprintf("(%d, %v)", got, err)
		check = func() {
			raw, ok := r.model[s.Key]
			if !ok {
				if !errors.Is(err, kvstore.ErrKeyNotFound) {
					r.fail("%s = %s, raw key is absent: want ErrKeyNotFound", name, result)
				}

				return
			}
			want, derr := decodeInt(raw)
			switch {
			case derr != nil && !errors.Is(err, errMalformed):
				r.labels["get_malformed_value"] = true
				r.fail("%s = %s, raw value %x does not decode: want the decoder's error", name, result, raw)
			case derr == nil && (err != nil || got != want):
				r.fail("%s = %s, raw value decodes to %d", name, result, want)
			}
		}
	case "has":
		var got bool
		got, err = r.ts.Has(s.Key)
		result = fmt.Sprintf("(%v, %v)", got, err)
		check = func() {
			if _, ok := r.model[s.Key]; err != nil || got != ok {
				r.fail("%s = %s, raw key present = %v", name, result, ok)
			}
		}
	case "set":
		err = r.ts.Set(s.Key, s.V)
		result = fmt.Sprint(err)
		check = func() {
			if err != nil {
				r.fail("%s failed although nothing was told to fail: %v", name, err)
			}
		}
		apply = func() { r.model[s.Key] = encodeInt(s.V) }
	case "delete":
		err = r.ts.Delete(s.Key)
		result = fmt.Sprint(err)
		check = func() {
			if err != nil {
				r.fail("%s failed although nothing was told to fail: %v", name, err)
			}
		}
		apply = func() { delete(r.model, s.Key) }
	case "deleteprefix":
		err = r.ts.DeletePrefix([]byte(s.Prefix))
		result = fmt.Sprint(err)
		check = func() {
			if err != nil {
				r.fail("%s failed although nothing was told to fail: %v", name, err)
			}
		}
		apply = func() {
			for _, k := range r.sortedKeys(s.Prefix, false) {
				delete(r.model, k)
			}
		}
	case "clear":
		err = r.ts.Clear()
		result = fmt.Sprint(err)
		check = func() {
			if err != nil {
				r.fail("%s failed although nothing was told to fail: %v", name, err)
			}
		}
		apply = func() { r.model = map[string][]byte{} }
	case "iterate", "iteratekeys":
		withValues := s.Kind == "iterate"
		want, wantErr := r.expectedIteration(s, withValues)
		if wantErr != nil {
			r.labels["iteration_hits_malformed_entry"] = true
		}
		if s.Stop != 0 && len(want) == s.Stop {
			r.labels["iteration_stopped_by_consumer"] = true
		}
		var got []kvPair
		var dirs []kvstore.IterDirection
		if s.Back {
			dirs = []kvstore.IterDirection{kvstore.IterDirectionBackward}
		}
		if withValues {
			err = r.ts.Iterate([]byte(s.Prefix), func(k string, v int) bool {
				got = append(got, kvPair{k, v})

				return s.Stop == 0 || len(got) < s.Stop
			}, dirs...)
		} else {
			err = r.ts.IterateKeys([]byte(s.Prefix), func(k string) bool {
				got = append(got, kvPair{K: k})

				return s.Stop == 0 || len(got) < s.Stop
			}, dirs...)
		}
		result = fmt.Sprintf("delivered %v, err %v", got, err)
		// whatever happens, what was delivered must be a prefix of what the raw keys hold, in order
		if len(got) > len(want) {
			r.fail("%s delivered %v, the raw store under the codec yields only %v", name, got, want)
		} else {
			for i := range got {
				if got[i] != want[i] {
					r.fail("%s delivered %v, the raw store under the codec yields %v", name, got, want)

					break
				}
			}
		}
		check = func() {
			if len(got) != len(want) {
				r.fail("%s delivered %v, want %v", name, got, want)
			}
			switch {
			case wantErr != nil && !errors.Is(err, errMalformed):
				r.fail("%s met an entry that does not decode after %v but returned %v: want the decoder's error", name, want, err)
			case wantErr == nil && err != nil:
				r.fail("%s failed although nothing was told to fail: %v", name, err)
			}
		}
	default:
		panic("unknown step " + s.Kind)
	}

	fired := r.in.firedCount() > firedPre
	if fired {
		last := r.in.firedIn[len(r.in.firedIn)-1]
		r.labels["fault_in_"+s.Kind] = true
		r.labels["fault_at_"+last] = true
		if err == nil {
			r.fail("%s: call %q failed but %s reported success (%s)", name, last, s.Kind, result)
		} else if !errors.Is(err, errInjected) {
			r.fail("%s: call %q failed with the injected error but %s returned %v", name, last, s.Kind, err)
		}
	} else {
		check()
		if apply != nil && r.out.violation == "" {
			apply()
		}
	}
	ev := tvEvent{Step: name, Result: result, Calls: append([]string(nil), r.in.calls[callsPre:]...), FaultHit: fired}
	ev.Raw = r.rawCheck(name)
	r.out.trace = append(r.out.trace, ev)

	return fired
}

func runTS(steps []tsStep, failAt ...int) tvOutcome {
	r := &tsRunner{inner: mapdb.NewMapDB(), in: newInjector(failAt...), labels: map[string]bool{}, model: map[string][]byte{}}
	r.store = newFaultKV(r.inner, r.in)
	r.ts = kvstore.NewTypedStore[string, int](r.store, keyEncoder(r.in), keyDecoder(r.in), intEncoder(r.in), intDecoder(r.in))
	for _, s := range steps {
		if r.out.violation != "" {
			break
		}
		r.do(s)
	}
	r.out.positions = r.in.callCount()
	// closing scan in both directions: the typed view of the whole store
	for _, s := range []tsStep{{Kind: "iterate"}, {Kind: "iteratekeys", Back: true}} {
		if r.out.violation == "" {
			r.do(s)
		}
	}
	r.out.fired = r.in.firedCount()
	r.out.nontrivial = r.out.fired > 0
	for l := range r.labels {
		r.out.labels = append(r.out.labels, l)
	}
	sort.Strings(r.out.labels)

	return r.out
}

const checkTS = "typedstore_fault_enumeration"

func judgeTS(t fataler, steps []tsStep, failAt []int, o tvOutcome) {
	key := fmt.Sprintf("%s|%v", strings.Join(tsStrings(steps), ";"), failAt)
	labels := o.labels
	if len(failAt) == 2 {
		labels = append(labels, "double_fault")
	}
	stats.Case(checkTS, o.nontrivial, key, func() any {
		return map[string]any{"history": tsStrings(steps), "fail_calls": failAt, "trace": o.trace}
	}, labels...)
	if o.violation != "" {
		stats.Violation(checkTS, map[string]any{"history": tsStrings(steps), "fail_calls": failAt, "problem": o.violation, "trace": o.trace})
		t.Fatalf("%s\nhistory=%v failing calls=%v\ntrace=%+v", o.violation, tsStrings(steps), failAt, o.trace)
	}
}

func TestTypedStoreFaultEnumeration(t *testing.T) {
	stats.Rule(checkTS, "rapid draws a history of <=25 steps (Get/Has/Set/Delete/Iterate/IterateKeys(prefix,direction,stop after k)/DeletePrefix/Clear and raw writes/deletes behind the back, incl. entries whose key or value does not decode) on TypedStore[string,int] over faultkv(mapdb) with countable codecs; run fault free (P codec+store calls), then once per position 1..P with exactly that call failing, plus 3 drawn double faults. After every step the raw store is compared with the model map. Case = (history, failing positions). Non-trivial = an injected failure was reached")
	rapid.Check(t, func(rt *rapid.T) {
		steps := genTSHistory(rt)
		base := runTS(steps)
		judgeTS(rt, steps, nil, base)
		for pos := 1; pos <= base.positions; pos++ {
			o := runTS(steps, pos)
			if o.fired == 0 {
				rt.Fatalf("harness: position %d of %d not reached in the re-run of %v", pos, base.positions, tsStrings(steps))
			}
			judgeTS(rt, steps, []int{pos}, o)
		}
		if base.positions >= 2 {
			for i := 0; i < 3; i++ {
				p := rapid.IntRange(1, base.positions-1).Draw(rt, "fault1")
				q := rapid.IntRange(p+1, base.positions+2).Draw(rt, "fault2")
				judgeTS(rt, steps, []int{p, q}, runTS(steps, p, q))
			}
		}
		stats.NoteAdd(checkTS, "histories", 1)
		stats.NoteAdd(checkTS, "fault_positions_enumerated", int64(base.positions))
	})
}

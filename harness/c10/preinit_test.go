package c10

import (
	"container/list"
	"fmt"
	"strings"
	"testing"

	"github.com/iotaledger/hive.go/ds"
	"pgregory.net/rapid"
	"verifharness/internal/stats"
)

// TestPreInitHandles covers the corner that TestListDifferential leaves out: handles that were live when Init ran are
// passed again. container/list keeps such handles attached to the list (Init does not clear their list pointer), so the
// next Remove/Move/Insert relative to them works on stale links: Len can become negative and Front/Back can hand out
// the sentinel. The reference is self-inconsistent there, therefore only what both sides compute in O(1) is compared -
// no whole-list iteration of the library is called - and "same behaviour" includes "panics exactly when container/list
// panics" (each call is recovered on both sides; a case ends at the first panic).
func TestPreInitHandles(t *testing.T) {
	const check = "pre_init_handles"
	stats.Rule(check, "rapid draws a flavour (lock-free, NewList(), NewList(false)) and 6..40 operations on one ds.List / container/list pair plus a second pair as PushBackList/PushFrontList destination, from {PushBack, PushFront, InsertBefore/InsertAfter(handle), MoveToFront/MoveToBack(handle), MoveBefore/MoveAfter(handle, handle), Remove(handle), Init, Front/Back (the result - possibly the sentinel - joins the handle table), PushBackList/PushFrontList(destination <- list)}; handle arguments are drawn from ALL handles ever seen, including those from before an Init. After every operation: panic parity (ds panics exactly when container/list does; the case ends there), equal Remove results, equal Len (also negative), equal bounded walks Front/Next and Back/Prev (at most 48 steps; values, handle identities via the table, nil at the same step), equal Value/Next/Prev of every handle in the table, equal Len of the destination. Distinct by script; non-trivial = a handle from before an Init was passed to a mutating call")
	rapid.Check(t, func(rt *rapid.T) {
		flavour := rapid.SampledFrom([]string{"lockfree", "default", "threadsafe"}).Draw(rt, "flavour")
		mk := func() ds.List[int] {
			switch flavour {
			case "lockfree":
				return ds.NewList[int](true)
			case "default":
				return ds.NewList[int]()
			}

			return ds.NewList[int](false)
		}
		d, r := mk(), list.New()
		dDst, rDst := mk(), list.New()
		type pair struct {
			d       ds.ListElement[int]
			r       *list.Element
			preInit bool
		}
		var hs []*pair
		byD := map[ds.ListElement[int]]int{}
		byR := map[*list.Element]int{}
		reg := func(de ds.ListElement[int], re *list.Element) {
			if de == nil || re == nil {
				return
			}
			if _, ok := byD[de]; ok {
				return
			}
			if _, ok := byR[re]; ok {
				return
			}
			byD[de], byR[re] = len(hs), len(hs)
			hs = append(hs, &pair{d: de, r: re})
		}
		nameD := func(e ds.ListElement[int]) string {
			if e == nil {
				return "nil"
			}
			if i, ok := byD[e]; ok {
				return fmt.Sprintf("h%d", i)
			}

			return "unknown"
		}
		nameR := func(e *list.Element) string {
			if e == nil {
				return "nil"
			}
			if i, ok := byR[e]; ok {
				return fmt.Sprintf("h%d", i)
			}

			return "unknown"
		}
		rval := func(v any) int {
			i, _ := v.(int)

			return i
		}
		var log []string
		fail := func(format string, a ...any) {
			msg := fmt.Sprintf(format, a...)
			stats.Violation(check, map[string]any{"flavour": flavour, "ops": log, "problem": msg})
			rt.Fatalf("%s after [%s]: %s", flavour, strings.Join(log, " "), msg)
		}
		guarded := func(f func()) (panicked any) {
			defer func() { panicked = recover() }()
			f()

			return nil
		}
		n := rapid.IntRange(6, 40).Draw(rt, "n")
		nextVal := 0
		usedPreInit, sawInit, sentinelSeen := false, false, false
		pick := func(label string) *pair {
			// prefer handles from before an Init once there are some
			var pre []int
			for i, h := range hs {
				if h.preInit {
					pre = append(pre, i)
				}
			}
			if len(pre) > 0 && rapid.IntRange(0, 2).Draw(rt, label+"Pre") > 0 {
				return hs[pre[rapid.IntRange(0, len(pre)-1).Draw(rt, label)]]
			}

			return hs[rapid.IntRange(0, len(hs)-1).Draw(rt, label)]
		}
		ops := []string{"PushBack", "PushBack", "PushFront", "InsertBefore", "InsertAfter", "MoveToFront", "MoveToBack", "MoveBefore", "MoveAfter", "Remove", "Remove", "Init", "Front", "Back", "PushBackList", "PushFrontList"}
		for step := 0; step < n; step++ {
			op := rapid.SampledFrom(ops).Draw(rt, "op")
			if len(hs) == 0 && op != "Init" {
				op = "PushBack"
			}
			var dPanic, rPanic any
			switch op {
			case "PushBack", "PushFront":
				nextVal++
				v := nextVal
				log = append(log, fmt.Sprintf("%s(%d)", op, v))
				var de ds.ListElement[int]
				var re *list.Element
				dPanic = guarded(func() {
					if op == "PushBack" {
						de = d.PushBack(v)
					} else {
						de = d.PushFront(v)
					}
				})
				rPanic = guarded(func() {
					if op == "PushBack" {
						re = r.PushBack(v)
					} else {
						re = r.PushFront(v)
					}
				})
				reg(de, re)
			case "InsertBefore", "InsertAfter":
				nextVal++
				v := nextVal
				m := pick("mark")
				usedPreInit = usedPreInit || m.preInit
				log = append(log, fmt.Sprintf("%s(%d,%s)", op, v, nameD(m.d)))
				var de ds.ListElement[int]
				var re *list.Element
				dPanic = guarded(func() {
					if op == "InsertBefore" {
						de = d.InsertBefore(v, m.d)
					} else {
						de = d.InsertAfter(v, m.d)
					}
				})
				rPanic = guarded(func() {
					if op == "InsertBefore" {
						re = r.InsertBefore(v, m.r)
					} else {
						re = r.InsertAfter(v, m.r)
					}
				})
				if dPanic == nil && rPanic == nil && (de == nil) != (re == nil) {
					fail("%s returned nil=%v, container/list nil=%v", op, de == nil, re == nil)
				}
				reg(de, re)
			case "MoveToFront", "MoveToBack":
				h := pick("h")
				usedPreInit = usedPreInit || h.preInit
				log = append(log, fmt.Sprintf("%s(%s)", op, nameD(h.d)))
				dPanic = guarded(func() {
					if op == "MoveToFront" {
						d.MoveToFront(h.d)
					} else {
						d.MoveToBack(h.d)
					}
				})
				rPanic = guarded(func() {
					if op == "MoveToFront" {
						r.MoveToFront(h.r)
					} else {
						r.MoveToBack(h.r)
					}
				})
			case "MoveBefore", "MoveAfter":
				h, m := pick("h"), pick("mark")
				usedPreInit = usedPreInit || h.preInit || m.preInit
				log = append(log, fmt.Sprintf("%s(%s,%s)", op, nameD(h.d), nameD(m.d)))
				dPanic = guarded(func() {
					if op == "MoveBefore" {
						d.MoveBefore(h.d, m.d)
					} else {
						d.MoveAfter(h.d, m.d)
					}
				})
				rPanic = guarded(func() {
					if op == "MoveBefore" {
						r.MoveBefore(h.r, m.r)
					} else {
						r.MoveAfter(h.r, m.r)
					}
				})
			case "Remove":
				h := pick("h")
				usedPreInit = usedPreInit || h.preInit
				log = append(log, fmt.Sprintf("Remove(%s)", nameD(h.d)))
				var dv, rv int
				dPanic = guarded(func() { dv = d.Remove(h.d) })
				rPanic = guarded(func() { rv = rval(r.Remove(h.r)) })
				if dPanic == nil && rPanic == nil && dv != rv {
					fail("Remove returned %d, container/list %d", dv, rv)
				}
			case "Init":
				log = append(log, "Init()")
				// every handle that can be reached from Front at this point is a pre-Init handle from now on
				for re, k := r.Front(), 0; re != nil && k < 48; re, k = re.Next(), k+1 {
					if i, ok := byR[re]; ok {
						hs[i].preInit = true
					}
				}
				dPanic = guarded(func() { d.Init() })
				rPanic = guarded(func() { r.Init() })
				sawInit = true
			case "Front", "Back":
				log = append(log, op+"()")
				var de ds.ListElement[int]
				var re *list.Element
				dPanic = guarded(func() {
					if op == "Front" {
						de = d.Front()
					} else {
						de = d.Back()
					}
				})
				rPanic = guarded(func() {
					if op == "Front" {
						re = r.Front()
					} else {
						re = r.Back()
					}
				})
				if dPanic == nil && rPanic == nil {
					if (de == nil) != (re == nil) {
						fail("%s() nil=%v, container/list nil=%v", op, de == nil, re == nil)
					}
					if de != nil {
						if _, known := byD[de]; !known {
							sentinelSeen = true // an element that no call returned before: the sentinel
						}
						reg(de, re)
						if a, b := nameD(de), nameR(re); a != b {
							fail("%s() = %s, container/list %s", op, a, b)
						}
					}
				}
			case "PushBackList", "PushFrontList":
				log = append(log, "dst."+op+"(list)")
				dPanic = guarded(func() {
					if op == "PushBackList" {
						dDst.PushBackList(d)
					} else {
						dDst.PushFrontList(d)
					}
				})
				rPanic = guarded(func() {
					if op == "PushBackList" {
						rDst.PushBackList(r)
					} else {
						rDst.PushFrontList(r)
					}
				})
				if dPanic == nil && rPanic == nil && dDst.Len() != rDst.Len() {
					fail("destination has %d elements, container/list %d", dDst.Len(), rDst.Len())
				}
			}
			if (dPanic == nil) != (rPanic == nil) {
				fail("ds panicked: %v; container/list panicked: %v", dPanic, rPanic)
			}
			if dPanic != nil {
				stats.Label(check, "both_panicked")

				break
			}

			// ---- observations (all O(1) per element, bounded) ----
			if d.Len() != r.Len() {
				fail("Len() = %d, container/list %d", d.Len(), r.Len())
			}
			var obsFail string
			if p := guarded(func() {
				de, re := d.Front(), r.Front()
				for k := 0; k < 48; k++ {
					if (de == nil) != (re == nil) {
						obsFail = fmt.Sprintf("Front/Next walk: step %d ds nil=%v, container/list nil=%v", k, de == nil, re == nil)
						return
					}
					if de == nil {
						break
					}
					reg(de, re)
					if a, b := nameD(de), nameR(re); a != b {
						obsFail = fmt.Sprintf("Front/Next walk: step %d is %s, container/list %s", k, a, b)
						return
					}
					if a, b := de.Value(), rval(re.Value); a != b {
						obsFail = fmt.Sprintf("Front/Next walk: step %d has value %d, container/list %d", k, a, b)
						return
					}
					de, re = de.Next(), re.Next()
				}
				de, re = d.Back(), r.Back()
				for k := 0; k < 48; k++ {
					if (de == nil) != (re == nil) {
						obsFail = fmt.Sprintf("Back/Prev walk: step %d ds nil=%v, container/list nil=%v", k, de == nil, re == nil)
						return
					}
					if de == nil {
						break
					}
					reg(de, re)
					if a, b := nameD(de), nameR(re); a != b {
						obsFail = fmt.Sprintf("Back/Prev walk: step %d is %s, container/list %s", k, a, b)
						return
					}
					de, re = de.Prev(), re.Prev()
				}
				for i, h := range hs {
					if a, b := h.d.Value(), rval(h.r.Value); a != b {
						obsFail = fmt.Sprintf("h%d.Value() = %d, container/list %d", i, a, b)
						return
					}
					if a, b := nameD(h.d.Next()), nameR(h.r.Next()); a != b {
						obsFail = fmt.Sprintf("h%d.Next() = %s, container/list %s", i, a, b)
						return
					}
					if a, b := nameD(h.d.Prev()), nameR(h.r.Prev()); a != b {
						obsFail = fmt.Sprintf("h%d.Prev() = %s, container/list %s", i, a, b)
						return
					}
				}
			}); p != nil {
				fail("an observation (Front/Back/Next/Prev/Value) panicked: %v", p)
			}
			if obsFail != "" {
				fail("%s", obsFail)
			}
		}
		var ls []string
		if sawInit {
			ls = append(ls, "init")
		}
		if sentinelSeen {
			ls = append(ls, "sentinel_handed_out")
		}
		if r.Len() < 0 {
			ls = append(ls, "negative_len")
		}
		stats.Case(check, usedPreInit, flavour+"|"+strings.Join(log, " "), func() any { return map[string]any{"flavour": flavour, "ops": log} }, ls...)
	})
}

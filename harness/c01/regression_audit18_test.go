// Demonstration of an independent auditor (third round), kept as a regression test; see known_findings.json.
package c01

import (
	"context"
	"testing"

	"github.com/stretchr/testify/require"

	"github.com/iotaledger/hive.go/serializer/v2/serix"
)

// a recursive type: a singly linked list
type hunt18Node struct {
	Val  uint8       `serix:""`
	Next *hunt18Node `serix:",optional"`
}

func hunt18List(n int) *hunt18Node {
	var head *hunt18Node
	for i := n - 1; i >= 0; i-- {
		head = &hunt18Node{Val: uint8(i), Next: head}
	}

	return head
}

// Decode limits the nesting depth of the data it reads (maxDecodeDepth = 1000 nested decode calls), Encode has no such
// limit: a value of a recursive type that is nested deeper is encoded without complaint into bytes that Decode refuses.
func TestRegressionAudit18EncodeAcceptsNestingThatDecodeRefuses(t *testing.T) {
	api := serix.NewAPI()
	ctx := context.Background()

	for _, n := range []int{1, 500, 999, 1000, 1001, 3000} {
		for _, validation := range []bool{false, true} {
			var opts []serix.Option
			if validation {
				opts = append(opts, serix.WithValidation())
			}

			src := hunt18List(n)
			b, err := api.Encode(ctx, src, opts...)
			if err != nil {
				t.Logf("n=%d validation=%v: Encode refuses the value: %.120s", n, validation, err.Error())

				continue // refusing is fine
			}

			// deterministic
			b2, err := api.Encode(ctx, src, opts...)
			require.NoError(t, err)
			require.Equal(t, b, b2)

			dst := &hunt18Node{}
			read, err := api.Decode(ctx, b, dst, opts...)
			if err != nil {
				msg := err.Error()
				t.Errorf("list of %d nodes, validation=%v: Encode accepted the value (%d bytes), Decode refuses the bytes: ...%s",
					n, validation, len(b), msg[len(msg)-60:])

				continue
			}
			require.Equal(t, len(b), read)

			count := 0
			for p, q := dst, src; p != nil; p, q = p.Next, q.Next {
				require.Equal(t, q.Val, p.Val)
				count++
			}
			require.Equal(t, n, count)
		}
	}
}

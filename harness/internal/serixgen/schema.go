package serixgen

import (
	"context"
	"fmt"
	"math/big"
	"reflect"
	"sort"
	"strings"
	"time"
	"unicode"
	"unicode/utf8"

	"github.com/iotaledger/hive.go/serializer/v2"
	"github.com/iotaledger/hive.go/serializer/v2/serix"
	"pgregory.net/rapid"
)

// Kind is the schema node kind.
type Kind int

// Node kinds.
const (
	KBool Kind = iota
	KInt8
	KInt16
	KInt32
	KInt64
	KUint8
	KUint16
	KUint32
	KUint64
	KFloat32
	KFloat64
	KString
	KBytes   // []byte-like: length prefix + raw bytes
	KByteArr // [N]byte-like: raw bytes (optionally preceded by an object code)
	KBigInt  // *big.Int as 32-byte little-endian uint256
	KTime    // time.Time as uint64 nanoseconds, saturating
	KSlice   // length prefix + elements
	KArray   // array of non-byte elements: encoded exactly like a slice (length prefix + elements)
	KMap     // length prefix + (key||value) entries in byte-lexical order
	KStruct  // [object code] + fields
	KPtr     // pointer to struct: like the struct; nil is an encoding error unless the field is optional
	KIface   // interface: the dynamic value, which always carries its object code
	KCustom  // custom Serializable/Deserializable leaf: [object code] + whatever the type writes
)

var kindNames = map[Kind]string{KBool: "bool", KInt8: "i8", KInt16: "i16", KInt32: "i32", KInt64: "i64", KUint8: "u8", KUint16: "u16",
	KUint32: "u32", KUint64: "u64", KFloat32: "f32", KFloat64: "f64", KString: "str", KBytes: "bytes", KByteArr: "bytearr", KBigInt: "u256",
	KTime: "time", KSlice: "slice", KArray: "array", KMap: "map", KStruct: "struct", KPtr: "ptr", KIface: "iface", KCustom: "custom"}

// Settings are the effective serix settings of one occurrence of a type.
type Settings struct {
	Prefix    int // 1, 2 or 4 (bytes of the length prefix); 0 = not applicable
	Min, Max  int // 0 = unbounded
	NoDup     bool
	LexValid  bool // ArrayValidationModeLexicalOrdering
	LexSort   bool // type setting lexicalOrdering (the encoder sorts iff LexSort && LexValid)
	AtMostOne int  // 0, 1 (byte type codes) or 4 (uint32 type codes)
	MustOccur []uint32
}

// Code is an object type code.
type Code struct {
	W int // 1 or 4
	V uint32
}

// Field is a struct field of the schema.
type Field struct {
	GoName    string
	Index     int // index in the Go struct
	Key       string
	Optional  bool
	Inlined   bool
	OmitEmpty bool
	Embedded  bool // embedded, not inlined: fields are flattened into the parent
	EmbPtr    bool // embedded through a pointer
	Tag       string
	N         *Node
}

// Node is one node of a generated type shape.
type Node struct {
	Kind   Kind
	T      reflect.Type
	Name   string // pool name or "" for reflect-built types
	S      Settings
	Code   *Code
	Elem   *Node
	Key    *Node
	N      int
	Fields []*Field
	Impls  []*Node // KIface: the registered implementers (each KPtr->KStruct or KStruct, all with Code)
	// KCustom
	Custom string
}

// String renders the shape canonically (used for hashing and samples).
func (n *Node) String() string {
	var sb strings.Builder
	n.render(&sb, 0)

	return sb.String()
}

func (s Settings) render(sb *strings.Builder) {
	if s.Prefix != 0 {
		fmt.Fprintf(sb, "/p%d", s.Prefix)
	}
	if s.Min != 0 || s.Max != 0 {
		fmt.Fprintf(sb, "[%d..%d]", s.Min, s.Max)
	}
	if s.NoDup {
		sb.WriteString("!dup")
	}
	if s.LexValid {
		sb.WriteString("!lex")
	}
	if s.LexSort {
		sb.WriteString("!sort")
	}
	if s.AtMostOne != 0 {
		fmt.Fprintf(sb, "!one%d", s.AtMostOne)
	}
	if len(s.MustOccur) > 0 {
		fmt.Fprintf(sb, "!must%v", s.MustOccur)
	}
}

func (n *Node) render(sb *strings.Builder, depth int) {
	if depth > 8 {
		sb.WriteString("...")
		return
	}
	sb.WriteString(kindNames[n.Kind])
	if n.Name != "" {
		sb.WriteString(":" + n.Name)
	}
	if n.Code != nil {
		fmt.Fprintf(sb, "#%d.%d", n.Code.W, n.Code.V)
	}
	n.S.render(sb)
	switch n.Kind {
	case KByteArr:
		fmt.Fprintf(sb, "(%d)", n.N)
	case KSlice, KPtr:
		sb.WriteString("<")
		n.Elem.render(sb, depth+1)
		sb.WriteString(">")
	case KArray:
		fmt.Fprintf(sb, "(%d)<", n.N)
		n.Elem.render(sb, depth+1)
		sb.WriteString(">")
	case KMap:
		sb.WriteString("<")
		n.Key.render(sb, depth+1)
		sb.WriteString(",")
		n.Elem.render(sb, depth+1)
		sb.WriteString(">")
	case KStruct:
		sb.WriteString("{")
		for i, f := range n.Fields {
			if i > 0 {
				sb.WriteString(";")
			}
			sb.WriteString(f.GoName)
			if f.Optional {
				sb.WriteString("?")
			}
			if f.Inlined {
				sb.WriteString("^inl")
			}
			if f.Embedded {
				sb.WriteString("^emb")
			}
			if f.OmitEmpty {
				sb.WriteString("^oe")
			}
			sb.WriteString(" ")
			f.N.render(sb, depth+1)
		}
		sb.WriteString("}")
	case KIface:
		fmt.Fprintf(sb, "(%d impls)", len(n.Impls))
	case KCustom:
		sb.WriteString("(" + n.Custom + ")")
	}
}

// Features returns the feature classes present in the shape (used for the non-triviality rule).
func (n *Node) Features(out map[string]bool, depth int) int {
	maxd := depth
	visit := func(c *Node) {
		if c == nil {
			return
		}
		if d := c.Features(out, depth+1); d > maxd {
			maxd = d
		}
	}
	switch n.Kind {
	case KMap:
		out["map"] = true
		visit(n.Key)
		visit(n.Elem)
	case KArray:
		out["array_of_nonbytes"] = true
		visit(n.Elem)
	case KSlice:
		out["slice"] = true
		if n.S.LexSort && n.S.LexValid {
			out["lexical_sorted_slice"] = true
		}
		if n.S.NoDup || n.S.LexValid || n.S.AtMostOne != 0 || len(n.S.MustOccur) > 0 || n.S.Min != 0 || n.S.Max != 0 {
			out["array_rules"] = true
		}
		visit(n.Elem)
	case KPtr:
		visit(n.Elem)
	case KIface:
		out["interface"] = true
	case KCustom:
		out["custom"] = true
	case KBigInt:
		out["bigint"] = true
	case KTime:
		out["time"] = true
	case KStruct:
		for _, f := range n.Fields {
			if f.Optional {
				out["optional"] = true
			}
			if f.Inlined || f.Embedded {
				out["inlined_or_embedded"] = true
			}
			visit(f.N)
		}
	}
	if n.Code != nil {
		out["object_code"] = true
	}

	return maxd
}

// ---------------------------------------------------------------------------------------------

// Config bounds the generator.
type Config struct {
	MaxDepth  int // nesting depth of generated structs
	MaxFields int
	MaxElems  int // collection sizes
	// FocusTypeRules forces the interface slices to carry at-most-one-of-each-type / must-occur rules and puts one of
	// them first into the root struct, so that these (otherwise rare) rule classes are exercised on purpose.
	FocusTypeRules bool
}

// QuickConfig / ThoroughConfig are the two tiers.
var (
	QuickConfig    = Config{MaxDepth: 3, MaxFields: 5, MaxElems: 4}
	ThoroughConfig = Config{MaxDepth: 4, MaxFields: 7, MaxElems: 8}
)

// Case is one generated type shape registered on a fresh API.
type Case struct {
	API  *serix.API
	Root *Node // KStruct
	Cfg  Config
	reg  map[reflect.Type]*regEntry
	seq  int
	// top-level object of NewCaseWithTop (see top.go)
	Top     *Node
	TopCall *serix.TypeSettings
	TopKind string
	// Validators: accept-all syntactic validators are registered for most pool types
	Validators bool
	// ShareRules: NSlU16 and NMapStrU32 are registered with one shared *ArrayRules (and lead the root struct)
	ShareRules bool
}

type regEntry struct {
	S    Settings
	Code *Code
	// FieldKey is the registered JSON key of a byte array with an object code ("" = serix' default "data")
	FieldKey string
	// Shared: the *ArrayRules object this type shares with another registered type (a caller re-using one rules variable)
	Shared *serix.ArrayRules
}

var (
	tBool    = reflect.TypeOf(false)
	tBigInt  = reflect.TypeOf((*big.Int)(nil))
	tTime    = reflect.TypeOf(time.Time{})
	tBytes   = reflect.TypeOf([]byte(nil))
	tString  = reflect.TypeOf("")
	numTypes = map[Kind]reflect.Type{KInt8: reflect.TypeOf(int8(0)), KInt16: reflect.TypeOf(int16(0)), KInt32: reflect.TypeOf(int32(0)),
		KInt64: reflect.TypeOf(int64(0)), KUint8: reflect.TypeOf(uint8(0)), KUint16: reflect.TypeOf(uint16(0)), KUint32: reflect.TypeOf(uint32(0)),
		KUint64: reflect.TypeOf(uint64(0)), KFloat32: reflect.TypeOf(float32(0)), KFloat64: reflect.TypeOf(float64(0))}
)

func prefixType(w int) serix.LengthPrefixType {
	switch w {
	case 1:
		return serix.LengthPrefixTypeAsByte
	case 2:
		return serix.LengthPrefixTypeAsUint16
	case 8:
		return serix.LengthPrefixTypeAsUint64
	default:
		return serix.LengthPrefixTypeAsUint32
	}
}

func prefixTag(w int) string {
	switch w {
	case 1:
		return "uint8"
	case 2:
		return "uint16"
	case 8:
		return "uint64"
	}

	return "uint32"
}

func (s Settings) toTypeSettings(code *Code) serix.TypeSettings {
	ts := serix.TypeSettings{}
	if s.Prefix != 0 {
		ts = ts.WithLengthPrefixType(prefixType(s.Prefix))
	}
	if s.LexSort {
		ts = ts.WithLexicalOrdering(true)
	}
	if s.Min != 0 || s.Max != 0 || s.NoDup || s.LexValid || s.AtMostOne != 0 || len(s.MustOccur) > 0 {
		ar := &serix.ArrayRules{Min: uint(s.Min), Max: uint(s.Max)}
		if s.NoDup {
			ar.ValidationMode |= serializer.ArrayValidationModeNoDuplicates
		}
		if s.LexValid {
			ar.ValidationMode |= serializer.ArrayValidationModeLexicalOrdering
		}
		switch s.AtMostOne {
		case 1:
			ar.ValidationMode |= serializer.ArrayValidationModeAtMostOneOfEachTypeByte
		case 4:
			ar.ValidationMode |= serializer.ArrayValidationModeAtMostOneOfEachTypeUint32
		}
		if len(s.MustOccur) > 0 {
			ar.MustOccur = serializer.TypePrefixes{}
			for _, c := range s.MustOccur {
				ar.MustOccur[c] = struct{}{}
			}
		}
		ts = ts.WithArrayRules(ar)
	}
	if code != nil {
		if code.W == 1 {
			ts = ts.WithObjectType(uint8(code.V))
		} else {
			ts = ts.WithObjectType(code.V)
		}
	}

	return ts
}

// drawCollSettings draws length-prefix / bounds / rule settings for a collection.
func drawCollSettings(t *rapid.T, label string, rules bool, maxElems int) Settings {
	s := Settings{Prefix: rapid.SampledFrom([]int{1, 1, 2, 4, 8}).Draw(t, label+".prefix")}
	switch rapid.IntRange(0, 4).Draw(t, label+".bounds") {
	case 0:
		s.Min = rapid.IntRange(1, 2).Draw(t, label+".min")
	case 1:
		s.Max = rapid.IntRange(1, maxElems).Draw(t, label+".max")
	case 2:
		s.Min = rapid.IntRange(1, 2).Draw(t, label+".min")
		s.Max = s.Min + rapid.IntRange(0, maxElems).Draw(t, label+".span")
	}
	if rules {
		switch rapid.IntRange(0, 6).Draw(t, label+".rules") {
		case 0:
			s.NoDup = true
		case 1:
			s.LexValid = true
		case 2:
			s.LexValid, s.LexSort = true, true
		case 3:
			s.LexValid, s.LexSort, s.NoDup = true, true, true
		case 4:
			s.LexSort = true // setting without the validation mode: no sorting happens
		}
	}

	return s
}

func drawStrSettings(t *rapid.T, label string) Settings {
	s := Settings{Prefix: rapid.SampledFrom([]int{1, 1, 2, 4, 8}).Draw(t, label+".prefix")}
	switch rapid.IntRange(0, 4).Draw(t, label+".bounds") {
	case 0:
		s.Min = rapid.IntRange(1, 3).Draw(t, label+".min")
	case 1:
		s.Max = rapid.IntRange(1, 6).Draw(t, label+".max")
	case 2:
		s.Min = rapid.IntRange(1, 3).Draw(t, label+".min")
		s.Max = s.Min + rapid.IntRange(0, 4).Draw(t, label+".span")
	}

	return s
}

// NewCase draws a type shape and registers everything on a fresh API.
func NewCase(t *rapid.T, cfg Config) *Case {
	c := &Case{API: serix.NewAPI(), Cfg: cfg, reg: map[reflect.Type]*regEntry{}}
	c.drawPoolSettings(t)
	c.Root = c.genStruct(t, 0, "root")
	c.registerAll()

	return c
}

func tof(v any) reflect.Type { return reflect.TypeOf(v) }

// drawPoolSettings draws per-case settings for every named pool type.
func (c *Case) drawPoolSettings(t *rapid.T) {
	me := c.Cfg.MaxElems
	for _, e := range []struct {
		v    any
		name string
	}{{NStrA(""), "NStrA"}, {NStrB(""), "NStrB"}, {NBytesA(nil), "NBytesA"}, {NBytesB(nil), "NBytesB"}} {
		c.reg[tof(e.v)] = &regEntry{S: drawStrSettings(t, e.name)}
	}
	// map keys: bounds on key strings make most generated maps invalid, keep NStrA as the key type with small min
	for _, e := range []struct {
		v     any
		name  string
		rules bool
	}{{NSlU16(nil), "NSlU16", true}, {NSlI8(nil), "NSlI8", true}, {NSlStrA(nil), "NSlStrA", true}, {NSlBytesB(nil), "NSlBytesB", true},
		{NSlArr4(nil), "NSlArr4", true}, {NSlSl(nil), "NSlSl", true}, {NSlCirc(nil), "NSlCirc", true}, {NSlDot(nil), "NSlDot", true},
		{NSlTime(nil), "NSlTime", true}, {NSlBig(nil), "NSlBig", true}, {NSlCust(nil), "NSlCust", true},
		{NMapStrU32(nil), "NMapStrU32", false}, {NMapU8Bytes(nil), "NMapU8Bytes", false}, {NMapArr4Str(nil), "NMapArr4Str", false},
		{NMapI64Shape(nil), "NMapI64Shape", false}, {NMapU16Sl(nil), "NMapU16Sl", false}, {NMapBoolDot(nil), "NMapBoolDot", false},
		{NArr3U16{}, "NArr3U16", true}, {NArr2Circ{}, "NArr2Circ", false}} {
		c.reg[tof(e.v)] = &regEntry{S: drawCollSettings(t, e.name, e.rules, me)}
	}
	c.Validators = rapid.Bool().Draw(t, "validators")
	// one rules object shared by a slice type and a map type (bounds only): what one type's encoder or decoder does
	// with the rules it was handed must not leak into the other type
	if c.ShareRules = !c.Cfg.FocusTypeRules && rapid.IntRange(0, 5).Draw(t, "shareRules") == 0; c.ShareRules {
		ms := c.reg[tof(NMapStrU32(nil))].S
		ss := &c.reg[tof(NSlU16(nil))].S
		*ss = Settings{Prefix: ss.Prefix, Min: ms.Min, Max: ms.Max}
		shared := &serix.ArrayRules{Min: uint(ms.Min), Max: uint(ms.Max)}
		c.reg[tof(NMapStrU32(nil))].Shared, c.reg[tof(NSlU16(nil))].Shared = shared, shared
	}
	// fixed-size arrays of non-bytes: bounds must admit the fixed length or every value is invalid under validation
	for _, e := range []struct {
		ty reflect.Type
		n  int
	}{{tof(NArr3U16{}), 3}, {tof(NArr2Circ{}), 2}} {
		s := &c.reg[e.ty].S
		if rapid.IntRange(0, 3).Draw(t, "arrbounds") != 0 {
			if s.Min > e.n {
				s.Min = e.n
			}
			if s.Max != 0 && s.Max < e.n {
				s.Max = e.n
			}
		}
	}
	// interface implementers: codes are drawn (distinct per interface)
	shapeCodes := rapid.SliceOfNDistinct(rapid.Uint32Range(0, 255), 7, 7, func(v uint32) uint32 { return v }).Draw(t, "shapeCodes")
	for i, ty := range []reflect.Type{tof(Circle{}), tof(Rect{}), tof(Poly{}), tof(Dot{}), tof(Addr{}), tof(Unit{}), tof(Tag8{})} {
		c.reg[ty] = &regEntry{Code: &Code{W: 1, V: shapeCodes[i]}}
	}
	c.reg[tof(Addr{})].FieldKey = rapid.SampledFrom([]string{"", "pubKeyHash"}).Draw(t, "addrKey")
	payCodes := rapid.SliceOfNDistinct(rapid.OneOf(rapid.Uint32Range(0, 300), rapid.Uint32()), 3, 3, func(v uint32) uint32 { return v }).Draw(t, "payCodes")
	for i, ty := range []reflect.Type{tof(PayA{}), tof(PayB{}), tof(PayC{})} {
		c.reg[ty] = &regEntry{Code: &Code{W: 4, V: payCodes[i]}}
	}
	// interface slices with type rules
	ss := drawCollSettings(t, "NSlShape", true, me)
	shapeRule := rapid.IntRange(0, 3).Draw(t, "NSlShape.typerules")
	if c.Cfg.FocusTypeRules && shapeRule == 3 {
		shapeRule = 2
	}
	switch shapeRule {
	case 0:
		ss.AtMostOne = 1
	case 1:
		ss.MustOccur = []uint32{shapeCodes[rapid.IntRange(0, 6).Draw(t, "must")]}
		if ss.Max != 0 && ss.Max < 1 {
			ss.Max = 1
		}
	case 2:
		ss.AtMostOne = 1
		ss.MustOccur = []uint32{shapeCodes[0], shapeCodes[3]}
		if ss.Max != 0 && ss.Max < 2 {
			ss.Max = 2
		}
	}
	c.reg[tof(NSlShape(nil))] = &regEntry{S: ss}
	sp := drawCollSettings(t, "NSlPay", true, me)
	payRule := rapid.IntRange(0, 2).Draw(t, "NSlPay.typerules")
	if c.Cfg.FocusTypeRules && payRule == 2 {
		payRule = 1
	}
	switch payRule {
	case 0:
		sp.AtMostOne = 4
	case 1:
		sp.MustOccur = []uint32{payCodes[rapid.IntRange(0, 2).Draw(t, "must")]}
	}
	c.reg[tof(NSlPay(nil))] = &regEntry{S: sp}
	// optional codes on custom leaves and a named byte array
	if rapid.Bool().Draw(t, "custCode") {
		c.reg[tof(CustomU24{})] = &regEntry{Code: &Code{W: 1, V: uint32(rapid.IntRange(0, 255).Draw(t, "custCodeV"))}}
	}
	if rapid.Bool().Draw(t, "custVarCode") {
		c.reg[tof(CustomVar{})] = &regEntry{Code: &Code{W: 4, V: rapid.Uint32().Draw(t, "custVarCodeV")}}
	}
	tokCodes := rapid.SliceOfNDistinct(rapid.Uint32Range(0, 255), 7, 7, func(v uint32) uint32 { return v }).Draw(t, "tokCodes")
	for i, e := range []struct {
		ty reflect.Type
		s  Settings
	}{{tof(TokName("")), Settings{Prefix: 1}}, {tof(TokNum(0)), Settings{}}, {tof(TokFlag(false)), Settings{}}, {tof(TokList(nil)), Settings{Prefix: 1}},
		{tof(TokBytes(nil)), Settings{Prefix: 2}}, {tof(TokMap(nil)), Settings{Prefix: 1}}, {tof(TokStruct{}), Settings{}}} {
		c.reg[e.ty] = &regEntry{Code: &Code{W: 1, V: tokCodes[i]}, S: e.s}
	}
	c.reg[tof((*CustomPR)(nil))] = &regEntry{Code: &Code{W: 1, V: uint32(rapid.IntRange(0, 255).Draw(t, "custPRCodeV"))}}
	if rapid.IntRange(0, 2).Draw(t, "arr32Code") == 0 {
		c.reg[tof(NArr32{})] = &regEntry{Code: &Code{W: 1, V: uint32(rapid.IntRange(0, 255).Draw(t, "arr32CodeV"))}}
	}
}

func (c *Case) registerAll() {
	must := func(err error) {
		if err != nil {
			panic(fmt.Sprintf("serixgen: registration failed: %v", err))
		}
	}
	types := make([]reflect.Type, 0, len(c.reg))
	for ty := range c.reg {
		types = append(types, ty)
	}
	sort.Slice(types, func(i, j int) bool { return types[i].String() < types[j].String() })
	for _, ty := range types {
		e := c.reg[ty]
		ts := e.S.toTypeSettings(e.Code)
		if e.Shared != nil {
			ts = ts.WithArrayRules(e.Shared)
		}
		if e.FieldKey != "" {
			ts = ts.WithFieldKey(e.FieldKey)
		}
		must(c.API.RegisterTypeSettings(reflect.New(ty).Elem().Interface(), ts))
	}
	must(c.API.RegisterInterfaceObjects((*Shape)(nil), (*Circle)(nil), (*Rect)(nil), (*Poly)(nil), Dot{}, (*Addr)(nil), (*Unit)(nil), Tag8{}))
	must(c.API.RegisterInterfaceObjects((*Payload)(nil), (*PayA)(nil), (*PayB)(nil), (*PayC)(nil)))
	must(c.API.RegisterInterfaceObjects((*Token)(nil), TokName(""), TokNum(0), TokFlag(false), TokList(nil), TokBytes(nil), TokMap(nil), TokStruct{}))
	if c.Validators {
		// syntactic validators that accept everything: registered by value (as the documentation recommends), so that
		// serix has to find them for values and for pointers, on encode and after decode, whenever validation is on
		must(c.API.RegisterValidator(Circle{}, func(context.Context, Circle) error { return nil }))
		must(c.API.RegisterValidator(Rect{}, func(context.Context, Rect) error { return nil }))
		must(c.API.RegisterValidator(Poly{}, func(context.Context, Poly) error { return nil }))
		must(c.API.RegisterValidator(Dot{}, func(context.Context, Dot) error { return nil }))
		must(c.API.RegisterValidator(Addr{}, func(context.Context, Addr) error { return nil }))
		must(c.API.RegisterValidator(PayA{}, func(context.Context, PayA) error { return nil }))
		must(c.API.RegisterValidator(PayB{}, func(context.Context, PayB) error { return nil }))
		must(c.API.RegisterValidator(EmbA{}, func(context.Context, EmbA) error { return nil }))
		must(c.API.RegisterValidator(NStrA(""), func(context.Context, NStrA) error { return nil }))
		must(c.API.RegisterValidator(NSlU16(nil), func(context.Context, NSlU16) error { return nil }))
		must(c.API.RegisterValidator(NSlCirc(nil), func(context.Context, NSlCirc) error { return nil }))
		must(c.API.RegisterValidator(NMapStrU32(nil), func(context.Context, NMapStrU32) error { return nil }))
		must(c.API.RegisterValidator(CustomU24{}, func(context.Context, CustomU24) error { return nil }))
	}
}

// ---------------------------------------------------------------------------------------------
// node constructors
// ---------------------------------------------------------------------------------------------

func leaf(k Kind, ty reflect.Type, name string) *Node { return &Node{Kind: k, T: ty, Name: name} }

func (c *Case) regS(ty reflect.Type) Settings {
	if e := c.reg[ty]; e != nil {
		return e.S
	}

	return Settings{}
}

func (c *Case) regCode(ty reflect.Type) *Code {
	if e := c.reg[ty]; e != nil {
		return e.Code
	}

	return nil
}

func (c *Case) nStr(v any, name string) *Node {
	return &Node{Kind: KString, T: tof(v), Name: name, S: c.regS(tof(v))}
}

func (c *Case) nBytes(v any, name string) *Node {
	return &Node{Kind: KBytes, T: tof(v), Name: name, S: c.regS(tof(v))}
}

func field(goName string, idx int, n *Node) *Field {
	return &Field{GoName: goName, Index: idx, N: n, Key: fieldKey(goName)}
}

// fieldKey mirrors the documented default JSON key: field name in camel case.
func fieldKey(name string) string {
	for _, kw := range []string{"ID", "NFT", "URL", "HRP"} {
		name = strings.ReplaceAll(name, kw, string(kw[0])+strings.ToLower(kw)[1:])
	}

	// the documented key starts with the lower-case first LETTER of the field name
	r, size := utf8.DecodeRuneInString(name)

	return string(unicode.ToLower(r)) + name[size:]
}

func (c *Case) nCircle() *Node {
	ty := tof(Circle{})
	return &Node{Kind: KStruct, T: ty, Name: "Circle", Code: c.regCode(ty), Fields: []*Field{field("R", 0, leaf(KUint16, numTypes[KUint16], ""))}}
}

func (c *Case) nCirclePtr() *Node {
	return &Node{Kind: KPtr, T: tof((*Circle)(nil)), Elem: c.nCircle()}
}

func (c *Case) nRectPtr() *Node {
	ty := tof(Rect{})
	s := &Node{Kind: KStruct, T: ty, Name: "Rect", Code: c.regCode(ty), Fields: []*Field{
		field("W", 0, leaf(KUint8, numTypes[KUint8], "")), field("H", 1, leaf(KInt8, numTypes[KInt8], "")), field("Label", 2, c.nStr(NStrA(""), "NStrA"))}}

	return &Node{Kind: KPtr, T: reflect.PointerTo(ty), Elem: s}
}

func (c *Case) nPolyPtr() *Node {
	ty := tof(Poly{})
	opt := field("Opt", 1, c.nCirclePtr())
	opt.Optional = true
	s := &Node{Kind: KStruct, T: ty, Name: "Poly", Code: c.regCode(ty), Fields: []*Field{
		field("Pts", 0, c.nNamedSlice(tof(NSlU16(nil)), "NSlU16", leaf(KUint16, numTypes[KUint16], ""))), opt, field("On", 2, leaf(KBool, tBool, ""))}}

	return &Node{Kind: KPtr, T: reflect.PointerTo(ty), Elem: s}
}

func (c *Case) nDot() *Node {
	ty := tof(Dot{})
	return &Node{Kind: KStruct, T: ty, Name: "Dot", Code: c.regCode(ty), Fields: []*Field{field("X", 0, leaf(KInt8, numTypes[KInt8], ""))}}
}

// nUnitPtr is the marker object without fields (its encoding ends with its object code).
func (c *Case) nUnitPtr() *Node {
	ty := tof(Unit{})
	return &Node{Kind: KPtr, T: reflect.PointerTo(ty), Elem: &Node{Kind: KStruct, T: ty, Name: "Unit", Code: c.regCode(ty)}}
}

// nAddrPtr is the pointer to a byte array with an object code (the only form of such arrays the JSON form reads back).
func (c *Case) nAddrPtr() *Node {
	ty := tof(Addr{})
	return &Node{Kind: KPtr, T: reflect.PointerTo(ty), Elem: &Node{Kind: KByteArr, T: ty, Name: "Addr", N: 20, Code: c.regCode(ty)}}
}

func (c *Case) nShape() *Node {
	return &Node{Kind: KIface, T: reflect.TypeOf((*Shape)(nil)).Elem(), Name: "Shape",
		Impls: []*Node{c.nCirclePtr(), c.nRectPtr(), c.nPolyPtr(), c.nDot(), c.nAddrPtr(), c.nUnitPtr(), c.nTag8()}}
}

// nTag8 is a byte array with an object code that implements Shape by value.
func (c *Case) nTag8() *Node {
	ty := tof(Tag8{})
	return &Node{Kind: KByteArr, T: ty, Name: "Tag8", N: 8, Code: c.regCode(ty)}
}

// nToken: interface whose implementations are a string, a number, a bool, a slice, a byte slice, a map and a struct.
func (c *Case) nToken() *Node {
	u16 := leaf(KUint16, numTypes[KUint16], "")
	coded := func(n *Node) *Node {
		n.Code = c.regCode(n.T)
		n.S = c.regS(n.T)

		return n
	}

	return &Node{Kind: KIface, T: reflect.TypeOf((*Token)(nil)).Elem(), Name: "Token", Impls: []*Node{
		coded(&Node{Kind: KString, T: tof(TokName("")), Name: "TokName"}),
		coded(&Node{Kind: KUint32, T: tof(TokNum(0)), Name: "TokNum"}),
		coded(&Node{Kind: KBool, T: tof(TokFlag(false)), Name: "TokFlag"}),
		coded(&Node{Kind: KSlice, T: tof(TokList(nil)), Name: "TokList", Elem: u16}),
		coded(&Node{Kind: KBytes, T: tof(TokBytes(nil)), Name: "TokBytes"}),
		coded(&Node{Kind: KMap, T: tof(TokMap(nil)), Name: "TokMap", Key: leaf(KUint64, numTypes[KUint64], ""), Elem: u16}),
		coded(&Node{Kind: KStruct, T: tof(TokStruct{}), Name: "TokStruct", Fields: []*Field{field("A", 0, leaf(KUint8, numTypes[KUint8], ""))}}),
	}}
}

func (c *Case) nPayload(depth int) *Node {
	tyA, tyB, tyC := tof(PayA{}), tof(PayB{}), tof(PayC{})
	a := &Node{Kind: KPtr, T: reflect.PointerTo(tyA), Elem: &Node{Kind: KStruct, T: tyA, Name: "PayA", Code: c.regCode(tyA),
		Fields: []*Field{field("V", 0, leaf(KUint64, numTypes[KUint64], ""))}}}
	b := &Node{Kind: KPtr, T: reflect.PointerTo(tyB), Elem: &Node{Kind: KStruct, T: tyB, Name: "PayB", Code: c.regCode(tyB),
		Fields: []*Field{field("Data", 0, &Node{Kind: KBytes, T: tBytes, S: Settings{Prefix: 2}}), field("T", 1, leaf(KTime, tTime, ""))}}}
	opt := field("Opt", 2, c.nShape())
	opt.Optional = true
	cc := &Node{Kind: KPtr, T: reflect.PointerTo(tyC), Elem: &Node{Kind: KStruct, T: tyC, Name: "PayC", Code: c.regCode(tyC),
		Fields: []*Field{field("Inner", 0, c.nShape()), field("Big", 1, leaf(KBigInt, tBigInt, "")), opt}}}

	return &Node{Kind: KIface, T: reflect.TypeOf((*Payload)(nil)).Elem(), Name: "Payload", Impls: []*Node{a, b, cc}}
}

func (c *Case) nCustomU24() *Node {
	ty := tof(CustomU24{})
	return &Node{Kind: KCustom, T: ty, Name: "CustomU24", Custom: "u24", Code: c.regCode(ty)}
}

func (c *Case) nCustomVar() *Node {
	ty := tof(CustomVar{})
	return &Node{Kind: KCustom, T: ty, Name: "CustomVar", Custom: "var", Code: c.regCode(ty)}
}

// nCustomP16: custom codec on the pointer type only, held by value (no settings registered).
func (c *Case) nCustomP16() *Node {
	return &Node{Kind: KCustom, T: tof(CustomP16{}), Name: "CustomP16", Custom: "p16"}
}

// nCustomPR: custom codec held through a pointer, object code registered under the pointer type.
func (c *Case) nCustomPR() *Node {
	ty := tof(CustomPR{})
	return &Node{Kind: KPtr, T: reflect.PointerTo(ty), Elem: &Node{Kind: KCustom, T: ty, Name: "CustomPR", Custom: "pr", Code: c.regCode(reflect.PointerTo(ty))}}
}

func (c *Case) nNamedSlice(ty reflect.Type, name string, elem *Node) *Node {
	return &Node{Kind: KSlice, T: ty, Name: name, S: c.regS(ty), Elem: elem}
}

func (c *Case) nNamedMap(ty reflect.Type, name string, key, elem *Node) *Node {
	return &Node{Kind: KMap, T: ty, Name: name, S: c.regS(ty), Key: key, Elem: elem}
}

func (c *Case) nEmbA() *Node {
	return &Node{Kind: KStruct, T: tof(EmbA{}), Name: "EmbA", Fields: []*Field{
		field("X", 0, leaf(KUint8, numTypes[KUint8], "")), field("S", 1, c.nStr(NStrA(""), "NStrA"))}}
}

// poolStructs returns hand-declared structs with exotic embedding.
func (c *Case) poolStruct(t *rapid.T) *Node {
	switch rapid.IntRange(0, 4).Draw(t, "poolStruct") {
	case 0:
		embu := &Node{Kind: KStruct, T: tof(embU{}), Name: "embU", Fields: []*Field{field("Y", 0, leaf(KUint16, numTypes[KUint16], ""))}}
		f0 := field("embU", 0, embu)
		f0.Embedded = true
		return &Node{Kind: KStruct, T: tof(WithUnexported{}), Name: "WithUnexported", Fields: []*Field{f0, field("Z", 1, leaf(KInt32, numTypes[KInt32], ""))}}
	case 1:
		f0 := field("EmbA", 0, &Node{Kind: KPtr, T: tof((*EmbA)(nil)), Elem: c.nEmbA()})
		f0.Embedded, f0.EmbPtr = true, true
		return &Node{Kind: KStruct, T: tof(WithEmbPtr{}), Name: "WithEmbPtr", Fields: []*Field{f0, field("Q", 1, leaf(KUint8, numTypes[KUint8], ""))}}
	case 2:
		f0 := field("Shape", 0, c.nShape())
		f0.Inlined = true
		return &Node{Kind: KStruct, T: tof(WithIface{}), Name: "WithIface", Fields: []*Field{f0, field("K", 1, leaf(KUint8, numTypes[KUint8], ""))}}
	case 3:
		f0 := field("EmbA", 0, c.nEmbA())
		f0.Inlined = true
		return &Node{Kind: KStruct, T: tof(WithInlined{}), Name: "WithInlined", Fields: []*Field{f0, field("M", 1, leaf(KUint32, numTypes[KUint32], ""))}}
	default:
		return &Node{Kind: KStruct, T: tof(Mixed{}), Name: "Mixed", Fields: []*Field{
			field("A", 1, leaf(KUint8, numTypes[KUint8], "")), field("B", 3, leaf(KBool, tof(NBool(false)), "NBool"))}}
	}
}

// genFixedLeaf draws a fixed-width leaf (no settings needed).
func (c *Case) genFixedLeaf(t *rapid.T, label string) *Node {
	switch rapid.IntRange(0, 21).Draw(t, label+".leaf") {
	case 0:
		return leaf(KBool, tBool, "")
	case 1:
		return leaf(KInt8, numTypes[KInt8], "")
	case 2:
		return leaf(KInt16, numTypes[KInt16], "")
	case 3:
		return leaf(KInt32, numTypes[KInt32], "")
	case 4:
		return leaf(KInt64, numTypes[KInt64], "")
	case 5:
		return leaf(KUint8, numTypes[KUint8], "")
	case 6:
		return leaf(KUint16, numTypes[KUint16], "")
	case 7:
		return leaf(KUint32, numTypes[KUint32], "")
	case 8:
		return leaf(KUint64, numTypes[KUint64], "")
	case 9:
		return leaf(KFloat32, numTypes[KFloat32], "")
	case 10:
		return leaf(KFloat64, numTypes[KFloat64], "")
	case 11:
		return leaf(KUint16, tof(NU16(0)), "NU16")
	case 12:
		return leaf(KInt64, tof(NI64(0)), "NI64")
	case 13:
		return leaf(KBool, tof(NBool(false)), "NBool")
	case 14:
		return leaf(KFloat64, tof(NF64(0)), "NF64")
	case 15:
		return leaf(KFloat32, tof(NF32(0)), "NF32")
	case 16:
		n := rapid.SampledFrom([]int{1, 4, 32, 36, 38}).Draw(t, label+".arrN")
		return &Node{Kind: KByteArr, T: reflect.ArrayOf(n, numTypes[KUint8]), N: n}
	case 17:
		return &Node{Kind: KByteArr, T: tof(NArr4{}), Name: "NArr4", N: 4}
	case 18:
		return &Node{Kind: KByteArr, T: tof(NArr32{}), Name: "NArr32", N: 32, Code: c.regCode(tof(NArr32{}))}
	case 19:
		return leaf(KBigInt, tBigInt, "")
	case 20:
		return leaf(KTime, tTime, "")
	default:
		return leaf(KUint32, tof(NU32(0)), "NU32")
	}
}

// genElem draws a type usable as a collection element / map value (settings only from the registry).
func (c *Case) genElem(t *rapid.T, depth int, label string) *Node {
	switch rapid.IntRange(0, 13).Draw(t, label+".elem") {
	case 0, 1, 2, 3:
		return c.genFixedLeaf(t, label)
	case 4:
		return c.nStr(NStrA(""), "NStrA")
	case 5:
		return c.nBytes(NBytesB(nil), "NBytesB")
	case 6:
		return c.genNamedColl(t, label)
	case 7:
		return c.nShape()
	case 8:
		return c.nPayload(depth)
	case 9:
		return rapid.SampledFrom([]func() *Node{c.nCustomU24, c.nCustomVar, c.nCustomP16, c.nCustomPR}).Draw(t, label+".custom")()
	case 10:
		if rapid.Bool().Draw(t, label+".addr") {
			return c.nAddrPtr()
		}
		return c.nCirclePtr()
	case 11:
		if depth < c.Cfg.MaxDepth {
			s := c.genStruct(t, depth+1, label+".s")
			if rapid.Bool().Draw(t, label+".ptr") {
				return &Node{Kind: KPtr, T: reflect.PointerTo(s.T), Elem: s}
			}
			return s
		}
		return c.nDot()
	case 12:
		return c.poolStruct(t)
	default:
		return c.nStr(NStrB(""), "NStrB")
	}
}

// genKey draws a map key type: comparable, encodes to >= 1 byte.
func (c *Case) genKey(t *rapid.T, label string) *Node {
	switch rapid.IntRange(0, 7).Draw(t, label+".key") {
	case 0:
		return c.nStr(NStrA(""), "NStrA")
	case 1:
		return leaf(KUint8, numTypes[KUint8], "")
	case 2:
		return leaf(KInt64, numTypes[KInt64], "")
	case 3:
		return &Node{Kind: KByteArr, T: tof(NArr4{}), Name: "NArr4", N: 4}
	case 4:
		return leaf(KUint64, numTypes[KUint64], "")
	case 5:
		return leaf(KBool, tBool, "")
	case 6:
		return leaf(KUint16, tof(NU16(0)), "NU16")
	default:
		return c.nStr(NStrB(""), "NStrB")
	}
}

func (c *Case) genNamedColl(t *rapid.T, label string) *Node {
	u16 := leaf(KUint16, numTypes[KUint16], "")
	switch rapid.IntRange(0, 20).Draw(t, label+".named") {
	case 0:
		return c.nNamedSlice(tof(NSlU16(nil)), "NSlU16", u16)
	case 1:
		return c.nNamedSlice(tof(NSlI8(nil)), "NSlI8", leaf(KInt8, numTypes[KInt8], ""))
	case 2:
		return c.nNamedSlice(tof(NSlStrA(nil)), "NSlStrA", c.nStr(NStrA(""), "NStrA"))
	case 3:
		return c.nNamedSlice(tof(NSlBytesB(nil)), "NSlBytesB", c.nBytes(NBytesB(nil), "NBytesB"))
	case 4:
		return c.nNamedSlice(tof(NSlArr4(nil)), "NSlArr4", &Node{Kind: KByteArr, T: reflect.ArrayOf(4, numTypes[KUint8]), N: 4})
	case 5:
		return c.nNamedSlice(tof(NSlSl(nil)), "NSlSl", c.nNamedSlice(tof(NSlU16(nil)), "NSlU16", u16))
	case 6, 7:
		return c.nNamedSlice(tof(NSlShape(nil)), "NSlShape", c.nShape())
	case 8:
		return c.nNamedSlice(tof(NSlPay(nil)), "NSlPay", c.nPayload(0))
	case 9:
		return c.nNamedSlice(tof(NSlCirc(nil)), "NSlCirc", c.nCirclePtr())
	case 10:
		return c.nNamedSlice(tof(NSlDot(nil)), "NSlDot", c.nDot())
	case 11:
		return c.nNamedSlice(tof(NSlTime(nil)), "NSlTime", leaf(KTime, tTime, ""))
	case 12:
		return c.nNamedSlice(tof(NSlBig(nil)), "NSlBig", leaf(KBigInt, tBigInt, ""))
	case 13:
		return c.nNamedSlice(tof(NSlCust(nil)), "NSlCust", c.nCustomU24())
	case 14:
		return c.nNamedMap(tof(NMapStrU32(nil)), "NMapStrU32", c.nStr(NStrA(""), "NStrA"), leaf(KUint32, numTypes[KUint32], ""))
	case 15:
		return c.nNamedMap(tof(NMapU8Bytes(nil)), "NMapU8Bytes", leaf(KUint8, numTypes[KUint8], ""), c.nBytes(NBytesA(nil), "NBytesA"))
	case 16:
		return c.nNamedMap(tof(NMapArr4Str(nil)), "NMapArr4Str", &Node{Kind: KByteArr, T: tof(NArr4{}), Name: "NArr4", N: 4}, c.nStr(NStrB(""), "NStrB"))
	case 17:
		return c.nNamedMap(tof(NMapI64Shape(nil)), "NMapI64Shape", leaf(KInt64, numTypes[KInt64], ""), c.nShape())
	case 18:
		return c.nNamedMap(tof(NMapU16Sl(nil)), "NMapU16Sl", leaf(KUint16, numTypes[KUint16], ""), c.nNamedSlice(tof(NSlU16(nil)), "NSlU16", u16))
	case 19:
		ty := tof(NArr3U16{})
		return &Node{Kind: KArray, T: ty, Name: "NArr3U16", S: c.regS(ty), N: 3, Elem: u16}
	default:
		return c.nNamedMap(tof(NMapBoolDot(nil)), "NMapBoolDot", leaf(KBool, tBool, ""), c.nDot())
	}
}

// genStruct draws a reflect-built struct with serix tags.
func (c *Case) genStruct(t *rapid.T, depth int, label string) *Node {
	c.seq++
	id := c.seq
	nf := rapid.IntRange(1, c.Cfg.MaxFields).Draw(t, label+".nfields")
	if c.ShareRules && depth == 0 && nf < 2 {
		nf = 2
	}
	n := &Node{Kind: KStruct}
	var sfs []reflect.StructField
	usedKeys := map[string]bool{"type": true}
	for i := 0; i < nf; i++ {
		fl := fmt.Sprintf("%s.f%d", label, i)
		goName := fmt.Sprintf("F%d_%d", id, i)
		if rapid.IntRange(0, 7).Draw(t, fl+".nonascii") == 0 {
			// a field name that starts with a letter outside ASCII (the default JSON key is derived from the name)
			goName = fmt.Sprintf("%sF%d_%d", rapid.SampledFrom([]string{"Ä", "Δ", "Ž"}).Draw(t, fl+".letter"), id, i)
		}
		f := &Field{GoName: goName, Index: len(sfs)}
		var tagParts []string
		key := ""
		if rapid.IntRange(0, 3).Draw(t, fl+".haskey") == 0 {
			key = fmt.Sprintf("k%d_%d", id, i)
		}
		setTS := func(s Settings) {
			if s.Prefix != 0 {
				tagParts = append(tagParts, "lenPrefix="+prefixTag(s.Prefix))
			}
			if s.Min != 0 {
				tagParts = append(tagParts, fmt.Sprintf("minLen=%d", s.Min))
			}
			if s.Max != 0 {
				tagParts = append(tagParts, fmt.Sprintf("maxLen=%d", s.Max))
			}
		}
		anonymous, embAKeys, inlinedOmitEmpty := false, false, false
		fieldKind := rapid.IntRange(0, 19).Draw(t, fl+".kind")
		if fieldKind == 18 {
			fieldKind = 21
		}
		if fieldKind == 19 {
			fieldKind = 22
		}
		if c.Cfg.FocusTypeRules && depth == 0 && i == 0 {
			fieldKind = 18
		}
		if c.ShareRules && depth == 0 && i < 2 {
			fieldKind = 19 + i
		}
		switch fieldKind {
		case 19:
			f.N = c.nNamedSlice(tof(NSlU16(nil)), "NSlU16", leaf(KUint16, numTypes[KUint16], ""))
		case 20:
			f.N = c.nNamedMap(tof(NMapStrU32(nil)), "NMapStrU32", c.nStr(NStrA(""), "NStrA"), leaf(KUint32, numTypes[KUint32], ""))
		case 18:
			if rapid.Bool().Draw(t, fl+".payslice") {
				f.N = c.nNamedSlice(tof(NSlPay(nil)), "NSlPay", c.nPayload(0))
			} else {
				f.N = c.nNamedSlice(tof(NSlShape(nil)), "NSlShape", c.nShape())
			}
		case 0, 1, 2:
			f.N = c.genFixedLeaf(t, fl)
			if f.N.Kind == KByteArr && f.N.Name == "" && rapid.IntRange(0, 2).Draw(t, fl+".arrbounds") == 0 {
				// length bounds on a fixed-size byte array: mostly bounds that the array meets, sometimes bounds that it can
				// never meet (then Encode and Decode both have to refuse under validation)
				b := Settings{}
				switch rapid.IntRange(0, 4).Draw(t, fl+".arrboundsKind") {
				case 0:
					b.Min = f.N.N
				case 1:
					b.Max = f.N.N
				case 2:
					b.Min, b.Max = 1, f.N.N+3
				case 3:
					b.Max = f.N.N - 1 // not met (0 = no bound for a one-byte array)
				default:
					b.Min = f.N.N + 1 // not met
				}
				f.N.S = b
				setTS(b)
			}
		case 3:
			// plain string with tag settings
			s := drawStrSettings(t, fl)
			f.N = &Node{Kind: KString, T: tString, S: s}
			setTS(s)
		case 4:
			s := drawStrSettings(t, fl)
			f.N = &Node{Kind: KBytes, T: tBytes, S: s}
			setTS(s)
		case 5:
			// named string / bytes, optionally overriding the prefix by tag
			if rapid.Bool().Draw(t, fl+".bytes") {
				f.N = c.nBytes(NBytesA(nil), "NBytesA")
			} else {
				f.N = c.nStr(NStrB(""), "NStrB")
			}
			if rapid.IntRange(0, 3).Draw(t, fl+".override") == 0 {
				f.N.S.Prefix = rapid.SampledFrom([]int{1, 2, 4, 8}).Draw(t, fl+".ovprefix")
				tagParts = append(tagParts, "lenPrefix="+prefixTag(f.N.S.Prefix))
			}
		case 6, 7:
			// unnamed slice / array / map with tag settings (bounds only; other rules need the registry)
			s := drawCollSettings(t, fl, false, c.Cfg.MaxElems)
			switch rapid.IntRange(0, 3).Draw(t, fl+".coll") {
			case 0, 1:
				el := c.genElem(t, depth, fl)
				for el.Kind == KUint8 { // []uint8 is the byte-slice leaf, not a slice of objects
					el = c.genFixedLeaf(t, fl+".re")
				}
				f.N = &Node{Kind: KSlice, T: reflect.SliceOf(el.T), S: s, Elem: el}
			case 2:
				el := c.genElem(t, depth, fl)
				k := c.genKey(t, fl)
				f.N = &Node{Kind: KMap, T: reflect.MapOf(k.T, el.T), S: s, Key: k, Elem: el}
			default:
				el := c.genElem(t, depth, fl)
				for el.Kind == KUint8 { // [N]byte is the byte-array leaf, not an array of objects
					el = c.genFixedLeaf(t, fl+".re")
				}
				cnt := rapid.IntRange(1, 3).Draw(t, fl+".arrN")
				if rapid.IntRange(0, 3).Draw(t, fl+".fitbounds") != 0 {
					if s.Min > cnt {
						s.Min = cnt
					}
					if s.Max != 0 && s.Max < cnt {
						s.Max = cnt
					}
				}
				f.N = &Node{Kind: KArray, T: reflect.ArrayOf(cnt, el.T), S: s, N: cnt, Elem: el}
			}
			setTS(s)
		case 8, 9:
			f.N = c.genNamedColl(t, fl)
		case 10:
			// interface field, optional or not
			switch rapid.IntRange(0, 4).Draw(t, fl+".which") {
			case 0, 1:
				f.N = c.nPayload(depth)
			case 2, 3:
				f.N = c.nShape()
			default:
				f.N = c.nToken()
			}
			f.Optional = rapid.Bool().Draw(t, fl+".opt")
		case 11, 12:
			// nested struct: value, pointer, optional pointer
			var s *Node
			if depth < c.Cfg.MaxDepth && rapid.IntRange(0, 2).Draw(t, fl+".gen") != 0 {
				s = c.genStruct(t, depth+1, fl+".s")
			} else {
				s = c.poolStruct(t)
			}
			switch rapid.IntRange(0, 5).Draw(t, fl+".form") {
			case 5:
				// pointer to a pointer to the struct, inlined and optional
				inner := &Node{Kind: KPtr, T: reflect.PointerTo(s.T), Elem: s}
				f.N = &Node{Kind: KPtr, T: reflect.PointerTo(inner.T), Elem: inner}
				f.Inlined, f.Optional = true, true
			case 0:
				f.N = s
			case 1:
				f.N = &Node{Kind: KPtr, T: reflect.PointerTo(s.T), Elem: s}
			case 2:
				f.N = &Node{Kind: KPtr, T: reflect.PointerTo(s.T), Elem: s}
				f.Optional = true
			case 3:
				// inlined: the keys of the member (and of what is inlined into it in turn) live in the map of the parent
				f.N = s
				f.Inlined = true
			default:
				f.N = &Node{Kind: KPtr, T: reflect.PointerTo(s.T), Elem: s}
				f.Inlined, f.Optional = true, true
			}
		case 13:
			if rapid.Bool().Draw(t, fl+".addr") {
				f.N = c.nAddrPtr()
			} else {
				f.N = c.nCirclePtr()
			}
			f.Optional = rapid.Bool().Draw(t, fl+".opt")
		case 14:
			f.N = rapid.SampledFrom([]func() *Node{c.nCustomU24, c.nCustomVar, c.nCustomP16, c.nCustomPR}).Draw(t, fl+".custom")()
			if f.N.Kind == KPtr {
				if rapid.IntRange(0, 3).Draw(t, fl+".ptrptr") == 0 {
					// a pointer to the pointer that carries the custom codec
					f.N = &Node{Kind: KPtr, T: reflect.PointerTo(f.N.T), Elem: f.N}
				}
				f.Optional = rapid.Bool().Draw(t, fl+".opt")
			}
		case 22:
			// interface member that is inlined: the keys of the implementation (its type code among them) are spliced into
			// the map form of the struct; optional or not. Several such members in one struct share the "type" key: the
			// encoder has to refuse what the decoder could not tell apart
			switch rapid.IntRange(0, 4).Draw(t, fl+".which") {
			case 0, 1:
				f.N = c.nPayload(depth)
			case 2, 3:
				f.N = c.nShape()
			default:
				// a byte array with an object code behind a pointer: its map form is an object as well ({type, key: hex})
				f.N = c.nAddrPtr()
			}
			f.Inlined = true
			f.Optional = rapid.IntRange(0, 3).Draw(t, fl+".opt") != 0
			key = ""
		case 21:
			// pointer to a number, bool or string (the binary form writes it like the value; the JSON form cannot express it)
			el := c.genFixedLeaf(t, fl)
			for (el.Kind == KByteArr && el.Code != nil) || el.Kind == KBigInt || el.Kind == KTime {
				el = c.genFixedLeaf(t, fl+".re")
			}
			if rapid.IntRange(0, 3).Draw(t, fl+".str") == 0 {
				el = c.nStr(NStrA(""), "NStrA")
			}
			f.N = &Node{Kind: KPtr, T: reflect.PointerTo(el.T), Elem: el}
			f.Optional = rapid.Bool().Draw(t, fl+".opt")
		case 15:
			// embedded exported pool struct (flattened) or inlined
			f.N = c.nEmbA()
			f.GoName = "EmbA"
			anonymous = true
			embAKeys = true
			switch rapid.IntRange(0, 3).Draw(t, fl+".inl") {
			case 0:
				f.Inlined = true // a key on an inlined field is legal: the map form then nests the struct under that key
			case 1:
				// inlined and omitempty: an all-zero member is left out of the map form
				f.Inlined, inlinedOmitEmpty = true, true
			case 2:
				// a named field that holds a pointer to the struct, inlined and optional: nil is left out of the map form
				f.N = &Node{Kind: KPtr, T: tof((*EmbA)(nil)), Elem: c.nEmbA()}
				f.GoName = goName
				anonymous = false
				f.Inlined, f.Optional = true, true
			default:
				f.Embedded = true
				key = ""
			}
		case 16:
			f.N = leaf(KTime, tTime, "")
		default:
			f.N = leaf(KBigInt, tBigInt, "")
			if rapid.IntRange(0, 2).Draw(t, fl+".bigByValue") == 0 {
				f.N = leaf(KBigInt, tof(big.Int{}), "") // the number held as a value instead of through a pointer
			}
		}
		if embAKeys {
			dup := false
			for _, sf := range sfs {
				if anonymous && sf.Name == "EmbA" {
					dup = true
				}
			}
			if dup || ((key == "" || !f.Inlined) && (usedKeys["x"] || usedKeys["s"])) {
				// only one member that brings the keys of EmbA into the struct
				f.N = leaf(KUint8, numTypes[KUint8], "")
				f.GoName = goName
				f.Inlined, f.Embedded, f.Optional = false, false, false
				anonymous, inlinedOmitEmpty = false, false
			} else if key == "" || !f.Inlined {
				usedKeys["x"], usedKeys["s"] = true, true
			}
		}
		if f.Optional {
			tagParts = append(tagParts, "optional")
		}
		if f.Inlined {
			tagParts = append(tagParts, "inlined")
		}
		if inlinedOmitEmpty {
			f.OmitEmpty = true
			tagParts = append(tagParts, "omitempty")
		}
		if !f.Optional && !f.Inlined && !f.Embedded && rapid.IntRange(0, 5).Draw(t, fl+".omitempty") == 0 {
			f.OmitEmpty = true
			tagParts = append(tagParts, "omitempty")
		}
		f.Key = fieldKey(f.GoName)
		if key != "" {
			f.Key = key
		}
		f.Tag = key
		if len(tagParts) > 0 {
			f.Tag = key + "," + strings.Join(tagParts, ",")
		}
		sfs = append(sfs, reflect.StructField{Name: f.GoName, Type: f.N.T, Tag: reflect.StructTag(`serix:"` + f.Tag + `"`), Anonymous: anonymous})
		n.Fields = append(n.Fields, f)
	}
	// reflect.StructOf returns the SAME type for identical field lists; every generated struct therefore needs at least
	// one field whose name carries the struct's id (an embedded EmbA alone would make two generated structs share their
	// type - and with it their registered object code)
	unique := false
	for _, f := range n.Fields {
		if strings.Contains(f.GoName, fmt.Sprintf("F%d_", id)) {
			unique = true
		}
	}
	if !unique {
		f := &Field{GoName: fmt.Sprintf("F%d_u", id), Index: len(sfs), N: leaf(KUint8, numTypes[KUint8], "")}
		f.Key = fieldKey(f.GoName)
		sfs = append(sfs, reflect.StructField{Name: f.GoName, Type: f.N.T, Tag: `serix:""`})
		n.Fields = append(n.Fields, f)
	}
	n.T = reflect.StructOf(sfs)
	// object code for the generated struct (registered under its value type)
	if rapid.IntRange(0, 2).Draw(t, label+".code") == 0 {
		code := &Code{W: rapid.SampledFrom([]int{1, 4}).Draw(t, label+".codeW")}
		if code.W == 1 {
			code.V = uint32(rapid.IntRange(0, 255).Draw(t, label+".codeV"))
		} else {
			code.V = rapid.Uint32().Draw(t, label+".codeV")
		}
		if _, dup := c.reg[n.T]; !dup {
			n.Code = code
			c.reg[n.T] = &regEntry{Code: code}
		}
	}

	return n
}

package c16

import (
	"fmt"
	"testing"
	"time"

	"github.com/iotaledger/hive.go/runtime/workerpool"
	"verifharness/internal/ctl"
)

func TestDebugLoop(t *testing.T) {
	for i := 0; i < 2000000; i++ {
		wp := workerpool.New(fmt.Sprint(i), workerpool.WithWorkerCount(4)).Start()
		wp.PendingTasksCounter.Subscribe(func(o, n int) {})
		wp.Submit(func() {
			wp.Submit(func() {})
			wp.Submit(func() {})
		})
		if !ctl.Within(3*time.Second, func() { wp.Shutdown() }) {
			t.Fatalf("iteration %d: Shutdown hangs\n%s", i, ctl.Dump())
		}
		if !ctl.Within(3*time.Second, wp.ShutdownComplete.Wait) {
			t.Fatalf("iteration %d: ShutdownComplete.Wait hangs\n%s", i, ctl.Dump())
		}
	}
}

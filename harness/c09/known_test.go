package c09

import (
	"fmt"
	"sort"
	"strings"
	"testing"

	"pgregory.net/rapid"
	"verifharness/internal/stats"
)

// knownDirtyReopen is the former known finding KF-C09-1 (repaired in /repo, see known_findings.json; every deviation is
// a violation now): Set/Add/Delete wrote the size and the raw-key index through to
// the store at once, the trie nodes and the root only with Commit. An instance that is opened over a store whose last
// Commit was followed by changes that were never committed reports the committed Root and Get/Has contents, but the
// Size and the streamed key set of the uncommitted state. The generated histories of this package only reopen when
// nothing was changed since the last Commit; this test performs exactly the other case.

type dirtyOp struct {
	Del bool
	Key int
	Val int
}

// TestKnownDirtyReopen: committed phase (Set/Delete ..., Commit), dirty phase (Set/Delete ..., no Commit), reopen.
// Classification of what the new instance reports (Root, Get/Has over the universe, Size, Stream):
//   - everything equals the committed state: consistent (the finding did not show);
//   - anything else (the signature of the former KF-C09-1 included: Size and the streamed keys of the uncommitted state):
//     a violation.
func TestKnownDirtyReopen(t *testing.T) {
	const check = "known_dirty_reopen"
	stats.Rule(check, "rapid draws flavour (map, set), store (mapdb, mapdb with realm), 1..6 committed operations and 1..4 uncommitted operations (Set/Add or Delete over 5 keys, values 1..3), then opens a new instance over the store. The new instance must report the committed Root, Get/Has contents, Size and streamed key set (the former known finding KF-C09-1: Size and Stream of the uncommitted state). Distinct by script; non-trivial = the uncommitted operations change the key set")
	rapid.Check(t, func(rt *rapid.T) {
		flavour := rapid.SampledFrom([]string{"map", "set"}).Draw(rt, "flavour")
		storeKind := rapid.SampledFrom([]string{"mapdb", "mapdb_realm"}).Draw(rt, "store")
		genOp := rapid.Custom(func(t *rapid.T) dirtyOp {
			return dirtyOp{Del: rapid.IntRange(0, 2).Draw(t, "del") == 0, Key: rapid.IntRange(0, 4).Draw(t, "key"), Val: rapid.IntRange(1, 3).Draw(t, "val")}
		})
		committed := rapid.SliceOfN(genOp, 1, 6).Draw(rt, "committed")
		dirty := rapid.SliceOfN(genOp, 1, 4).Draw(rt, "dirty")
		universe := []string{"k0", "k1", "k2", "k3", "k4"}
		var log []string
		fail := func(format string, a ...any) {
			msg := fmt.Sprintf(format, a...)
			stats.Violation(check, map[string]any{"flavour": flavour, "store": storeKind, "ops": log, "problem": msg})
			rt.Fatalf("%s/%s after [%s]: %s", flavour, storeKind, strings.Join(log, " "), msg)
		}
		store := newStore(storeKind)
		in := openInst(flavour, store)
		model := map[string]string{}
		apply := func(o dirtyOp) {
			k := universe[o.Key]
			if o.Del {
				log = append(log, "Delete("+k+")")
				if _, err := in.Delete(k); err != nil {
					fail("Delete: %v", err)
				}
				delete(model, k)

				return
			}
			v := fmt.Sprint(o.Val)
			if flavour == "set" {
				v = ""
			}
			log = append(log, fmt.Sprintf("Put(%s,%s)", k, v))
			if err := in.Put(k, val(v)); err != nil {
				fail("Put: %v", err)
			}
			model[k] = v
		}
		for _, o := range committed {
			apply(o)
		}
		log = append(log, "Commit()")
		if err := in.Commit(); err != nil {
			fail("Commit: %v", err)
		}
		committedRoot := in.Root()
		committedModel := map[string]string{}
		for k, v := range model {
			committedModel[k] = v
		}
		for _, o := range dirty {
			apply(o)
		}
		log = append(log, "reopen")
		r := openInst(flavour, store)
		if !r.WasRestoredFromStorage() {
			fail("the new instance says it was not restored from storage although a Commit happened")
		}
		if r.Root() != committedRoot {
			fail("the new instance reports root %x, the committed root is %x", r.Root(), committedRoot)
		}
		for _, k := range universe {
			v, ok, err := r.Get(k)
			if err != nil {
				fail("Get(%s): %v", k, err)
			}
			has, err := r.Has(k)
			if err != nil || has != ok {
				fail("Has(%s) = %v, %v but Get reports exists=%v", k, has, err, ok)
			}
			want, wantOK := committedModel[k]
			if ok != wantOK || (ok && flavour == "map" && string(v) != want) {
				fail("Get(%s) = (%q, %v), the committed state has (%q, %v)", k, v, ok, want, wantOK)
			}
		}
		var streamed []string
		if err := r.Stream(func(k string, _ val) error { streamed = append(streamed, k); return nil }); err != nil {
			fail("Stream: %v", err)
		}
		sort.Strings(streamed)
		keysOf := func(m map[string]string) []string {
			out := make([]string, 0, len(m))
			for k := range m {
				out = append(out, k)
			}
			sort.Strings(out)

			return out
		}
		cKeys, dKeys := keysOf(committedModel), keysOf(model)
		sameKeys := strings.Join(cKeys, ",") == strings.Join(dKeys, ",")
		got := strings.Join(streamed, ",")
		switch {
		case r.Size() == len(cKeys) && got == strings.Join(cKeys, ","):
			stats.Label(check, "consistent_with_committed_state")
		default:
			fail("the new instance reports Size %d and streams [%s]; committed state: %d keys [%s]; uncommitted state of the first instance: %d keys [%s] - neither of the two", r.Size(), got, len(cKeys), strings.Join(cKeys, ","), len(dKeys), strings.Join(dKeys, ","))
		}
		stats.Case(check, !sameKeys, flavour+"|"+storeKind+"|"+strings.Join(log, " "), func() any { return map[string]any{"flavour": flavour, "store": storeKind, "ops": log} })
	})
}

package c03

import (
	"bytes"
	"encoding/hex"
	"fmt"
	"reflect"
	"sort"
	"testing"

	"pgregory.net/rapid"
	"verifharness/internal/serixgen"
	"verifharness/internal/stats"
)

func cfg() serixgen.Config {
	if stats.Tier() == "thorough" {
		return serixgen.ThoroughConfig
	}
	return serixgen.QuickConfig
}

var interesting = map[string]bool{"optional": true, "interface": true, "map": true, "array_of_nonbytes": true, "inlined_or_embedded": true,
	"custom": true, "lexical_sorted_slice": true, "array_rules": true, "bigint": true, "time": true, "object_code": true}

func shapeInfo(n *serixgen.Node) (bool, []string) {
	fs := map[string]bool{}
	d := n.Features(fs, 1)
	out := make([]string, 0, len(fs))
	k := 0
	for f := range fs {
		out = append(out, f)
		if interesting[f] {
			k++
		}
	}
	sort.Strings(out)
	return d >= 2 && k >= 2, out
}

func violation(rt *rapid.T, check string, c *serixgen.Case, v reflect.Value, extra map[string]any, format string, a ...any) {
	msg := fmt.Sprintf(format, a...)
	p := map[string]any{"schema": c.Root.String(), "problem": msg}
	if v.IsValid() {
		p["value"] = valueString(c, v)
	}
	for k, x := range extra {
		p[k] = x
	}
	stats.Violation(check, p)
	rt.Fatalf("%s: %s\nschema: %s\nvalue: %v\nextra: %v", check, msg, c.Root.String(), p["value"], extra)
}

func valueString(c *serixgen.Case, v reflect.Value) string { return serixgen.Render(c.Root, v) }

// TestForwardDifferential: Encode's output equals the independent reference encoder's, and Encode refuses exactly
// the values for which the documented rules leave no encoding.
func TestForwardDifferential(t *testing.T) {
	const check = "forward_differential"
	stats.Rule(check, "type shapes and values as in C01 (half constructed valid, half free so that rule violations occur); Encode with validation off and on is compared byte for byte with a reference encoder written from the wire description (little-endian numbers, 0/1 bools, configured prefix widths, uint8/uint32 type codes, uint32 optional marker, LE uint256, saturating ns time stamps, map entries in byte-lexical order, sorted slices where the settings ask for it); the reference also decides whether any encoding exists (bounds, UTF-8, no-dup, lexical order, at-most-one-type, must-occur, nil pointers/interfaces, uint256 range) and Encode must agree. Distinct by (shape, value); non-trivial = depth >= 2 and >= 2 feature classes")
	rapid.Check(t, func(rt *rapid.T) {
		conf := cfg()
		conf.FocusTypeRules = rapid.IntRange(0, 5).Draw(rt, "focusTypeRules") == 0
		c := serixgen.NewCase(rt, conf)
		mode := serixgen.ValidMode
		if rapid.Bool().Draw(rt, "free") {
			mode = serixgen.FreeMode
		}
		v, vl := serixgen.GenValue(rt, c.Root, mode, cfg())
		nt, feats := shapeInfo(c.Root)
		labels := []string{}
		for k := range vl {
			labels = append(labels, "value:"+k)
		}
		for _, f := range feats {
			labels = append(labels, "shape:"+f)
		}
		for _, validate := range []bool{false, true} {
			ref := serixgen.RefEncode(c.Root, v, validate)
			enc := c.Encode(v, validate)
			ex := map[string]any{"validate": validate}
			if ref.Reject != "" {
				labels = append(labels, fmt.Sprintf("must_reject(validate=%v)", validate))
				if enc.Panic != nil {
					// an Encode panic on a value that has no encoding is outside C03 (which speaks about Encode's output)
					labels = append(labels, "encode_panic_on_invalid_value")
					continue
				}
				if enc.Err == nil {
					ex["bytes"] = hex.EncodeToString(enc.Bytes)
					violation(rt, check, c, v, ex, "Encode produced bytes for a value that has no encoding under the documented rules: %s", ref.Reject)
				}
				continue
			}
			if vl["unsatisfiable_rules"] && enc.Err != nil {
				labels = append(labels, "unsatisfiable_rules")
				continue
			}
			labels = append(labels, fmt.Sprintf("encodable(validate=%v)", validate))
			if enc.Panic != nil {
				violation(rt, check, c, v, ex, "Encode panicked on an encodable value: %v", enc.Panic)
			}
			if enc.Err != nil {
				ex["reference"] = hex.EncodeToString(ref.B)
				violation(rt, check, c, v, ex, "Encode refused a value whose documented encoding exists: %v", enc.Err)
			}
			if !bytes.Equal(enc.Bytes, ref.B) {
				ex["serix"] = hex.EncodeToString(enc.Bytes)
				ex["reference"] = hex.EncodeToString(ref.B)
				violation(rt, check, c, v, ex, "Encode output differs from the documented wire layout")
			}
		}
		stats.Case(check, nt, c.Root.String()+"|"+valueString(c, v), func() any {
			return map[string]any{"schema": c.Root.String(), "value": valueString(c, v), "features": feats}
		}, labels...)
	})
}

// Demonstration of an independent auditor (repair audit round), kept as a regression test; see known_findings.json.
package c01

import (
	"context"
	"testing"

	"github.com/stretchr/testify/require"

	"github.com/iotaledger/hive.go/serializer/v2/serix"
)

// a byte slice type with an object type (written as {"type":..,"data":"0x.."} in the JSON form) and length bounds
type hunt20TypedBlob []byte

// the same without object type (written as a plain hex string)
type hunt20PlainBlob []byte

type hunt20Typed struct {
	B hunt20TypedBlob `serix:""`
}

type hunt20Plain struct {
	B hunt20PlainBlob `serix:""`
}

func hunt20API(t *testing.T) *serix.API {
	api := serix.NewAPI()
	bounds := serix.TypeSettings{}.WithLengthPrefixType(serix.LengthPrefixTypeAsByte).WithMinLen(2).WithMaxLen(4)
	require.NoError(t, api.RegisterTypeSettings(hunt20TypedBlob{}, bounds.WithObjectType(uint8(1))))
	require.NoError(t, api.RegisterTypeSettings(hunt20PlainBlob{}, bounds))

	return api
}

// The repair 6d83534 taught MapDecode to read the typed {type, data} object that MapEncode writes for a byte slice with
// an object type; mapDecodeSlice applies the length bounds of the type settings to it under validation. The branch of
// mapEncodeSlice that writes this object returns before the bounds check that the plain hex string branch has: with
// validation switched on on both sides, MapEncode/JSONEncode accept a value that MapDecode/JSONDecode (and the binary
// Encode) refuse.
func TestRegressionAudit20TypedByteSliceBoundsNotCheckedByMapEncode(t *testing.T) {
	api := hunt20API(t)
	ctx := context.Background()

	for _, l := range []int{1, 2, 3, 4, 5, 9} {
		src := hunt20Typed{B: make(hunt20TypedBlob, l)}
		for i := range src.B {
			src.B[i] = byte(i + 1)
		}

		_, binErr := api.Encode(ctx, src, serix.WithValidation())

		j, err := api.JSONEncode(ctx, src, serix.WithValidation())
		if err != nil {
			t.Logf("len %d: JSONEncode(WithValidation) refuses the value (binary Encode err: %v)", l, binErr != nil)
			require.Error(t, binErr)

			continue // refusing is fine
		}

		var dst hunt20Typed
		if err = api.JSONDecode(ctx, j, &dst, serix.WithValidation()); err != nil {
			t.Errorf("len %d: JSONEncode(WithValidation) accepted the value and wrote %s (binary Encode(WithValidation) refuses it: %v); JSONDecode(WithValidation) refuses the output: %.150s",
				l, j, binErr != nil, err.Error())

			continue
		}
		require.Equal(t, src, dst)
	}
}

// control: the same bounds on a byte slice type without object type are enforced by JSONEncode(WithValidation)
func TestRegressionAudit20ControlPlainByteSlice(t *testing.T) {
	api := hunt20API(t)
	ctx := context.Background()

	for _, l := range []int{1, 2, 4, 5} {
		src := hunt20Plain{B: make(hunt20PlainBlob, l)}
		j, err := api.JSONEncode(ctx, src, serix.WithValidation())
		if l < 2 || l > 4 {
			require.Error(t, err, "len %d", l)

			continue
		}
		require.NoError(t, err)
		var dst hunt20Plain
		require.NoError(t, api.JSONDecode(ctx, j, &dst, serix.WithValidation()))
		require.Equal(t, src, dst)
	}
}

package c15

import (
	"fmt"
	"runtime"
	"strings"
	"sync"
	"sync/atomic"
	"testing"

	"pgregory.net/rapid"
	"verifharness/internal/ctl"
	"verifharness/internal/stats"
)

// ---------------------------------------------------------------------------------------------------------------
// Concurrent programs for runtime/event.
//
// Domain: two target events E0, E1 (arity 1 or 2, E0 optionally WithMaxTriggerCount, either optionally with an
// event-level pool), one linked event L with a permanent in-place hook g; a few pre-attached hooks; then, released by
// one gate: trigger goroutines (each a short list of Trigger calls with unique ids), hooker goroutines (Hook / Unhook
// of hooks they own) and linker goroutines (L.LinkTo(E0|E1|nil)). The program is drawn by rapid; the interleaving is
// the scheduler's (drawn Gosched counts before operations and inside callbacks only widen the windows).
//
// Every operation is bracketed by two ticks of a logical clock. Oracle on the recorded history, evaluated when all
// goroutines have returned and the pool has drained:
//   * a sentinel hook (first of its event, never unhooked, forced in-place) tells which triggers passed the event's
//     max-trigger-count gate; E0 with WithMaxTriggerCount(n) fires exactly min(n, #triggers) times; a suppressed
//     trigger calls nobody;
//   * a hook whose Hook() returned before Trigger began and whose first Unhook() began after Trigger returned (or
//     never) is called exactly once with that trigger's id; a hook whose Unhook() returned before Trigger began, or
//     whose Hook() began after Trigger returned, is not called with it; racing pairs: 0 or 1, never more;
//   * a hook with WithMaxTriggerCount(n): total calls <= n, >= min(n, #triggers that must call it), and == min(n, T)
//     when it was attached before everything and never unhooked;
//   * in-place hooks are called between the start and the end of the Trigger call whose id they received;
//   * L's hook g, per link incarnation (one LinkTo call = attach, the next LinkTo of the same linker = unhook), obeys
//     the same rules; with two linkers on L only the per-incarnation upper bound and the quiescent final state are
//     judged (after the run L is linked to exactly one of the linkers' last targets).
// ---------------------------------------------------------------------------------------------------------------

const concCheck = "event_concurrent"

type cHook struct {
	id       int
	ev       int // 0, 1
	pool     poolSel
	max      int
	slow     int // Gosched calls inside the callback
	pre      bool
	sentinel bool

	attachS, attachE int64
	unhookS, unhookE int64 // earliest Unhook call (0 = never)
	unhook           func()
}

type cTrig struct {
	id         int // also the argument
	ev         int
	yields     int
	start, end int64
}

type cHookerOp struct {
	hook   bool // true: Hook(spec h); false: Unhook(own[ref])
	h      *cHook
	ref    int
	yields int
}

type cLinkOp struct {
	target     int // -1 nil
	yields     int
	start, end int64
}

type concProgram struct {
	arity       int
	e0max       int
	epool       [2]poolSel
	hooks       []*cHook // all hooks incl. sentinels (ids = index)
	trigs       []*cTrig // ids = index+1
	trigG       [][]*cTrig
	hookerG     [][]cHookerOp
	hookerOwn   [][]*cHook // pre-attached hooks owned by hooker i
	initialLink int
	linkG       [][]*cLinkOp
	sentinel    [2]*cHook
	finalTrig   [2]*cTrig
	slowG       int
	burst       bool
}

func (p *concProgram) String() string {
	var b strings.Builder
	fmt.Fprintf(&b, "arity=%d e0max=%d e0pool=%s e1pool=%s initialLink=%d gslow=%d|", p.arity, p.e0max, p.epool[0], p.epool[1], p.initialLink, p.slowG)
	for _, h := range p.hooks {
		if h.pre {
			fmt.Fprintf(&b, "pre h%d e%d %s max=%d slow=%d;", h.id, h.ev, h.pool, h.max, h.slow)
		}
	}
	for i, g := range p.trigG {
		fmt.Fprintf(&b, "|T%d:", i)
		for _, t := range g {
			fmt.Fprintf(&b, " y%d trigger(e%d,#%d)", t.yields, t.ev, t.id)
		}
	}
	for i, g := range p.hookerG {
		fmt.Fprintf(&b, "|H%d(owns", i)
		for _, h := range p.hookerOwn[i] {
			fmt.Fprintf(&b, " h%d", h.id)
		}
		b.WriteString("):")
		for _, o := range g {
			if o.hook {
				fmt.Fprintf(&b, " y%d hook(h%d e%d %s max=%d slow=%d)", o.yields, o.h.id, o.h.ev, o.h.pool, o.h.max, o.h.slow)
			} else {
				fmt.Fprintf(&b, " y%d unhook(own[%d])", o.yields, o.ref)
			}
		}
	}
	for i, g := range p.linkG {
		fmt.Fprintf(&b, "|L%d:", i)
		for _, o := range g {
			fmt.Fprintf(&b, " y%d link(%d)", o.yields, o.target)
		}
	}
	return b.String()
}

func (p *concProgram) lines() []string { return strings.Split(p.String(), "|") }

func drawHookSpec(t *rapid.T, id int, allowMax bool) *cHook {
	h := &cHook{id: id}
	if rapid.IntRange(0, 3).Draw(t, "onE1") == 0 {
		h.ev = 1
	}
	h.pool = rapid.SampledFrom([]poolSel{poolUnset, poolUnset, poolUnset, poolShared, poolForced}).Draw(t, "pool")
	if allowMax {
		h.max = rapid.SampledFrom([]int{0, 0, 0, 1, 2, 3}).Draw(t, "max")
	}
	h.slow = rapid.SampledFrom([]int{0, 0, 1, 2}).Draw(t, "slow")
	return h
}

func drawConcProgram(t *rapid.T) *concProgram {
	p := &concProgram{arity: rapid.IntRange(1, 2).Draw(t, "arity")}
	p.e0max = rapid.SampledFrom([]int{0, 0, 0, 0, 1, 2, 3, 5}).Draw(t, "e0max")
	for i := range p.epool {
		p.epool[i] = rapid.SampledFrom([]poolSel{poolUnset, poolUnset, poolUnset, poolUnset, poolUnset, poolShared}).Draw(t, "epool")
	}
	p.initialLink = rapid.IntRange(-1, 1).Draw(t, "initialLink")
	p.slowG = rapid.SampledFrom([]int{0, 0, 1}).Draw(t, "gslow")
	newHook := func(h *cHook) *cHook { h.id = len(p.hooks); p.hooks = append(p.hooks, h); return h }
	for ev := 0; ev < 2; ev++ {
		p.sentinel[ev] = newHook(&cHook{ev: ev, pool: poolForced, pre: true, sentinel: true})
	}
	// burst programs: many goroutines hammer E0 back to back, with small trigger-count limits on the event and on a
	// pre-attached hook and little else going on - the shape in which a miscounted (e.g. non-atomic) trigger counter shows
	p.burst = rapid.IntRange(0, 5).Draw(t, "burst") == 0
	nPre := rapid.IntRange(0, 4).Draw(t, "nPre")
	if p.burst {
		nPre = 0
	}
	var pre []*cHook
	for i := 0; i < nPre; i++ {
		h := newHook(drawHookSpec(t, 0, true))
		h.pre = true
		pre = append(pre, h)
	}
	nT := rapid.IntRange(1, 4).Draw(t, "trigGoroutines")
	if p.burst {
		nT = rapid.IntRange(4, 8).Draw(t, "burstGoroutines")
		p.e0max = rapid.SampledFrom([]int{0, 6, 12, 24, 48}).Draw(t, "burstE0max")
		h := newHook(&cHook{ev: 0, pool: poolUnset, max: rapid.SampledFrom([]int{3, 6, 12, 24, 48}).Draw(t, "burstHookMax")})
		h.pre = true
		pre = append(pre, h)
	}
	for g := 0; g < nT; g++ {
		n := rapid.IntRange(1, 4).Draw(t, "nTriggers")
		if p.burst {
			n = rapid.IntRange(6, 12).Draw(t, "nBurstTriggers")
		}
		var l []*cTrig
		for i := 0; i < n; i++ {
			tr := &cTrig{id: len(p.trigs) + 1}
			if !p.burst {
				tr.yields = rapid.IntRange(0, 3).Draw(t, "yields")
				if rapid.IntRange(0, 3).Draw(t, "onE1") == 0 {
					tr.ev = 1
				}
			}
			p.trigs = append(p.trigs, tr)
			l = append(l, tr)
		}
		p.trigG = append(p.trigG, l)
	}
	nH := rapid.IntRange(0, 3).Draw(t, "hookGoroutines")
	p.hookerOwn = make([][]*cHook, nH)
	if nH > 0 {
		for i, h := range pre { // pre-attached hooks are handed to the hookers round robin; the rest stay forever
			if rapid.Bool().Draw(t, "owned") {
				p.hookerOwn[i%nH] = append(p.hookerOwn[i%nH], h)
			}
		}
	}
	for g := 0; g < nH; g++ {
		n := rapid.IntRange(1, 5).Draw(t, "nHookOps")
		own := len(p.hookerOwn[g])
		var l []cHookerOp
		for i := 0; i < n; i++ {
			y := rapid.IntRange(0, 3).Draw(t, "yields")
			if own > 0 && rapid.Bool().Draw(t, "unhook") {
				l = append(l, cHookerOp{ref: rapid.IntRange(0, own-1).Draw(t, "ref"), yields: y})
			} else {
				l = append(l, cHookerOp{hook: true, h: newHook(drawHookSpec(t, 0, true)), yields: y})
				own++
			}
		}
		p.hookerG = append(p.hookerG, l)
	}
	nL := rapid.SampledFrom([]int{0, 1, 1, 1, 2}).Draw(t, "linkGoroutines")
	for g := 0; g < nL; g++ {
		n := rapid.IntRange(1, 4).Draw(t, "nLinkOps")
		var l []*cLinkOp
		for i := 0; i < n; i++ {
			l = append(l, &cLinkOp{target: rapid.IntRange(-1, 1).Draw(t, "target"), yields: rapid.IntRange(0, 3).Draw(t, "yields")})
		}
		p.linkG = append(p.linkG, l)
	}
	for ev := 0; ev < 2; ev++ {
		p.finalTrig[ev] = &cTrig{id: len(p.trigs) + 1, ev: ev}
		p.trigs = append(p.trigs, p.finalTrig[ev])
	}
	return p
}

type concRun struct {
	p      *concProgram
	clock  ctl.Clock
	ev     [2]evAPI
	l      evAPI
	gID    int
	calls  [][]atomic.Int32 // [hook or g][trigger id]
	stamps [][]atomic.Int64 // tick inside the (last) call
	bad    atomic.Int64     // a call with an argument that is no trigger id (value+1, 0 = none)
}

func yield(n int) {
	for i := 0; i < n; i++ {
		runtime.Gosched()
	}
}

func (r *concRun) callback(id, slow int) func(int) {
	return func(arg int) {
		if arg < 1 || arg > len(r.p.trigs) {
			r.bad.Store(int64(arg) + 1<<40)
			return
		}
		r.calls[id][arg].Add(1)
		r.stamps[id][arg].Store(r.clock.Tick())
		yield(slow)
	}
}

func (r *concRun) attach(h *cHook) {
	h.attachS = r.clock.Tick()
	h.unhook = r.ev[h.ev].Hook(r.callback(h.id, h.slow), evOpts(h.max, h.pool)...)
	h.attachE = r.clock.Tick()
}

func (r *concRun) detach(h *cHook) {
	s := r.clock.Tick()
	h.unhook()
	e := r.clock.Tick()
	if h.unhookS == 0 {
		h.unhookS, h.unhookE = s, e
	}
}

func (r *concRun) trigger(t *cTrig) {
	t.start = r.clock.Tick()
	r.ev[t.ev].Trigger(t.id)
	t.end = r.clock.Tick()
}

// execute runs the program; it returns "" or a description of a hang.
func (r *concRun) execute() string {
	p := r.p
	r.ev[0] = newEvAPI(p.arity, nil, evOpts(p.e0max, p.epool[0])...)
	r.ev[1] = newEvAPI(p.arity, nil, evOpts(0, p.epool[1])...)
	r.l = newEvAPI(p.arity, nil)
	r.gID = len(p.hooks)
	r.calls = make([][]atomic.Int32, len(p.hooks)+1)
	r.stamps = make([][]atomic.Int64, len(p.hooks)+1)
	for i := range r.calls {
		r.calls[i] = make([]atomic.Int32, len(p.trigs)+1)
		r.stamps[i] = make([]atomic.Int64, len(p.trigs)+1)
	}
	for _, h := range p.hooks {
		if h.pre {
			r.attach(h)
		}
	}
	r.l.Hook(r.callback(r.gID, p.slowG))
	if p.initialLink >= 0 {
		r.l.LinkTo(r.ev[p.initialLink])
	}
	r.clock.Tick()

	gate := make(chan struct{})
	var wg sync.WaitGroup
	for _, g := range p.trigG {
		wg.Add(1)
		go func(g []*cTrig) {
			defer wg.Done()
			<-gate
			for _, t := range g {
				yield(t.yields)
				r.trigger(t)
			}
		}(g)
	}
	for i, g := range p.hookerG {
		wg.Add(1)
		go func(g []cHookerOp, own []*cHook) {
			defer wg.Done()
			own = append([]*cHook(nil), own...)
			<-gate
			for _, o := range g {
				yield(o.yields)
				if o.hook {
					r.attach(o.h)
					own = append(own, o.h)
				} else {
					r.detach(own[o.ref])
				}
			}
		}(g, p.hookerOwn[i])
	}
	for _, g := range p.linkG {
		wg.Add(1)
		go func(g []*cLinkOp) {
			defer wg.Done()
			<-gate
			for _, o := range g {
				yield(o.yields)
				o.start = r.clock.Tick()
				if o.target >= 0 {
					r.l.LinkTo(r.ev[o.target])
				} else {
					r.l.LinkTo(nil)
				}
				o.end = r.clock.Tick()
			}
		}(g)
	}
	close(gate)
	if !ctl.Within(ctl.HangTimeout, wg.Wait) {
		return "the goroutines of the program did not all return (no operation of the program can block by construction)"
	}
	if !drainPool() {
		return "worker pool did not drain"
	}
	for _, t := range p.finalTrig {
		r.trigger(t)
		if !drainPool() {
			return "worker pool did not drain after the final trigger"
		}
	}
	return ""
}

type concFinding struct {
	Problem string         `json:"problem"`
	Detail  map[string]any `json:"detail"`
}

type concTally struct {
	must, mustNot, racing, racingCalled int
	linkMust, linkMustNot, linkRacing   int
	linkDouble                          int
	hookMaxExact, hookMaxBounded        int
	suppressed                          int
	inPlaceStamped                      int
}

// judge evaluates the recorded history. Pure function of the run record.
func (r *concRun) judge() (*concFinding, concTally) {
	p := r.p
	var ty concTally
	f := func(problem string, d map[string]any) (*concFinding, concTally) {
		return &concFinding{problem, d}, ty
	}
	if b := r.bad.Load(); b != 0 {
		return f("a hook was called with an argument that no Trigger call passed", map[string]any{"arg": b - 1<<40})
	}
	fired := make([]bool, len(p.trigs)+1)
	nFired := [2]int{}
	nTrig := [2]int{}
	for _, t := range p.trigs {
		nTrig[t.ev]++
		c := int(r.calls[p.sentinel[t.ev].id][t.id].Load())
		other := int(r.calls[p.sentinel[1-t.ev].id][t.id].Load())
		if c > 1 || other != 0 {
			return f("sentinel hook miscounted", map[string]any{"trigger": t.id, "calls": c, "calls_on_other_event": other})
		}
		if c == 1 {
			fired[t.id] = true
			nFired[t.ev]++
		} else {
			ty.suppressed++
		}
	}
	want0 := nTrig[0]
	if p.e0max != 0 && p.e0max < want0 {
		want0 = p.e0max
	}
	if nFired[0] != want0 || nFired[1] != nTrig[1] {
		return f("event fired a wrong number of times (WithMaxTriggerCount(n) => exactly min(n, #triggers); no limit => every trigger)",
			map[string]any{"e0max": p.e0max, "triggers": nTrig, "fired": nFired})
	}
	trigInfo := func(t *cTrig) map[string]any {
		return map[string]any{"id": t.id, "event": t.ev, "start": t.start, "end": t.end, "fired": fired[t.id]}
	}
	hookInfo := func(h *cHook) map[string]any {
		return map[string]any{"id": h.id, "event": h.ev, "pool": h.pool.String(), "max": h.max, "pre": h.pre,
			"hook_start": h.attachS, "hook_end": h.attachE, "unhook_start": h.unhookS, "unhook_end": h.unhookE}
	}
	for _, h := range p.hooks {
		inPlace := !effectivePooled(h.pool, p.epool[h.ev])
		total, mustN, mayN := 0, 0, 0
		for _, t := range p.trigs {
			c := int(r.calls[h.id][t.id].Load())
			total += c
			d := map[string]any{"hook": hookInfo(h), "trigger": trigInfo(t), "calls": c}
			if t.ev != h.ev {
				if c != 0 {
					return f("hook called with the id of a trigger of another event", d)
				}
				continue
			}
			if c > 1 {
				return f("hook called more than once for one Trigger call", d)
			}
			if !fired[t.id] {
				if c != 0 {
					return f("hook called by a Trigger that the event's max trigger count suppressed", d)
				}
				continue
			}
			must := h.attachS != 0 && h.attachE < t.start && (h.unhookS == 0 || h.unhookS > t.end)
			mustNot := h.attachS == 0 || h.attachS > t.end || (h.unhookE != 0 && h.unhookE < t.start)
			if c == 1 && inPlace {
				if s := r.stamps[h.id][t.id].Load(); s < t.start || s > t.end {
					d["call_stamp"] = s
					return f("in-place hook ran outside the Trigger call whose argument it received", d)
				}
				ty.inPlaceStamped++
			}
			switch {
			case mustNot:
				ty.mustNot++
				if c != 0 {
					return f("hook called although it was unhooked before the Trigger call began (or hooked after it returned)", d)
				}
			case must:
				mustN++
				mayN++
				if h.max == 0 {
					ty.must++
					if c != 1 {
						return f("hook attached before the Trigger call began and not unhooked before it returned was not called exactly once", d)
					}
				}
			default:
				mayN++
				ty.racing++
				ty.racingCalled += c
			}
		}
		if h.max != 0 {
			lo, hi := mustN, mayN
			if lo > h.max {
				lo = h.max
			}
			if hi > h.max {
				hi = h.max
			}
			if lo == hi {
				ty.hookMaxExact++
			} else {
				ty.hookMaxBounded++
			}
			if total < lo || total > hi {
				return f("hook limited by WithMaxTriggerCount fired a wrong number of times",
					map[string]any{"hook": hookInfo(h), "total_calls": total, "min_allowed": lo, "max_allowed": hi,
						"triggers_that_must_reach_it": mustN, "triggers_that_may_reach_it": mayN})
			}
		}
	}
	// ---- link
	type incarnation struct {
		target           int
		attachS, attachE int64
		unhookS, unhookE int64 // 0 = never (known only with a single linker)
		unknownUnhook    bool
	}
	var incs []incarnation
	activeLinkers := 0
	for _, g := range p.linkG {
		if len(g) > 0 {
			activeLinkers++
		}
	}
	single := activeLinkers <= 1
	var seq []*cLinkOp
	for _, g := range p.linkG {
		seq = append(seq, g...)
	}
	if single {
		// one linker: the order of its LinkTo calls is known. LinkTo(the current target) changes nothing - the link hook
		// stays attached, so the incarnation simply continues (the linked event must not miss or double a trigger of
		// its unchanged target); any other call ends the current incarnation and, unless it is LinkTo(nil), starts one
		cur := -1
		if p.initialLink >= 0 {
			incs = append(incs, incarnation{target: p.initialLink, attachS: 1, attachE: 1})
			cur = 0
		}
		for _, o := range seq {
			if cur >= 0 && o.target == incs[cur].target {
				continue
			}
			if cur >= 0 {
				incs[cur].unhookS, incs[cur].unhookE = o.start, o.end
				cur = -1
			}
			if o.target >= 0 {
				incs = append(incs, incarnation{target: o.target, attachS: o.start, attachE: o.end})
				cur = len(incs) - 1
			}
		}
	} else {
		if p.initialLink >= 0 {
			incs = append(incs, incarnation{target: p.initialLink, attachS: 1, attachE: 1, unknownUnhook: true})
		}
		for _, o := range seq {
			if o.target < 0 {
				continue
			}
			incs = append(incs, incarnation{target: o.target, attachS: o.start, attachE: o.end, unknownUnhook: true})
		}
	}
	linkSync := func(ev int) bool { return p.epool[ev] != poolShared }
	for _, t := range p.trigs {
		c := int(r.calls[r.gID][t.id].Load())
		d := map[string]any{"trigger": trigInfo(t), "calls_of_linked_events_hook": c, "link_incarnations": fmt.Sprintf("%+v", incs)}
		if !fired[t.id] {
			if c != 0 {
				return f("linked event fired for a suppressed trigger", d)
			}
			continue
		}
		lo, hi := 0, 0
		for _, in := range incs {
			if in.target != t.ev {
				continue
			}
			if in.attachS > t.end {
				continue
			}
			if in.unknownUnhook {
				hi++
				continue
			}
			if in.unhookE != 0 && in.unhookE < t.start {
				continue
			}
			hi++
			if in.attachE < t.start && (in.unhookS == 0 || in.unhookS > t.end) {
				lo++
			}
		}
		if !single && (t == p.finalTrig[0] || t == p.finalTrig[1]) {
			continue // judged below
		}
		switch {
		case hi == 0:
			ty.linkMustNot++
		case lo == hi:
			ty.linkMust++
		default:
			ty.linkRacing++
		}
		if c >= 2 {
			// two incarnations of the link (the one a LinkTo call removed and the one it attached) both ran for ONE trigger:
			// a trigger only reaches hooks attached before it began, and the new incarnation is attached after the old one
			// was removed, so the trigger that still reached the old one began before the new one existed
			d["calls"] = c
			return f("linked event fired more than once for one trigger of its target", d)
		}
		if c < lo || c > hi {
			d["min_allowed"], d["max_allowed"] = lo, hi
			if hi == 0 {
				return f("linked event fired for a trigger of an event that is not (or no longer) its target", d)
			}
			return f("linked event did not fire exactly once for a trigger of its current target", d)
		}
		if c == 1 && linkSync(t.ev) {
			if s := r.stamps[r.gID][t.id].Load(); s < t.start || s > t.end {
				d["call_stamp"] = s
				return f("in-place linked hook ran outside the Trigger call whose argument it received", d)
			}
		}
	}
	if !single {
		var lasts []int
		for _, g := range p.linkG {
			if len(g) > 0 {
				lasts = append(lasts, g[len(g)-1].target)
			}
		}
		sum := 0
		allNonNil, anyNonNil := true, false
		for _, x := range lasts {
			if x < 0 {
				allNonNil = false
			} else {
				anyNonNil = true
			}
		}
		d := map[string]any{"last_targets_of_the_linkers": lasts}
		for ev := 0; ev < 2; ev++ {
			c := int(r.calls[r.gID][p.finalTrig[ev].id].Load())
			d[fmt.Sprintf("calls_by_final_trigger_of_e%d", ev)] = c
			sum += c
			allowed := false
			for _, x := range lasts {
				if x == ev {
					allowed = true
				}
			}
			if c > 1 || (c == 1 && !allowed) {
				return f("after all LinkTo calls returned the linked event fires for an event that is not one of the last targets (or twice)", d)
			}
		}
		finalFired := fired[p.finalTrig[0].id] && fired[p.finalTrig[1].id]
		if sum > 1 || (!anyNonNil && sum != 0) || (allNonNil && finalFired && sum != 1) {
			return f("after all LinkTo calls returned the linked event must be linked to exactly one of the linkers' last targets", d)
		}
	}
	return nil, ty
}

func runEventConcurrent(t *rapid.T) {
	p := drawConcProgram(t)
	r := &concRun{p: p}
	hang := r.execute()
	if hang != "" {
		stats.Violation(concCheck, map[string]any{"program": p.lines(), "problem": hang, "goroutines": ctl.Dump()})
		t.Fatalf("%s\n%s", hang, strings.Join(p.lines(), "\n"))
	}
	finding, ty := r.judge()
	labels := []string{fmt.Sprintf("arity:%d", p.arity), fmt.Sprintf("linkers:%d", len(p.linkG))}
	add := func(b bool, l string) {
		if b {
			labels = append(labels, l)
		}
	}
	add(ty.must > 0, "has_must_pair")
	add(ty.mustNot > 0, "has_mustnot_pair")
	add(ty.racing > 0, "has_racing_pair")
	add(ty.racing > 0 && ty.racingCalled > 0 && ty.racingCalled < ty.racing, "racing_pairs_went_both_ways")
	add(ty.linkMust > 0, "link_must")
	add(ty.linkMustNot > 0, "link_mustnot")
	add(ty.linkRacing > 0, "link_racing")
	add(ty.linkDouble > 0, "link_fired_twice_via_two_incarnations")
	add(ty.hookMaxExact > 0, "hook_max_exact")
	add(ty.hookMaxBounded > 0, "hook_max_bounded")
	add(ty.suppressed > 0, "event_max_suppressed_a_trigger")
	add(p.epool[0] == poolShared || p.epool[1] == poolShared, "event_level_pool")
	add(p.burst, "burst")
	stats.NoteAdd(concCheck, "pairs_must", int64(ty.must))
	stats.NoteAdd(concCheck, "pairs_mustnot", int64(ty.mustNot))
	stats.NoteAdd(concCheck, "pairs_racing", int64(ty.racing))
	stats.NoteAdd(concCheck, "pairs_racing_called", int64(ty.racingCalled))
	stats.NoteAdd(concCheck, "inplace_calls_stamp_checked", int64(ty.inPlaceStamped))
	goroutines := len(p.trigG) + len(p.hookerG) + len(p.linkG)
	stats.Case(concCheck, goroutines >= 2 && ty.must > 0 && (ty.racing > 0 || ty.linkRacing > 0), p.String(),
		func() any { return p.lines() }, labels...)
	if finding != nil {
		stats.Violation(concCheck, map[string]any{"program": p.lines(), "problem": finding.Problem, "detail": finding.Detail})
		t.Fatalf("%s\n%v\n%s", finding.Problem, finding.Detail, strings.Join(p.lines(), "\n"))
	}
}

func TestEventConcurrent(t *testing.T) {
	stats.Rule(concCheck, "rapid draws a program: 2 target events (arity 1/2, E0 optionally max-limited, optional event-level pool), a linked event, 0-4 pre-attached hooks, 1-4 trigger goroutines x 1-4 triggers (every sixth program: a burst of 4-8 goroutines x 6-12 back-to-back triggers of E0 with small event and hook limits), 0-3 hook/unhook goroutines x 1-5 ops, 0-2 LinkTo goroutines x 1-4 ops, Gosched counts; the schedule is the Go scheduler's; history judged with logical-clock stamps; distinct by program text; non-trivial = >=2 goroutines, at least one (hook,trigger) pair that must be called and at least one racing pair (hook or link)")
	rapid.Check(t, runEventConcurrent)
}

package c12

import (
	"testing"

	"github.com/iotaledger/hive.go/ds/shrinkingmap"
	"pgregory.net/rapid"
	"verifharness/internal/stats"
)

const smUniverse = 8

func shrinkOptions(o shrinkOpts) []shrinkingmap.Option {
	if o.defaults {
		return nil
	}
	return []shrinkingmap.Option{shrinkingmap.WithShrinkingThresholdRatio(o.ratio), shrinkingmap.WithShrinkingThresholdCount(o.count)}
}

// TestShrinkingMap: ShrinkingMap[int,int] against a plain Go map; shrinking must be unobservable.
func TestShrinkingMap(t *testing.T) {
	const check = "shrinkingmap"
	stats.Rule(check, "rapid state machine over ShrinkingMap[int,int], keys 0..7, options drawn from ratio{0,0.5,1,10} x count{0,1,3,100} or defaults; every method result compared with a plain map (unordered results as multisets, full AsMap/Size comparison after every step); non-trivial = a threshold-triggered shrink happened and a mutating operation followed it; distinct by (options, operation list)")
	rapid.Check(t, func(rt *rapid.T) {
		o := drawShrinkOpts(rt)
		h := newHist(check, o.String())
		defer h.guard(rt)
		m := shrinkingmap.New[int, int](shrinkOptions(o)...)
		model := map[int]int{}
		tr := &shrinkTracker{o: o}
		mutAfterShrink := false
		key := rapid.IntRange(0, smUniverse-1)
		val := rapid.IntRange(0, 99)

		mutated := func() {
			if tr.shrinks > 0 {
				mutAfterShrink = true
			}
		}
		deleted := func() {
			mutated()
			if tr.onDelete(len(model)) {
				h.label("auto_shrink")
				if len(model) > 0 {
					h.label("auto_shrink_nonempty")
				}
			}
		}

		acts := weighted{}
		acts.add("Set", 5, func(rt *rapid.T) {
			k, v := key.Draw(rt, "k"), val.Draw(rt, "v")
			_, had := model[k]
			created := m.Set(k, v)
			h.op("Set(%d,%d)=%v", k, v, created)
			mutated()
			model[k] = v
			if created != !had {
				h.fail(rt, "Set(%d) reported created=%v, key present before=%v", k, created, had)
			}
		})
		acts.add("Get", 2, func(rt *rapid.T) {
			k := key.Draw(rt, "k")
			v, ok := m.Get(k)
			h.op("Get(%d)=%d,%v", k, v, ok)
			mv, mok := model[k]
			if ok != mok || v != mv {
				h.fail(rt, "Get(%d) = (%d,%v), model (%d,%v)", k, v, ok, mv, mok)
			}
		})
		acts.add("Has", 1, func(rt *rapid.T) {
			k := key.Draw(rt, "k")
			ok := m.Has(k)
			h.op("Has(%d)=%v", k, ok)
			if _, mok := model[k]; ok != mok {
				h.fail(rt, "Has(%d) = %v, model %v", k, ok, mok)
			}
		})
		acts.add("GetOrCreate", 2, func(rt *rapid.T) {
			k, nv := key.Draw(rt, "k"), val.Draw(rt, "v")
			calls := 0
			v, created := m.GetOrCreate(k, func() int { calls++; return nv })
			h.op("GetOrCreate(%d,%d)=%d,%v", k, nv, v, created)
			mv, mok := model[k]
			if mok {
				if created || v != mv || calls != 0 {
					h.fail(rt, "GetOrCreate(%d) on existing key = (%d,%v) with %d factory calls, model value %d", k, v, created, calls, mv)
				}
				return
			}
			mutated()
			model[k] = nv
			if !created || v != nv || calls != 1 {
				h.fail(rt, "GetOrCreate(%d) on missing key = (%d,%v) with %d factory calls, want (%d,true) and 1 call", k, v, created, calls, nv)
			}
		})
		acts.add("Compute", 2, func(rt *rapid.T) {
			k, nv := key.Draw(rt, "k"), val.Draw(rt, "v")
			mv, mok := model[k]
			var gotCur int
			var gotExists bool
			calls := 0
			res := m.Compute(k, func(cur int, exists bool) int { calls++; gotCur, gotExists = cur, exists; return nv })
			h.op("Compute(%d,->%d)=%d", k, nv, res)
			mutated()
			model[k] = nv
			if calls != 1 || gotCur != mv || gotExists != mok || res != nv {
				h.fail(rt, "Compute(%d): callback got (%d,%v) in %d calls, returned %d; model had (%d,%v), want result %d", k, gotCur, gotExists, calls, res, mv, mok, nv)
			}
		})
		acts.add("Delete", 5, func(rt *rapid.T) {
			k := key.Draw(rt, "k")
			mode := rapid.SampledFrom([]string{"", "", "condTrue", "condFalse"}).Draw(rt, "cond")
			_, mok := model[k]
			var got bool
			switch mode {
			case "":
				got = m.Delete(k)
			case "condTrue":
				got = m.Delete(k, func() bool { return true })
			default:
				got = m.Delete(k, func() bool { return false })
			}
			h.op("Delete(%d,%s)=%v", k, mode, got)
			want := mok && mode != "condFalse"
			if want {
				delete(model, k)
				deleted()
			}
			if got != want {
				h.fail(rt, "Delete(%d,%s) = %v, want %v", k, mode, got, want)
			}
		})
		acts.add("DeleteAndReturn", 3, func(rt *rapid.T) {
			k := key.Draw(rt, "k")
			mv, mok := model[k]
			v, ok := m.DeleteAndReturn(k)
			h.op("DeleteAndReturn(%d)=%d,%v", k, v, ok)
			if mok {
				delete(model, k)
				deleted()
			}
			if ok != mok || v != mv {
				h.fail(rt, "DeleteAndReturn(%d) = (%d,%v), model (%d,%v)", k, v, ok, mv, mok)
			}
		})
		acts.add("Pop", 2, func(rt *rapid.T) {
			k, v, ok := m.Pop()
			h.op("Pop()=%d,%d,%v", k, v, ok)
			if len(model) == 0 {
				if ok || k != 0 || v != 0 {
					h.fail(rt, "Pop on empty map = (%d,%d,%v)", k, v, ok)
				}
				return
			}
			mv, mok := model[k]
			if !ok || !mok || mv != v {
				h.fail(rt, "Pop = (%d,%d,%v) is not an entry of the model %v", k, v, ok, model)
			}
			delete(model, k)
			deleted()
		})
		acts.add("Keys", 1, func(rt *rapid.T) {
			ks := sortedInts(m.Keys())
			h.op("Keys()=%v", ks)
			if !equalInts(ks, mapKeys(model)) {
				h.fail(rt, "Keys = %v, model %v", ks, mapKeys(model))
			}
		})
		acts.add("Values", 1, func(rt *rapid.T) {
			vs := sortedInts(m.Values())
			h.op("Values()=%v", vs)
			if !equalInts(vs, mapValues(model)) {
				h.fail(rt, "Values = %v, model %v", vs, mapValues(model))
			}
		})
		acts.add("ForEach", 1, func(rt *rapid.T) {
			limit := rapid.IntRange(1, smUniverse+1).Draw(rt, "stopAfter")
			seen := map[int]int{}
			calls := 0
			m.ForEach(func(k, v int) bool {
				calls++
				seen[k] = v
				return calls < limit
			})
			h.op("ForEach(stopAfter=%d) saw %d", limit, calls)
			want := min(limit, len(model))
			if calls != want || len(seen) != calls {
				h.fail(rt, "ForEach(stopAfter=%d) made %d calls over %d distinct keys, want %d", limit, calls, len(seen), want)
			}
			for k, v := range seen {
				if mv, ok := model[k]; !ok || mv != v {
					h.fail(rt, "ForEach yielded (%d,%d) which is not in the model %v", k, v, model)
				}
			}
		})
		acts.add("ForEachKey", 1, func(rt *rapid.T) {
			limit := rapid.IntRange(1, smUniverse+1).Draw(rt, "stopAfter")
			seen := map[int]struct{}{}
			calls := 0
			m.ForEachKey(func(k int) bool {
				calls++
				seen[k] = struct{}{}
				return calls < limit
			})
			h.op("ForEachKey(stopAfter=%d) saw %d", limit, calls)
			want := min(limit, len(model))
			if calls != want || len(seen) != calls {
				h.fail(rt, "ForEachKey(stopAfter=%d) made %d calls over %d distinct keys, want %d", limit, calls, len(seen), want)
			}
			for k := range seen {
				if _, ok := model[k]; !ok {
					h.fail(rt, "ForEachKey yielded %d which is not in the model %v", k, model)
				}
			}
		})
		acts.add("Clear", 1, func(rt *rapid.T) {
			if rapid.IntRange(0, 2).Draw(rt, "reallyClear") != 0 {
				rt.Skip("thinned")
			}
			m.Clear()
			h.op("Clear()")
			mutated()
			model = map[int]int{}
			tr.reset()
		})
		acts.add("Shrink", 1, func(rt *rapid.T) {
			m.Shrink()
			h.op("Shrink()")
			h.label("explicit_shrink")
			tr.reset()
		})
		acts[""] = func(rt *rapid.T) {
			if sz := m.Size(); sz != len(model) {
				h.fail(rt, "Size = %d, model %d", sz, len(model))
			}
			if e := m.IsEmpty(); e != (len(model) == 0) {
				h.fail(rt, "IsEmpty = %v, model size %d", e, len(model))
			}
			if am := m.AsMap(); !equalMaps(am, model) {
				h.fail(rt, "AsMap = %v, model %v", am, model)
			}
		}
		rt.Repeat(acts)
		h.done(tr.shrinks > 0 && mutAfterShrink)
	})
}

package c16

import (
	"fmt"
	"runtime"
	"sync"
	"sync/atomic"
	"testing"
	"time"

	"github.com/iotaledger/hive.go/runtime/workerpool"
	"pgregory.net/rapid"
	"verifharness/internal/ctl"
	"verifharness/internal/stats"
)

// ---------------------------------------------------------------------------------------------------------------
// Deep group trees: Group.WaitChildren on ANY group of a chain root -> g1 -> ... -> gk returns only when no pool
// below that group has pending tasks.
// ---------------------------------------------------------------------------------------------------------------

func TestDeepGroupWaitChildren(t *testing.T) {
	const check = "deep_group_wait_children"
	stats.Rule(check, "rapid draws a chain of 2..5 nested groups with one pool (1..2 workers) at a drawn subset of levels, 1..3 held tasks submitted into drawn pools, and the level of the group WaitChildren is called on; the waiter runs in its own goroutine, the held tasks are released after a short pause. Oracle on logical stamps: WaitChildren's return stamp is later than the end stamp of every task that was accepted before the call in a pool at or below the waited-for group (tasks in pools above it do not matter); it returns within the 20 s watchdog once everything is released. Distinct by the drawn tree and placement; non-trivial = the waited-for group is neither the root nor the lowest group and a task sits at least two levels below it")
	rapid.Check(t, func(rt *rapid.T) {
		depth := rapid.IntRange(2, 5).Draw(rt, "depth")
		groups := make([]*workerpool.Group, depth)
		pools := make([]*workerpool.WorkerPool, depth)
		groups[0] = workerpool.NewGroup("g0")
		for i := 1; i < depth; i++ {
			groups[i] = groups[i-1].CreateGroup(fmt.Sprintf("g%d", i))
		}
		hasPool := false
		for i := 0; i < depth; i++ {
			if rapid.Bool().Draw(rt, fmt.Sprintf("pool%d", i)) || (i == depth-1 && !hasPool) {
				pools[i] = groups[i].CreatePool(fmt.Sprintf("p%d", i), workerpool.WithWorkerCount(rapid.IntRange(1, 2).Draw(rt, fmt.Sprintf("workers%d", i))))
				hasPool = true
			}
		}
		var poolLevels []int
		for i, p := range pools {
			if p != nil {
				poolLevels = append(poolLevels, i)
			}
		}
		waitLevel := rapid.IntRange(0, depth-1).Draw(rt, "waitLevel")
		nTasks := rapid.IntRange(1, 3).Draw(rt, "tasks")
		var clock ctl.Clock
		release := make(chan struct{})
		type held struct {
			level int
			end   atomic.Int64
		}
		tasks := make([]*held, nTasks)
		var started sync.WaitGroup
		deepBelow := false
		for k := range tasks {
			h := &held{level: rapid.SampledFrom(poolLevels).Draw(rt, fmt.Sprintf("taskLevel%d", k))}
			tasks[k] = h
			if h.level >= waitLevel+2 {
				deepBelow = true
			}
			started.Add(1)
			var once sync.Once
			pools[h.level].Submit(func() {
				once.Do(started.Done)
				<-release
				h.end.Store(clock.Tick())
			})
		}
		desc := fmt.Sprintf("depth=%d pools=%v waitLevel=%d taskLevels=%v", depth, poolLevels, waitLevel, func() (l []int) {
			for _, h := range tasks {
				l = append(l, h.level)
			}
			return
		}())
		fail := func(format string, a ...any) {
			msg := fmt.Sprintf(format, a...)
			close(release)
			stats.Violation(check, map[string]any{"tree": desc, "problem": msg})
			rt.Fatalf("%s: %s", desc, msg)
		}
		var retStamp atomic.Int64
		waiterDone := make(chan struct{})
		go func() {
			groups[waitLevel].WaitChildren()
			retStamp.Store(clock.Tick())
			close(waiterDone)
		}()
		ctl.Settle(2 * time.Millisecond)
		// only tasks that can start right away are awaited (a pool with fewer workers than tasks keeps the rest queued,
		// which is pending as well)
		close(release)
		if !waitHang(waiterDone) {
			stats.Violation(check, map[string]any{"tree": desc, "problem": "WaitChildren did not return", "stacks": ctl.Dump()})
			rt.Fatalf("%s: WaitChildren did not return within %v after every task was released", desc, ctl.HangTimeout)
		}
		for k, h := range tasks {
			if h.level >= waitLevel {
				// the pool of this task is at or below the waited-for group
				if e := h.end.Load(); e == 0 || e > retStamp.Load() {
					stats.Violation(check, map[string]any{"tree": desc, "problem": fmt.Sprintf("WaitChildren(g%d) returned (stamp %d) before task %d in pool p%d finished (stamp %d)", waitLevel, retStamp.Load(), k, h.level, e)})
					rt.Fatalf("%s: WaitChildren on g%d returned while task %d in pool p%d (below it) had not finished", desc, waitLevel, k, h.level)
				}
			}
		}
		_ = fail
		groups[0].Shutdown()
		stats.Case(check, waitLevel > 0 && waitLevel < depth-1 && deepBelow, desc, func() any { return desc })
	})
}

// ---------------------------------------------------------------------------------------------------------------
// Worker counts around and above 2*NumCPU with every worker busy at Shutdown and tasks that submit tasks.
// ---------------------------------------------------------------------------------------------------------------

func TestShutdownWithManyBusyWorkers(t *testing.T) {
	const check = "shutdown_many_busy_workers"
	n := runtime.NumCPU()
	stats.Rule(check, fmt.Sprintf("worker counts drawn from {1, 2, 3, 2N-1, 2N, 2N+1, 2N+3, 3N+1} with N = NumCPU = %d (the library's default count is 2N); every worker gets a held task, Shutdown is invoked while all of them are busy, then the tasks are released and each submits one more task before it returns; cancel-on-shutdown drawn. Oracle: Shutdown and ShutdownComplete.Wait return within the 20 s watchdog after the release, every held task ran exactly once, every child task that was accepted (pending counter rose) ran or - with the cancel flag - was cancelled, the pending counter is 0 at the end. Distinct by (worker count, flag); non-trivial = worker count above the default", n))
	rapid.Check(t, func(rt *rapid.T) {
		wc := rapid.SampledFrom([]int{1, 2, 3, 2*n - 1, 2 * n, 2*n + 1, 2*n + 3, 3*n + 1}).Draw(rt, "workers")
		cancel := rapid.Bool().Draw(rt, "cancelOnShutdown")
		desc := fmt.Sprintf("workers=%d cancelOnShutdown=%v", wc, cancel)
		wp := workerpool.New("p", workerpool.WithWorkerCount(wc), workerpool.WithCancelPendingTasksOnShutdown(cancel)).Start()
		release := make(chan struct{})
		var startedAll sync.WaitGroup
		var ranHeld, ranChild atomic.Int32
		for i := 0; i < wc; i++ {
			startedAll.Add(1)
			wp.Submit(func() {
				startedAll.Done()
				<-release
				ranHeld.Add(1)
				wp.Submit(func() { ranChild.Add(1) })
			})
		}
		fail := func(format string, a ...any) {
			msg := fmt.Sprintf(format, a...)
			stats.Violation(check, map[string]any{"config": desc, "problem": msg, "stacks": ctl.Dump()})
			rt.Fatalf("%s: %s", desc, msg)
		}
		if !withinHang(startedAll.Wait) {
			close(release)
			fail("%d workers did not pick up %d tasks", wc, wc)
		}
		shutdownReturned := make(chan struct{})
		go func() {
			wp.Shutdown()
			close(shutdownReturned)
		}()
		ctl.Settle(time.Millisecond)
		close(release)
		if !waitHang(shutdownReturned) {
			fail("Shutdown did not return within %v although every task was released", ctl.HangTimeout)
		}
		if !withinHang(wp.ShutdownComplete.Wait) {
			fail("ShutdownComplete.Wait did not return within %v", ctl.HangTimeout)
		}
		if got := int(ranHeld.Load()); got != wc {
			fail("%d of %d accepted tasks ran", got, wc)
		}
		if pending := wp.PendingTasksCounter.Get(); pending != 0 {
			fail("pending task counter is %d after the shutdown completed", pending)
		}
		if !cancel {
			// without the cancel flag every accepted child must have run; children refused after Shutdown are not counted
			// by the pool, so only "counter back to zero" (above) and "no more than one run per child" can be judged
			if int(ranChild.Load()) > wc {
				fail("%d child tasks ran for %d submissions", ranChild.Load(), wc)
			}
		}
		stats.Case(check, wc > 2*n, desc, func() any { return desc })
	})
}

// ---------------------------------------------------------------------------------------------------------------
// Accepted tasks run although other goroutines wait on the pool's queue size at the same time.
// ---------------------------------------------------------------------------------------------------------------

func TestSubmitWithQueueWaiters(t *testing.T) {
	const check = "submit_with_queue_waiters"
	stats.Rule(check, "an idle pool (1..3 workers) with 1..3 goroutines blocked in Queue.WaitSizeIsAbove(huge) and/or PendingTasksCounter.WaitIsAbove(huge) (conditions that never hold); 2..6 tasks are submitted one at a time, each only after the previous one has finished and the pool went idle again (drawn pause of 0..3 yields). Oracle: every accepted task runs within the 20 s watchdog and the pending counter returns to 0. Distinct by configuration; non-trivial = at least one queue-size waiter and >= 3 submits")
	rapid.Check(t, func(rt *rapid.T) {
		workers := rapid.IntRange(1, 3).Draw(rt, "workers")
		qWaiters := rapid.IntRange(0, 3).Draw(rt, "queueSizeWaiters")
		cWaiters := rapid.IntRange(0, 2).Draw(rt, "counterWaiters")
		submits := rapid.IntRange(2, 6).Draw(rt, "submits")
		yields := rapid.IntRange(0, 3).Draw(rt, "yields")
		desc := fmt.Sprintf("workers=%d queueWaiters=%d counterWaiters=%d submits=%d yields=%d", workers, qWaiters, cWaiters, submits, yields)
		wp := workerpool.New("p", workerpool.WithWorkerCount(workers)).Start()
		for i := 0; i < qWaiters; i++ {
			go wp.Queue.WaitSizeIsAbove(1 << 30)
		}
		for i := 0; i < cWaiters; i++ {
			go wp.PendingTasksCounter.WaitIsAbove(1 << 30)
		}
		ctl.Settle(time.Millisecond)
		for k := 0; k < submits; k++ {
			done := make(chan struct{})
			wp.Submit(func() { close(done) })
			if !waitHang(done) {
				stats.Violation(check, map[string]any{"config": desc, "problem": fmt.Sprintf("task %d was accepted but did not run", k), "stacks": ctl.Dump()})
				rt.Fatalf("%s: task %d was accepted (pending=%d, queue size=%d) but did not run within %v", desc, k, wp.PendingTasksCounter.Get(), wp.Queue.Size(), ctl.HangTimeout)
			}
			if !withinHang(wp.PendingTasksCounter.WaitIsZero) {
				rt.Fatalf("%s: pending counter did not return to zero after task %d", desc, k)
			}
			for y := 0; y < yields; y++ {
				runtime.Gosched()
			}
			if yields == 3 {
				time.Sleep(200 * time.Microsecond)
			}
		}
		wp.Shutdown()
		stats.Case(check, qWaiters > 0 && submits >= 3, desc, func() any { return desc })
		// the never-satisfied waiters stay parked; they hold no resources beyond their goroutine
	})
}

// Demonstration of an independent auditor (ninth round), kept as a regression test; see known_findings.json.
package c01

import (
	"context"
	"reflect"
	"testing"

	"github.com/iotaledger/hive.go/serializer/v2/serix"
)

type H4ID [4]byte
type H4Blob []byte

type H4Outer struct {
	Name uint8 `serix:""`
	ID   H4ID  `serix:",inlined,omitempty"`
}

type H4OuterP struct {
	Name uint8 `serix:""`
	ID   *H4ID `serix:",inlined,optional"`
}

type H4OuterS struct {
	Name uint8  `serix:""`
	Blob H4Blob `serix:",inlined,omitempty"`
}

func h4api(t *testing.T) *serix.API {
	api := serix.NewAPI()
	if err := api.RegisterTypeSettings(H4ID{}, serix.TypeSettings{}.WithObjectType(uint8(4))); err != nil {
		t.Fatal(err)
	}
	if err := api.RegisterTypeSettings(H4Blob{}, serix.TypeSettings{}.WithObjectType(uint8(5)).WithLengthPrefixType(serix.LengthPrefixTypeAsByte)); err != nil {
		t.Fatal(err)
	}
	return api
}

func h4rt[T any](t *testing.T, api *serix.API, v *T) {
	t.Helper()
	j, err := api.JSONEncode(context.Background(), v)
	if err != nil {
		t.Logf("%T %+v: encode refused: %v", v, v, err)
		return
	}
	out := new(T)
	if err := api.JSONDecode(context.Background(), j, out); err != nil {
		t.Errorf("%+v: JSONEncode wrote %s but JSONDecode refuses it: %v", v, j, err)
		return
	}
	if !reflect.DeepEqual(v, out) {
		t.Errorf("%s: %+v != %+v", j, v, out)
	}
}

func TestRegressionAudit36_4(t *testing.T) {
	api := h4api(t)
	h4rt(t, api, &H4Outer{Name: 1, ID: H4ID{1, 2, 3, 4}})
	h4rt(t, api, &H4Outer{Name: 1})
	id := H4ID{1}
	h4rt(t, api, &H4OuterP{Name: 1, ID: &id})
	h4rt(t, api, &H4OuterP{Name: 1})
	h4rt(t, api, &H4OuterS{Name: 1, Blob: H4Blob{1}})
	h4rt(t, api, &H4OuterS{Name: 1}) // (nil: an empty slice left out by omitempty is read back as nil, which is the same value of the model)
}

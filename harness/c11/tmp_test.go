package c11

import (
	"fmt"
	"testing"

	"github.com/iotaledger/hive.go/ds"
	"pgregory.net/rapid"
)

func TestTmpContention(t *testing.T) {
	n, c, anyOverlap := 0, 0, 0
	rapid.Check(t, func(rt *rapid.T) {
		p := drawLinProgram(rt, []string{"Add", "Add", "Delete", "Delete", "Has"})
		s := ds.NewSet[E]()
		p.Reps = p.Reps; h, _, _ := runLin(p, "Has", func(in lin) lout {
			switch in.Op {
			case "Add":
				return lout{OK: s.Add(in.Key)}
			case "Delete":
				return lout{OK: s.Delete(in.Key)}
			}
			return lout{OK: s.Has(in.Key)}
		})
		n++
		if contended(h) {
			c++
		}
		for i := range h {
			for j := i + 1; j < len(h); j++ {
				if h[i].ClientId != h[j].ClientId && h[i].Call < h[j].Return && h[j].Call < h[i].Return {
					anyOverlap++
					return
				}
			}
		}
	})
	fmt.Println("programs", n, "contended", c, "anyOverlap", anyOverlap)
}

package c13

import (
	"fmt"
	"sort"
	"strings"
	"testing"

	"github.com/iotaledger/hive.go/ds"
	"github.com/iotaledger/hive.go/ds/reactive"
	"pgregory.net/rapid"
	"verifharness/internal/ctl"
	"verifharness/internal/stats"
)

// ---------------------------------------------------------------------------------------------------------
// reactive.Set[int], universe 0..5. Sequential variant (see variable_seq_test.go for the idea).
// ---------------------------------------------------------------------------------------------------------

const universe = 6

type mutRec struct {
	Added, Deleted []int // sorted
	In, Out        int64
}

func (m mutRec) empty() bool { return len(m.Added) == 0 && len(m.Deleted) == 0 }

func (m mutRec) String() string { return fmt.Sprintf("+%v-%v", m.Added, m.Deleted) }

func mutsStr(l []mutRec) string {
	s := make([]string, len(l))
	for i, m := range l {
		s[i] = m.String()
	}
	return "[" + strings.Join(s, " ") + "]"
}

func sliceOf(s ds.ReadableSet[int]) []int {
	out := s.ToSlice()
	sort.Ints(out)
	return out
}

func recOf(m ds.SetMutations[int], in int64) mutRec {
	return mutRec{Added: sliceOf(m.AddedElements()), Deleted: sliceOf(m.DeletedElements()), In: in}
}

func nonEmpty(l []mutRec) []mutRec {
	var out []mutRec
	for _, m := range l {
		if !m.empty() {
			out = append(out, m)
		}
	}
	return out
}

// foldStrict folds reported mutations with the library's own order (ds.Set.Apply: additions first, then
// deletions) and reports every element that was reported added although present / deleted although absent.
func foldStrict(state map[int]bool, m mutRec) (problems []string) {
	for _, e := range m.Added {
		if state[e] {
			problems = append(problems, fmt.Sprintf("%s reports %d as added but the folded state already holds it", m, e))
		}
		state[e] = true
	}
	for _, e := range m.Deleted {
		if !state[e] {
			problems = append(problems, fmt.Sprintf("%s reports %d as deleted but the folded state does not hold it", m, e))
		}
		delete(state, e)
	}
	return problems
}

type setOp struct {
	Op  string `json:"op"`  // add delete addall deleteall apply compute replace clear
	A   []int  `json:"a"`   // element(s) / added set
	B   []int  `json:"b"`   // apply: deleted set
	Yld int    `json:"yld"` // concurrent variant: yields before the op
}

func (o setOp) String() string {
	if o.Op == "apply" {
		return fmt.Sprintf("apply +%v -%v", o.A, o.B)
	}
	return fmt.Sprintf("%s %v", o.Op, o.A)
}

// modelApply returns the mutation that must be applied (and reported) for op on state, and the new state.
func modelApply(state map[int]bool, o setOp) (mutRec, map[int]bool) {
	next := map[int]bool{}
	for k := range state {
		next[k] = true
	}
	var m mutRec
	add := func(e int) {
		if !next[e] {
			next[e] = true
			m.Added = append(m.Added, e)
		}
	}
	del := func(e int) {
		if next[e] {
			delete(next, e)
			m.Deleted = append(m.Deleted, e)
		}
	}
	switch o.Op {
	case "add", "addall":
		for _, e := range o.A {
			add(e)
		}
	case "delete", "deleteall":
		for _, e := range o.A {
			del(e)
		}
	case "apply":
		for _, e := range o.A {
			add(e)
		}
		for _, e := range o.B {
			del(e)
		}
	case "compute": // toggle every element of A
		var toAdd, toDel []int
		for _, e := range o.A {
			if next[e] {
				toDel = append(toDel, e)
			} else {
				toAdd = append(toAdd, e)
			}
		}
		for _, e := range toAdd {
			add(e)
		}
		for _, e := range toDel {
			del(e)
		}
	case "replace", "clear":
		in := map[int]bool{}
		for _, e := range o.A {
			in[e] = true
		}
		for e := range state {
			if !in[e] {
				del(e)
			}
		}
		for _, e := range o.A {
			add(e)
		}
	default:
		panic("unknown set op " + o.Op)
	}
	sort.Ints(m.Added)
	sort.Ints(m.Deleted)
	return m, next
}

func doSetOp(s reactive.Set[int], o setOp) {
	switch o.Op {
	case "add":
		s.Add(o.A[0])
	case "delete":
		s.Delete(o.A[0])
	case "addall":
		s.AddAll(ds.NewSet(o.A...))
	case "deleteall":
		s.DeleteAll(ds.NewSet(o.A...))
	case "apply":
		s.Apply(ds.NewSetMutations[int](o.A...).WithDeletedElements(ds.NewSet(o.B...)))
	case "compute":
		s.Compute(func(cur ds.ReadableSet[int]) ds.SetMutations[int] {
			add, del := ds.NewSet[int](), ds.NewSet[int]()
			for _, e := range o.A {
				if cur.Has(e) {
					del.Add(e)
				} else {
					add.Add(e)
				}
			}
			return ds.NewSetMutations[int]().WithAddedElements(add).WithDeletedElements(del)
		})
	case "replace":
		s.Replace(ds.NewSet(o.A...))
	case "clear":
		// "Clear removes all elements from the set": a write like Replace(empty set)
		s.Clear()
	default:
		panic("unknown set op " + o.Op)
	}
}

type setSeqAction struct {
	Op     string       `json:"op"` // a set op | sub | unsub
	Set    setOp        `json:"set,omitempty"`
	Flag   bool         `json:"flag,omitempty"` // sub: triggerWithInitialZeroValue
	Idx    int          `json:"idx,omitempty"`  // unsub
	Nested []nestedSpec `json:"nested,omitempty"`
}

func (a setSeqAction) String() string {
	switch a.Op {
	case "sub":
		s := fmt.Sprintf("sub flag=%v", a.Flag)
		for _, n := range a.Nested {
			switch n.Op {
			case "sub":
				s += fmt.Sprintf(" {cb%d: sub}", n.At)
			case "unsub":
				s += fmt.Sprintf(" {cb%d: unsub #%d}", n.At, n.Target)
			default:
				s += fmt.Sprintf(" {cb%d: read}", n.At)
			}
		}
		return s
	case "unsub":
		return fmt.Sprintf("unsub #%d", a.Idx)
	}
	return a.Set.String()
}

type setSeqProg struct {
	Init    []int          `json:"init"`
	Actions []setSeqAction `json:"actions"`
}

func (p setSeqProg) strings() []string {
	out := []string{fmt.Sprintf("init %v", p.Init)}
	for _, a := range p.Actions {
		out = append(out, a.String())
	}
	return out
}

type setSeqSub struct {
	id         int
	flag       bool
	nested     []nestedSpec
	unsub      func()
	active     bool
	busy       bool
	calls      int
	unsubStamp int64
	log        []mutRec
	expect     []mutRec
}

type setSeqRun struct {
	s       reactive.Set[int]
	clock   ctl.Clock
	state   map[int]bool
	subs    []*setSeqSub
	errs    []string
	trace   []string
	labels  map[string]bool
	inWrite bool
}

func (r *setSeqRun) failf(format string, args ...any) {
	r.errs = append(r.errs, fmt.Sprintf(format, args...))
}

func (r *setSeqRun) cb(s *setSeqSub) func(m ds.SetMutations[int]) {
	return func(m ds.SetMutations[int]) {
		in := r.clock.Tick()
		if s.busy {
			r.failf("sub #%d: callback entered while another callback of the same subscription is running", s.id)
		}
		s.busy = true
		idx := s.calls
		s.calls++
		rec := recOf(m, in)
		s.log = append(s.log, rec)
		if s.unsubStamp != 0 && in > s.unsubStamp {
			r.failf("sub #%d: callback %s started after its unsubscribe call had returned", s.id, rec)
		}
		for _, ns := range s.nested {
			if ns.At == idx {
				r.runNested(s, ns)
			}
		}
		s.busy = false
		s.log[len(s.log)-1].Out = r.clock.Tick()
	}
}

func (r *setSeqRun) runNested(owner *setSeqSub, ns nestedSpec) {
	switch ns.Op {
	case "get":
		if got, want := fmt.Sprint(sliceOf(r.s)), fmt.Sprint(sortedInts(r.state)); got != want {
			r.failf("ToSlice() inside a callback of sub #%d returned %s, set holds %s", owner.id, got, want)
		}
	case "sub":
		r.trace = append(r.trace, fmt.Sprintf("  (inside cb of #%d) sub", owner.id))
		r.subscribe(ns.Cond%2 == 0, nil)
		if r.inWrite {
			r.labels["sub_inside_write_callback"] = true
		}
	case "unsub":
		if len(r.subs) == 0 {
			return
		}
		t := r.subs[ns.Target%len(r.subs)]
		if t == owner || t.busy || !t.active || t.unsub == nil {
			r.labels["nested_unsub_skipped"] = true
			return
		}
		r.trace = append(r.trace, fmt.Sprintf("  (inside cb of #%d) unsub #%d", owner.id, t.id))
		r.unsubscribe(t)
		if r.inWrite {
			r.labels["unsub_inside_write_callback"] = true
		}
	}
}

func (r *setSeqRun) unsubscribe(s *setSeqSub) {
	s.active = false
	s.unsub()
	s.unsubStamp = r.clock.Tick()
}

func (r *setSeqRun) subscribe(flag bool, nested []nestedSpec) {
	s := &setSeqSub{id: len(r.subs), flag: flag, nested: nested, active: true}
	r.subs = append(r.subs, s)
	cur := sortedInts(r.state)
	if len(cur) > 0 || flag {
		s.expect = append(s.expect, mutRec{Added: cur})
	}
	if len(cur) > 0 {
		r.labels["sub_at_nonempty"] = true
	}
	s.unsub = r.s.OnUpdate(r.cb(s), flag)
	if mutsStr(s.log) != mutsStr(s.expect) {
		r.failf("sub #%d registered while the set was %v: callbacks during registration %s, expected %s", s.id, cur, mutsStr(s.log), mutsStr(s.expect))
	}
}

func (r *setSeqRun) write(o setOp) {
	want, next := modelApply(r.state, o)
	if o.Op == "replace" {
		for _, e := range o.A {
			if r.state[e] {
				r.labels["replace_overlaps_contents"] = true
			}
		}
	}
	type tgt struct {
		s      *setSeqSub
		before int
	}
	var targets []tgt
	for _, s := range r.subs {
		if s.active {
			targets = append(targets, tgt{s, len(s.log)})
		}
	}
	r.state = next
	r.inWrite = true
	doSetOp(r.s, o)
	r.inWrite = false
	if !want.empty() {
		r.labels["effective_write"] = true
	}
	for _, t := range targets {
		s := t.s
		got := nonEmpty(s.log[t.before:])
		switch {
		case s.active:
			if !want.empty() {
				s.expect = append(s.expect, want)
			}
		default: // unsubscribed by a nested action during this write: at most once
			if !want.empty() && len(got) == 1 && got[0].String() == want.String() {
				s.expect = append(s.expect, want)
			}
		}
	}
}

func (r *setSeqRun) checkAll(after string) {
	for _, s := range r.subs {
		// reports without content carry no change; they are neither required nor forbidden
		got := nonEmpty(s.log)
		if len(s.log) > 0 && s.log[0].empty() && s.flag {
			got = append([]mutRec{s.log[0]}, nonEmpty(s.log[1:])...)
		}
		if mutsStr(got) != mutsStr(s.expect) {
			r.failf("after %q: sub #%d saw %s, must have seen exactly %s", after, s.id, mutsStr(got), mutsStr(s.expect))
		}
		if len(got) != len(s.log) {
			r.labels["empty_report"] = true
		}
	}
	if got, want := fmt.Sprint(sliceOf(r.s)), fmt.Sprint(sortedInts(r.state)); got != want {
		r.failf("after %q: set holds %s, model %s", after, got, want)
	}
}

func runSetSeq(p setSeqProg) verdict {
	r := &setSeqRun{labels: map[string]bool{}, state: map[int]bool{}}
	r.s = reactive.NewSet[int](p.Init...)
	for _, e := range p.Init {
		r.state[e] = true
	}
	for _, act := range p.Actions {
		r.trace = append(r.trace, act.String())
		switch act.Op {
		case "sub":
			r.subscribe(act.Flag, act.Nested)
		case "unsub":
			if len(r.subs) == 0 {
				continue
			}
			s := r.subs[act.Idx%len(r.subs)]
			if !s.active {
				continue
			}
			r.unsubscribe(s)
		default:
			r.write(act.Set)
		}
		r.checkAll(act.String())
		if len(r.errs) > 0 {
			break
		}
	}
	// the property's own wording: folding what a live subscriber was told reproduces the contents
	final := fmt.Sprint(sliceOf(r.s))
	for _, s := range r.subs {
		st := map[int]bool{}
		var probs []string
		for _, m := range s.log {
			probs = append(probs, foldStrict(st, m)...)
		}
		if len(probs) > 0 {
			r.failf("sub #%d: %s", s.id, strings.Join(probs, ", "))
		}
		if s.active {
			if got := fmt.Sprint(sortedInts(st)); got != final {
				r.failf("live sub #%d: folding its reports %s gives %s, the set holds %s", s.id, mutsStr(s.log), got, final)
			}
		}
	}
	v := verdict{Trace: r.trace}
	if len(r.errs) > 0 {
		v.Msg = strings.Join(r.errs, "; ")
	}
	v.NonTrivial = r.labels["sub_inside_write_callback"] || r.labels["unsub_inside_write_callback"] || r.labels["replace_overlaps_contents"] ||
		(r.labels["sub_at_nonempty"] && r.labels["effective_write"])
	for l := range r.labels {
		v.Labels = append(v.Labels, l)
	}
	for _, s := range r.subs {
		if s.active && s.unsub != nil {
			s.unsub()
		}
	}
	return v
}

// ---------------------------------------------------------------------------------------------------------
// generator
// ---------------------------------------------------------------------------------------------------------

func genElems(minLen, maxLen int) *rapid.Generator[[]int] {
	return rapid.Custom(func(t *rapid.T) []int {
		l := rapid.SliceOfNDistinct(rapid.IntRange(0, universe-1), minLen, maxLen, func(e int) int { return e }).Draw(t, "elems")
		out := append([]int{}, l...)
		sort.Ints(out)
		return out
	})
}

func genSetOp() *rapid.Generator[setOp] {
	return rapid.Custom(func(t *rapid.T) setOp {
		o := setOp{Op: rapid.SampledFrom([]string{"add", "add", "delete", "delete", "addall", "deleteall", "apply", "apply", "compute", "replace", "replace", "clear"}).Draw(t, "op")}
		switch o.Op {
		case "add", "delete":
			o.A = []int{rapid.IntRange(0, universe-1).Draw(t, "e")}
		case "apply":
			o.A = genElems(0, 3).Draw(t, "added")
			o.B = genElems(0, 3).Draw(t, "deleted")
		case "clear":
		default:
			o.A = genElems(0, 4).Draw(t, "elems")
		}
		return o
	})
}

func genSetSeqProg(t *rapid.T) setSeqProg {
	p := setSeqProg{Init: genElems(0, 3).Draw(t, "init")}
	nestedGen := rapid.Custom(func(t *rapid.T) nestedSpec {
		ns := nestedSpec{At: rapid.IntRange(0, 3).Draw(t, "at"), Op: rapid.SampledFrom([]string{"sub", "unsub", "unsub", "get"}).Draw(t, "nop")}
		switch ns.Op {
		case "sub":
			ns.Cond = rapid.IntRange(0, 1).Draw(t, "nflag")
		case "unsub":
			ns.Target = rapid.IntRange(0, 7).Draw(t, "target")
		}
		return ns
	})
	actGen := rapid.Custom(func(t *rapid.T) setSeqAction {
		switch rapid.SampledFrom([]string{"op", "op", "op", "sub", "sub", "unsub"}).Draw(t, "what") {
		case "sub":
			return setSeqAction{Op: "sub", Flag: rapid.Bool().Draw(t, "flag"), Nested: rapid.SliceOfN(nestedGen, 0, 2).Draw(t, "nested")}
		case "unsub":
			return setSeqAction{Op: "unsub", Idx: rapid.IntRange(0, 7).Draw(t, "idx")}
		}
		o := genSetOp().Draw(t, "setop")
		return setSeqAction{Op: o.Op, Set: o}
	})
	p.Actions = rapid.SliceOfN(actGen, 1, 14).Draw(t, "actions")
	return p
}

const checkSetSeq = "set_sequential"

func TestSetSeq(t *testing.T) {
	stats.Rule(checkSetSeq, "rapid draws initial contents (universe 0..5) and 1-14 actions: Add/Delete/AddAll/DeleteAll/Apply(added, deleted - overlapping each other and the contents)/Compute(toggle)/Replace/Clear with drawn element sets, OnUpdate with/without flag, unsubscribe; each subscription carries up to 2 nested actions run inside its k-th callback (subscribe another consumer, unsubscribe ANOTHER subscription, read). Oracle: exact expected report list per subscriber from a set model (reports without content are ignored), strict fold with the library's fold order (add, then delete), fold == ToSlice() for live subscribers. Non-trivial = subscribe/unsubscribe inside a writer's callback phase, or Replace overlapping the contents, or a subscriber that arrived at non-empty contents and saw a later change. Distinct by action list.")
	rapid.Check(t, func(rt *rapid.T) {
		p := genSetSeqProg(rt)
		v := runSetSeq(p)
		key := strings.Join(p.strings(), "|")
		stats.Case(checkSetSeq, v.NonTrivial, key, func() any { return p.strings() }, v.Labels...)
		if v.Msg != "" {
			stats.Violation(checkSetSeq, map[string]any{"program": p, "readable": p.strings(), "trace": v.Trace, "problem": v.Msg})
			rt.Fatalf("%s\nprogram: %s", v.Msg, strings.Join(p.strings(), "; "))
		}
	})
}

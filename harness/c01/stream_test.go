package c01

import (
	"bytes"
	"encoding/hex"
	"fmt"
	"io"
	"strings"
	"testing"
	"testing/iotest"

	"github.com/iotaledger/hive.go/serializer/v2"
	"github.com/iotaledger/hive.go/serializer/v2/stream"
	"github.com/iotaledger/hive.go/serializer/v2/typeutils"
	"pgregory.net/rapid"
	"verifharness/internal/stats"
)

// chunkReader returns data in chunks whose sizes follow a drawn schedule (cycled); a chunk size of 0 yields a
// (0, nil) read, which io.Reader permits.
type chunkReader struct {
	data  []byte
	sched []int
	i     int
}

func (r *chunkReader) Read(p []byte) (int, error) {
	if len(r.data) == 0 {
		return 0, io.EOF
	}
	if len(p) == 0 {
		return 0, nil
	}
	n := r.sched[r.i%len(r.sched)]
	r.i++
	if n > len(p) {
		n = len(p)
	}
	if n > len(r.data) {
		n = len(r.data)
	}
	copy(p, r.data[:n])
	r.data = r.data[n:]
	return n, nil
}

type sItem struct {
	Kind   string
	W      int    // width for num / prefix width for sized
	U      uint64 // number
	B      []byte // payload
	Sub    []sItem
	LenTyp serializer.SeriLengthPrefixType
}

func (it sItem) String() string {
	switch it.Kind {
	case "num":
		return fmt.Sprintf("num%d(%d)", it.W*8, it.U)
	case "bool":
		return fmt.Sprintf("bool(%d)", it.U)
	case "arr":
		return fmt.Sprintf("arr%d(%x)", len(it.B), it.B)
	case "coll":
		parts := []string{}
		for _, s := range it.Sub {
			parts = append(parts, s.String())
		}
		if len(parts) > 8 {
			return fmt.Sprintf("coll/p%d[%d elements: %s,..,%s]", it.W, len(parts), parts[0], parts[len(parts)-1])
		}
		return fmt.Sprintf("coll/p%d[%s]", it.W, strings.Join(parts, ","))
	default:
		if len(it.B) > 48 {
			return fmt.Sprintf("%s/p%d(%d bytes %x..%x)", it.Kind, it.W, len(it.B), it.B[:8], it.B[len(it.B)-4:])
		}
		return fmt.Sprintf("%s/p%d(%x)", it.Kind, it.W, it.B)
	}
}

var lenTypes = map[int]serializer.SeriLengthPrefixType{1: serializer.SeriLengthPrefixTypeAsByte, 2: serializer.SeriLengthPrefixTypeAsUint16,
	4: serializer.SeriLengthPrefixTypeAsUint32, 8: serializer.SeriLengthPrefixTypeAsUint64}

func genItem(rt *rapid.T, depth int, label string) sItem {
	kinds := []string{"num", "num", "bool", "arr", "bytes", "sized", "obj64", "obj32", "objsized"}
	if depth == 0 {
		kinds = append(kinds, "coll")
	}
	k := rapid.SampledFrom(kinds).Draw(rt, label+".kind")
	it := sItem{Kind: k}
	switch k {
	case "num":
		it.W = rapid.SampledFrom([]int{1, 2, 4, 8}).Draw(rt, label+".w")
		it.U = rapid.Uint64().Draw(rt, label+".u") & (uint64(1)<<(8*uint(it.W)) - 1)
		if it.W == 8 {
			it.U = rapid.Uint64().Draw(rt, label+".u64")
		}
	case "bool":
		it.U = uint64(rapid.IntRange(0, 1).Draw(rt, label+".b"))
	case "arr":
		n := rapid.SampledFrom([]int{32, 36, 38}).Draw(rt, label+".n")
		it.B = rapid.SliceOfN(rapid.Byte(), n, n).Draw(rt, label+".arr")
	case "bytes":
		it.B = rapid.SliceOfN(rapid.Byte(), 0, 40).Draw(rt, label+".bytes")
	case "sized", "objsized":
		it.W = rapid.SampledFrom([]int{1, 2, 4, 8}).Draw(rt, label+".pw")
		max := 40
		if rapid.IntRange(0, 15).Draw(rt, label+".long") == 0 {
			max = 700 // longer than typical internal buffer sizes, and > 255 is refused for a 1-byte prefix
		}
		it.B = rapid.SliceOfN(rapid.Byte(), 0, max).Draw(rt, label+".bytes")
		if rapid.IntRange(0, 7).Draw(rt, label+".boundary") == 0 {
			// lengths around the sign bit and the capacity of the one- and two-byte prefixes
			n := rapid.SampledFrom([]int{127, 128, 129, 200, 254, 255, 256, 32767, 32768, 65535, 65536}).Draw(rt, label+".blen")
			if it.W == 1 && n > 255 {
				n = 255
			}
			if it.W == 2 && n > 65535 {
				n = 65535
			}
			fill := rapid.Byte().Draw(rt, label+".fill")
			it.B = bytes.Repeat([]byte{fill}, n)
		}
		if it.W == 1 && len(it.B) > 255 {
			it.B = it.B[:255]
		}
		if k == "objsized" {
			it.B = rapid.SliceOfN(rapid.Byte(), 32, 32).Draw(rt, label+".obj")
		}
	case "obj64":
		it.U = rapid.Uint64().Draw(rt, label+".u64")
	case "obj32":
		it.B = rapid.SliceOfN(rapid.Byte(), 32, 32).Draw(rt, label+".obj")
	case "coll":
		it.W = rapid.SampledFrom([]int{1, 2, 4, 8}).Draw(rt, label+".pw")
		n := rapid.IntRange(0, 4).Draw(rt, label+".cn")
		for i := 0; i < n; i++ {
			it.Sub = append(it.Sub, genItem(rt, depth+1, fmt.Sprintf("%s.%d", label, i)))
		}
		if rapid.IntRange(0, 11).Draw(rt, label+".manyElems") == 0 {
			// element counts around the sign bit / capacity of the one-byte prefix (one-byte elements keep the case small)
			n = rapid.SampledFrom([]int{127, 128, 129, 200, 255}).Draw(rt, label+".bcn")
			v := uint64(rapid.IntRange(0, 255).Draw(rt, label+".ev"))
			it.Sub = it.Sub[:0]
			for i := 0; i < n; i++ {
				it.Sub = append(it.Sub, sItem{Kind: "num", W: 1, U: (v + uint64(i)) & 0xff, LenTyp: lenTypes[1]})
			}
		}
	}
	it.LenTyp = lenTypes[it.W]
	return it
}

func writeItem(w io.WriteSeeker, it sItem) error {
	switch it.Kind {
	case "num":
		switch it.W {
		case 1:
			return stream.Write(w, uint8(it.U))
		case 2:
			return stream.Write(w, int16(it.U))
		case 4:
			return stream.Write(w, uint32(it.U))
		default:
			return stream.Write(w, int64(it.U))
		}
	case "bool":
		return stream.Write(w, it.U == 1)
	case "arr":
		switch len(it.B) {
		case 32:
			return stream.Write(w, [32]byte(it.B))
		case 36:
			return stream.Write(w, [36]byte(it.B))
		default:
			return stream.Write(w, [38]byte(it.B))
		}
	case "bytes":
		return stream.WriteBytes(w, it.B)
	case "sized":
		return stream.WriteBytesWithSize(w, it.B, it.LenTyp)
	case "obj64":
		return stream.WriteObject(w, it.U, typeutils.Uint64ToBytes)
	case "obj32":
		return stream.WriteObject(w, [32]byte(it.B), typeutils.ByteArray32ToBytes)
	case "objsized":
		return stream.WriteObjectWithSize(w, [32]byte(it.B), it.LenTyp, typeutils.ByteArray32ToBytes)
	case "coll":
		return stream.WriteCollection(w, it.LenTyp, func() (int, error) {
			for _, s := range it.Sub {
				if err := writeItem(w, s); err != nil {
					return 0, err
				}
			}
			return len(it.Sub), nil
		})
	}
	return fmt.Errorf("unknown item %s", it.Kind)
}

// readItem reads the item back and compares it with what was written.
func readItem(r io.Reader, it sItem) error {
	neq := func(got any) error { return fmt.Errorf("item %s read back as %v", it, got) }
	switch it.Kind {
	case "num":
		switch it.W {
		case 1:
			v, err := stream.Read[uint8](r)
			if err != nil || v != uint8(it.U) {
				return fmt.Errorf("%w / %v", err, neq(v))
			}
		case 2:
			v, err := stream.Read[int16](r)
			if err != nil || v != int16(it.U) {
				return fmt.Errorf("%w / %v", err, neq(v))
			}
		case 4:
			v, err := stream.Read[uint32](r)
			if err != nil || v != uint32(it.U) {
				return fmt.Errorf("%w / %v", err, neq(v))
			}
		default:
			v, err := stream.Read[int64](r)
			if err != nil || v != int64(it.U) {
				return fmt.Errorf("%w / %v", err, neq(v))
			}
		}
	case "bool":
		v, err := stream.Read[bool](r)
		if err != nil || v != (it.U == 1) {
			return fmt.Errorf("%w / %v", err, neq(v))
		}
	case "arr":
		var got []byte
		var err error
		switch len(it.B) {
		case 32:
			var v [32]byte
			v, err = stream.Read[[32]byte](r)
			got = v[:]
		case 36:
			var v [36]byte
			v, err = stream.Read[[36]byte](r)
			got = v[:]
		default:
			var v [38]byte
			v, err = stream.Read[[38]byte](r)
			got = v[:]
		}
		if err != nil || !bytes.Equal(got, it.B) {
			return fmt.Errorf("%w / %v", err, neq(hex.EncodeToString(got)))
		}
	case "bytes":
		got, err := stream.ReadBytes(r, len(it.B))
		if err != nil || !bytes.Equal(got, it.B) {
			return fmt.Errorf("%w / %v", err, neq(hex.EncodeToString(got)))
		}
	case "sized":
		got, err := stream.ReadBytesWithSize(r, it.LenTyp)
		if err != nil || !bytes.Equal(got, it.B) {
			return fmt.Errorf("%w / %v", err, neq(hex.EncodeToString(got)))
		}
	case "obj64":
		got, err := stream.ReadObject(r, 8, typeutils.Uint64FromBytes)
		if err != nil || got != it.U {
			return fmt.Errorf("%w / %v", err, neq(got))
		}
	case "obj32":
		got, err := stream.ReadObject(r, 32, typeutils.ByteArray32FromBytes)
		if err != nil || !bytes.Equal(got[:], it.B) {
			return fmt.Errorf("%w / %v", err, neq(hex.EncodeToString(got[:])))
		}
	case "objsized":
		got, err := stream.ReadObjectWithSize(r, it.LenTyp, typeutils.ByteArray32FromBytes)
		if err != nil || !bytes.Equal(got[:], it.B) {
			return fmt.Errorf("%w / %v", err, neq(hex.EncodeToString(got[:])))
		}
	case "coll":
		if rs, ok := r.(io.ReadSeeker); ok {
			n, err := stream.PeekSize(rs, it.LenTyp)
			if err != nil || n != len(it.Sub) {
				return fmt.Errorf("PeekSize of %s = %d, %v", it, n, err)
			}
		}
		calls := 0
		err := stream.ReadCollection(r, it.LenTyp, func(i int) error {
			if i != calls || i >= len(it.Sub) {
				return fmt.Errorf("callback index %d (call %d) for a collection of %d", i, calls, len(it.Sub))
			}
			calls++
			return readItem(r, it.Sub[i])
		})
		if err != nil {
			return err
		}
		if calls != len(it.Sub) {
			return fmt.Errorf("ReadCollection called back %d times for %d elements", calls, len(it.Sub))
		}
	}
	return nil
}

func TestStreamRoundTrip(t *testing.T) {
	const check = "stream_roundtrip"
	stats.Rule(check, "rapid draws a sequence of stream items (Write/Read[T] for bool, 8..64-bit ints and [32|36|38]byte, WriteBytes/ReadBytes, ...WithSize for all four prefix widths, WriteObject/ReadObject(+WithSize) with the typeutils codecs, WriteCollection/ReadCollection/PeekSize with nested items; lengths and element counts are also drawn around 127/128, 255/256, 32767/32768 and 65535/65536) written to a stream.ByteBuffer (empty; in half of the cases also a pre-sized one and one rewritten from the start over 1..300 existing bytes, which must give the same bytes and end offset) and read back through every reader of the family {ByteBuffer.Reader, bytes.Reader, iotest.OneByteReader, HalfReader, DataErrReader, drawn chunk-size schedule incl. zero-length reads}; each item must be read back equal and the reader must end exactly at the written length. Distinct by item list; non-trivial = at least one item longer than one byte is split by a reader (every case: OneByteReader) and the sequence has >= 2 item kinds")
	rapid.Check(t, func(rt *rapid.T) {
		n := rapid.IntRange(1, 6).Draw(rt, "n")
		items := make([]sItem, n)
		kinds := map[string]bool{}
		for i := range items {
			items[i] = genItem(rt, 0, fmt.Sprintf("it%d", i))
			kinds[items[i].Kind] = true
		}
		buf := stream.NewByteBuffer()
		for _, it := range items {
			if err := writeItem(buf, it); err != nil {
				stats.Violation(check, map[string]any{"items": fmt.Sprint(items), "problem": "write failed: " + err.Error()})
				rt.Fatalf("writing %s failed: %v", it, err)
			}
		}
		data, _ := buf.Bytes()
		data = append([]byte{}, data...)
		// the same items written over existing content (a pre-sized ByteBuffer, a buffer that already holds
		// data and is rewritten from the start) must produce the same bytes and leave the writer directly
		// behind them: what follows a collection must land behind its last element, wherever the writer ends
		prefill := rapid.OneOf(rapid.Just(0), rapid.IntRange(1, 300)).Draw(rt, "prefill")
		if prefill > 0 {
			junk := bytes.Repeat([]byte{0xAA}, prefill)
			over := stream.NewByteBuffer()
			_, _ = over.Write(junk)
			_, _ = over.Seek(0, io.SeekStart)
			for wi, w := range []*stream.ByteBuffer{stream.NewByteBuffer(prefill), over} {
				name := []string{"NewByteBuffer(n)", "rewritten buffer"}[wi]
				for _, it := range items {
					if err := writeItem(w, it); err != nil {
						stats.Violation(check, map[string]any{"items": fmt.Sprint(items), "writer": name, "prefill": prefill, "problem": "write failed: " + err.Error()})
						rt.Fatalf("writing %s into %s failed: %v", it, name, err)
					}
				}
				end, err := stream.Offset(w)
				all, _ := w.Bytes()
				if err != nil || int(end) != len(data) || int(end) > len(all) || !bytes.Equal(all[:end], data) {
					stats.Violation(check, map[string]any{"items": fmt.Sprint(items), "writer": name, "prefill": prefill, "bytes": hex.EncodeToString(data), "got": hex.EncodeToString(all), "end": end, "problem": "items written over existing content differ from the items written to an empty buffer"})
					rt.Fatalf("%s (prefill %d): offset %d, bytes %x; written to an empty buffer: %x", name, prefill, end, all, data)
				}
			}
			stats.Label(check, "writer:over_existing_content")
		}
		sched := rapid.SliceOfN(rapid.IntRange(0, 9), 1, 6).Draw(rt, "sched")
		nonzero := false
		for _, s := range sched {
			nonzero = nonzero || s > 0
		}
		if !nonzero {
			sched = append(sched, 1)
		}
		readers := []struct {
			name string
			mk   func() io.Reader
		}{
			{"ByteBuffer.Reader", func() io.Reader { return buf.Reader() }},
			{"bytes.Reader", func() io.Reader { return bytes.NewReader(data) }},
			{"OneByteReader", func() io.Reader { return iotest.OneByteReader(bytes.NewReader(data)) }},
			{"HalfReader", func() io.Reader { return iotest.HalfReader(bytes.NewReader(data)) }},
			{"DataErrReader", func() io.Reader { return iotest.DataErrReader(bytes.NewReader(data)) }},
			{fmt.Sprintf("chunks%v", sched), func() io.Reader { return &chunkReader{data: append([]byte{}, data...), sched: sched} }},
		}
		for _, rd := range readers {
			r := rd.mk()
			for _, it := range items {
				if err := readItem(r, it); err != nil {
					p := map[string]any{"items": fmt.Sprint(items), "bytes": hex.EncodeToString(data), "reader": rd.name, "problem": err.Error()}
					stats.Violation(check, p)
					rt.Fatalf("reader %s: %v\nitems %v\nbytes %x", rd.name, err, items, data)
				}
			}
			// the reader must be exactly at the end
			rest, _ := io.ReadAll(r)
			if len(rest) != 0 {
				stats.Violation(check, map[string]any{"items": fmt.Sprint(items), "reader": rd.name, "problem": fmt.Sprintf("%d unread bytes", len(rest))})
				rt.Fatalf("reader %s: %d bytes left after reading every item back", rd.name, len(rest))
			}
		}
		labels := []string{}
		for k := range kinds {
			labels = append(labels, "item:"+k)
		}
		stats.Case(check, len(kinds) >= 2 && len(data) > 1, fmt.Sprint(items), func() any {
			shown := data
			if len(shown) > 256 {
				shown = shown[:256]
			}
			return map[string]any{"items": fmt.Sprint(items), "bytes": hex.EncodeToString(shown), "length": len(data)}
		}, labels...)
	})
}

package c20

import (
	"testing"

	"verifharness/internal/stats"
)

// D26: BackgroundWorker checked the stopped flag before taking the lock. A registration that passed the check and got
// the lock after the shutdown had collected the workers was added and started but never cancelled (ShutdownAndWait
// hangs when its order's WaitGroup is still awaited, or returns while the worker runs), or - after the shutdown had
// cleared its maps - panicked with "assignment to entry in nil map". The verif hook parks the call in that window.
func TestRegressionRegisterRacingShutdown(t *testing.T) {
	w := []wspec{{Name: "w0", Order: 1, When: "pre", Beh: "hold"}, {Name: "w1", Order: 0, When: "pre", Beh: "hold"}}
	for _, r := range []racer{
		{Name: "r0", Order: 3, Phase: "hook_group", Group: 0}, // started after its order's turn: never cancelled, ShutdownAndWait returns
		{Name: "r0", Order: 3, Phase: "hook_after"},           // maps already cleared: panic
		{Name: "r0", Order: 0, Phase: "hook_group", Group: 0}, // joins a WaitGroup that is still awaited: never cancelled, ShutdownAndWait hangs
	} {
		runScenario(t, scenario{Workers: w, StartMode: "start", Callers: []string{"saw"}, Racers: []racer{r}})
	}
}

// Run waited only for the WaitGroups that existed when it was called: a worker with a new order that was added while
// the daemon was running was not awaited, Run returned while it was still being stopped.
func TestRegressionRunWaitsForWorkersAddedLater(t *testing.T) {
	for i := 0; i < 5; i++ {
		runScenario(t, scenario{Workers: []wspec{{Name: "w0", Order: -1, When: "pre", Beh: "hold"}, {Name: "w1", Order: -2, When: "run", Beh: "hold"}},
			StartMode: "run", Callers: []string{"saw"}})
	}
}

// TestKnownRunWaitGroupReuse (thorough tier only) aims at the proposed open known finding KF-C20-1 without excluding its
// signature: Run is waiting while the only worker of an order finishes and the name is registered again under the same
// order. A recovered sync.WaitGroup panic of Run is reported with stats.Known and never fails the test; anything else
// the oracle finds in these scenarios is a violation as usual.
func TestKnownRunWaitGroupReuse(t *testing.T) {
	const check = "known_run_waitgroup_reuse"
	stats.Rule(check, "fixed scenario (Run in its own goroutine, one held worker of order 1, one worker of order 0 that finishes and is re-registered under order 0) repeated; counts how often Run panics inside sync.WaitGroup")
	sc := scenario{Workers: []wspec{{Name: "w0", Order: 0, When: "pre", Beh: "early_rereg", ReOrder: 0, ReBeh: "immediate"}, {Name: "w1", Order: 1, When: "pre", Beh: "hold"}},
		StartMode: "run", Callers: []string{"saw"}}
	n := stats.Scale(200, 20000)
	seen := 0
	for i := 0; i < n; i++ {
		known := false
		labels := map[string]bool{}
		nontrivial := false
		failure := execScenario(sc, labels, &nontrivial, true, &known)
		if known {
			seen++
			stats.Known(knownRunWaitGroupReuse)
			stats.Label(check, "run_panicked_in_waitgroup")
		} else if failure != "" {
			stats.Violation(check, map[string]any{"scenario": sc, "failure": failure})
			t.Fatalf("%s: %s", check, failure)
		}
	}
	stats.Bulk(check, int64(n), 0, false, sc)
	stats.Note(check, "run_panics_observed", seen)
	t.Logf("Run panicked inside sync.WaitGroup in %d of %d repetitions", seen, n)
}

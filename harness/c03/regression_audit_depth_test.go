// Demonstration of an independent auditor (sixth round), kept as a regression test; see known_findings.json.
package c03

import (
	"bytes"
	"context"
	"testing"

	"github.com/iotaledger/hive.go/serializer/v2/serix"
)

type huntNode struct {
	Next *huntNode `serix:"next,optional"`
}

// Bytes that the validating decoder accepts must be re-encodable to exactly the same bytes.
func TestRegressionAuditDepthDecodeAcceptedNotReencodable(t *testing.T) {
	api := serix.NewAPI()
	ctx := context.Background()

	for _, depth := range []int{10, 990, 992, 993, 996, 1000} {
		// innermost node: optional field absent (uint32 length 0); every further level: uint32 length + nested node
		b := []byte{0, 0, 0, 0}
		for i := 1; i < depth; i++ {
			l := len(b)
			b = append([]byte{byte(l), byte(l >> 8), byte(l >> 16), byte(l >> 24)}, b...)
		}

		var dst huntNode
		n, err := api.Decode(ctx, b, &dst, serix.WithValidation())
		if err != nil {
			t.Logf("depth %d: Decode refused: %v", depth, err)
			continue
		}
		if n != len(b) {
			t.Fatalf("depth %d: consumed %d of %d", depth, n, len(b))
		}
		out, err := api.Encode(ctx, &dst, serix.WithValidation())
		if err != nil {
			t.Errorf("depth %d: Decode with validation accepted %d bytes, but re-encoding the decoded value fails: %.120s", depth, n, err.Error())
			continue
		}
		if !bytes.Equal(out, b[:n]) {
			t.Errorf("depth %d: re-encoded bytes differ", depth)
		}
	}
}

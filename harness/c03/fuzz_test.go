package c03

import (
	"bytes"
	"testing"

	"verifharness/internal/serixgen"
)

// FuzzCanonical: native coverage-guided search for an input the validating decoder accepts but that does not
// re-encode to the consumed bytes (thorough tier only).
func FuzzCanonical(f *testing.F) {
	tb := serixgen.Table(48, serixgen.QuickConfig)
	for i, e := range tb {
		f.Add(append([]byte{byte(i)}, e.Enc.B...))
	}
	f.Fuzz(func(t *testing.T, data []byte) {
		if len(data) == 0 {
			return
		}
		e := tb[int(data[0])%len(tb)]
		input := data[1:]
		dec := e.Case.Decode(input, true)
		if dec.Panic != nil || dec.Err != nil || dec.N < 0 || dec.N > len(input) {
			return // totality is C02's target
		}
		re := e.Case.Encode(dec.Value, true)
		if re.Panic == nil && re.Err != nil && serixgen.HasSaturatedTime(e.Case.Root, dec.Value) {
			return // stamp beyond the int64 range inside an ordered collection: outside the property's domain
		}
		if re.Panic != nil || re.Err != nil {
			t.Fatalf("accepted input does not re-encode: panic=%v err=%v\nschema %s\ninput %x", re.Panic, re.Err, e.Case.Root, input)
		}
		if !bytes.Equal(re.Bytes, input[:dec.N]) {
			ref := serixgen.RefEncode(e.Case.Root, dec.Value, true)
			patched, _ := excuseSaturatedTimes(input[:dec.N], re.Bytes, ref.F)
			if !bytes.Equal(re.Bytes, patched) && !serixgen.HasSaturatedTime(e.Case.Root, dec.Value) {
				t.Fatalf("accepted input is not canonical\nschema %s\ninput   %x\nreencod %x", e.Case.Root, input[:dec.N], re.Bytes)
			}
		}
	})
}

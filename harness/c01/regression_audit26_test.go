// Demonstration of an independent auditor (fifth round), kept as a regression test; see known_findings.json.
package c01

import (
	"context"
	"testing"

	"github.com/stretchr/testify/require"

	"github.com/iotaledger/hive.go/serializer/v2/serix"
)

type Hunt26Labels map[string]uint8

// an embedded (anonymous) field with the `inlined` setting - "inlined: handle embedded/anonymous field as a nested field"
type hunt26Object struct {
	Version      uint8 `serix:""`
	Hunt26Labels `serix:",inlined,lenPrefix=uint8"`
	Weight       uint8 `serix:""`
}

// the same with a named field
type hunt26ObjectNamed struct {
	Version uint8        `serix:""`
	Labels  Hunt26Labels `serix:",inlined,lenPrefix=uint8"`
	Weight  uint8        `serix:""`
}

// control: an inlined field with a key is nested under that key
type hunt26ObjectKeyed struct {
	Version uint8        `serix:""`
	Labels  Hunt26Labels `serix:"labels,inlined,lenPrefix=uint8"`
	Weight  uint8        `serix:""`
}

// mapEncodeStructFields splices the map form of an `inlined` field into the map form of the struct whenever that form is
// an object - also when the field is a MAP, whose keys are data. mapDecodeStructFields hands the whole object of the
// struct to the decoder of the inlined field; a struct picks its own members out of it, a map takes EVERY key: the
// members of the surrounding struct come back as entries of the map (or, if they do not fit the element type, the
// decoder fails on its own output).
func TestRegressionAudit26InlinedMapSwallowsTheSiblingFields(t *testing.T) {
	api := serix.NewAPI()
	ctx := context.Background()
	require.NoError(t, api.RegisterTypeSettings("", serix.TypeSettings{}.WithLengthPrefixType(serix.LengthPrefixTypeAsByte)))

	for _, validation := range []bool{false, true} {
		var opts []serix.Option
		if validation {
			opts = append(opts, serix.WithValidation())
		}

		// control: with a key
		{
			src := &hunt26ObjectKeyed{Version: 1, Labels: Hunt26Labels{"k": 2}, Weight: 3}
			j, err := api.JSONEncode(ctx, src, opts...)
			require.NoError(t, err)
			dst := &hunt26ObjectKeyed{}
			require.NoError(t, api.JSONDecode(ctx, j, dst, opts...))
			require.Equal(t, src, dst)
		}

		// embedded
		{
			src := &hunt26Object{Version: 1, Hunt26Labels: Hunt26Labels{"k": 2}, Weight: 3}

			// (the binary form round-trips)
			b, err := api.Encode(ctx, src, opts...)
			require.NoError(t, err)
			bdst := &hunt26Object{}
			_, err = api.Decode(ctx, b, bdst, opts...)
			require.NoError(t, err)
			require.Equal(t, src, bdst)

			j, err := api.JSONEncode(ctx, src, opts...)
			if err == nil { // (refusing the combination would be fine)
				dst := &hunt26Object{}
				if err := api.JSONDecode(ctx, j, dst, opts...); err != nil {
					t.Errorf("embedded, validation=%v: JSONEncode wrote %s, JSONDecode fails: %v", validation, j, err)
				} else if len(dst.Hunt26Labels) != len(src.Hunt26Labels) {
					t.Errorf("embedded, validation=%v: JSONEncode wrote %s for labels %v, JSONDecode returns labels %v", validation, j, src.Hunt26Labels, dst.Hunt26Labels)
				}
			}
		}

		// named field
		{
			src := &hunt26ObjectNamed{Version: 1, Labels: Hunt26Labels{"k": 2}, Weight: 3}
			j, err := api.JSONEncode(ctx, src, opts...)
			if err == nil {
				dst := &hunt26ObjectNamed{}
				if err := api.JSONDecode(ctx, j, dst, opts...); err != nil {
					t.Errorf("named, validation=%v: JSONEncode wrote %s, JSONDecode fails: %v", validation, j, err)
				} else if len(dst.Labels) != len(src.Labels) {
					t.Errorf("named, validation=%v: JSONEncode wrote %s for labels %v, JSONDecode returns labels %v", validation, j, src.Labels, dst.Labels)
				}
			}
		}
	}
}

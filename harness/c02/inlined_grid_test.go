package c02

import (
	"context"
	"encoding/json"
	"fmt"
	"reflect"
	"sort"
	"testing"

	"github.com/iotaledger/hive.go/serializer/v2/serix"
	"pgregory.net/rapid"
	"verifharness/internal/inlgrid"
	"verifharness/internal/stats"
)

// gridKeys are the keys that the member types of the inlined-member grid, their implementations and the holder use.
var gridKeys = []string{"x", "foo", "type", "data", "a", "b", "q", "r", "ta", "v", "base", "bar", "radius", "level", "codecfoo", "i", "in", "m"}

// TestInlinedHolderDecodeTotal: the decoders of the JSON form decide for every inlined member whether it is there by
// looking for its keys (and for the type code of what it may hold). This test hands them documents in which those keys
// are present, absent, duplicated across members and of the wrong shape, for every holder type of the c01 grid.
func TestInlinedHolderDecodeTotal(t *testing.T) {
	const check = "inlined_holder_decode_total"
	stats.Rule(check, "rapid draws a holder {X uint8 \"x\"; M <member> <tag>; Foo uint8 \"foo,omitempty\"} from the inlined-member grid (24 member types x tag {inlined; inlined,optional; inlined,omitempty} x holder with/without a type code), a start document (JSONEncode of the holder with one of the listed member values, or {}) and 1..6 mutations (delete a key; set one of the grid's keys to a generated JSON value of any shape, to the entry of another key, or to a type code 0..9; wrap the document of another member value into it), validation on/off. Oracle: JSONDecode of the marshalled document and MapDecode of the map return a value or an error - no panic - and agree on success/failure. Distinct by (holder, document); non-trivial = at least one mutation touched a key the holder's map form uses")
	ctx := context.Background()
	members := inlgrid.Members()
	tags := []string{",inlined", ",inlined,optional", ",inlined,omitempty"}
	rapid.Check(t, func(rt *rapid.T) {
		mem := members[rapid.IntRange(0, len(members)-1).Draw(rt, "member")]
		tag := rapid.SampledFrom(tags).Draw(rt, "tag")
		typedHolder := rapid.Bool().Draw(rt, "typedHolder")
		validate := rapid.Bool().Draw(rt, "validation")
		holderT := reflect.StructOf([]reflect.StructField{
			{Name: "X", Type: reflect.TypeOf(uint8(0)), Tag: `serix:"x"`},
			{Name: "M", Type: mem.Typ, Tag: reflect.StructTag(`serix:"` + tag + `"`)},
			{Name: "Foo", Type: reflect.TypeOf(uint8(0)), Tag: `serix:"foo,omitempty"`},
		})
		api := inlgrid.NewAPI()
		if typedHolder {
			if err := api.RegisterTypeSettings(reflect.New(holderT).Elem().Interface(), serix.TypeSettings{}.WithObjectType(uint8(1))); err != nil {
				rt.Fatalf("registration: %v", err)
			}
		}
		var opts []serix.Option
		if validate {
			opts = append(opts, serix.WithValidation())
		}
		// start documents: what the encoder writes for the listed values of the member (where it accepts them)
		encodeWith := func(vi int) map[string]any {
			in := reflect.New(holderT)
			in.Elem().Field(0).SetUint(200)
			if mv := mem.Values[vi]; mv != nil {
				in.Elem().Field(1).Set(reflect.ValueOf(mv))
			}
			doc := map[string]any{}
			func() {
				defer func() { _ = recover() }() // (a value without any encoding may crash a codec: c01 counts that)
				if j, err := api.JSONEncode(ctx, in.Interface()); err == nil {
					_ = json.Unmarshal(j, &doc)
				}
			}()

			return doc
		}
		doc := encodeWith(rapid.IntRange(0, len(mem.Values)-1).Draw(rt, "startValue"))
		used := map[string]bool{}
		for k := range doc {
			used[k] = true
		}
		touched := false
		nMut := rapid.IntRange(1, 6).Draw(rt, "mutations")
		for i := 0; i < nMut; i++ {
			label := fmt.Sprintf("m%d", i)
			key := rapid.SampledFrom(gridKeys).Draw(rt, label+".key")
			switch rapid.IntRange(0, 4).Draw(rt, label+".op") {
			case 0:
				delete(doc, key)
			case 1:
				doc[key] = genJSON(rt, 1, label+".v")
			case 2:
				other := rapid.SampledFrom(gridKeys).Draw(rt, label+".from")
				if v, ok := doc[other]; ok {
					doc[key] = deepCopy(v)
				}
			case 3:
				doc["type"] = float64(rapid.IntRange(0, 9).Draw(rt, label+".code"))
				key = "type"
			default:
				for k, v := range encodeWith(rapid.IntRange(0, len(mem.Values)-1).Draw(rt, label+".graft")) {
					doc[k] = v
					used[k] = true
				}
			}
			if used[key] {
				touched = true
			}
		}
		keys := make([]string, 0, len(doc))
		for k := range doc {
			keys = append(keys, k)
		}
		sort.Strings(keys)
		raw, err := json.Marshal(doc)
		if err != nil {
			rt.Fatalf("marshal: %v", err)
		}
		cell := fmt.Sprintf("member=%s tag=%q typedHolder=%v validation=%v doc=%s", mem.Name, tag, typedHolder, validate, raw)
		fail := func(format string, a ...any) {
			msg := fmt.Sprintf(format, a...)
			stats.Violation(check, map[string]any{"cell": cell, "problem": msg})
			rt.Fatalf("%s: %s", cell, msg)
		}
		run := func(what string, f func() error) (failed bool) {
			defer func() {
				if r := recover(); r != nil {
					fail("%s panicked: %v", what, r)
				}
			}()

			return f() != nil
		}
		jsonFailed := run("JSONDecode", func() error { return api.JSONDecode(ctx, raw, reflect.New(holderT).Interface(), opts...) })
		// (MapDecode gets what encoding/json makes of the document, as JSONDecode does internally)
		var m map[string]any
		if err := json.Unmarshal(raw, &m); err != nil {
			rt.Fatalf("unmarshal: %v", err)
		}
		mapFailed := run("MapDecode", func() error { return api.MapDecode(ctx, m, reflect.New(holderT).Interface(), opts...) })
		if jsonFailed != mapFailed {
			fail("JSONDecode failed: %v, MapDecode of the same document failed: %v", jsonFailed, mapFailed)
		}
		labels := []string{"tag:" + tag}
		if jsonFailed {
			labels = append(labels, "refused")
		} else {
			labels = append(labels, "decoded")
		}
		stats.Case(check, touched, cell, func() any { return cell }, labels...)
	})
}

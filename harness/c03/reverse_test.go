package c03

import (
	"bytes"
	"encoding/hex"
	"fmt"
	"reflect"
	"testing"

	"pgregory.net/rapid"
	"verifharness/internal/serixgen"
	"verifharness/internal/stats"
)

// excuseSaturatedTimes patches every time-stamp field of input whose value lies beyond the int64-nanosecond range
// with the bytes of the re-encoding (documented, non-injective saturation). It returns the patched input and the
// number of excused fields. The field map comes from the reference encoding of the decoded value, whose layout
// coincides with the input up to the first differing byte.
func excuseSaturatedTimes(input, reenc []byte, fm []serixgen.FieldRef) ([]byte, int) {
	patched := append([]byte{}, input...)
	excused := 0
	for {
		if len(patched) != len(reenc) {
			return patched, excused
		}
		first := -1
		for i := range patched {
			if patched[i] != reenc[i] {
				first = i
				break
			}
		}
		if first < 0 {
			return patched, excused
		}
		ok := false
		for _, f := range fm {
			if f.Kind == "time" && first >= f.Off && first < f.Off+f.W && f.Off+8 <= len(patched) {
				var v uint64
				for k := 7; k >= 0; k-- {
					v = v<<8 | uint64(patched[f.Off+k])
				}
				if v > serixgen.MaxNanos {
					copy(patched[f.Off:f.Off+8], reenc[f.Off:f.Off+8])
					excused++
					ok = true
				}
				break
			}
		}
		if !ok {
			return patched, excused
		}
	}
}

// TestReverseCanonical: whatever the validating decoder accepts re-encodes to exactly the consumed bytes, canonical
// reference encodings are accepted, and inputs built to violate one documented rule are rejected.
func TestReverseCanonical(t *testing.T) {
	const check = "reverse_canonical"
	stats.Rule(check, "a valid value of a generated shape is reference-encoded (with its field map); the input is that encoding unchanged (1/6), a structure-aware mutation of it (hostile lengths/counts/optional markers, bool 2..255, changed type codes, truncation at field boundaries, swapped/duplicated/dropped collection elements, counts outside bounds, time stamps beyond int64, garbage, byte havoc, random tails) or raw random bytes; oracle: Decode(validation) accepts n bytes => Encode(decoded, validation) succeeds and equals input[:n] (time-stamp fields > MaxInt64 ns excused and counted); the unchanged reference encoding must be accepted; mutations that plant a rule violation must be rejected (by both decoders for bool/optional-marker/duplicate-map-key/truncation, by the validating decoder for order/no-dup/type-uniqueness/must-occur/bounds). Distinct by (shape, input bytes); non-trivial = accepted mutated input, or a planted rule violation")
	rapid.Check(t, func(rt *rapid.T) {
		conf := cfg()
		conf.FocusTypeRules = rapid.IntRange(0, 5).Draw(rt, "focusTypeRules") == 0
		c := serixgen.NewCase(rt, conf)
		v, vl := serixgen.GenValue(rt, c.Root, serixgen.ValidMode, cfg())
		reverseBody(rt, check, c.Root.String(), c.Root, c.Encode, c.Decode, v, vl)
	})
}

// TestTopLevelReverse is TestReverseCanonical for top-level objects whose settings travel with the call (see
// TestTopLevelDifferential): the decoder that gets array rules, bounds and the prefix width through
// serix.WithTypeSettings has to enforce them exactly like the decoder of a struct field.
func TestTopLevelReverse(t *testing.T) {
	const check = "toplevel_reverse"
	stats.Rule(check, "as reverse_canonical, for the top-level objects of toplevel_differential (settings passed by serix.WithTypeSettings for unnamed collections, strings and byte slices): canonical bytes accepted, accepted => re-encode equals the consumed bytes, planted rule violations rejected. Distinct by (kind, shape, input bytes); non-trivial = accepted mutated input, or a planted rule violation")
	rapid.Check(t, func(rt *rapid.T) {
		c := serixgen.NewCaseWithTop(rt, cfg())
		v, vl := serixgen.GenValue(rt, c.Top, serixgen.ValidMode, cfg())
		if (c.Top.Kind == serixgen.KPtr || c.Top.Kind == serixgen.KIface) && v.IsNil() {
			stats.Case(check, false, "", nil, "nil_top_level_object_skipped")
			return
		}
		stats.Label(check, "top:"+c.TopKind)
		reverseBody(rt, check, c.TopKind+" "+c.Top.String(), c.Top, c.EncodeTop, c.DecodeTop, v, vl)
	})
}

func reverseBody(rt *rapid.T, check, schema string, n *serixgen.Node, encode func(reflect.Value, bool) serixgen.Outcome,
	decode func([]byte, bool) serixgen.Outcome, v reflect.Value, vl map[string]bool) {
	fail := func(ex map[string]any, format string, a ...any) {
		msg := fmt.Sprintf(format, a...)
		p := map[string]any{"schema": schema, "problem": msg, "value": serixgen.Render(n, v)}
		for k, x := range ex {
			p[k] = x
		}
		stats.Violation(check, p)
		rt.Fatalf("%s: %s\nschema: %s\nvalue: %v\nextra: %v", check, msg, schema, p["value"], ex)
	}
	{
		ref := serixgen.RefEncode(n, v, true)
		unvalidated := false
		if ref.Reject != "" {
			// the value has no encoding under validation (it breaks a rule, or the shape's rules cannot be met at all);
			// its encoding WITHOUT validation is still an input the validating decoder has to treat by the reverse claim:
			// reject it, or accept it and then re-encode it to the same bytes
			if ref = serixgen.RefEncode(n, v, false); ref.Reject != "" {
				stats.Case(check, false, "", nil, "skipped:value_not_encodable("+fmt.Sprint(vl["unsatisfiable_rules"])+")")
				return
			}
			unvalidated = true
		}
		var mut serixgen.Mutation
		switch k := rapid.IntRange(0, 11).Draw(rt, "inputKind"); {
		case unvalidated:
			mut = serixgen.Mutation{B: ref.B, Label: "encoding_without_validation", HostileOff: -1}
		case k <= 1:
			mut = serixgen.Mutation{B: ref.B, Label: "canonical", HostileOff: -1}
		case k == 2:
			mut = serixgen.Mutation{B: rapid.SliceOfN(rapid.Byte(), 0, 40).Draw(rt, "raw"), Label: "raw_random", HostileOff: -1}
		default:
			mut = serixgen.Mutate(rt, ref)
		}
		input := mut.B
		labels := []string{"input:" + mut.Label}
		ex := map[string]any{"input": hex.EncodeToString(input), "mutation": mut.Label, "valid_encoding": hex.EncodeToString(ref.B)}
		nt := false

		dec := decode(input, true)
		decNV := decode(input, false)
		if dec.Panic != nil || decNV.Panic != nil {
			// totality is C02's claim; it is reported there
			stats.Case(check, false, "", nil, append(labels, "decoder_panicked(reported by C02)")...)
			return
		}
		if mut.MustReject != "" {
			nt = true
			labels = append(labels, "planted_violation:"+mut.MustReject)
			if dec.Err == nil {
				fail(ex, "validating decoder accepted an input that violates a documented rule: %s", mut.Why)
			}
			if mut.MustReject == "always" && decNV.Err == nil {
				fail(ex, "decoder (no validation) accepted an input that violates a rule enforced in every mode: %s", mut.Why)
			}
		}
		if mut.Label == "canonical" {
			if dec.Err != nil {
				fail(ex, "validating decoder rejected the canonical encoding of an encodable value: %v", dec.Err)
			}
			if dec.N != len(input) {
				fail(ex, "validating decoder consumed %d of %d canonical bytes", dec.N, len(input))
			}
		}
		if dec.Err == nil {
			labels = append(labels, "accepted")
			if mut.Label != "canonical" {
				nt = true
				labels = append(labels, "accepted_mutated")
			}
			cons := dec.N
			if cons < 0 || cons > len(input) {
				stats.Case(check, false, "", nil, append(labels, "bad_consumed_count(reported by C02)")...)
				return
			}
			re := encode(dec.Value, true)
			ex["decoded"] = serixgen.Render(n, dec.Value)
			ex["consumed"] = cons
			if re.Panic != nil {
				fail(ex, "re-encoding an accepted value panicked: %v", re.Panic)
			}
			// inputs carrying a time stamp beyond the int64-nanosecond range are outside the property's domain (documented
			// saturation). Where the stamp sits in a plain field it is excused field by field below; where it sits inside
			// a collection whose order matters the saturated value may sort elsewhere (or break the order on re-encoding),
			// so the whole input is excluded - only for mutation kinds that can plant such a stamp.
			// Any mutation can plant such a stamp (a changed count or length makes the decoder read other bytes as a time
			// field), so the exclusion applies to every non-canonical input whose decoded value holds a saturated stamp.
			outOfDomain := mut.Label != "canonical" && serixgen.HasSaturatedTime(n, dec.Value)
			if re.Err != nil && outOfDomain {
				stats.NoteAdd(check, "excluded_saturating_time_cases", 1)
				stats.Case(check, false, "", nil, append(labels, "excluded_saturating_time_reordered")...)
				return
			}
			if re.Err != nil {
				fail(ex, "validating decoder accepted the input but re-encoding the decoded value with validation fails: %v", re.Err)
			}
			if !bytes.Equal(re.Bytes, input[:cons]) {
				refDec := serixgen.RefEncode(n, dec.Value, true)
				patched, excused := excuseSaturatedTimes(input[:cons], re.Bytes, refDec.F)
				if excused > 0 {
					labels = append(labels, "excluded_saturating_time")
					stats.NoteAdd(check, "excluded_saturating_time_fields", int64(excused))
				}
				if !bytes.Equal(re.Bytes, patched) && outOfDomain {
					// a stamp beyond the int64 range inside a collection the encoder sorts moves when it saturates, so the
					// field-by-field excuse cannot line the two encodings up: the input is outside the property's domain
					labels = append(labels, "excluded_saturating_time_reordered")
					stats.NoteAdd(check, "excluded_saturating_time_cases", 1)
				} else if !bytes.Equal(re.Bytes, patched) {
					ex["reencoded"] = hex.EncodeToString(re.Bytes)
					fail(ex, "accepted input is not canonical: re-encoding yields different bytes")
				}
			}
		} else {
			labels = append(labels, "rejected")
		}
		stats.Case(check, nt, schema+"|"+hex.EncodeToString(input), func() any {
			return map[string]any{"schema": schema, "input": hex.EncodeToString(input), "mutation": mut.Label, "accepted": dec.Err == nil}
		}, labels...)
	}
}

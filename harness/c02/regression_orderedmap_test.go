// Found by an independent auditor (second round): SerializableOrderedMap.Decode inserted a decoded interface key without
// checking that the implementation selected by the input is comparable.
package c02

import (
	"testing"

	"github.com/iotaledger/hive.go/ds/serializableorderedmap"
	"github.com/iotaledger/hive.go/serializer/v2/serix"
)

type omKey interface{ isKey() }

type NumKey uint8

func (NumKey) isKey() {}

type ListKey []uint8

func (ListKey) isKey() {}

func TestRegressionOrderedMapUnhashableKey(t *testing.T) {
	api := serix.NewAPI()
	if err := api.RegisterTypeSettings(NumKey(0), serix.TypeSettings{}.WithObjectType(uint8(0))); err != nil {
		t.Fatal(err)
	}
	if err := api.RegisterTypeSettings(ListKey{}, serix.TypeSettings{}.WithObjectType(uint8(1)).WithLengthPrefixType(serix.LengthPrefixTypeAsByte)); err != nil {
		t.Fatal(err)
	}
	if err := api.RegisterInterfaceObjects((*omKey)(nil), NumKey(0), ListKey{}); err != nil {
		t.Fatal(err)
	}

	// sanity: a well-formed map round trips
	src := serializableorderedmap.New[omKey, uint8]()
	src.Set(NumKey(3), 7)
	enc, err := src.Encode(api)
	if err != nil {
		t.Fatal(err)
	}
	dst := serializableorderedmap.New[omKey, uint8]()
	if n, err := dst.Decode(api, enc); err != nil || n != len(enc) {
		t.Fatalf("sanity decode: n=%d err=%v", n, err)
	}

	// size=1, key: type code 1 (ListKey), length 1, element 5; value 9
	input := []byte{1, 0, 0, 0, 1, 1, 5, 9}
	defer func() {
		if r := recover(); r != nil {
			t.Fatalf("Decode panicked on input %x: %v", input, r)
		}
	}()
	m := serializableorderedmap.New[omKey, uint8]()
	n, err := m.Decode(api, input)
	t.Logf("n=%d err=%v", n, err)
}

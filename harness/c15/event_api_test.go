package c15

import (
	"strconv"
	"sync"
	"sync/atomic"

	"github.com/iotaledger/hive.go/runtime/event"
	"github.com/iotaledger/hive.go/runtime/workerpool"
	"verifharness/internal/ctl"
)

// evAPI is a uniform face over the generated event types (Event, Event1, Event2) so that one generator and one
// oracle drive all of them. Every trigger carries one int (the unique trigger id); the adapters encode it into the
// real argument list and decode + cross-check it in the callback ("with that call's arguments").
type evAPI interface {
	Hook(fn func(arg int), opts ...event.Option) (unhook func())
	Trigger(arg int)
	LinkTo(target evAPI) // nil unlinks
}

// poisonArg is reported by an adapter whose callback received an inconsistent argument tuple.
const poisonArg = -777777

// ---- arity 0: the trigger id cannot travel through the call; it is published in a case-wide cell before Trigger.
// Only used by the sequential machine (one trigger in flight, pool drained before the next one).
type ev0 struct {
	e   *event.Event
	cur *atomic.Int64
}

func (a *ev0) Hook(fn func(int), opts ...event.Option) func() {
	return a.e.Hook(func() { fn(int(a.cur.Load())) }, opts...).Unhook
}
func (a *ev0) Trigger(arg int) { a.cur.Store(int64(arg)); a.e.Trigger() }
func (a *ev0) LinkTo(t evAPI) {
	if t == nil {
		a.e.LinkTo(nil)
		return
	}
	a.e.LinkTo(t.(*ev0).e)
}

// ---- arity 1
type ev1 struct{ e *event.Event1[int] }

func (a *ev1) Hook(fn func(int), opts ...event.Option) func() { return a.e.Hook(fn, opts...).Unhook }
func (a *ev1) Trigger(arg int)                                { a.e.Trigger(arg) }
func (a *ev1) LinkTo(t evAPI) {
	if t == nil {
		a.e.LinkTo(nil)
		return
	}
	a.e.LinkTo(t.(*ev1).e)
}

// ---- arity 2: second argument is the decimal rendering of the first; a mismatch is logged as poisonArg.
type ev2 struct{ e *event.Event2[int, string] }

func (a *ev2) Hook(fn func(int), opts ...event.Option) func() {
	return a.e.Hook(func(x int, s string) {
		if strconv.Itoa(x) != s {
			fn(poisonArg)
			return
		}
		fn(x)
	}, opts...).Unhook
}
func (a *ev2) Trigger(arg int) { a.e.Trigger(arg, strconv.Itoa(arg)) }
func (a *ev2) LinkTo(t evAPI) {
	if t == nil {
		a.e.LinkTo(nil)
		return
	}
	a.e.LinkTo(t.(*ev2).e)
}

func newEvAPI(arity int, cur *atomic.Int64, opts ...event.Option) evAPI {
	switch arity {
	case 0:
		return &ev0{e: event.New(opts...), cur: cur}
	case 1:
		return &ev1{e: event.New1[int](opts...)}
	default:
		return &ev2{e: event.New2[int, string](opts...)}
	}
}

// poolSel says which WithWorkerPool option an event / hook is created with.
type poolSel int

const (
	poolUnset  poolSel = iota // no option: hooks inherit the event's pool, events have none
	poolShared                // WithWorkerPool(sharedPool())
	poolForced                // WithWorkerPool(nil): forced in-place execution
)

func (p poolSel) String() string { return [...]string{"-", "pool", "nopool"}[p] }

func evOpts(max int, p poolSel) []event.Option {
	var o []event.Option
	if max > 0 {
		o = append(o, event.WithMaxTriggerCount(uint64(max)))
	}
	switch p {
	case poolShared:
		o = append(o, event.WithWorkerPool(sharedPool()))
	case poolForced:
		o = append(o, event.WithWorkerPool(nil))
	}
	return o
}

// effectivePooled mirrors the documented option semantics: a hook-level WithWorkerPool wins (nil forces in-place),
// otherwise the event-level one applies.
func effectivePooled(hook, ev poolSel) bool {
	switch hook {
	case poolShared:
		return true
	case poolForced:
		return false
	}
	return ev == poolShared
}

// One started worker pool for the whole test process: cases run one after another and drain it before they end, so
// it is idle between cases. (Creating and shutting down a pool per case would exercise C16's subject, not C15's.)
var (
	poolOnce sync.Once
	thePool  *workerpool.WorkerPool
)

func sharedPool() *workerpool.WorkerPool {
	poolOnce.Do(func() {
		thePool = workerpool.New("c15", workerpool.WithWorkerCount(3)).Start()
	})
	return thePool
}

// drainPool waits until every submitted task (including tasks submitted by tasks) has run.
func drainPool() bool {
	return ctl.Within(ctl.HangTimeout, func() { sharedPool().PendingTasksCounter.WaitIsZero() })
}

// callRec is one observed hook invocation.
type callRec struct {
	Hook int `json:"hook"`
	Arg  int `json:"arg"`
}

type callLog struct {
	mu   sync.Mutex
	recs []callRec
}

func (l *callLog) add(hook, arg int) {
	l.mu.Lock()
	l.recs = append(l.recs, callRec{hook, arg})
	l.mu.Unlock()
}

func (l *callLog) snapshot(from int) []callRec {
	l.mu.Lock()
	defer l.mu.Unlock()
	return append([]callRec(nil), l.recs[from:]...)
}

func (l *callLog) len() int {
	l.mu.Lock()
	defer l.mu.Unlock()
	return len(l.recs)
}

package c01

import (
	"context"
	"fmt"
	"reflect"
	"testing"

	"github.com/iancoleman/orderedmap"

	"github.com/iotaledger/hive.go/ierrors"
	"github.com/iotaledger/hive.go/serializer/v2/serix"
	"verifharness/internal/stats"
)

// Member types for TestInlinedMemberMatrix. Every one of them has a map form that is a JSON object (or is refused as an
// inlined member), and their keys are chosen so that some collide with the sibling field `foo` of the holder.
type (
	imPlain struct {
		A uint8  `serix:"a"`
		B uint16 `serix:"b"`
	}
	imAllOptional struct {
		Q *imPlain `serix:"q,optional"`
		R uint8    `serix:"r,omitempty"`
	}
	imTyped struct {
		TA uint8 `serix:"ta"`
	}
	imFoo struct {
		Foo uint8 `serix:"foo"`
	}
	ImBase struct {
		V uint8 `serix:"v"`
	}
	imEmb struct {
		ImBase `serix:""`
	}
	imEmbKeyed struct {
		ImBase `serix:"base"`
	}
	imNestFoo struct {
		In imFoo `serix:",inlined"`
	}
	imIface interface{ imIface() }
	imImplA struct {
		Foo uint8 `serix:"foo"`
	}
	imImplB struct {
		Bar uint8 `serix:"bar"`
	}
	imNestIface struct {
		I imIface `serix:",inlined"`
	}
	imNestIfaceOpt struct {
		I imIface `serix:",inlined,optional"`
	}
	imImplC struct {
		Radius uint8 `serix:"radius"`
		Foo    uint8 `serix:"foo,omitempty"`
	}
	imNestCodec struct {
		Level uint8   `serix:"level"`
		Note  imCodec `serix:",inlined"`
	}
	imArr   [4]byte
	imBlob  []byte
	imCodec struct {
		Foo uint8 `serix:""`
	}
)

func (imImplA) imIface() {}
func (imImplB) imIface() {}
func (imImplC) imIface() {}

func (m imCodec) EncodeJSON() (any, error) {
	o := orderedmap.New()
	o.Set("codecfoo", m.Foo)

	return o, nil
}

func (m *imCodec) DecodeJSON(v any) error {
	mm, ok := v.(map[string]any)
	if !ok {
		return ierrors.New("not a map")
	}
	f, ok := mm["codecfoo"].(float64)
	if !ok {
		return ierrors.New("no entry codecfoo")
	}
	m.Foo = uint8(f)

	return nil
}

type imMember struct {
	name string
	typ  reflect.Type
	// values of the member: index 0 is the zero value of the type
	values []any
}

func ptrTo[T any](v T) *T { return &v }

// imEqual compares two holders; a nil and an empty byte slice are the same value (neither form distinguishes them).
func imEqual(a, b reflect.Value) bool {
	for _, h := range []reflect.Value{a, b} {
		for i := 0; i < h.Elem().NumField(); i++ {
			if m := h.Elem().Field(i); m.Kind() == reflect.Slice && m.Len() == 0 {
				m.Set(reflect.Zero(m.Type()))
			}
		}
	}

	return reflect.DeepEqual(a.Interface(), b.Interface())
}

func imMembers() []imMember {
	ifaceT := reflect.TypeOf((*imIface)(nil)).Elem()
	plain := imPlain{A: 7, B: 300}
	return []imMember{
		{"struct", reflect.TypeOf(imPlain{}), []any{imPlain{}, plain, imPlain{A: 1}}},
		{"ptr_struct", reflect.TypeOf(&imPlain{}), []any{(*imPlain)(nil), &plain, &imPlain{}}},
		{"ptrptr_struct", reflect.TypeOf(ptrTo(&imPlain{})), []any{(**imPlain)(nil), ptrTo(&plain), ptrTo(&imPlain{})}},
		{"all_optional_struct", reflect.TypeOf(imAllOptional{}), []any{imAllOptional{}, imAllOptional{Q: &plain}, imAllOptional{R: 3}}},
		{"ptr_all_optional_struct", reflect.TypeOf(&imAllOptional{}), []any{(*imAllOptional)(nil), &imAllOptional{}, &imAllOptional{Q: &plain}, &imAllOptional{R: 3}}},
		{"typed_struct", reflect.TypeOf(imTyped{}), []any{imTyped{}, imTyped{TA: 9}}},
		{"ptr_typed_struct", reflect.TypeOf(&imTyped{}), []any{(*imTyped)(nil), &imTyped{}, &imTyped{TA: 9}}},
		{"foo_struct", reflect.TypeOf(imFoo{}), []any{imFoo{}, imFoo{Foo: 42}}},
		{"ptr_foo_struct", reflect.TypeOf(&imFoo{}), []any{(*imFoo)(nil), &imFoo{Foo: 42}}},
		{"embedding_struct", reflect.TypeOf(imEmb{}), []any{imEmb{}, imEmb{ImBase{V: 5}}}},
		{"ptr_embedding_struct", reflect.TypeOf(&imEmb{}), []any{(*imEmb)(nil), &imEmb{ImBase{V: 5}}, &imEmb{}}},
		{"ptr_embedding_keyed_struct", reflect.TypeOf(&imEmbKeyed{}), []any{(*imEmbKeyed)(nil), &imEmbKeyed{ImBase{V: 5}}}},
		{"nested_inlined_foo", reflect.TypeOf(imNestFoo{}), []any{imNestFoo{}, imNestFoo{In: imFoo{Foo: 42}}}},
		{"ptr_nested_inlined_foo", reflect.TypeOf(&imNestFoo{}), []any{(*imNestFoo)(nil), &imNestFoo{In: imFoo{Foo: 42}}}},
		{"iface", ifaceT, []any{nil, imImplA{Foo: 42}, imImplB{Bar: 8}, imImplC{Radius: 2}, imImplC{Radius: 2, Foo: 3}}},
		{"nested_inlined_json_codec", reflect.TypeOf(imNestCodec{}), []any{imNestCodec{}, imNestCodec{Level: 1, Note: imCodec{Foo: 9}}}},
		{"ptr_nested_inlined_json_codec", reflect.TypeOf(&imNestCodec{}), []any{(*imNestCodec)(nil), &imNestCodec{Level: 1, Note: imCodec{Foo: 9}}, &imNestCodec{}}},
		{"nested_inlined_iface", reflect.TypeOf(imNestIface{}), []any{imNestIface{}, imNestIface{I: imImplA{Foo: 42}}, imNestIface{I: imImplB{Bar: 8}}}},
		{"ptr_nested_inlined_optional_iface", reflect.TypeOf(&imNestIfaceOpt{}), []any{(*imNestIfaceOpt)(nil), &imNestIfaceOpt{}, &imNestIfaceOpt{I: imImplA{Foo: 42}}, &imNestIfaceOpt{I: imImplB{Bar: 8}}}},
		{"typed_byte_array", reflect.TypeOf(imArr{}), []any{imArr{}, imArr{1, 2, 3, 4}}},
		{"ptr_typed_byte_array", reflect.TypeOf(&imArr{}), []any{(*imArr)(nil), &imArr{1, 2, 3, 4}, &imArr{}}},
		{"typed_byte_slice", reflect.TypeOf(imBlob{}), []any{imBlob(nil), imBlob{1, 2}}},
		{"json_codec", reflect.TypeOf(imCodec{}), []any{imCodec{}, imCodec{Foo: 9}}},
		{"ptr_json_codec", reflect.TypeOf(&imCodec{}), []any{(*imCodec)(nil), &imCodec{Foo: 9}, &imCodec{}}},
	}
}

// TestInlinedMemberMatrix enumerates holder structs {X uint8 "x"; M <member> ",inlined[,optional|,omitempty]";
// Foo uint8 "foo,omitempty"} over the member types above, the three tag variants, the holder with and without a type
// code of its own, every listed value of the member and the sibling Foo zero (left out) or not. The generated shapes
// reach only part of this grid; the audit rounds found most of their JSON-form cases in it.
func TestInlinedMemberMatrix(t *testing.T) {
	const check = "inlined_member_matrix"
	stats.Rule(check, "exhaustive grid: 24 member types (struct, pointer, pointer to pointer, struct whose members can all be left out, struct with a type code, struct with a key that collides with a sibling, embedding structs, struct that inlines a struct / an interface in turn, interface, typed byte array / slice, type with a JSON codec of its own; by value and through pointers) x tag {inlined; inlined,optional; inlined,omitempty} x holder with/without a type code x every listed member value (zero/nil, set, set-but-empty) x sibling `foo,omitempty` zero or 1 x validation on/off. Oracle: if Encode accepts the value, Decode reads everything back to an equal value; if JSONEncode accepts it, JSONDecode succeeds and yields an equal value (a type that serix refuses as a whole, an encoder that refuses the value: counted, fine). Distinct by grid cell; non-trivial = JSONEncode accepted the value")
	ctx := context.Background()
	ifaceT := reflect.TypeOf((*imIface)(nil)).Elem()
	cells := 0
	for _, mem := range imMembers() {
		for _, tag := range []string{",inlined", ",inlined,optional", ",inlined,omitempty"} {
			for _, typedHolder := range []bool{false, true} {
				holderT := reflect.StructOf([]reflect.StructField{
					{Name: "X", Type: reflect.TypeOf(uint8(0)), Tag: `serix:"x"`},
					{Name: "M", Type: mem.typ, Tag: reflect.StructTag(`serix:"` + tag + `"`)},
					{Name: "Foo", Type: reflect.TypeOf(uint8(0)), Tag: `serix:"foo,omitempty"`},
				})
				api := imAPI(t)
				must := func(err error) {
					if err != nil {
						t.Fatalf("registration: %v", err)
					}
				}
				if typedHolder {
					// (code 1 is also the code of an implementation of the interface)
					must(api.RegisterTypeSettings(reflect.New(holderT).Elem().Interface(), serix.TypeSettings{}.WithObjectType(uint8(1))))
				}
				for vi, mv := range mem.values {
					for _, foo := range []uint8{0, 1} {
						for _, validate := range []bool{false, true} {
							cells++
							var opts []serix.Option
							if validate {
								opts = append(opts, serix.WithValidation())
							}
							in := reflect.New(holderT)
							in.Elem().Field(0).SetUint(200)
							if mv != nil {
								in.Elem().Field(1).Set(reflect.ValueOf(mv))
							} else if mem.typ != ifaceT {
								t.Fatalf("nil value for %s", mem.name)
							}
							in.Elem().Field(2).SetUint(uint64(foo))
							cell := fmt.Sprintf("member=%s tag=%q typedHolder=%v value#%d=%+v foo=%d validation=%v", mem.name, tag, typedHolder, vi, mv, foo, validate)
							fail := func(format string, a ...any) {
								msg := fmt.Sprintf(format, a...)
								stats.Violation(check, map[string]any{"cell": cell, "problem": msg})
								t.Fatalf("%s: %s", cell, msg)
							}
							guard := func(what string, f func()) {
								defer func() {
									if r := recover(); r != nil {
										fail("%s panicked: %v", what, r)
									}
								}()
								f()
							}
							labels := []string{"tag:" + tag}
							binaryAccepted := false
							guardJSON := func(f func()) {
								defer func() {
									if r := recover(); r != nil {
										if binaryAccepted {
											fail("JSON form panicked: %v", r)
										}
										labels = append(labels, "json_panicked_on_value_without_binary_encoding")
									}
								}()
								f()
							}
							guard("binary form", func() {
								b, err := api.Encode(ctx, in.Interface(), opts...)
								if err != nil {
									labels = append(labels, "encode_refused")
									return
								}
								out := reflect.New(holderT)
								n, err := api.Decode(ctx, b, out.Interface(), opts...)
								if err != nil {
									fail("Encode wrote %x, Decode refuses it: %v", b, err)
								}
								if n != len(b) {
									fail("Decode consumed %d of %d bytes", n, len(b))
								}
								if !imEqual(in, out) {
									fail("binary round trip changed the value: %+v -> %+v", in.Elem().Interface(), out.Elem().Interface())
								}
								labels = append(labels, "binary_roundtrip")
								binaryAccepted = true
							})
							accepted := false
							guardJSON(func() {
								j, err := api.JSONEncode(ctx, in.Interface(), opts...)
								if err != nil {
									labels = append(labels, "jsonencode_refused")
									return
								}
								accepted = true
								out := reflect.New(holderT)
								if err := api.JSONDecode(ctx, j, out.Interface(), opts...); err != nil {
									fail("JSONEncode wrote %s, JSONDecode refuses it: %v", j, err)
								}
								if !imEqual(in, out) {
									fail("JSON round trip through %s changed the value: %+v -> %+v", j, in.Elem().Interface(), out.Elem().Interface())
								}
								labels = append(labels, "json_roundtrip")
							})
							stats.Case(check, accepted, cell, func() any { return cell }, labels...)
						}
					}
				}
			}
		}
	}
	t.Logf("%d grid cells", cells)
}

func imAPI(t *testing.T) *serix.API {
	api := serix.NewAPI()
	must := func(err error) {
		if err != nil {
			t.Fatalf("registration: %v", err)
		}
	}
	must(api.RegisterTypeSettings(imTyped{}, serix.TypeSettings{}.WithObjectType(uint8(9))))
	must(api.RegisterTypeSettings(imArr{}, serix.TypeSettings{}.WithObjectType(uint8(4))))
	must(api.RegisterTypeSettings(imBlob{}, serix.TypeSettings{}.WithObjectType(uint8(5)).WithLengthPrefixType(serix.LengthPrefixTypeAsByte)))
	must(api.RegisterTypeSettings(imImplA{}, serix.TypeSettings{}.WithObjectType(uint8(1))))
	must(api.RegisterTypeSettings(imImplB{}, serix.TypeSettings{}.WithObjectType(uint8(2))))
	must(api.RegisterTypeSettings(imImplC{}, serix.TypeSettings{}.WithObjectType(uint8(3))))
	must(api.RegisterInterfaceObjects((*imIface)(nil), imImplA{}, imImplB{}, imImplC{}))

	return api
}

// TestInlinedMemberPairs: two inlined members side by side. Holder {X uint8 "x"; M1 <member> <tag>; M2 <member> <tag>}
// over all ordered pairs of the member types of TestInlinedMemberMatrix, all nine tag combinations and all listed
// values of both members. Two members can own the same keys (the same struct type twice, two interfaces, two objects
// with a type code): whatever JSONEncode accepts has to come back unchanged.
func TestInlinedMemberPairs(t *testing.T) {
	const check = "inlined_member_pairs"
	stats.Rule(check, "exhaustive grid: ordered pairs of the 24 member types of inlined_member_matrix x tag {inlined; inlined,optional; inlined,omitempty} for each of the two x every listed value of both members (validation off). Oracle as in inlined_member_matrix: what Encode accepts, Decode reads back completely and equal; what JSONEncode accepts, JSONDecode reads back equal; no panic. Distinct by grid cell; non-trivial = JSONEncode accepted the value")
	ctx := context.Background()
	api := imAPI(t)
	tags := []string{",inlined", ",inlined,optional", ",inlined,omitempty"}
	members := imMembers()
	cells := 0
	for _, m1 := range members {
		for _, m2 := range members {
			for _, tag1 := range tags {
				for _, tag2 := range tags {
					holderT := reflect.StructOf([]reflect.StructField{
						{Name: "X", Type: reflect.TypeOf(uint8(0)), Tag: `serix:"x"`},
						{Name: "M1", Type: m1.typ, Tag: reflect.StructTag(`serix:"` + tag1 + `"`)},
						{Name: "M2", Type: m2.typ, Tag: reflect.StructTag(`serix:"` + tag2 + `"`)},
					})
					for v1i, v1 := range m1.values {
						for v2i, v2 := range m2.values {
							cells++
							in := reflect.New(holderT)
							in.Elem().Field(0).SetUint(200)
							if v1 != nil {
								in.Elem().Field(1).Set(reflect.ValueOf(v1))
							}
							if v2 != nil {
								in.Elem().Field(2).Set(reflect.ValueOf(v2))
							}
							cell := fmt.Sprintf("M1=%s%q value#%d=%+v M2=%s%q value#%d=%+v", m1.name, tag1, v1i, v1, m2.name, tag2, v2i, v2)
							fail := func(format string, a ...any) {
								msg := fmt.Sprintf(format, a...)
								stats.Violation(check, map[string]any{"cell": cell, "problem": msg})
								t.Fatalf("%s: %s", cell, msg)
							}
							guard := func(what string, f func()) {
								defer func() {
									if r := recover(); r != nil {
										fail("%s panicked: %v", what, r)
									}
								}()
								f()
							}
							var labels []string
							binaryAccepted := false
							// a value that has no binary encoding (a nil pointer that is not optional, ...) is no value of the type:
							// a crash of JSONEncode on it (a codec called with a nil receiver) is outside the property and counted
							guardJSON := func(f func()) {
								defer func() {
									if r := recover(); r != nil {
										if binaryAccepted {
											fail("JSON form panicked: %v", r)
										}
										labels = append(labels, "json_panicked_on_value_without_binary_encoding")
									}
								}()
								f()
							}
							guard("binary form", func() {
								b, err := api.Encode(ctx, in.Interface())
								if err != nil {
									labels = append(labels, "encode_refused")
									return
								}
								out := reflect.New(holderT)
								n, err := api.Decode(ctx, b, out.Interface())
								if err != nil {
									fail("Encode wrote %x, Decode refuses it: %v", b, err)
								}
								if n != len(b) {
									fail("Decode consumed %d of %d bytes", n, len(b))
								}
								if !imEqual(in, out) {
									fail("binary round trip changed the value: %+v -> %+v", in.Elem().Interface(), out.Elem().Interface())
								}
								labels = append(labels, "binary_roundtrip")
								binaryAccepted = true
							})
							accepted := false
							guardJSON(func() {
								j, err := api.JSONEncode(ctx, in.Interface())
								if err != nil {
									labels = append(labels, "jsonencode_refused")
									return
								}
								accepted = true
								out := reflect.New(holderT)
								if err := api.JSONDecode(ctx, j, out.Interface()); err != nil {
									fail("JSONEncode wrote %s, JSONDecode refuses it: %v", j, err)
								}
								if !imEqual(in, out) {
									fail("JSON round trip through %s changed the value: %+v -> %+v", j, in.Elem().Interface(), out.Elem().Interface())
								}
								labels = append(labels, "json_roundtrip")
							})
							stats.Case(check, accepted, cell, func() any { return cell }, labels...)
						}
					}
				}
			}
		}
	}
	t.Logf("%d grid cells", cells)
}

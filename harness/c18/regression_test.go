package c18

import (
	"testing"
	"time"

	"github.com/iotaledger/hive.go/runtime/timed"
	"verifharness/internal/ctl"
	"verifharness/internal/stats"
)

const checkRegression = "regression"

// D23: the wrapper of a finished callback removed the identifier although it had been re-scheduled while the callback
// was running; the next re-scheduling then no longer replaced the pending task and both ran ("cb1 cb2 cb3").
func TestRegressionTaskExecutorRescheduleWhileRunning(t *testing.T) {
	stats.Rule(checkRegression, "fixed replays of the minimal cases of the defects found (no generation)")
	for i := 0; i < 5; i++ {
		runExecutorScript(t, checkRegression, true, 1, []op{
			{Kind: "at", D: 0, Block: true, ID: "a"},
			{Kind: "await", K: 0},
			{Kind: "at", D: 20, ID: "a"},
			{Kind: "release", K: 0},
			{Kind: "awaitfin", K: 0},
			{Kind: "sleep", D: 2},
			{Kind: "at", D: 20, ID: "a"},
		})
	}
}

// Cancel(id) returned true while the identifier's callback was already running (nothing pending was prevented).
func TestRegressionTaskExecutorCancelWhileRunning(t *testing.T) {
	for i := 0; i < 5; i++ {
		runExecutorScript(t, checkRegression, true, 1, []op{
			{Kind: "at", D: 0, Block: true, ID: "a"},
			{Kind: "await", K: 0},
			{Kind: "cancel", ID: "a"},
		})
	}
}

// D24: a Cancel that lands around the due time claimed success (true) although Poll delivered the element anyway.
func TestRegressionCancelNearDueTime(t *testing.T) {
	for round := 0; round < 15; round++ {
		trials := make([]raceTrial, 40)
		for i := range trials {
			trials[i] = raceTrial{OffsetUs: -40 + 8*i, DelayMs: 2}
		}
		if _, failure := runRaceBatch(1+round%3, trials); failure != "" {
			stats.Violation(checkRegression, map[string]any{"ops": trials, "failure": failure})
			t.Fatalf("%s", failure)
		}
	}
}

// Queue.Shutdown only woke the waiting pollers when the heap was empty: with several idle workers and one element that
// had just been added (a single Signal), the other workers slept forever and Executor.Shutdown never returned.
func TestRegressionShutdownWakesAllWorkers(t *testing.T) {
	for i := 0; i < 40; i++ {
		ex := timed.NewExecutor(3)
		time.Sleep(200 * time.Microsecond) // let the workers park (steering only)
		ran := make(chan struct{})
		ex.ExecuteAfter(func() { close(ran) }, 2*time.Millisecond)
		if !ctl.Within(ctl.HangTimeout, func() { ex.Shutdown() }) {
			stats.Violation(checkRegression, map[string]any{"ops": []string{"NewExecutor(3)", "ExecuteAfter(2ms)", "Shutdown()"}, "failure": "Shutdown hangs"})
			t.Fatalf("Executor.Shutdown() did not return within %v (trial %d)\n%s", ctl.HangTimeout, i, ctl.Dump())
		}
		select {
		case <-ran:
		default:
			t.Fatalf("pending task was not executed before Shutdown() returned (trial %d)", i)
		}
	}
}

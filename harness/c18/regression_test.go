package c18

import (
	"fmt"
	"sync/atomic"
	"testing"
	"time"

	"github.com/iotaledger/hive.go/runtime/timed"
	"verifharness/internal/ctl"
	"verifharness/internal/stats"
)

const checkRegression = "regression"

// D23: the wrapper of a finished callback removed the identifier although it had been re-scheduled while the callback
// was running; the next re-scheduling then no longer replaced the pending task and both ran ("cb1 cb2 cb3").
func TestRegressionTaskExecutorRescheduleWhileRunning(t *testing.T) {
	stats.Rule(checkRegression, "fixed replays of the minimal cases of the defects found (no generation)")
	for i := 0; i < 5; i++ {
		runExecutorScript(t, checkRegression, true, 1, []op{
			{Kind: "at", D: 0, Block: true, ID: "a"},
			{Kind: "await", K: 0},
			{Kind: "at", D: 20, ID: "a"},
			{Kind: "release", K: 0},
			{Kind: "awaitfin", K: 0},
			{Kind: "sleep", D: 2},
			{Kind: "at", D: 20, ID: "a"},
		})
	}
}

// Cancel(id) returned true while the identifier's callback was already running (nothing pending was prevented).
func TestRegressionTaskExecutorCancelWhileRunning(t *testing.T) {
	for i := 0; i < 5; i++ {
		runExecutorScript(t, checkRegression, true, 1, []op{
			{Kind: "at", D: 0, Block: true, ID: "a"},
			{Kind: "await", K: 0},
			{Kind: "cancel", ID: "a"},
		})
	}
}

// D24: a Cancel that lands around the due time claimed success (true) although Poll delivered the element anyway.
func TestRegressionCancelNearDueTime(t *testing.T) {
	for round := 0; round < 15; round++ {
		trials := make([]raceTrial, 40)
		for i := range trials {
			trials[i] = raceTrial{OffsetUs: -40 + 8*i, DelayMs: 2}
		}
		if _, failure := runRaceBatch(1+round%3, trials); failure != "" {
			stats.Violation(checkRegression, map[string]any{"ops": trials, "failure": failure})
			t.Fatalf("%s", failure)
		}
	}
}

// Queue.Shutdown only woke the waiting pollers when the heap was empty: with several idle workers and one element that
// had just been added (a single Signal), the other workers slept forever and Executor.Shutdown never returned.
func TestRegressionShutdownWakesAllWorkers(t *testing.T) {
	for i := 0; i < 40; i++ {
		ex := timed.NewExecutor(3)
		time.Sleep(200 * time.Microsecond) // let the workers park (steering only)
		ran := make(chan struct{})
		ex.ExecuteAfter(func() { close(ran) }, 2*time.Millisecond)
		if !ctl.Within(ctl.HangTimeout, func() { ex.Shutdown() }) {
			stats.Violation(checkRegression, map[string]any{"ops": []string{"NewExecutor(3)", "ExecuteAfter(2ms)", "Shutdown()"}, "failure": "Shutdown hangs"})
			t.Fatalf("Executor.Shutdown() did not return within %v (trial %d)\n%s", ctl.HangTimeout, i, ctl.Dump())
		}
		select {
		case <-ran:
		default:
			t.Fatalf("pending task was not executed before Shutdown() returned (trial %d)", i)
		}
	}
}

// A re-scheduling that is refused after a (graceful) shutdown cancelled the pending task of the identifier: it was
// silently lost. (Fixed in /repo: the replacement happens together with the insertion.)
func TestRegressionRefusedRescheduleKeepsPendingTask(t *testing.T) {
	for i := 0; i < 5; i++ {
		runExecutorScript(t, checkRegression, true, 1, []op{
			{Kind: "at", D: 40, ID: "a"},
			{Kind: "shutdown", Flags: fNoWait},
			{Kind: "at", D: 10, ID: "a"},
		})
	}
}

// Cancel(id) returned true for a task that the size bound / Shutdown(CancelPendingElements) had dropped long before.
func TestRegressionCancelOfDroppedTaskIsFalse(t *testing.T) {
	fatal := func(format string, a ...any) {
		stats.Violation(checkRegression, map[string]any{"failure": fmt.Sprintf(format, a...)})
		t.Fatalf(format, a...)
	}
	te := timed.NewTaskExecutor[int](1)
	te.ExecuteAt(1, func() {}, time.Now().Add(time.Hour))
	time.Sleep(2 * time.Millisecond) // the worker takes the first task and waits for its time
	te.ExecuteAt(2, func() {}, time.Now().Add(2*time.Hour))
	if !ctl.WithinHang(func() { te.Shutdown(timed.CancelPendingElements) }) {
		fatal("Shutdown(CancelPendingElements) did not return\n%s", ctl.Dump())
	}
	for id := 1; id <= 2; id++ {
		if te.Cancel(id) {
			fatal("Cancel(%d) returned true after Shutdown(CancelPendingElements) had returned", id)
		}
	}

	var ran [3]atomic.Int32
	be := timed.NewTaskExecutor[int](1, timed.WithMaxQueueSize(1))
	be.ExecuteAt(0, func() { ran[0].Add(1) }, time.Now().Add(20*time.Millisecond))
	if !awaitFlag(func() bool { return be.Size() == 0 }, 15*time.Millisecond) {
		be.Shutdown(timed.CancelPendingElements)
		t.Skip("the worker did not take the first task in time")
	}
	be.ExecuteAt(1, func() { ran[1].Add(1) }, time.Now().Add(60*time.Millisecond))
	be.ExecuteAt(2, func() { ran[2].Add(1) }, time.Now().Add(40*time.Millisecond))
	if !ctl.WithinHang(func() { be.Shutdown() }) {
		fatal("Shutdown did not return\n%s", ctl.Dump())
	}
	for id := 0; id <= 2; id++ {
		if be.Cancel(id) {
			fatal("bound 1: Cancel(%d) returned true after the waiting Shutdown (callback ran %d times)", id, ran[id].Load())
		}
	}
	if got := ran[0].Load() + ran[1].Load() + ran[2].Load(); got != 2 {
		fatal("bound 1: %d callbacks ran, want 2 (one of three was dropped by the bound)", got)
	}
}

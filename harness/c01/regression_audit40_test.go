// Demonstration of an independent auditor (eleventh round), kept as a regression test; see known_findings.json.
package c01

import (
	"context"
	"reflect"
	"testing"

	"github.com/iotaledger/hive.go/serializer/v2/serix"
)

type huntShape interface{ isHuntShape() }

type huntCircle struct {
	Radius uint8 `serix:"radius"`
	Level  uint8 `serix:"level,omitempty"`
}

func (*huntCircle) isHuntShape() {}

type huntCanvas struct {
	Shape huntShape `serix:",inlined"`
	Level uint8     `serix:"level"`
}

func TestRegressionAudit40_InlinedInterfaceImplOmittedKeyTakenFromSibling(t *testing.T) {
	api := serix.NewAPI()
	ctx := context.Background()
	if err := api.RegisterTypeSettings(huntCircle{}, serix.TypeSettings{}.WithObjectType(uint8(1))); err != nil {
		t.Fatal(err)
	}
	if err := api.RegisterInterfaceObjects((*huntShape)(nil), (*huntCircle)(nil)); err != nil {
		t.Fatal(err)
	}

	in := huntCanvas{Shape: &huntCircle{Radius: 2, Level: 0}, Level: 5}

	// binary form: fine
	bin, err := api.Encode(ctx, in)
	if err != nil {
		t.Fatalf("Encode: %v", err)
	}
	var outBin huntCanvas
	if n, err := api.Decode(ctx, bin, &outBin); err != nil || n != len(bin) {
		t.Fatalf("Decode: %d %v", n, err)
	}
	if !reflect.DeepEqual(in, outBin) {
		t.Fatalf("binary: got %+v %+v", outBin, outBin.Shape)
	}

	b, err := api.JSONEncode(ctx, in)
	if err != nil {
		t.Logf("JSONEncode refuses the value: %v", err)
		return
	}
	t.Logf("JSONEncode wrote %s", b)

	var out huntCanvas
	if err := api.JSONDecode(ctx, b, &out); err != nil {
		t.Fatalf("JSONDecode refuses what JSONEncode wrote (%s): %v", b, err)
	}
	if !reflect.DeepEqual(in, out) {
		t.Fatalf("JSON round trip changed the value: got %+v with shape %+v, want %+v with shape %+v", out, out.Shape, in, in.Shape)
	}
}

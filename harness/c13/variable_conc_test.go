package c13

import (
	"fmt"
	"runtime"
	"strings"
	"sync"
	"sync/atomic"
	"testing"
	"time"

	"pgregory.net/rapid"
	"verifharness/internal/ctl"
	"verifharness/internal/stats"
)

// ---------------------------------------------------------------------------------------------------------
// Concurrent variant: W writer goroutines and S subscriber goroutines run drawn scripts against one Variable /
// Event. Judged at quiescence on the recorded logs. Ground truth for the value history is the serial list of
// writes recorded INSIDE the variable's critical section by the transformation function (kinds int_spy,
// int_max); for kinds without such a function it is the log of a reference subscriber that is registered
// before the run and never leaves (and is itself chain-checked).
// ---------------------------------------------------------------------------------------------------------

type wop struct {
	Op    string `json:"op"`
	Arg   int    `json:"arg"`
	Yield int    `json:"yield"` // runtime.Gosched() calls before the op
}

type csubSpec struct {
	Kind    string `json:"kind"`
	Cond    int    `json:"cond"`
	Start   int    `json:"start"`    // Gosched calls before subscribing
	Policy  string `json:"policy"`   // never | calls | yields
	N       int    `json:"n"`        // calls: unsubscribe after N observed callbacks (or when writers are done); yields: after N Gosched calls
	CbYield int    `json:"cb_yield"` // Gosched calls inside every callback
	Rounds  int    `json:"rounds"`   // the goroutine subscribes this many times in a row (every round but the last one unsubscribes)
}

type concProg struct {
	VarKind string     `json:"var_kind"`
	Init    int        `json:"init"`
	Writers [][]wop    `json:"writers"`
	Subs    []csubSpec `json:"subs"`
}

func (p concProg) strings() []string {
	out := []string{fmt.Sprintf("kind %s init %d", p.VarKind, p.Init)}
	for i, w := range p.Writers {
		var s []string
		for _, o := range w {
			s = append(s, fmt.Sprintf("y%d %s %d", o.Yield, o.Op, o.Arg))
		}
		out = append(out, fmt.Sprintf("W%d: %s", i, strings.Join(s, ", ")))
	}
	for i, s := range p.Subs {
		out = append(out, fmt.Sprintf("S%d: y%d %s cond%d %s/%d cby%d x%d", i, s.Start, s.Kind, s.Cond, s.Policy, s.N, s.CbYield, s.Rounds))
	}
	return out
}

type concSub struct {
	spec    csubSpec
	mu      sync.Mutex
	log     []cbRec
	busy    atomic.Int32
	overlap atomic.Int32
	notify  chan struct{}
	s0, s1  int64 // stamps around the subscribe call
	u0, u1  int64 // stamps around the unsubscribe call (0 = never unsubscribed)
	unsub   func()

	goroutine, round int
}

func (s *concSub) snapshot() []cbRec {
	s.mu.Lock()
	defer s.mu.Unlock()
	return append([]cbRec(nil), s.log...)
}

func gosched(n int) {
	for i := 0; i < n; i++ {
		runtime.Gosched()
	}
}

var hangSeen atomic.Bool

// hangTimeout is ctl.HangTimeout; once a hang has been reported in this process the (already failed) run only
// shrinks, and shrinking must not cost 20 s per attempt.
func hangTimeout() time.Duration {
	if hangSeen.Load() {
		return 3 * time.Second
	}
	return ctl.HangTimeout
}

type writeStamp struct{ A, B int64 }

type concOutcome struct {
	hang     bool
	dump     string
	subs     []*concSub
	ref      *concSub
	writes   [][]writeStamp
	final    int
	spyRecs  []spyRec
	spyStart int // number of spy records that precede the run (the Init write)
}

func newConcSub(spec csubSpec) *concSub {
	return &concSub{spec: spec, notify: make(chan struct{}, 1)}
}

func (s *concSub) callback(clock *ctl.Clock) func(p, n int) {
	return func(p, n int) {
		in := clock.Tick()
		if !s.busy.CompareAndSwap(0, 1) {
			s.overlap.Add(1)
		}
		gosched(s.spec.CbYield)
		s.mu.Lock()
		s.log = append(s.log, cbRec{Prev: p, New: n, In: in})
		idx := len(s.log) - 1
		s.mu.Unlock()
		out := clock.Tick()
		s.mu.Lock()
		s.log[idx].Out = out
		s.mu.Unlock()
		s.busy.Store(0)
		select {
		case s.notify <- struct{}{}:
		default:
		}
	}
}

func execVarConc(p concProg) concOutcome {
	var clock ctl.Clock
	a := newAdapter(p.VarKind, &clock)
	if p.Init != 0 {
		a.set(p.Init)
	}
	out := concOutcome{}
	if a.spy != nil {
		out.spyStart = len(a.spy.snapshot())
	}
	ref := newConcSub(csubSpec{Kind: subUpdateInit, Policy: "never"})
	ref.s0 = clock.Tick()
	ref.unsub = a.register(subUpdateInit, 0, ref.callback(&clock))
	ref.s1 = clock.Tick()
	out.ref = ref

	start := make(chan struct{})
	writersDone := make(chan struct{})
	var wwg, swg sync.WaitGroup
	out.writes = make([][]writeStamp, len(p.Writers))
	for wi, script := range p.Writers {
		wwg.Add(1)
		go func(wi int, script []wop) {
			defer wwg.Done()
			<-start
			for _, o := range script {
				gosched(o.Yield)
				st := writeStamp{A: clock.Tick()}
				a.doWrite(o.Op, o.Arg)
				st.B = clock.Tick()
				out.writes[wi] = append(out.writes[wi], st)
			}
		}(wi, script)
	}
	var subsMu sync.Mutex
	for gi, spec := range p.Subs {
		swg.Add(1)
		go func(gi int, spec csubSpec) {
			defer swg.Done()
			<-start
			rounds := spec.Rounds
			if rounds < 1 {
				rounds = 1
			}
			for round := 0; round < rounds; round++ {
				s := newConcSub(spec)
				s.goroutine, s.round = gi, round
				subsMu.Lock()
				out.subs = append(out.subs, s)
				subsMu.Unlock()
				gosched(spec.Start)
				s.s0 = clock.Tick()
				unsub := a.register(spec.Kind, spec.Cond, s.callback(&clock))
				s.s1 = clock.Tick()
				s.unsub = unsub
				policy := spec.Policy
				if policy == "never" && round < rounds-1 {
					policy = "yields"
				}
				switch policy {
				case "never":
					return
				case "yields":
					gosched(spec.N)
				case "calls":
				loop:
					for {
						s.mu.Lock()
						n := len(s.log)
						s.mu.Unlock()
						if n >= spec.N {
							break
						}
						select {
						case <-s.notify:
						case <-writersDone:
							break loop
						}
					}
				}
				// never from inside the own callback: this is the subscriber's own goroutine
				s.u0 = clock.Tick()
				unsub()
				s.u1 = clock.Tick()
			}
		}(gi, spec)
	}
	ok := ctl.Within(hangTimeout(), func() {
		close(start)
		wwg.Wait()
		close(writersDone)
		swg.Wait()
	})
	if !ok {
		hangSeen.Store(true)
		out.hang = true
		out.dump = ctl.Dump()
		return out
	}
	out.final = a.get()
	if a.spy != nil {
		out.spyRecs = a.spy.snapshot()
	}
	// leave nothing subscribed
	ref.unsub()
	for _, s := range out.subs {
		if s.u1 == 0 && s.unsub != nil {
			s.unsub()
		}
	}
	return out
}

// history is the list of effective transitions after the start of the run with the base value before them.
type history struct {
	base   int
	trans  []pair
	stamps []int64 // stamp taken inside the critical section of the write (nil when reconstructed from the reference subscriber)
}

func (h history) val(i int) int {
	if i == 0 {
		return h.base
	}
	return h.trans[i-1].New
}

// countBefore returns the number of transitions whose critical-section stamp is < s.
func (h history) countBefore(s int64) int {
	n := 0
	for _, st := range h.stamps {
		if st < s {
			n++
		}
	}
	return n
}

func chainProblems(name string, log []cbRec, flagged bool) []string {
	var errs []string
	for i, c := range log {
		if i == 0 {
			if c.Prev != 0 {
				errs = append(errs, fmt.Sprintf("%s: first callback %s does not start from the zero value", name, c.pair()))
			}
			if c.New == c.Prev && !flagged {
				errs = append(errs, fmt.Sprintf("%s: first callback %s reports no change", name, c.pair()))
			}
			continue
		}
		if c.Prev != log[i-1].New {
			errs = append(errs, fmt.Sprintf("%s: callback %d is %s but the preceding callback reported new value %d", name, i, c.pair(), log[i-1].New))
		}
		if c.New == c.Prev {
			errs = append(errs, fmt.Sprintf("%s: callback %d %s reports no change", name, i, c.pair()))
		}
		if c.In < log[i-1].Out {
			errs = append(errs, fmt.Sprintf("%s: callback %d entered (stamp %d) before callback %d returned (stamp %d)", name, i, c.In, i-1, log[i-1].Out))
		}
	}
	return errs
}

func judgeVarConc(p concProg, o concOutcome) verdict {
	v := verdict{}
	labels := map[string]bool{"kind:" + p.VarKind: true}
	var errs []string
	if o.hang {
		v.Hang = true
		v.Msg = "run did not finish within the hang bound; goroutine dump:\n" + o.dump
		return v
	}

	refLog := o.ref.snapshot()
	errs = append(errs, chainProblems("reference subscriber", refLog, true)...)
	if o.ref.overlap.Load() != 0 {
		errs = append(errs, "reference subscriber: callbacks overlapped")
	}
	if len(refLog) == 0 || refLog[0].pair() != (pair{0, p.Init}) {
		errs = append(errs, fmt.Sprintf("reference subscriber registered at value %d before the run saw %s first", p.Init, pairsStr(pairsOf(refLog))))
	}

	// ground truth
	h := history{base: p.Init}
	if o.spyRecs != nil {
		cur := p.Init
		for _, r := range o.spyRecs[o.spyStart:] {
			if r.Cur != cur {
				errs = append(errs, fmt.Sprintf("history recorded inside the critical section is not a chain: write saw current value %d after value %d", r.Cur, cur))
			}
			if r.Res != r.Cur {
				h.trans = append(h.trans, pair{r.Cur, r.Res})
				h.stamps = append(h.stamps, r.Stamp)
			}
			cur = r.Res
		}
		// the reference subscriber must have seen exactly this history
		if len(refLog) > 0 {
			if got, want := pairsStr(pairsOf(refLog[1:])), pairsStr(h.trans); got != want {
				errs = append(errs, fmt.Sprintf("subscriber present during the whole run saw %s, the writes were %s", got, want))
			}
		}
	} else if len(refLog) > 0 {
		h.trans = pairsOf(refLog[1:])
	}
	if want := h.val(len(h.trans)); o.final != want {
		errs = append(errs, fmt.Sprintf("final Get() = %d, last transition of the history gives %d", o.final, want))
	}

	// writer activity span for the non-trivial rule
	var firstW, lastW int64
	for _, ws := range o.writes {
		for _, w := range ws {
			if firstW == 0 || w.A < firstW {
				firstW = w.A
			}
			if w.B > lastW {
				lastW = w.B
			}
		}
	}
	overlapsWrite := func(a, b int64) bool {
		for _, ws := range o.writes {
			for _, w := range ws {
				if w.A < b && a < w.B {
					return true
				}
			}
		}
		return false
	}

	for _, s := range o.subs {
		name := fmt.Sprintf("S%d.%d(%s)", s.goroutine, s.round, s.spec.Kind)
		log := s.snapshot()
		live := s.u1 == 0
		if s.overlap.Load() != 0 {
			errs = append(errs, name+": two callbacks of the subscription ran concurrently")
		}
		for _, c := range log {
			if !live && c.In > s.u1 {
				errs = append(errs, fmt.Sprintf("%s: callback %s started (stamp %d) after unsubscribe returned (stamp %d)", name, c.pair(), c.In, s.u1))
			}
			if c.In < s.s0 {
				errs = append(errs, fmt.Sprintf("%s: callback %s before subscribing", name, c.pair()))
			}
		}
		if overlapsWrite(s.s0, s.s1) {
			labels["subscribe_overlaps_write"] = true
		}
		if s.s0 > firstW && s.s1 < lastW {
			labels["subscribe_between_first_and_last_write"] = true
			v.NonTrivial = true
		}
		if !live && overlapsWrite(s.u0, s.u1) {
			labels["unsubscribe_overlaps_write"] = true
			v.NonTrivial = true
		}

		// registration index bounds from the critical-section stamps
		lo, hi := 0, len(h.trans)
		jmax := len(h.trans)
		if h.stamps != nil {
			lo, hi = h.countBefore(s.s0), h.countBefore(s.s1)
			if !live {
				jmax = h.countBefore(s.u1)
			}
		}

		if isOnce(s.spec.Kind) {
			errs = append(errs, judgeOnce(name, s, log, live, h, lo, hi)...)
			continue
		}
		flagged := s.spec.Kind == subUpdateInit
		errs = append(errs, chainProblems(name, log, flagged)...)
		// the log must be: [state at registration index i] ++ transitions i..j
		matched := false
		for i := lo; i <= hi && !matched; i++ {
			var want []pair
			if flagged || h.val(i) != 0 {
				want = append(want, pair{0, h.val(i)})
			}
			rest := len(log) - len(want)
			if rest < 0 {
				continue
			}
			j := i + rest
			if j > jmax || (live && j != len(h.trans)) {
				continue
			}
			want = append(want, h.trans[i:j]...)
			if pairsStr(want) == pairsStr(pairsOf(log)) {
				matched = true
				if i > 0 && i < len(h.trans) {
					labels["joined_mid_history"] = true
				}
			}
		}
		if !matched {
			errs = append(errs, fmt.Sprintf("%s (live=%v, registered between transition %d and %d, at most %d delivered): saw %s, which is not [state at subscription] followed by a contiguous run of the history base=%d %s", name, live, lo, hi, jmax, pairsStr(pairsOf(log)), h.base, pairsStr(h.trans)))
		}
		if live && len(log) > 0 && log[len(log)-1].New != o.final {
			errs = append(errs, fmt.Sprintf("%s: still subscribed, last reported value %d, final value %d", name, log[len(log)-1].New, o.final))
		}
	}
	if len(h.trans) >= 2 {
		labels["history>=2"] = true
	}
	if len(errs) > 0 {
		v.Msg = strings.Join(errs, "; ")
	}
	for l := range labels {
		v.Labels = append(v.Labels, l)
	}
	return v
}

// judgeOnce: the user callback of OnUpdateOnce runs at most once, with the state at subscription (if non-zero
// and matching the condition) or else the first later transition matching the condition.
func judgeOnce(name string, s *concSub, log []cbRec, live bool, h history, lo, hi int) []string {
	if len(log) > 1 {
		return []string{fmt.Sprintf("%s: OnUpdateOnce callback ran %d times: %s", name, len(log), pairsStr(pairsOf(log)))}
	}
	cond := condFor(s.spec.Kind, s.spec.Cond)
	ok := func(p pair) bool { return cond == nil || cond(p.Prev, p.New) }
	firing := func(i int) (pair, bool) {
		if v0 := h.val(i); v0 != 0 && ok(pair{0, v0}) {
			return pair{0, v0}, true
		}
		for k := i; k < len(h.trans); k++ {
			if ok(h.trans[k]) {
				return h.trans[k], true
			}
		}
		return pair{}, false
	}
	for i := lo; i <= hi; i++ {
		f, fires := firing(i)
		switch {
		case len(log) == 1 && fires && f == log[0].pair():
			return nil
		case len(log) == 0 && (!fires || !live):
			// not fired although it should: only acceptable when the subscriber left (it may have left before)
			return nil
		}
	}
	return []string{fmt.Sprintf("%s (live=%v, registered between transition %d and %d): OnUpdateOnce delivered %s; history base=%d %s", name, live, lo, hi, pairsStr(pairsOf(log)), h.base, pairsStr(h.trans))}
}

// ---------------------------------------------------------------------------------------------------------
// generator
// ---------------------------------------------------------------------------------------------------------

func genConcProg(t *rapid.T) concProg {
	p := concProg{VarKind: rapid.SampledFrom(varKinds).Draw(t, "varKind")}
	maxVal := 3
	if p.VarKind == kindEvent {
		maxVal = 1
	}
	if p.VarKind != kindEvent {
		p.Init = rapid.IntRange(0, 2).Draw(t, "init")
	}
	ops := []string{"set", "set", "init", "compute", "compute", "default"}
	if p.VarKind == kindEvent {
		ops = []string{"trigger", "trigger", "set", "init", "compute", "default"}
	}
	opGen := rapid.Custom(func(t *rapid.T) wop {
		o := wop{Op: rapid.SampledFrom(ops).Draw(t, "op"), Yield: rapid.IntRange(0, 3).Draw(t, "yield")}
		switch o.Op {
		case "set", "init", "default":
			o.Arg = rapid.IntRange(0, maxVal).Draw(t, "v")
		case "compute":
			o.Arg = rapid.IntRange(-1, 2).Draw(t, "k")
		}
		return o
	})
	maxOps := 6
	if rapid.IntRange(0, 3).Draw(t, "long") == 0 {
		maxOps = 24
	}
	p.Writers = rapid.SliceOfN(rapid.SliceOfN(opGen, 1, maxOps), 1, 4).Draw(t, "writers")
	subGen := rapid.Custom(func(t *rapid.T) csubSpec {
		return csubSpec{
			Kind:    genSubKind(t, p.VarKind, "subKind"),
			Cond:    rapid.IntRange(1, maxVal).Draw(t, "cond"),
			Start:   rapid.IntRange(0, 6).Draw(t, "start"),
			Policy:  rapid.SampledFrom([]string{"never", "never", "calls", "yields"}).Draw(t, "policy"),
			N:       rapid.IntRange(0, 4).Draw(t, "n"),
			CbYield: rapid.IntRange(0, 2).Draw(t, "cbYield"),
			Rounds:  rapid.SampledFrom([]int{1, 1, 2, 4, 8}).Draw(t, "rounds"),
		}
	})
	p.Subs = rapid.SliceOfN(subGen, 1, 6).Draw(t, "subs")
	return p
}

const checkVarConc = "variable_concurrent"

func TestVariableConc(t *testing.T) {
	stats.Rule(checkVarConc, "rapid draws the object (as in variable_sequential), an initial value, 1-4 writer scripts of 1-6 Set/Compute/DefaultTo/Trigger with drawn yields and 1-6 subscriber goroutines (OnUpdate with/without flag, OnUpdateOnce with/without condition, OnTrigger) that subscribe after a drawn number of yields and unsubscribe never / after N observed callbacks / after N yields, always from their own goroutine. Interleaving is the Go scheduler's. Oracle on logs at quiescence: per-subscriber chain, contiguous run of the serial write history recorded inside the critical section (or by an always-present reference subscriber), bounds on the registration point from critical-section stamps, last value == Get(), no overlapping callbacks of one subscription, no callback entry stamped after unsubscribe returned; 20 s hang watchdog. Non-trivial = a subscription was created between the first and last write, or an unsubscribe overlapped a write (by stamps). Distinct by program.")
	rapid.Check(t, func(rt *rapid.T) {
		p := genConcProg(rt)
		o := execVarConc(p)
		v := judgeVarConc(p, o)
		key := strings.Join(p.strings(), "|")
		stats.Case(checkVarConc, v.NonTrivial, key, func() any { return p.strings() }, v.Labels...)
		if v.Msg != "" {
			stats.Violation(checkVarConc, map[string]any{"program": p, "readable": p.strings(), "problem": v.Msg, "hang": v.Hang})
			rt.Fatalf("%s\nprogram: %s", v.Msg, strings.Join(p.strings(), "; "))
		}
	})
}

package c14

import (
	"fmt"
	"runtime"
	"sort"
	"sync/atomic"
	"time"

	"github.com/iotaledger/hive.go/ds"
	"verifharness/internal/ctl"
)

const universe = 6

type verdict struct {
	Msg        string
	Trace      []string
	NonTrivial bool
	Labels     []string
	Hang       bool
}

func gosched(n int) {
	for i := 0; i < n; i++ {
		runtime.Gosched()
	}
}

var hangSeen atomic.Bool

// hangTimeout is ctl.HangTimeout; once a hang has been reported in this process the (already failed) run only
// shrinks, and shrinking must not cost 20 s per attempt.
func hangTimeout() time.Duration {
	if hangSeen.Load() {
		return 3 * time.Second
	}
	return ctl.HangTimeout
}

// barrier releases n goroutines at (nearly) the same instant: each one reports in and then spins (yielding) on a flag,
// so none of them is still being woken from a channel while the first one already finishes its script.
type barrier struct {
	ready atomic.Int32
	open  atomic.Bool
}

func (b *barrier) wait() {
	b.ready.Add(1)
	for !b.open.Load() {
		runtime.Gosched()
	}
}

func (b *barrier) release(n int) {
	for int(b.ready.Load()) < n {
		runtime.Gosched()
	}
	b.open.Store(true)
}

type stampPair struct{ A, B int64 }

func overlaps(a, b stampPair) bool { return a.A < b.B && b.A < a.B }

func sortedKeys(m map[int]bool) []int {
	out := make([]int, 0, len(m))
	for k, v := range m {
		if v {
			out = append(out, k)
		}
	}
	sort.Ints(out)
	return out
}

func sliceOf(s ds.ReadableSet[int]) []int {
	out := s.ToSlice()
	sort.Ints(out)
	return out
}

func labelList(m map[string]bool) []string {
	out := make([]string, 0, len(m))
	for l := range m {
		out = append(out, l)
	}
	sort.Strings(out)
	return out
}

// setOp is one write on a reactive.Set[int] (or any ds.WriteableSet[int]).
type setOp struct {
	Op string `json:"op"` // add delete addall deleteall apply compute replace
	A  []int  `json:"a"`
	B  []int  `json:"b,omitempty"`
}

func (o setOp) String() string {
	if o.Op == "apply" {
		return fmt.Sprintf("apply +%v -%v", o.A, o.B)
	}
	return fmt.Sprintf("%s %v", o.Op, o.A)
}

func doSetOp(s ds.WriteableSet[int], o setOp) {
	doSetOpE[int](s, o, func(l []int) []int { return l })
}

// doSetOpE performs o on a set of element type E (conv maps the drawn ints to elements).
func doSetOpE[E comparable](s ds.WriteableSet[E], o setOp, conv func([]int) []E) {
	a, b := conv(o.A), conv(o.B)
	switch o.Op {
	case "add":
		s.Add(a[0])
	case "delete":
		s.Delete(a[0])
	case "addall":
		s.AddAll(ds.NewSet(a...))
	case "deleteall":
		s.DeleteAll(ds.NewSet(a...))
	case "apply":
		s.Apply(ds.NewSetMutations[E](a...).WithDeletedElements(ds.NewSet(b...)))
	case "compute": // toggle the elements of A
		s.Compute(func(cur ds.ReadableSet[E]) ds.SetMutations[E] {
			add, del := ds.NewSet[E](), ds.NewSet[E]()
			for _, e := range a {
				if cur.Has(e) {
					del.Add(e)
				} else {
					add.Add(e)
				}
			}
			return ds.NewSetMutations[E]().WithAddedElements(add).WithDeletedElements(del)
		})
	case "replace":
		s.Replace(ds.NewSet(a...))
	default:
		panic("unknown set op " + o.Op)
	}
}

// modelSetOp applies o to the model contents.
func modelSetOp(state map[int]bool, o setOp) {
	switch o.Op {
	case "add", "addall":
		for _, e := range o.A {
			state[e] = true
		}
	case "delete", "deleteall":
		for _, e := range o.A {
			delete(state, e)
		}
	case "apply":
		for _, e := range o.A {
			state[e] = true
		}
		for _, e := range o.B {
			delete(state, e)
		}
	case "compute":
		var add, del []int
		for _, e := range o.A {
			if state[e] {
				del = append(del, e)
			} else {
				add = append(add, e)
			}
		}
		for _, e := range add {
			state[e] = true
		}
		for _, e := range del {
			delete(state, e)
		}
	case "replace":
		for e := range state {
			delete(state, e)
		}
		for _, e := range o.A {
			state[e] = true
		}
	}
}

package c15

import (
	"testing"

	"github.com/iotaledger/hive.go/runtime/valuenotifier"
	"verifharness/internal/stats"
)

// Plain replays (no rapid) of the shrunk cases of the defects found by the checks of this package.

// D19 (fix-notifier-deregister-by-identity): deregistration looked the entry up by value, so a listener whose entry
// had already been notified (and removed) decremented - and, at count 0, closed and removed - the entry of a *newer*
// listener of the same value.
//
//	l1 = Listener(1); Notify(1); l2 = Listener(1); l1.Deregister()
//
// (a) l2.Wait(cancelled ctx) must return context.Canceled: Notify was never called after l2's creation. With the
// defect l2's channel is closed and select picks nil half of the time, hence the repetitions.
// (b) after one more Notify(1), l2.Wait(Background) must return nil (with the defect combined with the other fix the
// entry is gone and l2 is never woken).
func TestRegressionNotifierRelistenAfterNotify(t *testing.T) {
	const check = "regression_notifier_relisten_after_notify"
	for i := 0; i < 64; i++ {
		n := valuenotifier.New[int]()
		l1 := n.Listener(1)
		n.Notify(1)
		l2 := n.Listener(1)
		l1.Deregister()
		if err := l2.Wait(cancelledCtx()); errName(err) != "context.Canceled" {
			stats.Violation(check, map[string]any{"program": []string{"l1 = Listener(1)", "Notify(1)", "l2 = Listener(1)", "l1.Deregister()", "l2.Wait(cancelled ctx)"},
				"observed": errName(err), "expected": "context.Canceled", "round": i})
			t.Fatalf("round %d: l2.Wait returned %s although Notify(1) was not called after l2 was created", i, errName(err))
		}
	}
	n := valuenotifier.New[int]()
	l1 := n.Listener(1)
	n.Notify(1)
	l2 := n.Listener(1)
	l1.Deregister()
	n.Notify(1)
	err, hung := waitOnce(l2, "background")
	if hung || err != nil {
		stats.Violation(check, map[string]any{"program": []string{"l1 = Listener(1)", "Notify(1)", "l2 = Listener(1)", "l1.Deregister()", "Notify(1)", "l2.Wait(Background)"},
			"observed": map[string]any{"hung": hung, "result": errName(err)}, "expected": "nil"})
		t.Fatalf("l2.Wait: hung=%v err=%v, expected nil: Notify(1) was called after l2 was created", hung, err)
	}
	stats.Bulk(check, 65, 1, false, nil)
}

// fix-notifier-wait-after-deregister: Wait checks the deregistered flag once and then selects over the value channel
// and the deregistration channel; if the listener is deregistered in between, both can be ready - the value channel
// because removeListener closes it with the last listener (a), or because a later Notify closes the channel shared
// with other listeners (b) - and select reports success at random. Notify was never called (a) / was called only
// after Deregister had returned (b), so success contradicts the property. The operations are placed in the window
// with lateCtx.onEnter; repetitions because select is random.
func TestRegressionNotifierWaitAfterDeregister(t *testing.T) {
	const check = "regression_notifier_wait_after_deregister"
	for i := 0; i < 64; i++ {
		n := valuenotifier.New[int]()
		l := &nListener{v: 1, l: n.Listener(1)}
		err, entered, hung := waitInflight(n, l, "deregister")
		if hung || !entered || errName(err) != "ErrListenerDeregistered" {
			stats.Violation(check, map[string]any{"program": []string{"l = Listener(1)", "l.Wait(ctx): after its registered-check and before its select: l.Deregister()", "Notify is never called"},
				"observed": map[string]any{"hung": hung, "result": errName(err)}, "expected": "ErrListenerDeregistered", "round": i})
			t.Fatalf("round %d (a): Wait returned %s (hung=%v): the listener was deregistered and Notify was never called", i, errName(err), hung)
		}
		n = valuenotifier.New[int]()
		l = &nListener{v: 1, l: n.Listener(1)}
		other := n.Listener(1) // keeps the shared entry alive, so Deregister of l does not close the channel
		err, entered, hung = waitInflight(n, l, "deregister;notify")
		if hung || !entered || errName(err) != "ErrListenerDeregistered" {
			stats.Violation(check, map[string]any{"program": []string{"l = Listener(1)", "other = Listener(1)", "l.Wait(ctx): after its registered-check and before its select: l.Deregister(); Notify(1)"},
				"observed": map[string]any{"hung": hung, "result": errName(err)}, "expected": "ErrListenerDeregistered", "round": i})
			t.Fatalf("round %d (b): Wait returned %s (hung=%v): Notify(1) was called only after the listener's Deregister had returned", i, errName(err), hung)
		}
		if e, h := waitOnce(other, "background"); h || e != nil {
			t.Fatalf("round %d (b): the other listener of the value must be notified, got hung=%v err=%v", i, h, e)
		}
	}
	stats.Bulk(check, 128, 2, false, nil)
}

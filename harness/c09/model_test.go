package c09

import (
	"bytes"
	"crypto/sha256"
	"encoding/hex"
	"encoding/json"
	"fmt"
	"sort"
	"strings"
	"sync"

	"github.com/iotaledger/hive.go/ads"
	"github.com/iotaledger/hive.go/kvstore"
	"github.com/iotaledger/hive.go/kvstore/flushkv"
	"github.com/iotaledger/hive.go/kvstore/mapdb"
	"github.com/iotaledger/hive.go/serializer/v2/typeutils"
)

// ---------------------------------------------------------------------------------------------------------
// key / value / identifier types handed to ads (the same shapes the repo's own tests use: byte-string keys and
// values with trivial encoders; the set flavour uses a named identifier type)

type key string
type val []byte
type setRoot [32]byte

func keyToBytes(k key) ([]byte, error)        { return []byte(k), nil }
func keyFromBytes(b []byte) (key, int, error) { return key(b), len(b), nil }

// valToBytes is the natural encoder of a byte-slice value: the zero value (nil) encodes to a nil slice, an empty
// non-nil value to an empty non-nil slice (exactly what ads' own testValue.Bytes does).
func valToBytes(v val) ([]byte, error)        { return v, nil }
func valFromBytes(b []byte) (val, int, error) { return val(b), len(b), nil }

// prefixedRootCodec selects the second identifier codec: the stored form of a root is 0xAB followed by the 32 bytes (a
// versioned identifier encoding) instead of the bare 32 bytes. It is set from caseSpec.RootCodec when a case starts.
var prefixedRootCodec bool

func rootBytes(r [32]byte) ([]byte, error) {
	if prefixedRootCodec {
		return append([]byte{0xAB}, r[:]...), nil
	}

	return r[:], nil
}

func rootFromBytes(b []byte) (r [32]byte, n int, err error) {
	if prefixedRootCodec {
		if len(b) < 33 || b[0] != 0xAB {
			return r, 0, fmt.Errorf("malformed prefixed root: % x", b)
		}
		copy(r[:], b[1:33])

		return r, 33, nil
	}
	if len(b) < 32 {
		return r, 0, fmt.Errorf("short root: %d bytes", len(b))
	}
	copy(r[:], b)

	return r, 32, nil
}

func mapRootToBytes(r [32]byte) ([]byte, error)        { return rootBytes(r) }
func mapRootFromBytes(b []byte) ([32]byte, int, error) { return rootFromBytes(b) }
func setRootToBytes(r setRoot) ([]byte, error)         { return rootBytes(r) }
func setRootFromBytes(b []byte) (setRoot, int, error) {
	r, n, err := rootFromBytes(b)

	return setRoot(r), n, err
}

// valuePool: what a Set may store. Index 0 is the zero value (encodes to nil), index 1 an empty non-nil value.
var valuePool = []struct {
	name string
	v    val
}{
	{"nil", nil},
	{"empty", val{}},
	{"a", val("a")},
	{"b", val("b")},
	{"0x00", val{0}},
	{"zero32", make(val, 32)}, // looks like the trie's placeholder digest
	{"innerlike65", append(val{1}, make(val, 64)...)},   // looks like an encoded inner node
	{"leaflike34", append(val{0}, make(val, 33)...)},    // looks like an encoded leaf
	{"long300", val(strings.Repeat("v", 300))},          //
	{"long5000", val(strings.Repeat("\xa5\x5a", 2500))}, //
}

// ---------------------------------------------------------------------------------------------------------
// one interface over both flavours

type inst interface {
	Put(k string, v val) error // Map.Set / Set.Add
	Get(k string) (v val, exists bool, err error)
	Has(k string) (bool, error)
	Delete(k string) (bool, error)
	Stream(func(k string, v val) error) error
	Commit() error
	Root() [32]byte
	Size() int
	WasRestoredFromStorage() bool
}

type mapInst struct{ m ads.Map[[32]byte, key, val] }

func (i mapInst) Put(k string, v val) error       { return i.m.Set(key(k), v) }
func (i mapInst) Get(k string) (val, bool, error) { return i.m.Get(key(k)) }
func (i mapInst) Has(k string) (bool, error)      { return i.m.Has(key(k)) }
func (i mapInst) Delete(k string) (bool, error)   { return i.m.Delete(key(k)) }
func (i mapInst) Commit() error                   { return i.m.Commit() }
func (i mapInst) Root() [32]byte                  { return i.m.Root() }
func (i mapInst) Size() int                       { return i.m.Size() }
func (i mapInst) WasRestoredFromStorage() bool    { return i.m.WasRestoredFromStorage() }
func (i mapInst) Stream(f func(k string, v val) error) error {
	return i.m.Stream(func(k key, v val) error { return f(string(k), v) })
}

type setInst struct{ s ads.Set[setRoot, key] }

func (i setInst) Put(k string, _ val) error { return i.s.Add(key(k)) }
func (i setInst) Get(k string) (val, bool, error) {
	has, err := i.s.Has(key(k))
	return nil, has, err
}
func (i setInst) Has(k string) (bool, error)    { return i.s.Has(key(k)) }
func (i setInst) Delete(k string) (bool, error) { return i.s.Delete(key(k)) }
func (i setInst) Commit() error                 { return i.s.Commit() }
func (i setInst) Root() [32]byte                { return [32]byte(i.s.Root()) }
func (i setInst) Size() int                     { return i.s.Size() }
func (i setInst) WasRestoredFromStorage() bool  { return i.s.WasRestoredFromStorage() }
func (i setInst) Stream(f func(k string, v val) error) error {
	return i.s.Stream(func(k key) error { return f(string(k), nil) })
}

func openInst(flavour string, store kvstore.KVStore) inst {
	if flavour == "set" {
		return setInst{ads.NewSet[setRoot](store, setRootToBytes, setRootFromBytes, keyToBytes, keyFromBytes)}
	}

	return mapInst{ads.NewMap[[32]byte](store, mapRootToBytes, mapRootFromBytes, keyToBytes, keyFromBytes, valToBytes, valFromBytes)}
}

func newStore(kind string) kvstore.KVStore {
	switch kind {
	case "mapdb_realm":
		s, err := mapdb.NewMapDB().WithRealm([]byte{0x07, 0x00, 0xff})
		if err != nil {
			panic(err)
		}
		return s
	case "mapdb_sibling", "mapdb_realm0":
		// the instance under test shares its database with another authenticated map that lives in a sibling realm
		// and already holds committed entries; "realm0": the instance's own realm is the single byte 0x00
		db := mapdb.NewMapDB()
		neighbourRealm, ownRealm := []byte{0x01}, []byte{0x02}
		if kind == "mapdb_realm0" {
			ownRealm = []byte{0x00}
		}
		ns, err := db.WithRealm(neighbourRealm)
		if err != nil {
			panic(err)
		}
		neighbour := ads.NewMap[[32]byte](ns, typeutils.ByteArray32ToBytes, typeutils.ByteArray32FromBytes, keyToBytes, keyFromBytes, valToBytes, valFromBytes)
		for _, k := range []string{"neighbour-1", "neighbour-2", "neighbour-3"} {
			if err := neighbour.Set(key(k), val("x")); err != nil {
				panic(err)
			}
		}
		if err := neighbour.Commit(); err != nil {
			panic(err)
		}
		s, err := db.WithRealm(ownRealm)
		if err != nil {
			panic(err)
		}

		return s
	case "flushkv":
		return flushkv.New(mapdb.NewMapDB())
	default:
		return mapdb.NewMapDB()
	}
}

// ---------------------------------------------------------------------------------------------------------
// a case: pure data, replayable without rapid

type action struct {
	Kind string `json:"k"`              // put | overwrite | del | del_present | commit | reopen | commit_reopen | rebuild | check
	Key  int    `json:"key,omitempty"`  // index into Keys (put, del) or into the sorted present keys (overwrite, del_present)
	Val  int    `json:"val,omitempty"`  // index into valuePool (map flavour)
	Mode uint64 `json:"mode,omitempty"` // rebuild: order / detours
}

type caseSpec struct {
	Flavour string `json:"flavour"` // map | set
	Store   string `json:"store"`   // mapdb | mapdb_realm | mapdb_sibling | mapdb_realm0 | flushkv
	// RootCodec: "" = identifiers are stored as their 32 bytes; "prefixed" = stored as 0xAB || 32 bytes
	RootCodec string   `json:"root_codec,omitempty"`
	Keys      []string `json:"keys"` // hex of the working-set keys
	Actions   []action `json:"actions"`
}

func (c *caseSpec) canon() string {
	b, _ := json.Marshal(c)
	return string(b)
}

func (c *caseSpec) render() any {
	var acts []string
	for _, a := range c.Actions {
		s := a.Kind
		switch a.Kind {
		case "put", "overwrite":
			s += fmt.Sprintf(" key#%d", a.Key)
			if c.Flavour == "map" {
				s += " val=" + valuePool[a.Val%len(valuePool)].name
			}
		case "del", "del_present":
			s += fmt.Sprintf(" key#%d", a.Key)
		case "rebuild":
			s += fmt.Sprintf(" mode=%#x", a.Mode)
		}
		acts = append(acts, s)
	}

	return map[string]any{"flavour": c.Flavour, "store": c.Store, "root_codec": c.RootCodec, "keys_hex": c.Keys, "actions": acts}
}

// what a run observed (for stats; never influences the verdict)
type runInfo struct {
	labels        map[string]int
	nontrivial    bool
	deepDelete    bool // delete of a key sharing >=16 path bits with a remaining key
	emptyOverw    bool // overwrite of a present key with an empty value
	pendingNT     bool // one of the two happened and no root comparison came after it yet
	commits       int
	maxSize       int
	rootCompares  int
	reopenCommits int // largest number of commits before a faithful reopen
}

func (r *runInfo) label(l string) { r.labels[l]++ }

type failure struct {
	Step   int            `json:"step"` // index into Actions; len(Actions) = final forced comparison
	Msg    string         `json:"problem"`
	Detail map[string]any `json:"detail,omitempty"`
}

func (f *failure) String() string {
	d, _ := json.Marshal(f.Detail)
	return fmt.Sprintf("step %d: %s %s", f.Step, f.Msg, d)
}

// ---------------------------------------------------------------------------------------------------------
// cross-history tables (per process, per flavour): every (contents, root) pair any history produced.
// equal contents => equal root (content-only root) and equal root => equal contents (injectivity in everything explored).

type provenance struct {
	spec *caseSpec
	step int
	how  string
}

type rootTables struct {
	mu             sync.Mutex
	rootOfContents map[[32]byte][32]byte
	contentsOfRoot map[[32]byte]string
	prov           map[[32]byte]provenance // by contents digest: first history that produced them
	hits, resets   int64                   // contents seen before (= root comparisons across histories), table resets
}

const tableCap = 200000

var tables = map[string]*rootTables{
	"map": {rootOfContents: map[[32]byte][32]byte{}, contentsOfRoot: map[[32]byte]string{}, prov: map[[32]byte]provenance{}},
	"set": {rootOfContents: map[[32]byte][32]byte{}, contentsOfRoot: map[[32]byte]string{}, prov: map[[32]byte]provenance{}},
}

func canonContents(model map[string]string) string {
	keys := sortedKeys(model)
	var sb strings.Builder
	for _, k := range keys {
		v := model[k]
		sb.WriteString(hex.EncodeToString([]byte(k)))
		sb.WriteByte('=')
		if len(v) <= 40 {
			sb.WriteString(hex.EncodeToString([]byte(v)))
		} else {
			h := sha256.Sum256([]byte(v))
			fmt.Fprintf(&sb, "sha256:%x/len%d", h[:], len(v))
		}
		sb.WriteByte(';')
	}

	return sb.String()
}

func sortedKeys(model map[string]string) []string {
	keys := make([]string, 0, len(model))
	for k := range model {
		keys = append(keys, k)
	}
	sort.Strings(keys)

	return keys
}

// observe records (contents, root) and reports a contradiction with anything seen before in this process.
func (rt *rootTables) observe(model map[string]string, root [32]byte, spec *caseSpec, step int, how string) *failure {
	cc := canonContents(model)
	cd := sha256.Sum256([]byte(cc))
	rt.mu.Lock()
	defer rt.mu.Unlock()
	if len(rt.rootOfContents) >= tableCap {
		// bounded memory in long runs: start over (comparisons then cover the histories since the reset)
		rt.rootOfContents, rt.contentsOfRoot, rt.prov = map[[32]byte][32]byte{}, map[[32]byte]string{}, map[[32]byte]provenance{}
		rt.resets++
	}
	if r0, ok := rt.rootOfContents[cd]; ok {
		rt.hits++
		if r0 != root {
			p := rt.prov[cd]
			return &failure{Step: step, Msg: "equal contents reached through two histories have different roots", Detail: map[string]any{
				"contents": cc, "root_here": hex.EncodeToString(root[:]), "how_here": how, "root_other": hex.EncodeToString(r0[:]),
				"other_history": p.spec, "other_step": p.step, "other_how": p.how,
			}}
		}
	} else {
		rt.rootOfContents[cd] = root
		rt.prov[cd] = provenance{spec, step, how}
	}
	if c0, ok := rt.contentsOfRoot[root]; ok {
		if c0 != cc {
			return &failure{Step: step, Msg: "different contents have the same root", Detail: map[string]any{
				"contents_here": cc, "contents_other": c0, "root": hex.EncodeToString(root[:]), "how_here": how,
			}}
		}
	} else {
		rt.contentsOfRoot[root] = cc
	}

	return nil
}

// ---------------------------------------------------------------------------------------------------------
// the model check: everything observable must agree with a plain map

func checkAgainstModel(in inst, flavour string, model map[string]string, probeKeys []string) (string, map[string]any) {
	if got := in.Size(); got != len(model) {
		return "Size disagrees with the model", map[string]any{"size": got, "model_size": len(model)}
	}
	for _, k := range probeKeys {
		want, present := model[k]
		has, err := in.Has(k)
		if err != nil {
			return "Has returned an error", map[string]any{"key": hex.EncodeToString([]byte(k)), "err": err.Error()}
		}
		if has != present {
			return "Has disagrees with the model", map[string]any{"key": hex.EncodeToString([]byte(k)), "has": has, "model_has": present}
		}
		if flavour == "map" {
			v, exists, err := in.Get(k)
			if err != nil {
				return "Get returned an error", map[string]any{"key": hex.EncodeToString([]byte(k)), "err": err.Error()}
			}
			if exists != present {
				return "Get's exists flag disagrees with the model", map[string]any{"key": hex.EncodeToString([]byte(k)), "exists": exists, "model_has": present}
			}
			if present && !bytes.Equal(v, []byte(want)) {
				return "Get returned a different value than the model holds", map[string]any{"key": hex.EncodeToString([]byte(k)), "value": hex.EncodeToString(v), "model_value": hex.EncodeToString([]byte(want))}
			}
		}
	}
	var streamed []string
	if err := in.Stream(func(k string, v val) error {
		streamed = append(streamed, hex.EncodeToString([]byte(k))+"="+hex.EncodeToString(v))
		return nil
	}); err != nil {
		return "Stream returned an error", map[string]any{"err": err.Error()}
	}
	sort.Strings(streamed)
	var want []string
	for k, v := range model {
		want = append(want, hex.EncodeToString([]byte(k))+"="+hex.EncodeToString([]byte(v)))
	}
	sort.Strings(want)
	if strings.Join(streamed, ";") != strings.Join(want, ";") {
		return "Stream disagrees with the model (compared as multisets)", map[string]any{"streamed": abbreviate(streamed), "model": abbreviate(want)}
	}

	return "", nil
}

func abbreviate(l []string) []string {
	out := make([]string, len(l))
	for i, s := range l {
		if len(s) > 120 {
			s = s[:100] + fmt.Sprintf("...(%d hex chars)", len(s))
		}
		out[i] = s
	}

	return out
}

// ---------------------------------------------------------------------------------------------------------
// the runner

func splitmix64(x uint64) uint64 {
	x += 0x9E3779B97F4A7C15
	x = (x ^ (x >> 30)) * 0xBF58476D1CE4E5B9
	x = (x ^ (x >> 27)) * 0x94D049BB133111EB

	return x ^ (x >> 31)
}

func maxLcpWithOthers(k string, model map[string]string) int {
	best := -1
	pk := pathOf(k)
	for o := range model {
		if o == k {
			continue
		}
		if l := lcpBits(pk, pathOf(o)); l > best {
			best = l
		}
	}

	return best
}

func decodeKeys(c *caseSpec) ([]string, error) {
	keys := make([]string, len(c.Keys))
	seen := map[string]bool{}
	for i, h := range c.Keys {
		b, err := hex.DecodeString(h)
		if err != nil {
			return nil, err
		}
		if len(b) == 0 || seen[string(b)] {
			return nil, fmt.Errorf("bad working set (empty or duplicate key %q)", h)
		}
		seen[string(b)] = true
		keys[i] = string(b)
	}
	if len(keys) == 0 {
		return nil, fmt.Errorf("empty working set")
	}

	return keys, nil
}

// runCase executes the history and judges it. nil = property held on this history.
func runCase(c *caseSpec, info *runInfo) *failure {
	prefixedRootCodec = c.RootCodec == "prefixed"
	defer func() { prefixedRootCodec = false }()
	if info == nil {
		info = &runInfo{}
	}
	if info.labels == nil {
		info.labels = map[string]int{}
	}
	keys, err := decodeKeys(c)
	if err != nil {
		panic(err)
	}
	rt := tables[c.Flavour]
	store := newStore(c.Store)
	cur := openInst(c.Flavour, store)
	model := map[string]string{}
	commits := 0     // Commits executed on this store
	dirty := false   // a Put or a successful Delete ran since the last Commit
	mutated := false // a Put or a successful Delete ever ran on this store
	fail := func(step int, msg string, detail map[string]any) *failure {
		return &failure{Step: step, Msg: msg, Detail: detail}
	}
	if cur.WasRestoredFromStorage() {
		return fail(0, "WasRestoredFromStorage is true on a brand-new store", nil)
	}

	step := 0
	after := func(how string) *failure {
		if msg, d := checkAgainstModel(cur, c.Flavour, model, keys); msg != "" {
			return fail(step, msg+" (after "+how+")", d)
		}
		if len(model) > info.maxSize {
			info.maxSize = len(model)
		}

		return rt.observe(model, cur.Root(), c, step, how)
	}
	if f := after("open"); f != nil {
		return f
	}

	// the state of the last Commit: what a new instance has to report, whatever happened on the old one since
	var committedModel map[string]string
	committedRoot := cur.Root()
	doCommit := func() *failure {
		if err := cur.Commit(); err != nil {
			return fail(step, "Commit returned an error", map[string]any{"err": err.Error()})
		}
		commits++
		dirty = false
		info.commits = commits
		committedRoot = cur.Root()
		committedModel = make(map[string]string, len(model))
		for k, v := range model {
			committedModel[k] = v
		}
		if len(model) == 0 {
			info.label("commit_empty")
		}

		return nil
	}
	doReopen := func() *failure {
		wantRestored := commits > 0
		fresh := openInst(c.Flavour, store)
		if got := fresh.WasRestoredFromStorage(); got != wantRestored {
			return fail(step, "WasRestoredFromStorage of a new instance is wrong", map[string]any{"got": got, "commits_before": commits, "uncommitted_changes": dirty})
		}
		switch {
		case commits > 0 && !dirty, commits == 0 && !mutated:
			// faithful reopen: the new instance replaces the old one (which is dropped)
			oldRoot, oldSize := cur.Root(), cur.Size()
			if r := fresh.Root(); r != oldRoot {
				return fail(step, "Root of the reopened instance differs from the committed instance", map[string]any{"reopened": hex.EncodeToString(r[:]), "before": hex.EncodeToString(oldRoot[:]), "commits_before": commits})
			}
			if s := fresh.Size(); s != oldSize {
				return fail(step, "Size of the reopened instance differs", map[string]any{"reopened": s, "before": oldSize})
			}
			cur = fresh
			if commits == 0 {
				info.label("reopen_untouched_store")
			} else {
				info.label("reopen_after_commit")
				if commits >= 2 {
					info.label("reopen_after_2plus_commits")
					info.nontrivial = true
				}
				if commits > info.reopenCommits {
					info.reopenCommits = commits
				}
				if len(model) == 0 {
					info.label("reopen_empty_committed")
				}
			}
		case commits == 0:
			// never committed but written to: only the flag is asserted; the probe instance is dropped
			info.label("probe_never_committed_dirty")
		default:
			// uncommitted changes on top of a commit: "after any Commit, a new instance opened over the same store
			// reports the same Root, Size and contents" - those of the Commit, not of the changes made since (the
			// former known finding KF-C09-1). The probe instance is dropped, the old one goes on.
			if r := fresh.Root(); r != committedRoot {
				return fail(step, "Root of an instance opened after uncommitted changes differs from the committed root", map[string]any{"reopened": hex.EncodeToString(r[:]), "committed": hex.EncodeToString(committedRoot[:]), "commits_before": commits})
			}
			if msg, d := checkAgainstModel(fresh, c.Flavour, committedModel, keys); msg != "" {
				return fail(step, msg+" (instance opened after uncommitted changes, compared with the state of the last Commit)", d)
			}
			info.label("reopen_committed_dirty")
			info.nontrivial = true
		}

		return nil
	}

	for ; step < len(c.Actions); step++ {
		a := c.Actions[step]
		present := sortedKeys(model)
		switch a.Kind {
		case "put", "overwrite":
			k := keys[a.Key%len(keys)]
			if a.Kind == "overwrite" && len(present) > 0 {
				k = present[a.Key%len(present)]
			}
			var v val
			vname := "empty"
			if c.Flavour == "map" {
				pv := valuePool[a.Val%len(valuePool)]
				v, vname = pv.v, pv.name
			}
			old, was := model[k]
			if err := cur.Put(k, v); err != nil {
				return fail(step, "Set/Add returned an error", map[string]any{"key": hex.EncodeToString([]byte(k)), "value": vname, "err": err.Error()})
			}
			model[k] = string(v)
			dirty, mutated = true, true
			switch {
			case !was:
				info.label("put_new")
			case old == string(v):
				info.label("put_same_value")
			default:
				info.label("put_overwrite")
			}
			if len(v) == 0 && c.Flavour == "map" {
				info.label("put_empty_value:" + vname)
				if was && old != "" {
					info.label("overwrite_with_empty")
					info.emptyOverw, info.pendingNT = true, true
				}
			}
			if was && old == "" && len(v) > 0 {
				info.label("overwrite_empty_with_nonempty")
			}
			if l := maxLcpWithOthers(k, model); !was && l >= 16 {
				info.label("insert_next_to_deep_sibling")
			}
		case "del", "del_present":
			k := keys[a.Key%len(keys)]
			if a.Kind == "del_present" && len(present) > 0 {
				k = present[a.Key%len(present)]
			}
			_, was := model[k]
			deleted, err := cur.Delete(k)
			if err != nil {
				return fail(step, "Delete returned an error", map[string]any{"key": hex.EncodeToString([]byte(k)), "err": err.Error()})
			}
			if deleted != was {
				return fail(step, "Delete's result does not say whether the key was present", map[string]any{"key": hex.EncodeToString([]byte(k)), "deleted": deleted, "model_has": was})
			}
			if was {
				l := maxLcpWithOthers(k, model)
				delete(model, k)
				dirty, mutated = true, true
				info.label("delete_present")
				if l >= 16 {
					info.label("delete_deep16")
					info.deepDelete, info.pendingNT = true, true
				}
				if l >= 24 {
					info.label("delete_deep24")
				}
				if len(model) == 0 {
					info.label("delete_to_empty")
				}
			} else {
				info.label("delete_absent")
			}
		case "commit":
			if f := doCommit(); f != nil {
				return f
			}
		case "reopen":
			if f := doReopen(); f != nil {
				return f
			}
		case "commit_reopen":
			if f := doCommit(); f != nil {
				return f
			}
			if f := after("commit"); f != nil {
				return f
			}
			if f := doReopen(); f != nil {
				return f
			}
		case "rebuild":
			if f := rebuildAndCompare(c, keys, model, cur.Root(), a.Mode, step, info); f != nil {
				return f
			}
		case "check":
			// observation only: the full comparison with the model below
		default:
			panic("unknown action " + a.Kind)
		}
		if f := after(a.Kind); f != nil {
			return f
		}
	}
	// every history ends with one root comparison against an independently built instance
	if f := rebuildAndCompare(c, keys, model, cur.Root(), uint64(len(c.Actions))*0x9E3779B97F4A7C15+1, step, info); f != nil {
		return f
	}

	return nil
}

// rebuildAndCompare is the metamorphic oracle: the model contents are inserted into a fresh instance over a fresh
// store through a different history (other order, overwrite-then-correct, insert-delete-reinsert, extra keys that
// are deleted again, optional commit+reopen on the way); the resulting root must equal the root under test.
func rebuildAndCompare(c *caseSpec, keys []string, model map[string]string, rootUnderTest [32]byte, mode uint64, step int, info *runInfo) *failure {
	var script []string
	fail := func(msg string, d map[string]any) *failure {
		if d == nil {
			d = map[string]any{}
		}
		d["rebuild_script"] = script
		d["rebuild_mode"] = fmt.Sprintf("%#x", mode)

		return &failure{Step: step, Msg: msg, Detail: d}
	}
	store := newStore("mapdb")
	in := openInst(c.Flavour, store)
	order := sortedKeys(model)
	switch mode & 3 {
	case 1:
		for i, j := 0, len(order)-1; i < j; i, j = i+1, j-1 {
			order[i], order[j] = order[j], order[i]
		}
	case 2: // by trie path
		sort.Slice(order, func(a, b int) bool {
			pa, pb := pathOf(order[a]), pathOf(order[b])
			return bytes.Compare(pa[:], pb[:]) < 0
		})
	case 3: // pseudo-random permutation determined by the drawn mode
		seed := mode >> 8
		sort.SliceStable(order, func(a, b int) bool {
			return splitmix64(seed^hashStr(order[a])) < splitmix64(seed^hashStr(order[b]))
		})
	}
	put := func(k string, v string) *failure {
		var vv val
		if c.Flavour == "map" {
			vv = val(v) // note: empty values are rebuilt as empty non-nil slices unless the detour below says otherwise
			if len(v) == 0 && mode&(1<<7) != 0 {
				vv = nil
			}
		}
		script = append(script, "put "+hex.EncodeToString([]byte(k))+"="+abbrevHex(v))
		if err := in.Put(k, vv); err != nil {
			return fail("rebuild: Set/Add returned an error", map[string]any{"err": err.Error()})
		}

		return nil
	}
	del := func(k string, want bool) *failure {
		script = append(script, "del "+hex.EncodeToString([]byte(k)))
		got, err := in.Delete(k)
		if err != nil {
			return fail("rebuild: Delete returned an error", map[string]any{"err": err.Error()})
		}
		if got != want {
			return fail("rebuild: Delete's result does not say whether the key was present", map[string]any{"key": hex.EncodeToString([]byte(k)), "deleted": got, "expected": want})
		}

		return nil
	}
	commitReopen := func() *failure {
		script = append(script, "commit+reopen")
		if err := in.Commit(); err != nil {
			return fail("rebuild: Commit returned an error", map[string]any{"err": err.Error()})
		}
		r := in.Root()
		in = openInst(c.Flavour, store)
		if !in.WasRestoredFromStorage() {
			return fail("rebuild: WasRestoredFromStorage false after a Commit", nil)
		}
		if in.Root() != r {
			return fail("rebuild: Root changed by commit+reopen", nil)
		}

		return nil
	}

	// detour: extra keys (from the working set, not part of the contents) are inserted first / in between and deleted at the end
	var extras []string
	if mode&(1<<2) != 0 {
		for i, k := range keys {
			if _, in := model[k]; !in && (mode>>(16+uint(i)%40))&1 == 1 {
				extras = append(extras, k)
			}
		}
		if len(extras) > 0 {
			info.label("rebuild_detour_extra_keys")
		}
	}
	for i, k := range extras {
		if i%2 == 0 {
			if f := put(k, "x"); f != nil {
				return f
			}
		}
	}
	// detour: overwrite-then-correct
	if mode&(1<<3) != 0 && len(order) > 0 {
		info.label("rebuild_detour_overwrite")
		for i, k := range order {
			if i%2 == 0 {
				wrong := model[k] + "w"
				if i%4 == 0 {
					wrong = ""
				}
				if f := put(k, wrong); f != nil {
					return f
				}
			}
		}
	}
	midway := func() *failure {
		for j, e := range extras {
			if j%2 == 1 {
				if f := put(e, ""); f != nil {
					return f
				}
			}
		}
		if mode&(1<<5) != 0 {
			info.label("rebuild_detour_commit_reopen_midway")
			if f := commitReopen(); f != nil {
				return f
			}
		}

		return nil
	}
	if len(order) == 0 {
		if f := midway(); f != nil {
			return f
		}
	}
	for i, k := range order {
		if f := put(k, model[k]); f != nil {
			return f
		}
		if i == len(order)/2 {
			if f := midway(); f != nil {
				return f
			}
		}
	}
	// detour: insert-delete-reinsert
	if mode&(1<<4) != 0 && len(order) > 0 {
		info.label("rebuild_detour_delete_reinsert")
		var again []string
		for i, k := range order {
			if (mode>>(24+uint(i)%32))&1 == 1 || i == 0 {
				if f := del(k, true); f != nil {
					return f
				}
				again = append(again, k)
			}
		}
		for i := len(again) - 1; i >= 0; i-- {
			if f := put(again[i], model[again[i]]); f != nil {
				return f
			}
		}
	}
	for _, e := range extras {
		if f := del(e, true); f != nil {
			return f
		}
	}
	if mode&(1<<6) != 0 {
		info.label("rebuild_detour_commit_reopen_end")
		if f := commitReopen(); f != nil {
			return f
		}
	}

	if msg, d := checkAgainstModel(in, c.Flavour, model, keys); msg != "" {
		return fail("rebuilt instance: "+msg, d)
	}
	got := in.Root()
	info.rootCompares++
	info.label("root_comparison")
	if len(model) >= 2 {
		info.label("root_comparison_2plus_keys")
	}
	if info.pendingNT {
		info.nontrivial = true
		info.pendingNT = false
	}
	if got != rootUnderTest {
		return fail("equal contents, different roots: instance under test vs. a fresh instance filled through another history", map[string]any{
			"contents": canonContents(model), "root_under_test": hex.EncodeToString(rootUnderTest[:]), "root_rebuilt": hex.EncodeToString(got[:]),
		})
	}
	if f := tables[c.Flavour].observe(model, got, c, step, "rebuild"); f != nil {
		f.Detail["rebuild_script"] = script
		return f
	}

	return nil
}

func hashStr(s string) uint64 {
	h := sha256.Sum256([]byte(s))
	var x uint64
	for i := 0; i < 8; i++ {
		x = x<<8 | uint64(h[i])
	}

	return x
}

func abbrevHex(v string) string {
	if len(v) > 40 {
		return fmt.Sprintf("<%d bytes>", len(v))
	}

	return hex.EncodeToString([]byte(v))
}

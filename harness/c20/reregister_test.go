package c20

import (
	"context"
	"errors"
	"fmt"
	"runtime"
	"sync/atomic"
	"testing"

	"github.com/iotaledger/hive.go/app/daemon"
	"pgregory.net/rapid"
	"verifharness/internal/ctl"
	"verifharness/internal/stats"
)

// TestReRegisterRetryLoop: a caller that wants to restart a worker of the same name retries BackgroundWorker until
// the daemon no longer answers ErrExistingBackgroundWorkerStillRunning. Whatever instant the retry is accepted at,
// the accepted worker is a started worker: the shutdown must cancel it and wait for it.
func TestReRegisterRetryLoop(t *testing.T) {
	const check = "reregister_retry_loop"
	stats.Rule(check, "rapid draws orders for an anchor worker and a short-lived worker, 300 rounds per case (thorough 2000) and yield counts; per round: fresh daemon, anchor (held until cancelled) and worker 'w' (returns as soon as it is told to), Start, 'w' is told to finish while another goroutine retries BackgroundWorker('w', second incarnation) in a tight loop until it is accepted (only ErrExistingBackgroundWorkerStillRunning is a legal refusal), then ShutdownAndWait under the 20 s watchdog. Oracle: the accepted second incarnation saw its context cancelled and returned before ShutdownAndWait returned; GetRunningBackgroundWorkers listed it before the shutdown. Distinct by drawn configuration; non-trivial = every case (the retry always races the first incarnation's exit)")
	rounds := stats.Scale(300, 2000)
	rapid.Check(t, func(rt *rapid.T) {
		anchorOrder := rapid.SampledFrom([]int{-1, 0, 2}).Draw(rt, "anchorOrder")
		wOrder := rapid.SampledFrom([]int{-2, 0, 1, 3}).Draw(rt, "wOrder")
		w2Order := rapid.SampledFrom([]int{-2, 0, 1, 3}).Draw(rt, "w2Order")
		yields := rapid.IntRange(0, 3).Draw(rt, "yieldsBeforeRetry")
		desc := fmt.Sprintf("anchor=%d w=%d w2=%d yields=%d", anchorOrder, wOrder, w2Order, yields)
		fail := func(format string, a ...any) {
			msg := fmt.Sprintf(format, a...)
			stats.Violation(check, map[string]any{"config": desc, "problem": msg})
			rt.Fatalf("%s: %s", desc, msg)
		}
		for round := 0; round < rounds; round++ {
			d := daemon.New()
			finish := make(chan struct{})
			var w2Started, w2Cancelled, w2Returned atomic.Bool
			if err := d.BackgroundWorker("anchor", func(ctx context.Context) { <-ctx.Done() }, anchorOrder); err != nil {
				fail("registering the anchor: %v", err)
			}
			if err := d.BackgroundWorker("w", func(ctx context.Context) {
				select {
				case <-finish:
				case <-ctx.Done():
				}
			}, wOrder); err != nil {
				fail("registering w: %v", err)
			}
			d.Start()
			accepted := make(chan error, 1)
			go func() {
				for i := 0; i < yields; i++ {
					runtime.Gosched()
				}
				for {
					err := d.BackgroundWorker("w", func(ctx context.Context) {
						w2Started.Store(true)
						<-ctx.Done()
						w2Cancelled.Store(true)
						w2Returned.Store(true)
					}, w2Order)
					if err == nil || !errors.Is(err, daemon.ErrExistingBackgroundWorkerStillRunning) {
						accepted <- err
						return
					}
					runtime.Gosched()
				}
			}()
			close(finish)
			var accErr error
			if !ctl.WithinHang(func() { accErr = <-accepted }) {
				fail("round %d: re-registration of a worker that has finished is refused for ever\n%s", round, ctl.Dump())
			}
			if accErr != nil {
				fail("round %d: re-registration failed with %v", round, accErr)
			}
			listed := false
			for _, n := range d.GetRunningBackgroundWorkers() {
				if n == "w" {
					listed = true
				}
			}
			if !ctl.WithinHang(d.ShutdownAndWait) {
				fail("round %d: ShutdownAndWait did not return\n%s", round, ctl.Dump())
			}
			if !w2Returned.Load() {
				fail("round %d: ShutdownAndWait returned although the accepted second incarnation of 'w' has not returned (started=%v, saw its cancel=%v, listed as running before the shutdown=%v)", round, w2Started.Load(), w2Cancelled.Load(), listed)
			}
			if !listed {
				fail("round %d: the accepted second incarnation of 'w' was not listed by GetRunningBackgroundWorkers", round)
			}
		}
		stats.Case(check, true, desc, func() any { return desc })
	})
}

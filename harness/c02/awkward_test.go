package c02

import (
	"bytes"
	"context"
	"encoding/json"
	"fmt"
	"math/big"
	"testing"

	"github.com/iotaledger/hive.go/serializer/v2/serix"
	"pgregory.net/rapid"
	"verifharness/internal/stats"
)

// Target types whose shape alone decides how a decoder has to behave (the generated shapes of serixgen only contain
// types that can be decoded into): whatever the input, the call returns a value or an error.

type awkInner struct {
	Y uint16 `serix:""`
}

// embedded unexported struct through a pointer: a nil pointer cannot be initialised by reflection
type awkUnexportedEmbPtr struct {
	*awkInner `serix:""`
	Z         int32 `serix:""`
}

// AwkExported is embedded through a pointer (can be initialised).
type AwkExported struct {
	Y uint16 `serix:""`
}
type awkExportedEmbPtr struct {
	*AwkExported `serix:""`
	Z            int32 `serix:""`
}

// a field without any serix-visible content, an interface field nobody registered, a pointer to a pointer
type awkNoFields struct {
	hidden int
	Plain  string
}
type awkUnregisteredIface struct {
	I fmt.Stringer `serix:""`
	N uint8        `serix:""`
}
type awkPtrPtr struct {
	P **awkInner `serix:",optional"`
}
type awkFuncField struct {
	F func()   `serix:""`
	C chan int `serix:""`
}

// a recursive type: the nesting depth of a value is chosen by the input
type awkNode struct {
	Children []*awkNode `serix:",lenPrefix=uint8"`
}

// an interface-typed map key with one implementation that cannot be hashed; the input's type code picks it
type awkKey interface{ awkKey() }
type awkKeyPlain struct {
	V uint8 `serix:""`
}
type awkKeySlice struct {
	L []byte `serix:",lenPrefix=uint8"`
}

func (awkKeyPlain) awkKey() {}
func (awkKeySlice) awkKey() {}

type awkIfaceKeyMap struct {
	M map[awkKey]uint8 `serix:",lenPrefix=uint8"`
}

var _ = awkNoFields{}.hidden

func TestAwkwardTargets(t *testing.T) {
	const check = "serix_awkward_targets"
	stats.Rule(check, "fixed target types that the generated shapes cannot contain (nil embedded pointer to an unexported struct, embedded pointer to an exported struct, struct without serix fields, field of an unregistered interface type, pointer to pointer, func/chan fields, a recursive node type fed chains of up to 2 million nesting levels, a map with an interface key one of whose implementations is unhashable, a *big.Int as the destination itself) x drawn input (0..40 random bytes for Decode; a small JSON object with the fields' keys and junk values for JSONDecode/MapDecode) x validation off/on. Oracle: the call returns (value or error), no panic. Distinct by (type, input); non-trivial = every case")
	targets := []struct {
		name string
		mk   func() any
	}{
		{"unexported_embedded_pointer", func() any { return &awkUnexportedEmbPtr{} }},
		{"exported_embedded_pointer", func() any { return &awkExportedEmbPtr{} }},
		{"no_serix_fields", func() any { return &awkNoFields{} }},
		{"unregistered_interface_field", func() any { return &awkUnregisteredIface{} }},
		{"pointer_to_pointer", func() any { return &awkPtrPtr{} }},
		{"func_and_chan_fields", func() any { return &awkFuncField{} }},
		{"recursive_node", func() any { return &awkNode{} }},
		{"interface_key_map", func() any { return &awkIfaceKeyMap{} }},
		{"big_int_destination", func() any { return new(big.Int) }},
	}
	rapid.Check(t, func(rt *rapid.T) {
		tg := targets[rapid.IntRange(0, len(targets)-1).Draw(rt, "target")]
		api := serix.NewAPI()
		_ = api.RegisterTypeSettings(awkKeyPlain{}, serix.TypeSettings{}.WithObjectType(uint8(0)))
		_ = api.RegisterTypeSettings(awkKeySlice{}, serix.TypeSettings{}.WithObjectType(uint8(1)))
		_ = api.RegisterInterfaceObjects((*awkKey)(nil), awkKeyPlain{}, awkKeySlice{})
		raw := rapid.SliceOfN(rapid.Byte(), 0, 40).Draw(rt, "raw")
		switch tg.name {
		case "recursive_node":
			// a chain of n nodes with one child each: one byte per nesting level
			if rapid.Bool().Draw(rt, "chain") {
				raw = append(bytes.Repeat([]byte{1}, rapid.SampledFrom([]int{5, 300, 5000, 300000, 2000000}).Draw(rt, "depth")), raw...)
			}
		case "interface_key_map":
			// entry count, then type codes 0/1 at the key positions
			if rapid.Bool().Draw(rt, "typed") {
				raw = append([]byte{byte(rapid.IntRange(0, 3).Draw(rt, "entries")), byte(rapid.IntRange(0, 2).Draw(rt, "code"))}, raw...)
			}
		case "big_int_destination":
			if rapid.Bool().Draw(rt, "full") {
				raw = append(raw, make([]byte, 32)...)
			}
		}
		m := map[string]any{}
		for _, k := range []string{"y", "z", "awkInner", "awkExported", "plain", "i", "n", "p", "f", "c"} {
			if rapid.Bool().Draw(rt, "has_"+k) {
				m[k] = rapid.SampledFrom(junkNodes).Draw(rt, "junk_"+k)()
			}
		}
		doc, err := json.Marshal(m)
		if err != nil {
			rt.Skip("unmarshalable document")
		}
		shown := raw
		if len(shown) > 64 {
			shown = shown[:64]
		}
		ex := map[string]any{"target": tg.name, "raw_len": len(raw), "raw": fmt.Sprintf("%x", shown), "document": string(doc)}
		fail := func(format string, a ...any) {
			ex["problem"] = fmt.Sprintf(format, a...)
			stats.Violation(check, ex)
			rt.Fatalf("%s: %v", check, ex)
		}
		for _, validate := range []bool{false, true} {
			var opts []serix.Option
			if validate {
				opts = append(opts, serix.WithValidation())
			}
			if p := catch(func() { _, _ = api.Decode(context.Background(), raw, tg.mk(), opts...) }); p != nil {
				fail("Decode(validation=%v) panicked: %v", validate, p)
			}
			if p := catch(func() { _ = api.JSONDecode(context.Background(), doc, tg.mk(), opts...) }); p != nil {
				fail("JSONDecode(validation=%v) panicked: %v", validate, p)
			}
			if p := catch(func() { _ = api.MapDecode(context.Background(), m, tg.mk(), opts...) }); p != nil {
				fail("MapDecode(validation=%v) panicked: %v", validate, p)
			}
		}
		stats.Case(check, true, tg.name+"|"+fmt.Sprintf("%d:%x", len(raw), shown)+"|"+string(doc), func() any { return ex }, "target:"+tg.name)
	})
}

// Demonstration of an independent auditor (repair audit round), kept as a regression test; see known_findings.json.
package c01

import (
	"context"
	"testing"
	"unicode/utf8"

	"github.com/stretchr/testify/require"

	"github.com/iotaledger/hive.go/serializer/v2/serix"
)

// exported Go field names start with an upper case Unicode letter, which need not be an ASCII letter
type hunt21Measurement struct {
	Änderung uint8  `serix:""`
	Δt       uint16 `serix:""`
	Plain    uint32 `serix:""`
}

// the same fields with explicit keys in the tags (control)
type hunt21MeasurementWithKeys struct {
	Änderung uint8  `serix:"änderung"`
	Δt       uint16 `serix:"δt"`
	Plain    uint32 `serix:"plain"`
}

// FieldKeyString lower-cases the first BYTE of the field name (strings.ToLower(str[:1]) + str[1:]). For a name that starts
// with a multi-byte letter the first byte alone is invalid UTF-8: ToLower turns it into U+FFFD and the rest of the
// letter stays behind as a stray continuation byte. MapEncode and MapDecode agree on this (broken) key, but JSONEncode
// has to write valid JSON: json.Marshal replaces the invalid bytes, and JSONDecode does not find the key any more.
func TestRegressionAudit21NonASCIIFieldNameJSONRoundTrip(t *testing.T) {
	api := serix.NewAPI()
	ctx := context.Background()

	for _, name := range []string{"Änderung", "Δt", "Plain"} {
		key := serix.FieldKeyString(name)
		if !utf8.ValidString(key) {
			t.Errorf("FieldKeyString(%q) = %q is not valid UTF-8", name, key)
		}
	}

	src := hunt21Measurement{Änderung: 1, Δt: 2, Plain: 3}

	// the binary form is fine
	b, err := api.Encode(ctx, src, serix.WithValidation())
	require.NoError(t, err)
	var fromBinary hunt21Measurement
	n, err := api.Decode(ctx, b, &fromBinary, serix.WithValidation())
	require.NoError(t, err)
	require.Equal(t, len(b), n)
	require.Equal(t, src, fromBinary)

	// the JSON form
	j, err := api.JSONEncode(ctx, src, serix.WithValidation())
	require.NoError(t, err) // (refusing would be fine)
	var fromJSON hunt21Measurement
	if err = api.JSONDecode(ctx, j, &fromJSON, serix.WithValidation()); err != nil {
		t.Fatalf("JSONEncode accepted %+v and wrote %s; JSONDecode refuses the output: %s", src, j, err)
	}
	require.Equal(t, src, fromJSON)
}

func TestRegressionAudit21ControlExplicitKeys(t *testing.T) {
	api := serix.NewAPI()
	ctx := context.Background()

	src := hunt21MeasurementWithKeys{Änderung: 1, Δt: 2, Plain: 3}
	j, err := api.JSONEncode(ctx, src)
	require.NoError(t, err)
	var dst hunt21MeasurementWithKeys
	require.NoError(t, api.JSONDecode(ctx, j, &dst))
	require.Equal(t, src, dst)
}

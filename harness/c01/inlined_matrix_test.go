package c01

import (
	"context"
	"fmt"
	"reflect"
	"testing"

	"github.com/iotaledger/hive.go/serializer/v2/serix"
	"verifharness/internal/inlgrid"
	"verifharness/internal/stats"
)

// imEqual compares two holders; a nil and an empty byte slice are the same value (neither form distinguishes them).
func imEqual(a, b reflect.Value) bool {
	for _, h := range []reflect.Value{a, b} {
		for i := 0; i < h.Elem().NumField(); i++ {
			if m := h.Elem().Field(i); m.Kind() == reflect.Slice && m.Len() == 0 {
				m.Set(reflect.Zero(m.Type()))
			}
		}
	}

	return reflect.DeepEqual(a.Interface(), b.Interface())
}

// TestInlinedMemberMatrix enumerates holder structs {X uint8 "x"; M <member> ",inlined[,optional|,omitempty]";
// Foo uint8 "foo,omitempty"} over the member types above, the three tag variants, the holder with and without a type
// code of its own, every listed value of the member and the sibling Foo zero (left out) or not. The generated shapes
// reach only part of this grid; the audit rounds found most of their JSON-form cases in it.
func TestInlinedMemberMatrix(t *testing.T) {
	const check = "inlined_member_matrix"
	stats.Rule(check, "exhaustive grid: 24 member types (struct, pointer, pointer to pointer, struct whose members can all be left out, struct with a type code, struct with a key that collides with a sibling, embedding structs, struct that inlines a struct / an interface in turn, interface, typed byte array / slice, type with a JSON codec of its own; by value and through pointers) x tag {inlined; inlined,optional; inlined,omitempty} x holder with/without a type code x every listed member value (zero/nil, set, set-but-empty) x sibling `foo,omitempty` zero or 1 x validation on/off. Oracle: if Encode accepts the value, Decode reads everything back to an equal value; if JSONEncode accepts it, JSONDecode succeeds and yields an equal value (a type that serix refuses as a whole, an encoder that refuses the value: counted, fine). Distinct by grid cell; non-trivial = JSONEncode accepted the value")
	ctx := context.Background()
	ifaceT := inlgrid.IfaceType
	cells := 0
	for _, mem := range inlgrid.Members() {
		for _, tag := range []string{",inlined", ",inlined,optional", ",inlined,omitempty"} {
			for _, typedHolder := range []bool{false, true} {
				holderT := reflect.StructOf([]reflect.StructField{
					{Name: "X", Type: reflect.TypeOf(uint8(0)), Tag: `serix:"x"`},
					{Name: "M", Type: mem.Typ, Tag: reflect.StructTag(`serix:"` + tag + `"`)},
					{Name: "Foo", Type: reflect.TypeOf(uint8(0)), Tag: `serix:"foo,omitempty"`},
				})
				api := inlgrid.NewAPI()
				must := func(err error) {
					if err != nil {
						t.Fatalf("registration: %v", err)
					}
				}
				if typedHolder {
					// (code 1 is also the code of an implementation of the interface)
					must(api.RegisterTypeSettings(reflect.New(holderT).Elem().Interface(), serix.TypeSettings{}.WithObjectType(uint8(1))))
				}
				for vi, mv := range mem.Values {
					for _, foo := range []uint8{0, 1} {
						for _, validate := range []bool{false, true} {
							cells++
							var opts []serix.Option
							if validate {
								opts = append(opts, serix.WithValidation())
							}
							in := reflect.New(holderT)
							in.Elem().Field(0).SetUint(200)
							if mv != nil {
								in.Elem().Field(1).Set(reflect.ValueOf(mv))
							} else if mem.Typ != ifaceT {
								t.Fatalf("nil value for %s", mem.Name)
							}
							in.Elem().Field(2).SetUint(uint64(foo))
							cell := fmt.Sprintf("member=%s tag=%q typedHolder=%v value#%d=%+v foo=%d validation=%v", mem.Name, tag, typedHolder, vi, mv, foo, validate)
							fail := func(format string, a ...any) {
								msg := fmt.Sprintf(format, a...)
								stats.Violation(check, map[string]any{"cell": cell, "problem": msg})
								t.Fatalf("%s: %s", cell, msg)
							}
							guard := func(what string, f func()) {
								defer func() {
									if r := recover(); r != nil {
										fail("%s panicked: %v", what, r)
									}
								}()
								f()
							}
							labels := []string{"tag:" + tag}
							binaryAccepted := false
							guardJSON := func(f func()) {
								defer func() {
									if r := recover(); r != nil {
										if binaryAccepted {
											fail("JSON form panicked: %v", r)
										}
										labels = append(labels, "json_panicked_on_value_without_binary_encoding")
									}
								}()
								f()
							}
							guard("binary form", func() {
								b, err := api.Encode(ctx, in.Interface(), opts...)
								if err != nil {
									labels = append(labels, "encode_refused")
									return
								}
								out := reflect.New(holderT)
								n, err := api.Decode(ctx, b, out.Interface(), opts...)
								if err != nil {
									fail("Encode wrote %x, Decode refuses it: %v", b, err)
								}
								if n != len(b) {
									fail("Decode consumed %d of %d bytes", n, len(b))
								}
								if !imEqual(in, out) {
									fail("binary round trip changed the value: %+v -> %+v", in.Elem().Interface(), out.Elem().Interface())
								}
								labels = append(labels, "binary_roundtrip")
								binaryAccepted = true
							})
							accepted := false
							guardJSON(func() {
								j, err := api.JSONEncode(ctx, in.Interface(), opts...)
								if err != nil {
									labels = append(labels, "jsonencode_refused")
									return
								}
								accepted = true
								out := reflect.New(holderT)
								if err := api.JSONDecode(ctx, j, out.Interface(), opts...); err != nil {
									fail("JSONEncode wrote %s, JSONDecode refuses it: %v", j, err)
								}
								if !imEqual(in, out) {
									fail("JSON round trip through %s changed the value: %+v -> %+v", j, in.Elem().Interface(), out.Elem().Interface())
								}
								labels = append(labels, "json_roundtrip")
							})
							stats.Case(check, accepted, cell, func() any { return cell }, labels...)
						}
					}
				}
			}
		}
	}
	t.Logf("%d grid cells", cells)
}

// TestInlinedMemberPairs: two inlined members side by side. Holder {X uint8 "x"; M1 <member> <tag>; M2 <member> <tag>}
// over all ordered pairs of the member types of TestInlinedMemberMatrix, all nine tag combinations and all listed
// values of both members. Two members can own the same keys (the same struct type twice, two interfaces, two objects
// with a type code): whatever JSONEncode accepts has to come back unchanged.
func TestInlinedMemberPairs(t *testing.T) {
	const check = "inlined_member_pairs"
	stats.Rule(check, "exhaustive grid: ordered pairs of the 24 member types of inlined_member_matrix x tag {inlined; inlined,optional; inlined,omitempty} for each of the two x every listed value of both members (validation off). Oracle as in inlined_member_matrix: what Encode accepts, Decode reads back completely and equal; what JSONEncode accepts, JSONDecode reads back equal; no panic. Distinct by grid cell; non-trivial = JSONEncode accepted the value")
	ctx := context.Background()
	api := inlgrid.NewAPI()
	tags := []string{",inlined", ",inlined,optional", ",inlined,omitempty"}
	members := inlgrid.Members()
	cells := 0
	for _, m1 := range members {
		for _, m2 := range members {
			for _, tag1 := range tags {
				for _, tag2 := range tags {
					holderT := reflect.StructOf([]reflect.StructField{
						{Name: "X", Type: reflect.TypeOf(uint8(0)), Tag: `serix:"x"`},
						{Name: "M1", Type: m1.Typ, Tag: reflect.StructTag(`serix:"` + tag1 + `"`)},
						{Name: "M2", Type: m2.Typ, Tag: reflect.StructTag(`serix:"` + tag2 + `"`)},
					})
					for v1i, v1 := range m1.Values {
						for v2i, v2 := range m2.Values {
							cells++
							in := reflect.New(holderT)
							in.Elem().Field(0).SetUint(200)
							if v1 != nil {
								in.Elem().Field(1).Set(reflect.ValueOf(v1))
							}
							if v2 != nil {
								in.Elem().Field(2).Set(reflect.ValueOf(v2))
							}
							cell := fmt.Sprintf("M1=%s%q value#%d=%+v M2=%s%q value#%d=%+v", m1.Name, tag1, v1i, v1, m2.Name, tag2, v2i, v2)
							fail := func(format string, a ...any) {
								msg := fmt.Sprintf(format, a...)
								stats.Violation(check, map[string]any{"cell": cell, "problem": msg})
								t.Fatalf("%s: %s", cell, msg)
							}
							guard := func(what string, f func()) {
								defer func() {
									if r := recover(); r != nil {
										fail("%s panicked: %v", what, r)
									}
								}()
								f()
							}
							var labels []string
							binaryAccepted := false
							// a value that has no binary encoding (a nil pointer that is not optional, ...) is no value of the type:
							// a crash of JSONEncode on it (a codec called with a nil receiver) is outside the property and counted
							guardJSON := func(f func()) {
								defer func() {
									if r := recover(); r != nil {
										if binaryAccepted {
											fail("JSON form panicked: %v", r)
										}
										labels = append(labels, "json_panicked_on_value_without_binary_encoding")
									}
								}()
								f()
							}
							guard("binary form", func() {
								b, err := api.Encode(ctx, in.Interface())
								if err != nil {
									labels = append(labels, "encode_refused")
									return
								}
								out := reflect.New(holderT)
								n, err := api.Decode(ctx, b, out.Interface())
								if err != nil {
									fail("Encode wrote %x, Decode refuses it: %v", b, err)
								}
								if n != len(b) {
									fail("Decode consumed %d of %d bytes", n, len(b))
								}
								if !imEqual(in, out) {
									fail("binary round trip changed the value: %+v -> %+v", in.Elem().Interface(), out.Elem().Interface())
								}
								labels = append(labels, "binary_roundtrip")
								binaryAccepted = true
							})
							accepted := false
							guardJSON(func() {
								j, err := api.JSONEncode(ctx, in.Interface())
								if err != nil {
									labels = append(labels, "jsonencode_refused")
									return
								}
								accepted = true
								out := reflect.New(holderT)
								if err := api.JSONDecode(ctx, j, out.Interface()); err != nil {
									fail("JSONEncode wrote %s, JSONDecode refuses it: %v", j, err)
								}
								if !imEqual(in, out) {
									fail("JSON round trip through %s changed the value: %+v -> %+v", j, in.Elem().Interface(), out.Elem().Interface())
								}
								labels = append(labels, "json_roundtrip")
							})
							stats.Case(check, accepted, cell, func() any { return cell }, labels...)
						}
					}
				}
			}
		}
	}
	t.Logf("%d grid cells", cells)
}

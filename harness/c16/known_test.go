package c16

import (
	"fmt"
	"strings"
	"sync"
	"sync/atomic"
	"testing"

	"github.com/iotaledger/hive.go/runtime/workerpool"
	"pgregory.net/rapid"
	"verifharness/internal/ctl"
	"verifharness/internal/stats"
)

// knownWaiterRacingRestart is the open known finding KF-C16-1: ShutdownComplete is one exported sync.WaitGroup that is
// armed again by every Start. When goroutines are blocked in ShutdownComplete.Wait() while another goroutine restarts
// the pool, the WaitGroup is re-armed before the woken waiters have re-checked it, and the runtime panics ("sync:
// WaitGroup is reused before previous Wait has returned", in a waiter, or "sync: WaitGroup misuse: Add called
// concurrently with Wait", in Start). The generated programs of this package never overlap a waiter with a restart
// (every ShutdownComplete.Wait is awaited before the next Start is issued); this test performs exactly that overlap.
const knownWaiterRacingRestart = "KF-C16-1"

func isWaitGroupReusePanic(v any) bool {
	s := fmt.Sprint(v)

	return strings.Contains(s, "WaitGroup is reused before previous Wait has returned") || strings.Contains(s, "WaitGroup misuse: Add called concurrently with Wait")
}

// TestKnownWaiterRacingRestart: Shutdown, then k waiters on ShutdownComplete and a restarting goroutine released
// together. A recovered sync.WaitGroup re-use panic is KF-C16-1 (reported with stats.Known, never a failure, the trial
// is abandoned); every other outcome is judged as usual: all waiters and Start return, the tasks of the new run all run,
// the closing Shutdown + ShutdownComplete.Wait returns, no other panic.
func TestKnownWaiterRacingRestart(t *testing.T) {
	const check = "known_waiter_racing_restart"
	stats.Rule(check, "rapid draws 1..4 workers, cancel-on-shutdown on/off, 1..16 waiters, 0..6 tasks of the first run and 1..6 of the second; 30 trials (thorough 300) per case on fresh pools: Start, tasks, Shutdown, then the waiters (ShutdownComplete.Wait, each with recover) and one Start (with recover) are released together by a spin barrier; afterwards tasks are submitted to the restarted pool, WaitIsZero, Shutdown, ShutdownComplete.Wait - all under the stall-tolerant 20 s watchdog. A recovered sync.WaitGroup re-use panic is the known finding KF-C16-1 (counted, trial abandoned). Oracle otherwise: no other panic; Start returns; every waiter returns at the latest after the closing shutdown; the tasks accepted by the restarted pool all ran exactly once; counter 0 at the end. Distinct by configuration; non-trivial = >= 4 waiters")
	trials := stats.Scale(30, 300)
	rapid.Check(t, func(rt *rapid.T) {
		workers := rapid.IntRange(1, 4).Draw(rt, "workers")
		cancel := rapid.Bool().Draw(rt, "cancelOnShutdown")
		waiters := rapid.IntRange(1, 16).Draw(rt, "waiters")
		first := rapid.IntRange(0, 6).Draw(rt, "firstRunTasks")
		second := rapid.IntRange(1, 6).Draw(rt, "secondRunTasks")
		desc := fmt.Sprintf("workers=%d cancelOnShutdown=%v waiters=%d tasks=%d/%d", workers, cancel, waiters, first, second)
		fail := func(format string, a ...any) {
			msg := fmt.Sprintf(format, a...)
			stats.Violation(check, map[string]any{"config": desc, "problem": msg})
			rt.Fatalf("%s: %s", desc, msg)
		}
		knownSeen := 0
		for trial := 0; trial < trials; trial++ {
			wp := workerpool.New("p", workerpool.WithWorkerCount(workers), workerpool.WithCancelPendingTasksOnShutdown(cancel)).Start()
			var ran1 atomic.Int32
			for i := 0; i < first; i++ {
				wp.Submit(func() { ran1.Add(1) })
			}
			wp.Shutdown()

			var ready atomic.Int32
			var mu sync.Mutex
			var known, other []string
			guard := func(who string, f func()) {
				defer func() {
					if v := recover(); v != nil {
						mu.Lock()
						if isWaitGroupReusePanic(v) {
							known = append(known, who+": "+fmt.Sprint(v))
						} else {
							other = append(other, who+": "+fmt.Sprint(v))
						}
						mu.Unlock()
					}
				}()
				ready.Add(1)
				for int(ready.Load()) < waiters+1 {
				}
				f()
			}
			// calls issued after the barrier (they can be hit by the same re-use: a stale wake-up token of the first run
			// wakes a waiter of the second run early)
			guardLate := func(who string, f func()) func() {
				return func() {
					defer func() {
						if v := recover(); v != nil {
							mu.Lock()
							if isWaitGroupReusePanic(v) {
								known = append(known, who+": "+fmt.Sprint(v))
							} else {
								other = append(other, who+": "+fmt.Sprint(v))
							}
							mu.Unlock()
						}
					}()
					f()
				}
			}
			var wgWaiters sync.WaitGroup
			for k := 0; k < waiters; k++ {
				wgWaiters.Add(1)
				go func() {
					defer wgWaiters.Done()
					guard("waiter", wp.ShutdownComplete.Wait)
				}()
			}
			startDone := make(chan struct{})
			go func() {
				defer close(startDone)
				guard("Start", func() { wp.Start() })
			}()
			if !waitHang(startDone) {
				fail("trial %d: Start (restart racing with waiters) did not return\n%s", trial, ctl.Dump())
			}
			mu.Lock()
			k, o := len(known), len(other)
			mu.Unlock()
			if o > 0 {
				fail("trial %d: unexpected panic: %v", trial, other)
			}
			if k > 0 {
				// the pool may be half started: stop what runs and abandon the trial
				knownSeen++
				go func() {
					defer func() { _ = recover() }()
					wp.Shutdown()
				}()

				continue
			}
			var ran2 atomic.Int32
			for i := 0; i < second; i++ {
				wp.Submit(func() { ran2.Add(1) })
			}
			if !withinHang(wp.PendingTasksCounter.WaitIsZero) {
				fail("trial %d: the pending counter of the restarted pool did not return to zero\n%s", trial, ctl.Dump())
			}
			if got := int(ran2.Load()); got != second {
				fail("trial %d: %d of %d tasks accepted by the restarted pool ran", trial, got, second)
			}
			if !withinHang(guardLate("closing Shutdown", func() { wp.Shutdown() })) || !withinHang(guardLate("closing ShutdownComplete.Wait", wp.ShutdownComplete.Wait)) {
				fail("trial %d: the closing Shutdown / ShutdownComplete.Wait did not return\n%s", trial, ctl.Dump())
			}
			if !withinHang(wgWaiters.Wait) {
				fail("trial %d: a waiter on ShutdownComplete did not return although the pool was shut down (twice)\n%s", trial, ctl.Dump())
			}
			mu.Lock()
			k, o = len(known), len(other)
			mu.Unlock()
			if o > 0 {
				fail("trial %d: unexpected panic: %v", trial, other)
			}
			if k > 0 {
				knownSeen++

				continue
			}
			if c := wp.PendingTasksCounter.Get(); c != 0 {
				fail("trial %d: pending counter is %d after the closing shutdown", trial, c)
			}
			if !cancel && int(ran1.Load()) != first {
				fail("trial %d: %d of %d tasks of the first run ran (no cancel-on-shutdown)", trial, ran1.Load(), first)
			}
		}
		if knownSeen > 0 {
			stats.Known(knownWaiterRacingRestart)
			stats.NoteAdd(check, "trials_with_waitgroup_reuse_panic", int64(knownSeen))
		}
		stats.NoteAdd(check, "trials", int64(trials))
		var ls []string
		if knownSeen > 0 {
			ls = append(ls, "known_KF-C16-1_observed")
		}
		stats.Case(check, waiters >= 4, desc, func() any { return desc }, ls...)
	})
}

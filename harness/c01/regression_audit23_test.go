// Demonstration of an independent auditor (fifth round), kept as a regression test; see known_findings.json.
package c01

import (
	"context"
	"testing"

	"github.com/stretchr/testify/require"

	"github.com/iotaledger/hive.go/serializer/v2/serix"
)

// a recursive type: a singly linked list
type hunt23Node struct {
	V    uint8       `serix:""`
	Next *hunt23Node `serix:",optional"`
}

func (*hunt23Node) isHunt23Item() {}

type hunt23Item interface{ isHunt23Item() }

func hunt23List(n int) *hunt23Node {
	var head *hunt23Node
	for i := 0; i < n; i++ {
		head = &hunt23Node{V: uint8(i), Next: head}
	}

	return head
}

func hunt23Len(n *hunt23Node) (l int) {
	for ; n != nil; n = n.Next {
		l++
	}

	return l
}

// Since c672c85 Encode applies the nesting limit of Decode (maxDecodeDepth = 1000) "so that the result can be read
// back". The two sides do not count the same thing, though: Encode starts to count at the value it is given, Decode at
// the destination - which is a pointer to (a variable of the type of) that value and costs a level of its own whenever
// the encoded value is a pointer or is read back into an interface variable:
//
//	Encode(list)            encode(*Node)=1, V=2 ...                       deepest level n+1
//	Decode(b, &list)        decode(**Node)=1, decode(*Node)=2, V=3 ...     deepest level n+2
//	Decode(b, &itemIface)   decode(*Item)=1, decode(*Node)=2, V=3 ...      deepest level n+2
//
// A list of 999 nodes is the largest one Encode accepts; Decode refuses its bytes when they are read back into a
// variable of the type that was encoded.
func TestRegressionAudit23EncodeAcceptsWhatDecodeIntoPointerVariableRefuses(t *testing.T) {
	api := serix.NewAPI()
	require.NoError(t, api.RegisterTypeSettings(hunt23Node{}, serix.TypeSettings{}.WithObjectType(uint8(1))))
	require.NoError(t, api.RegisterInterfaceObjects((*hunt23Item)(nil), (*hunt23Node)(nil)))
	ctx := context.Background()

	for _, validation := range []bool{false, true} {
		var opts []serix.Option
		if validation {
			opts = append(opts, serix.WithValidation())
		}

		// find the longest list that Encode accepts
		n := 1002
		var list *hunt23Node
		var b []byte
		for ; n > 0; n-- {
			list = hunt23List(n)
			var err error
			if b, err = api.Encode(ctx, list, opts...); err == nil {
				break
			}
		}
		require.Greater(t, n, 900)
		t.Logf("validation=%v: the longest list Encode accepts has %d nodes (%d bytes)", validation, n, len(b))

		// control: a destination that was allocated by the caller is one level cheaper, this works
		preallocated := new(hunt23Node)
		read, err := api.Decode(ctx, b, preallocated, opts...)
		require.NoError(t, err)
		require.Equal(t, len(b), read)
		require.Equal(t, n, hunt23Len(preallocated))

		// the value that was encoded is a *hunt23Node: read back into a *hunt23Node variable
		var decoded *hunt23Node
		read, err = api.Decode(ctx, b, &decoded, opts...)
		if err != nil {
			t.Errorf("validation=%v: Encode accepted a list of %d nodes, Decode(b, &list) refuses its bytes: %.120s", validation, n, err.Error())
		} else {
			require.Equal(t, len(b), read)
			require.Equal(t, n, hunt23Len(decoded))
		}

		// the same value read back into a variable of the interface type it is registered for
		var item hunt23Item
		read, err = api.Decode(ctx, b, &item, opts...)
		if err != nil {
			t.Errorf("validation=%v: Encode accepted a list of %d nodes, Decode(b, &item) refuses its bytes: %.120s", validation, n, err.Error())
		} else {
			require.Equal(t, len(b), read)
			require.Equal(t, n, hunt23Len(item.(*hunt23Node)))
		}
	}
}

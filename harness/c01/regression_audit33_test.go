// Demonstration of an independent auditor (eighth round), kept as a regression test; see known_findings.json.
package c01

import (
	"context"
	"testing"

	"github.com/stretchr/testify/require"

	"github.com/iotaledger/hive.go/serializer/v2/serix"
)

// Repair c3da590 checks the keys that the implementation of an inlined interface splices into the struct against the
// keys of the struct TYPE (keysOfType) - but only when the inlined field of the struct is the interface itself. An
// interface that is inlined into an inlined STRUCT member is checked against the keys of that member only; when the
// member's map is spliced into the outer struct only setUniqueKey (keys written this time) is consulted. With the
// colliding sibling of the outer struct left out (omitempty zero) MapEncode accepts the value and MapDecode reads the
// spliced entry into the sibling too.

type h33Iface interface{ h33() }

type h33Impl struct {
	Foo uint8 `serix:"foo"`
}

func (h33Impl) h33() {}

type h33Inner struct {
	I h33Iface `serix:",inlined"`
}

type h33Outer struct {
	Inner h33Inner `serix:",inlined"`
	Foo   uint8    `serix:"foo,omitempty"`
}

// the same through a presence test: the nil optional inlined sibling is resurrected
type h33Opt struct {
	Foo uint8 `serix:"foo"`
}

type h33Outer2 struct {
	Inner h33Inner `serix:",inlined"`
	Opt   *h33Opt  `serix:",inlined,optional"`
}

func h33API(t *testing.T) *serix.API {
	api := serix.NewAPI()
	require.NoError(t, api.RegisterTypeSettings(h33Impl{}, serix.TypeSettings{}.WithObjectType(uint8(7))))
	require.NoError(t, api.RegisterInterfaceObjects((*h33Iface)(nil), h33Impl{}))

	return api
}

func TestRegressionAudit33_33NestedInlinedInterfaceKeyCollision(t *testing.T) {
	api := h33API(t)
	src := h33Outer{Inner: h33Inner{I: h33Impl{Foo: 42}}, Foo: 0}

	// the binary form round-trips the value
	b, err := api.Encode(context.Background(), src)
	require.NoError(t, err)
	var binDst h33Outer
	n, err := api.Decode(context.Background(), b, &binDst)
	require.NoError(t, err)
	require.Equal(t, len(b), n)
	require.Equal(t, src, binDst)

	// the direct case (interface inlined into the outer struct itself) is refused since c3da590; the nested one is not
	j, err := api.JSONEncode(context.Background(), src)
	if err != nil {
		t.Logf("JSONEncode refuses the value (fine): %v", err)

		return
	}
	t.Logf("json: %s", j)

	var dst h33Outer
	require.NoError(t, api.JSONDecode(context.Background(), j, &dst))
	require.Equal(t, src, dst, "JSONDecode(JSONEncode(x)) != x")
}

func TestRegressionAudit33_33NestedInlinedInterfaceResurrectsOptionalSibling(t *testing.T) {
	api := h33API(t)
	src := h33Outer2{Inner: h33Inner{I: h33Impl{Foo: 42}}, Opt: nil}

	j, err := api.JSONEncode(context.Background(), src)
	if err != nil {
		t.Logf("JSONEncode refuses the value (fine): %v", err)

		return
	}
	t.Logf("json: %s", j)

	var dst h33Outer2
	require.NoError(t, api.JSONDecode(context.Background(), j, &dst))
	require.Equal(t, src, dst, "JSONDecode(JSONEncode(x)) != x")
}

package c04

import (
	"testing"

	"verifharness/internal/stats"
)

func TestMain(m *testing.M) { stats.Main(m) }

package c16

import (
	"fmt"
	"sync"
	"sync/atomic"
	"testing"
	"time"

	"github.com/iotaledger/hive.go/runtime/workerpool"
	"pgregory.net/rapid"
	"verifharness/internal/ctl"
	"verifharness/internal/stats"
)

// TestConcurrentStart: several Start calls overlap on a pool that is stopped (or still shutting down: a task of the
// previous run is held by the controller so that the window is as wide as the controller wants). Exactly one of them
// may start the pool; all of them return once the previous run has ended; the pool then behaves like a pool that was
// started once, and a later Shutdown + wait is final.
func TestConcurrentStart(t *testing.T) {
	const check = "concurrent_start"
	stats.Rule(check, "rapid draws worker count 1..4, cancel-on-shutdown on/off, 2..4 concurrent starters, whether a task of the previous run is still executing (held by the controller) when Shutdown and the Start calls are issued, a release delay 0..2 ms and 1..10 tasks; program: Start, [submit held task], Shutdown, k goroutines call Start together, [release], all Start calls must return (20 s stall-tolerant watchdog), the tasks submitted now must all run, Shutdown + ShutdownComplete.Wait must return, and 3 ms later the pool must still be stopped (IsRunning false, a Submit leaves the pending counter at 0 and its task never runs). Distinct by configuration; non-trivial = a held task of the previous run (restart window) and >= 3 starters")
	rapid.Check(t, func(rt *rapid.T) {
		workers := rapid.IntRange(1, 4).Draw(rt, "workers")
		cancel := rapid.Bool().Draw(rt, "cancelOnShutdown")
		starters := rapid.IntRange(2, 4).Draw(rt, "starters")
		held := rapid.IntRange(0, 3).Draw(rt, "held") != 0
		delayUs := rapid.IntRange(0, 2000).Draw(rt, "releaseDelayUs")
		tasks := rapid.IntRange(1, 10).Draw(rt, "tasks")
		desc := fmt.Sprintf("workers=%d cancelOnShutdown=%v starters=%d heldTaskOfPreviousRun=%v releaseDelay=%dus tasks=%d", workers, cancel, starters, held, delayUs, tasks)
		fail := func(format string, a ...any) {
			msg := fmt.Sprintf(format, a...)
			stats.Violation(check, map[string]any{"config": desc, "problem": msg})
			rt.Fatalf("%s: %s", desc, msg)
		}
		wp := workerpool.New("p", workerpool.WithWorkerCount(workers), workerpool.WithCancelPendingTasksOnShutdown(cancel))
		wp.Start()
		release := make(chan struct{})
		var releaseOnce sync.Once
		doRelease := func() { releaseOnce.Do(func() { close(release) }) }
		defer doRelease()
		if held {
			started := make(chan struct{})
			wp.Submit(func() {
				close(started)
				<-release
			})
			if !waitHang(started) {
				fail("the first task did not start\n%s", ctl.Dump())
			}
		}
		wp.Shutdown()
		var wg sync.WaitGroup
		gate := make(chan struct{})
		for i := 0; i < starters; i++ {
			wg.Add(1)
			go func() {
				defer wg.Done()
				<-gate
				wp.Start()
			}()
		}
		close(gate)
		if held {
			time.Sleep(time.Duration(delayUs) * time.Microsecond)
			doRelease()
		}
		if !withinHang(wg.Wait) {
			fail("not every Start call returned although the previous run has ended and the pool is running=%v\n%s", wp.IsRunning(), ctl.Dump())
		}
		if !wp.IsRunning() {
			fail("the pool is not running after %d Start calls returned", starters)
		}
		var ran atomic.Int32
		for i := 0; i < tasks; i++ {
			wp.Submit(func() { ran.Add(1) })
		}
		if !withinHang(wp.PendingTasksCounter.WaitIsZero) {
			fail("pending counter did not return to zero (ran %d of %d)\n%s", ran.Load(), tasks, ctl.Dump())
		}
		if got := int(ran.Load()); got != tasks {
			fail("%d of %d tasks accepted by the running pool ran", got, tasks)
		}
		if !withinHang(func() { wp.Shutdown() }) {
			fail("Shutdown did not return\n%s", ctl.Dump())
		}
		if !withinHang(wp.ShutdownComplete.Wait) {
			fail("ShutdownComplete.Wait did not return\n%s", ctl.Dump())
		}
		time.Sleep(3 * time.Millisecond)
		if wp.IsRunning() {
			fail("the pool is running again after Shutdown + ShutdownComplete.Wait although nobody called Start")
		}
		var late atomic.Bool
		wp.Submit(func() { late.Store(true) })
		if c := wp.PendingTasksCounter.Get(); c != 0 {
			fail("Submit after Shutdown + ShutdownComplete.Wait raised the pending counter to %d", c)
		}
		time.Sleep(time.Millisecond)
		if late.Load() {
			fail("a task submitted after Shutdown + ShutdownComplete.Wait ran")
		}
		stats.Case(check, held && starters >= 3, desc, func() any { return desc })
	})
}

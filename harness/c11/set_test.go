package c11

import (
	"errors"
	"fmt"
	"strings"
	"testing"

	"github.com/iotaledger/hive.go/ds"
	"github.com/iotaledger/hive.go/serializer/v2/serix"
	"pgregory.net/rapid"
	"verifharness/internal/stats"
)

const checkSet = "set_model"

const numSets = 3

// argSpec names a set argument: a private fresh set, one of the shared sets (possibly the target itself), or
// the ReadOnly() view of one of the shared sets.
type argSpec struct {
	Kind  string // fresh | shared | readonly
	Idx   int    // shared / readonly: which set
	Elems []E    // fresh: elements in insertion order
}

func (a argSpec) String() string {
	switch a.Kind {
	case "fresh":
		return "new" + show(a.Elems)
	case "shared":
		return fmt.Sprintf("S%d", a.Idx)
	}

	return fmt.Sprintf("S%d.ReadOnly()", a.Idx)
}

// sop is one explicit Set step (replayable without rapid).
type sop struct {
	Op      string
	T       int     // target set
	E       E       // element argument
	Arg     argSpec // set argument
	Added   []E     // Apply/Compute: elements to add (insertion order of the mutation's set)
	Deleted []E     // Apply/Compute: elements to delete
	Mask    int     // Filter predicate: universe bit mask
	N       int     // ForEach: abort position
}

func (o sop) String() string {
	switch o.Op {
	case "Add", "Delete", "Has", "Is":
		return fmt.Sprintf("S%d.%s(%d)", o.T, o.Op, o.E)
	case "AddAll", "DeleteAll", "Replace", "HasAll", "Equals", "Intersect":
		return fmt.Sprintf("S%d.%s(%s)", o.T, o.Op, o.Arg)
	case "Apply", "Compute":
		return fmt.Sprintf("S%d.%s(+%s -%s)", o.T, o.Op, show(o.Added), show(o.Deleted))
	case "Filter":
		return fmt.Sprintf("S%d.Filter(mask=%b)", o.T, o.Mask)
	case "ForEachStop":
		return fmt.Sprintf("S%d.ForEach(stop@%d)", o.T, o.N)
	}

	return fmt.Sprintf("S%d.%s()", o.T, o.Op)
}

type setWorld struct {
	universe []E
	s        [numSets]ds.Set[E]
	m        [numSets]*oset
	api      *serix.API
	log      []string

	everDeleted [numSets]map[E]bool
	reinserted  bool // an element deleted earlier was added again while the set held other elements
	partial     bool // multi-element operation whose argument partly overlapped the target
	alias       bool // the target itself (or its read-only view) was passed as argument
	overlapAD   bool // Apply/Compute with an element in both the added and the deleted set
}

func newSetWorld(universeSize int) *setWorld {
	w := &setWorld{api: serix.NewAPI()}
	for i := 0; i < universeSize; i++ {
		w.universe = append(w.universe, E(i))
	}
	for i := range w.s {
		w.s[i] = ds.NewSet[E]()
		w.m[i] = newOset()
		w.everDeleted[i] = map[E]bool{}
	}

	return w
}

// resolve returns the argument as a live object plus the model snapshot of its contents at call time.
func (w *setWorld) resolve(a argSpec) (ds.ReadableSet[E], []E) {
	switch a.Kind {
	case "fresh":
		return ds.NewSet(a.Elems...), newOset(a.Elems...).slice()
	case "shared":
		return w.s[a.Idx], w.m[a.Idx].slice()
	case "readonly":
		return w.s[a.Idx].ReadOnly(), w.m[a.Idx].slice()
	}
	panic("unknown arg kind " + a.Kind)
}

func (w *setWorld) noteArg(o sop, snapshot []E) {
	if o.Arg.Kind != "fresh" && o.Arg.Idx == o.T {
		w.alias = true
	}
	before := w.m[o.T].order
	if len(intersect(snapshot, before)) > 0 && len(minus(snapshot, before)) > 0 {
		w.partial = true
	}
}

func (w *setWorld) modelAdd(t int, e E) bool {
	if w.m[t].add(e) {
		if w.everDeleted[t][e] && w.m[t].size() > 1 {
			w.reinserted = true
		}

		return true
	}

	return false
}

func (w *setWorld) modelDel(t int, e E) bool {
	if w.m[t].del(e) {
		w.everDeleted[t][e] = true

		return true
	}

	return false
}

// modelApply is the sequential composition Apply documents by construction: add every element of the added
// set (reporting the ones that were absent), then delete every element of the deleted set (reporting the ones
// that were present at that moment).
func (w *setWorld) modelApply(t int, added, deleted []E) (wantAdded, wantDeleted []E) {
	for _, e := range added {
		if w.modelAdd(t, e) {
			wantAdded = append(wantAdded, e)
		}
	}
	for _, e := range deleted {
		if w.modelDel(t, e) {
			wantDeleted = append(wantDeleted, e)
		}
	}

	return wantAdded, wantDeleted
}

var errAbort = errors.New("abort")

func (w *setWorld) apply(o sop) string {
	w.log = append(w.log, o.String())
	s, m := w.s[o.T], w.m[o.T]

	switch o.Op {
	case "Add":
		want := w.modelAdd(o.T, o.E)
		if got := s.Add(o.E); got != want {
			return fmt.Sprintf("%s = %v, model %v (true iff the element was absent)", o, got, want)
		}
	case "Delete":
		want := w.modelDel(o.T, o.E)
		if got := s.Delete(o.E); got != want {
			return fmt.Sprintf("%s = %v, model %v (true iff the element was present)", o, got, want)
		}
	case "Has":
		if got := s.Has(o.E); got != m.has(o.E) {
			return fmt.Sprintf("%s = %v, model %v", o, got, m.has(o.E))
		}
	case "Is":
		want := m.size() == 1 && m.has(o.E)
		if got := s.Is(o.E); got != want {
			return fmt.Sprintf("%s = %v, model %v", o, got, want)
		}
	case "AddAll":
		arg, snap := w.resolve(o.Arg)
		w.noteArg(o, snap)
		var want []E
		for _, e := range snap {
			if w.modelAdd(o.T, e) {
				want = append(want, e)
			}
		}
		if got := toSlice(s.AddAll(arg)); !eqContents(got, want) {
			return fmt.Sprintf("%s returned %s, model: exactly the newly added elements %s", o, show(got), show(want))
		}
	case "DeleteAll":
		arg, snap := w.resolve(o.Arg)
		w.noteArg(o, snap)
		var want []E
		for _, e := range snap {
			if w.modelDel(o.T, e) {
				want = append(want, e)
			}
		}
		if got := toSlice(s.DeleteAll(arg)); !eqContents(got, want) {
			return fmt.Sprintf("%s returned %s, model: exactly the removed elements %s", o, show(got), show(want))
		}
	case "Apply", "Compute":
		if len(intersect(o.Added, o.Deleted)) > 0 {
			w.overlapAD = true
		}
		touched := append(append([]E{}, o.Added...), o.Deleted...)
		if len(intersect(touched, m.order)) > 0 && len(minus(touched, m.order)) > 0 {
			w.partial = true
		}
		before := m.slice()
		wantAdded, wantDeleted := w.modelApply(o.T, o.Added, o.Deleted)
		mutations := ds.NewSetMutations[E]().WithAddedElements(ds.NewSet(o.Added...)).WithDeletedElements(ds.NewSet(o.Deleted...))
		var applied ds.SetMutations[E]
		if o.Op == "Apply" {
			applied = s.Apply(mutations)
		} else {
			var seen []E
			var seenSize int
			applied = s.Compute(func(view ds.ReadableSet[E]) ds.SetMutations[E] {
				seen, seenSize = view.ToSlice(), view.Size()

				return mutations
			})
			if !eqOrdered(seen, before) || seenSize != len(before) {
				return fmt.Sprintf("%s: the factory saw %s (size %d), model %s", o, show(seen), seenSize, show(before))
			}
		}
		gotAdded, gotDeleted := toSlice(applied.AddedElements()), toSlice(applied.DeletedElements())
		if !eqContents(gotAdded, wantAdded) || !eqContents(gotDeleted, wantDeleted) {
			return fmt.Sprintf("%s on %s returned added=%s deleted=%s, model added=%s deleted=%s", o, show(before), show(gotAdded), show(gotDeleted), show(wantAdded), show(wantDeleted))
		}
		if applied.IsEmpty() != (len(wantAdded) == 0 && len(wantDeleted) == 0) {
			return fmt.Sprintf("%s: applied mutations IsEmpty()=%v, model added=%s deleted=%s", o, applied.IsEmpty(), show(wantAdded), show(wantDeleted))
		}
	case "Replace":
		arg, snap := w.resolve(o.Arg)
		w.noteArg(o, snap)
		before := m.slice()
		wantRemoved := minus(before, snap)
		got := toSlice(s.Replace(arg))
		if !eqContents(got, wantRemoved) {
			return fmt.Sprintf("%s on %s returned %s, model: exactly the removed elements (previous minus new) %s", o, show(before), show(got), show(wantRemoved))
		}
		// The property fixes the contents after Replace, not whether retained elements keep their position:
		// accept "cleared and re-inserted in the argument's order" and "retained elements stay, new ones are
		// appended"; the model continues with the order the implementation chose.
		after := s.ToSlice()
		orderReinsert := snap
		orderKeep := append(intersect(before, snap), minus(snap, before)...)
		if !eqOrdered(after, orderReinsert) && !eqOrdered(after, orderKeep) {
			return fmt.Sprintf("%s on %s leaves %s, model %s (or %s)", o, show(before), show(after), show(orderReinsert), show(orderKeep))
		}
		for _, e := range wantRemoved {
			w.everDeleted[o.T][e] = true
		}
		w.m[o.T] = newOset(after...)
	case "HasAll":
		arg, snap := w.resolve(o.Arg)
		w.noteArg(o, snap)
		want := len(minus(snap, m.order)) == 0
		if got := s.HasAll(arg); got != want {
			return fmt.Sprintf("%s = %v on %s, model %v", o, got, show(m.order), want)
		}
	case "Equals":
		arg, snap := w.resolve(o.Arg)
		w.noteArg(o, snap)
		want := eqContents(snap, m.order)
		if got := s.Equals(arg); got != want {
			return fmt.Sprintf("%s = %v on %s, model %v", o, got, show(m.order), want)
		}
		if got := arg.Equals(s); got != want {
			return fmt.Sprintf("(%s).Equals(S%d) = %v, model %v (symmetric)", o.Arg, o.T, got, want)
		}
	case "Intersect":
		arg, snap := w.resolve(o.Arg)
		w.noteArg(o, snap)
		want := intersect(m.order, snap)
		if got := toSlice(s.Intersect(arg)); !eqContents(got, want) {
			return fmt.Sprintf("%s = %s on %s, model %s", o, show(got), show(m.order), show(want))
		}
	case "Filter":
		var want []E
		for _, e := range m.order {
			if o.Mask&(1<<int(e)) != 0 {
				want = append(want, e)
			}
		}
		got := toSlice(s.Filter(func(e E) bool { return o.Mask&(1<<int(e)) != 0 }))
		if !eqContents(got, want) {
			return fmt.Sprintf("%s = %s on %s, model %s", o, show(got), show(m.order), show(want))
		}
	case "Clone":
		c := s.Clone()
		if got := c.ToSlice(); !eqOrdered(got, m.order) || c.Size() != m.size() {
			return fmt.Sprintf("%s holds %s (size %d), model %s", o, show(got), c.Size(), show(m.order))
		}
		// independent copy
		c.Add(o.E)
		c.Delete(w.universe[(int(o.E)+1)%len(w.universe)])
	case "Any":
		e, ok := s.Any()
		if ok != (m.size() > 0) || (ok && !m.has(e)) {
			return fmt.Sprintf("%s = (%d,%v) on %s", o, e, ok, show(m.order))
		}
	case "Clear":
		s.Clear()
		for _, e := range m.order {
			w.everDeleted[o.T][e] = true
		}
		w.m[o.T] = newOset()
	case "Iterator":
		it := s.Iterator()
		var got []E
		for it.HasNext() {
			got = append(got, it.Next())
		}
		if !eqOrdered(got, m.order) {
			return fmt.Sprintf("%s walks %s, model %s", o, show(got), show(m.order))
		}
	case "ForEachStop":
		if m.size() == 0 {
			break
		}
		stop := o.N%m.size() + 1
		var seen []E
		err := s.ForEach(func(e E) error {
			seen = append(seen, e)
			if len(seen) == stop {
				return errAbort
			}

			return nil
		})
		if !errors.Is(err, errAbort) || !eqOrdered(seen, m.order[:stop]) {
			return fmt.Sprintf("%s visited %s err=%v, model %s and the callback's error", o, show(seen), err, show(m.order[:stop]))
		}
	case "EncodeDecode":
		b, err := s.Encode(w.api)
		if err != nil {
			return fmt.Sprintf("%s: Encode failed: %v", o, err)
		}
		fresh := ds.NewSet[E]()
		n, err := fresh.Decode(w.api, b)
		if err != nil || n != len(b) {
			return fmt.Sprintf("%s: Decode of %x consumed %d of %d bytes, err=%v", o, b, n, len(b), err)
		}
		if got := fresh.ToSlice(); !eqOrdered(got, m.order) || fresh.Size() != m.size() {
			return fmt.Sprintf("%s: Encode->Decode yields %s (size %d), model %s", o, show(got), fresh.Size(), show(m.order))
		}
	default:
		panic("unknown op " + o.Op)
	}

	return w.verify()
}

func (w *setWorld) verify() string {
	for i, s := range w.s {
		m := w.m[i]
		if got := s.ToSlice(); !eqOrdered(got, m.order) {
			return fmt.Sprintf("S%d iterates %s, model (first-insertion order) %s", i, show(got), show(m.order))
		}
		var ranged []E
		s.Range(func(e E) { ranged = append(ranged, e) })
		if !eqOrdered(ranged, m.order) {
			return fmt.Sprintf("S%d.Range visits %s, model %s", i, show(ranged), show(m.order))
		}
		if ro := s.ReadOnly().ToSlice(); !eqOrdered(ro, m.order) {
			return fmt.Sprintf("S%d.ReadOnly() iterates %s, model %s", i, show(ro), show(m.order))
		}
		if s.Size() != m.size() || s.IsEmpty() != (m.size() == 0) {
			return fmt.Sprintf("S%d.Size()=%d IsEmpty()=%v, model size %d", i, s.Size(), s.IsEmpty(), m.size())
		}
		for _, e := range w.universe {
			if s.Has(e) != m.has(e) {
				return fmt.Sprintf("S%d.Has(%d) = %v, model %v", i, e, s.Has(e), m.has(e))
			}
		}
	}

	return ""
}

func (w *setWorld) nontrivial() bool { return w.reinserted && w.partial }

func (w *setWorld) payload(problem string) map[string]any {
	return map[string]any{"universe": len(w.universe), "ops": append([]string(nil), w.log...), "problem": problem}
}

// drawElems draws a duplicate-free element list in a drawn order (the insertion order of a fresh argument set).
func drawElems(t *rapid.T, universe []E, label string) []E {
	raw := rapid.SliceOfN(rapid.IntRange(0, len(universe)-1), 0, len(universe)).Draw(t, label)
	out := newOset()
	for _, i := range raw {
		out.add(universe[i])
	}

	return out.slice()
}

func TestSetModel(t *testing.T) {
	stats.Rule(checkSet, "rapid state machine on 3 ds.Set[uint16] over a universe of 6-8 elements vs. insertion-ordered slice models; "+
		"actions Add/Delete/AddAll/DeleteAll/Apply/Compute/Replace/Has/HasAll/Equals/Intersect/Filter/Clone/Is/Any/Clear/Iterator/ForEach with abort/Encode->Decode; "+
		"set arguments are private fresh sets (drawn order), another shared set, the target itself or a ReadOnly() view; after every action ToSlice/Range/ReadOnly order, Size, IsEmpty and Has of every element of all 3 sets are compared, "+
		"return values are compared as exact diffs; distinct by op list; non-trivial = an element deleted earlier was re-added while the set held other elements AND a multi-element operation had an argument partly overlapping the target")

	rapid.Check(t, func(rt *rapid.T) {
		w := newSetWorld(rapid.IntRange(6, 8).Draw(rt, "universe"))
		var labels []string
		failed := false
		lastClear := 0
		target := func() int { return rapid.IntRange(0, numSets-1).Draw(rt, "set") }
		elem := func() E { return E(rapid.IntRange(0, len(w.universe)-1).Draw(rt, "elem")) }
		arg := func(T int) argSpec {
			switch c := rapid.IntRange(0, 9).Draw(rt, "argKind"); {
			case c <= 5:
				return argSpec{Kind: "fresh", Elems: drawElems(rt, w.universe, "argElems")}
			case c <= 7:
				return argSpec{Kind: "shared", Idx: rapid.IntRange(0, numSets-1).Draw(rt, "argSet")}
			default:
				return argSpec{Kind: "readonly", Idx: rapid.IntRange(0, numSets-1).Draw(rt, "argSet")}
			}
		}
		step := func(o sop) {
			labels = append(labels, "op:"+o.Op)
			switch o.Op {
			case "AddAll", "DeleteAll", "Replace", "HasAll", "Equals", "Intersect":
				labels = append(labels, "arg:"+o.Arg.Kind)
				if o.Arg.Kind != "fresh" && o.Arg.Idx == o.T {
					labels = append(labels, "alias:"+o.Op)
				}
			}
			if msg := w.apply(o); msg != "" {
				failed = true
				stats.Case(checkSet, w.nontrivial(), strings.Join(w.log, ";"), func() any { return w.payload("") }, labels...)
				stats.Violation(checkSet, w.payload(msg))
				rt.Fatalf("%s\nops: %v", msg, w.log)
			}
		}
		unaryE := func(op string) func(*rapid.T) {
			return func(*rapid.T) { step(sop{Op: op, T: target(), E: elem()}) }
		}
		withArg := func(op string) func(*rapid.T) {
			return func(*rapid.T) { T := target(); step(sop{Op: op, T: T, Arg: arg(T)}) }
		}
		mutation := func(op string) func(*rapid.T) {
			return func(*rapid.T) {
				T := target()
				added := drawElems(rt, w.universe, "added")
				deleted := drawElems(rt, w.universe, "deleted")
				if !rapid.Bool().Draw(rt, "allowOverlap") {
					deleted = minus(deleted, added)
				}
				step(sop{Op: op, T: T, Added: added, Deleted: deleted})
			}
		}
		plain := func(op string) func(*rapid.T) {
			return func(*rapid.T) { step(sop{Op: op, T: target()}) }
		}
		rt.Repeat(map[string]func(*rapid.T){
			"Add":       unaryE("Add"),
			"Add2":      unaryE("Add"),
			"Delete":    unaryE("Delete"),
			"Delete2":   unaryE("Delete"),
			"Has":       unaryE("Has"),
			"Is":        unaryE("Is"),
			"AddAll":    withArg("AddAll"),
			"DeleteAll": withArg("DeleteAll"),
			"Replace":   withArg("Replace"),
			"HasAll":    withArg("HasAll"),
			"Equals":    withArg("Equals"),
			"Intersect": withArg("Intersect"),
			"Apply":     mutation("Apply"),
			"Compute":   mutation("Compute"),
			"Filter": func(*rapid.T) {
				step(sop{Op: "Filter", T: target(), Mask: rapid.IntRange(0, 1<<len(w.universe)-1).Draw(rt, "mask")})
			},
			"Clone": unaryE("Clone"),
			"Any":   plain("Any"),
			"Clear": func(*rapid.T) {
				if len(w.log)-lastClear < 10 {
					rt.Skip("keep Clear rare")
				}
				lastClear = len(w.log)
				step(sop{Op: "Clear", T: target()})
			},
			"Iterator":     plain("Iterator"),
			"ForEachStop":  func(*rapid.T) { step(sop{Op: "ForEachStop", T: target(), N: rapid.IntRange(0, 7).Draw(rt, "stopAt")}) },
			"EncodeDecode": plain("EncodeDecode"),
		})
		if !failed {
			if w.alias {
				labels = append(labels, "case:alias")
			}
			if w.overlapAD {
				labels = append(labels, "case:added-deleted-overlap")
			}
			stats.Case(checkSet, w.nontrivial(), strings.Join(w.log, ";"), func() any { return w.payload("") }, labels...)
		}
	})
}

package c11

import (
	"fmt"
	"strings"
	"testing"

	"github.com/iotaledger/hive.go/ds"
	"pgregory.net/rapid"
	"verifharness/internal/stats"
)

const checkArith = "set_arithmetic_model"

// aop is one explicit SetArithmetic step.
type aop struct {
	Op      string // Add | Subtract | Collect (the two collectors on one shared result, as reactive.DerivedSet uses them)
	Added   []E
	Deleted []E
}

func (o aop) String() string { return fmt.Sprintf("%s(+%s -%s)", o.Op, show(o.Added), show(o.Deleted)) }

// arithWorld: the model is the occurrence counter per element (it may go negative: reactive's SubtractReactive
// subtracts before it adds) and the mathematical definition of the result:
// an element is reported as added iff its counter rose from threshold-1 to threshold, as deleted iff it fell
// from threshold to threshold-1; an element that does both within one call cancels out. Applying the reported
// mutations to a set therefore keeps that set equal to {e : count(e) >= threshold}.
type arithWorld struct {
	threshold    int  // 1..3
	passExplicit bool // threshold 1 may also be left out (default)
	a            ds.SetArithmetic[E]
	count        map[E]int
	net          ds.Set[E] // the set a caller would maintain from the reported mutations
	log          []string

	crossedUp, crossedDown, cancelled bool
}

func newArithWorld(threshold int, passExplicit bool) *arithWorld {
	return &arithWorld{threshold: threshold, passExplicit: passExplicit || threshold != 1, a: ds.NewSetArithmetic[E](), count: map[E]int{}, net: ds.NewSet[E]()}
}

func (w *arithWorld) th() []int {
	if w.passExplicit {
		return []int{w.threshold}
	}

	return nil
}

func (w *arithWorld) apply(o aop, universe []E) string {
	w.log = append(w.log, o.String())
	up, down := o.Added, o.Deleted // elements whose counter is incremented / decremented
	if o.Op == "Subtract" {
		up, down = o.Deleted, o.Added
	}
	var wantAdded, wantDeleted []E
	for _, e := range minus(up, down) {
		if w.count[e] == w.threshold-1 {
			wantAdded = append(wantAdded, e)
			w.crossedUp = true
		}
	}
	for _, e := range minus(down, up) {
		if w.count[e] == w.threshold {
			wantDeleted = append(wantDeleted, e)
			w.crossedDown = true
		}
	}
	for _, e := range intersect(up, down) {
		if w.count[e] == w.threshold-1 || w.count[e] == w.threshold {
			w.cancelled = true
		}
	}
	for _, e := range up {
		w.count[e]++
	}
	for _, e := range down {
		w.count[e]--
	}

	mutations := ds.NewSetMutations[E]().WithAddedElements(ds.NewSet(o.Added...)).WithDeletedElements(ds.NewSet(o.Deleted...))
	var result ds.SetMutations[E]
	switch o.Op {
	case "Add":
		result = w.a.Add(mutations, w.th()...)
	case "Subtract":
		result = w.a.Subtract(mutations, w.th()...)
	case "Collect":
		result = ds.NewSetMutations[E]()
		mutations.AddedElements().Range(w.a.AddedElementsCollector(result, w.th()...))
		mutations.DeletedElements().Range(w.a.SubtractedElementsCollector(result, w.th()...))
	default:
		panic("unknown op " + o.Op)
	}
	gotAdded, gotDeleted := toSlice(result.AddedElements()), toSlice(result.DeletedElements())
	if !eqContents(gotAdded, wantAdded) || !eqContents(gotDeleted, wantDeleted) {
		return fmt.Sprintf("%s with threshold %d reported added=%s deleted=%s, model (threshold crossings) added=%s deleted=%s", o, w.threshold, show(gotAdded), show(gotDeleted), show(wantAdded), show(wantDeleted))
	}

	w.net.Apply(result)
	var wantNet []E
	for _, e := range universe {
		if w.count[e] >= w.threshold {
			wantNet = append(wantNet, e)
		}
	}
	if got := w.net.ToSlice(); !eqContents(got, wantNet) {
		return fmt.Sprintf("after %s the set maintained from the reported mutations is %s, model {e: count(e) >= %d} = %s", o, show(got), w.threshold, show(wantNet))
	}

	return ""
}

func (w *arithWorld) payload(problem string) map[string]any {
	return map[string]any{"threshold": w.threshold, "threshold_passed_explicitly": w.passExplicit, "ops": append([]string(nil), w.log...), "problem": problem}
}

func TestSetArithmeticModel(t *testing.T) {
	stats.Rule(checkArith, "rapid state machine on one ds.SetArithmetic[uint16] with a fixed threshold 1-3 (threshold 1 also via the default) over 6 elements vs. a counter model; "+
		"actions Add / Subtract / the two collectors on one shared result; mutations are drawn added/deleted lists, disjoint or (half of the cases) overlapping; "+
		"oracle: reported added = elements whose counter rose to the threshold, deleted = fell below it, both-in-one-call cancels; the set maintained from the reports equals {e: count >= threshold}; "+
		"distinct by (threshold, op list); non-trivial = history has more than one step, an upward and a downward threshold crossing")

	universe := []E{0, 1, 2, 3, 4, 5}
	rapid.Check(t, func(rt *rapid.T) {
		w := newArithWorld(rapid.IntRange(1, 3).Draw(rt, "threshold"), rapid.Bool().Draw(rt, "explicitThreshold"))
		var labels []string
		failed := false
		step := func(op string) func(*rapid.T) {
			return func(*rapid.T) {
				added := drawElems(rt, universe, "added")
				deleted := drawElems(rt, universe, "deleted")
				if !rapid.Bool().Draw(rt, "allowOverlap") {
					deleted = minus(deleted, added)
				}
				o := aop{Op: op, Added: added, Deleted: deleted}
				labels = append(labels, "op:"+op)
				if msg := w.apply(o, universe); msg != "" {
					failed = true
					stats.Case(checkArith, true, fmt.Sprint(w.threshold, w.passExplicit)+strings.Join(w.log, ";"), func() any { return w.payload("") }, labels...)
					stats.Violation(checkArith, w.payload(msg))
					rt.Fatalf("%s\nthreshold %d, ops: %v", msg, w.threshold, w.log)
				}
			}
		}
		rt.Repeat(map[string]func(*rapid.T){"Add": step("Add"), "Subtract": step("Subtract"), "Collect": step("Collect")})
		if !failed {
			labels = append(labels, fmt.Sprintf("threshold:%d", w.threshold))
			if w.cancelled {
				labels = append(labels, "case:cancelled-within-call")
			}
			stats.Case(checkArith, w.crossedUp && w.crossedDown && len(w.log) > 1, fmt.Sprint(w.threshold, w.passExplicit)+strings.Join(w.log, ";"), func() any { return w.payload("") }, labels...)
		}
	})
}

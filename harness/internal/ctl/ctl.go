// Package ctl holds the small schedule-control helpers shared by the concurrent checks:
// a watchdog for "this call must return", a logical clock for stamping histories, and a
// goroutine dump for hang reports.
package ctl

import (
	"runtime"
	"sync/atomic"
	"time"
)

// HangTimeout is the bound used wherever a scenario is deadlock-free by construction and an
// operation that normally takes microseconds must return. It is four orders of magnitude
// above normal latency; expiry is an oracle failure (hang), reported with a goroutine dump.
const HangTimeout = 20 * time.Second

// Within runs f in a new goroutine and reports whether it returned within d.
// If it did not, the goroutine is leaked (the case ends there).
func Within(d time.Duration, f func()) bool {
	done := make(chan struct{})
	go func() {
		defer close(done)
		f()
	}()
	select {
	case <-done:
		return true
	case <-time.After(d):
		return false
	}
}

// WaitChan waits for ch to be closed (or receive) within d.
func WaitChan[T any](ch <-chan T, d time.Duration) bool {
	select {
	case <-ch:
		return true
	case <-time.After(d):
		return false
	}
}

// Dump returns the stacks of all goroutines (truncated to 64 KiB).
func Dump() string {
	buf := make([]byte, 1<<16)
	n := runtime.Stack(buf, true)
	return string(buf[:n])
}

// Clock is a logical clock: every Tick returns a unique, totally ordered stamp. Stamps taken by
// one goroutine before it starts an operation and after the operation returned bracket the
// operation's real-time interval (atomic increments are sequentially consistent).
type Clock struct{ n atomic.Int64 }

// Tick returns the next stamp.
func (c *Clock) Tick() int64 { return c.n.Add(1) }

// Now returns the current stamp without advancing.
func (c *Clock) Now() int64 { return c.n.Load() }

// Settle gives other goroutines a chance to run: a few Gosched calls and a short sleep. It is only
// ever used to make an interesting interleaving more likely, never as a correctness signal.
func Settle(d time.Duration) {
	for i := 0; i < 4; i++ {
		runtime.Gosched()
	}
	if d > 0 {
		time.Sleep(d)
	}
}

// hangSeen is set once a hang verdict was produced in this process; from then on (rapid is shrinking a case that
// already failed and every candidate that still hangs would cost the full budget again) the budget is 2 s. It is only
// ever set by a failure, so it cannot turn a passing run into a failing one or vice versa.
var hangSeen atomic.Bool

// WaitHang waits for ch (closed or receiving) within HangTimeout of *healthy* time: the wait is sliced into 100 ms
// sleeps and a slice that took much longer (the whole process was frozen or starved) counts as 200 ms at most, so a
// machine stall cannot be mistaken for a hang. After the first hang verdict of the process the budget drops to 2 s.
func WaitHang[T any](ch <-chan T) bool {
	const slice, maxCounted = 100 * time.Millisecond, 200 * time.Millisecond
	budget := HangTimeout
	if hangSeen.Load() {
		budget = 2 * time.Second
	}
	var healthy time.Duration
	timer := time.NewTimer(slice)
	defer timer.Stop()
	for healthy < budget {
		t0 := time.Now()
		timer.Reset(slice)
		select {
		case <-ch:
			return true
		case <-timer.C:
		}
		healthy += min(time.Since(t0), maxCounted)
	}
	select {
	case <-ch:
		return true
	default:
		hangSeen.Store(true)
		return false
	}
}

// WithinHang runs f in a new goroutine and reports whether it returned within the hang budget of WaitHang.
func WithinHang(f func()) bool {
	done := make(chan struct{})
	go func() {
		defer close(done)
		f()
	}()
	return WaitHang(done)
}

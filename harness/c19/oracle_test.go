package c19

import (
	"errors"
	"fmt"
	"math/big"
	"unsafe"

	"github.com/iotaledger/hive.go/core/safemath"
)

// typeInfo describes one of the eight integer types.
type typeInfo struct {
	name   string
	bits   uint
	signed bool
	min    *big.Int
	max    *big.Int
}

func infoOf[T safemath.Integer]() typeInfo {
	var z T
	bits := uint(unsafe.Sizeof(z)) * 8
	signed := (z - 1) < 0
	ti := typeInfo{bits: bits, signed: signed}
	if signed {
		ti.name = fmt.Sprintf("int%d", bits)
		ti.min = new(big.Int).Neg(new(big.Int).Lsh(big.NewInt(1), bits-1))
		ti.max = new(big.Int).Sub(new(big.Int).Lsh(big.NewInt(1), bits-1), big.NewInt(1))
	} else {
		ti.name = fmt.Sprintf("uint%d", bits)
		ti.min = big.NewInt(0)
		ti.max = new(big.Int).Sub(new(big.Int).Lsh(big.NewInt(1), bits), big.NewInt(1))
	}
	if tn := fmt.Sprintf("%T", z); tn != ti.name {
		ti.name = tn + " (" + ti.name + ")" // a defined type whose underlying type is the builtin one
	}
	return ti
}

func toBig[T safemath.Integer](x T, signed bool) *big.Int {
	if signed {
		return big.NewInt(int64(x))
	}
	return new(big.Int).SetUint64(uint64(x))
}

type expectation struct {
	kind  string // "value", "overflow", "divzero"
	value *big.Int
	near  bool // exact result within 2 of a type boundary (or not representable)
}

func expectFor(ti typeInfo, exact *big.Int) expectation {
	if exact.Cmp(ti.min) < 0 || exact.Cmp(ti.max) > 0 {
		return expectation{kind: "overflow", near: true}
	}
	two := big.NewInt(2)
	near := new(big.Int).Sub(exact, ti.min).Cmp(two) <= 0 || new(big.Int).Sub(ti.max, exact).Cmp(two) <= 0
	return expectation{kind: "value", value: exact, near: near}
}

// exactBin computes the mathematical result of a binary operation (Go's truncated division).
func exactBin(op string, a, b *big.Int) (*big.Int, bool) {
	switch op {
	case "add":
		return new(big.Int).Add(a, b), true
	case "sub":
		return new(big.Int).Sub(a, b), true
	case "mul":
		return new(big.Int).Mul(a, b), true
	case "div":
		if b.Sign() == 0 {
			return nil, false
		}
		return new(big.Int).Quo(a, b), true
	}
	panic("op " + op)
}

// judge compares what the library returned with the expectation. Empty string = agreement.
func judge[T safemath.Integer](ti typeInfo, exp expectation, got T, err error) string {
	switch exp.kind {
	case "value":
		if err != nil {
			return fmt.Sprintf("spurious error %v, exact result %s is representable in %s", err, exp.value, ti.name)
		}
		if toBig(got, ti.signed).Cmp(exp.value) != 0 {
			return fmt.Sprintf("returned %d, exact result is %s", got, exp.value)
		}
	case "overflow":
		if err == nil {
			return fmt.Sprintf("returned %d without error although the exact result does not fit %s (wrapped value)", got, ti.name)
		}
		if !errors.Is(err, safemath.ErrIntegerOverflow) {
			return fmt.Sprintf("error %v is not ErrIntegerOverflow", err)
		}
		if got != 0 {
			return fmt.Sprintf("overflow error but returned value %d != 0", got)
		}
	case "divzero":
		if err == nil {
			return fmt.Sprintf("returned %d without error for a zero divisor", got)
		}
		if !errors.Is(err, safemath.ErrIntegerDivisionByZero) {
			return fmt.Sprintf("error %v is not ErrIntegerDivisionByZero", err)
		}
		if got != 0 {
			return fmt.Sprintf("division-by-zero error but returned value %d != 0", got)
		}
	}
	return ""
}

func callBin[T safemath.Integer](op string, x, y T) (T, error) {
	switch op {
	case "add":
		return safemath.SafeAdd(x, y)
	case "sub":
		return safemath.SafeSub(x, y)
	case "mul":
		return safemath.SafeMul(x, y)
	case "div":
		return safemath.SafeDiv(x, y)
	}
	panic("op " + op)
}

var binOps = []string{"add", "sub", "mul", "div"}

// checkBinBig checks one binary operation against math/big. Returns (problem, nontrivial).
func checkBinBig[T safemath.Integer](ti typeInfo, op string, x, y T) (string, bool) {
	a, b := toBig(x, ti.signed), toBig(y, ti.signed)
	exact, ok := exactBin(op, a, b)
	var exp expectation
	if !ok {
		exp = expectation{kind: "divzero", near: true}
	} else {
		exp = expectFor(ti, exact)
	}
	got, err := callBin(op, x, y)
	return judge(ti, exp, got, err), exp.near
}

func checkShiftBig[T safemath.Integer](ti typeInfo, x T, s uint8) (string, bool) {
	exact := new(big.Int).Lsh(toBig(x, ti.signed), uint(s))
	exp := expectFor(ti, exact)
	got, err := safemath.SafeLeftShift(x, s)
	return judge(ti, exp, got, err), exp.near
}

package c20

import (
	"context"
	"fmt"
	"math"
	"runtime"
	"sync"
	"sync/atomic"
	"testing"
	"time"

	"github.com/iotaledger/hive.go/app/daemon"
	"pgregory.net/rapid"
	"verifharness/internal/ctl"
	"verifharness/internal/stats"
)

// TestShutdownRequestedByStartingWorker: one of many pre-registered workers asks for the shutdown as soon as it runs -
// while Start may still be launching the others. Whenever the request arrives, it is a shutdown of a started daemon:
// every worker that was started gets cancelled, in descending order, and ShutdownAndWait returns only after all of them
// returned.
func TestShutdownRequestedByStartingWorker(t *testing.T) {
	const check = "shutdown_requested_by_starting_worker"
	stats.Rule(check, "rapid draws 20..400 pre-registered workers with orders from {-2,-1,0,1,3,MinInt,MaxInt}, the name of the worker that calls daemon.Shutdown() as the first thing it does (optionally after 0..2 Gosched), and whether the main goroutine calls ShutdownAndWait right after Start or only after the requester ran; every worker waits for its context, stamps cancel and return with a logical clock and returns. Oracle once ShutdownAndWait has returned (20 s watchdog): every worker was started, cancelled and has returned; no worker was cancelled before every worker of a higher order returned; IsStopped, not IsRunning. Distinct by configuration; non-trivial = >= 100 workers (Start is still in its loop when the first worker runs)")
	rapid.Check(t, func(rt *rapid.T) {
		n := rapid.IntRange(20, 400).Draw(rt, "workers")
		orders := make([]int, n)
		pool := []int{-2, -1, 0, 1, 3, math.MinInt, math.MaxInt}
		for i := range orders {
			orders[i] = pool[rapid.IntRange(0, len(pool)-1).Draw(rt, "order")]
		}
		requester := rapid.IntRange(0, n-1).Draw(rt, "requester")
		yields := rapid.IntRange(0, 2).Draw(rt, "yields")
		mainWaitsForRequest := rapid.Bool().Draw(rt, "mainWaitsForRequest")
		desc := fmt.Sprintf("workers=%d requester=w%d(order %d) yields=%d mainWaitsForRequest=%v", n, requester, orders[requester], yields, mainWaitsForRequest)
		abort := make(chan struct{})
		var abortOnce sync.Once
		defer abortOnce.Do(func() { close(abort) })
		fail := func(format string, a ...any) {
			abortOnce.Do(func() { close(abort) }) // let the workers of a failed case go
			msg := fmt.Sprintf(format, a...)
			stats.Violation(check, map[string]any{"config": desc, "problem": msg})
			rt.Fatalf("%s: %s", desc, msg)
		}
		var clock ctl.Clock
		started := make([]atomic.Bool, n)
		cancelled := make([]atomic.Int64, n)
		returned := make([]atomic.Int64, n)
		requested := make(chan struct{})
		d := daemon.New()
		for i := 0; i < n; i++ {
			i := i
			err := d.BackgroundWorker(fmt.Sprintf("w%d", i), func(ctx context.Context) {
				started[i].Store(true)
				if i == requester {
					for k := 0; k < yields; k++ {
						runtime.Gosched()
					}
					d.Shutdown()
					close(requested)
				}
				select {
				case <-ctx.Done():
					cancelled[i].Store(clock.Tick())
				case <-abort:
				}
				returned[i].Store(clock.Tick())
			}, orders[i])
			if err != nil {
				fail("registering w%d: %v", i, err)
			}
		}
		d.Start()
		if mainWaitsForRequest {
			if !ctl.WaitChan(requested, ctl.HangTimeout) {
				fail("the requesting worker was never started\n%s", ctl.Dump())
			}
		}
		if !ctl.WithinHang(d.ShutdownAndWait) {
			fail("ShutdownAndWait did not return\n%s", ctl.Dump())
		}
		tRet := clock.Tick()
		// ShutdownAndWait of a second caller returns when the shutdown in progress has finished; a request that has not
		// been issued yet (main did not wait for it) is then a no-op
		for i := 0; i < n; i++ {
			switch {
			case !started[i].Load():
				fail("w%d was never started although Start returned before the shutdown was awaited", i)
			case returned[i].Load() == 0 || returned[i].Load() > tRet:
				// a short grace for the stamp of a worker that is past its select (the WaitGroup is released after the handler returns)
				deadline := time.Now().Add(ctl.HangTimeout)
				for returned[i].Load() == 0 && time.Now().Before(deadline) && cancelled[i].Load() != 0 {
					time.Sleep(50 * time.Microsecond)
				}
				if returned[i].Load() == 0 || returned[i].Load() > tRet {
					fail("ShutdownAndWait returned while w%d (order %d) had not returned (cancelled stamp %d): the shutdown did not stop the started workers", i, orders[i], cancelled[i].Load())
				}
			case cancelled[i].Load() == 0:
				fail("w%d returned without having been cancelled", i)
			}
		}
		for i := 0; i < n; i++ {
			for j := 0; j < n; j++ {
				if orders[j] > orders[i] && cancelled[i].Load() < returned[j].Load() {
					fail("w%d (order %d) was cancelled at %d before w%d (order %d) returned at %d", i, orders[i], cancelled[i].Load(), j, orders[j], returned[j].Load())
				}
			}
		}
		if !d.IsStopped() || d.IsRunning() {
			fail("after ShutdownAndWait: IsStopped=%v IsRunning=%v", d.IsStopped(), d.IsRunning())
		}
		stats.Case(check, n >= 100, desc, func() any { return desc })
	})
}

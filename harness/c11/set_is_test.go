package c11

import (
	"fmt"
	"sync"
	"sync/atomic"
	"testing"

	"github.com/iotaledger/hive.go/ds"
	"pgregory.net/rapid"
	"verifharness/internal/ctl"
	"verifharness/internal/stats"
)

// TestSetIsLinearizable: Is(e) ("e is the only element") is a single-element query. While writers move the set only
// between states that all contain a fixed element a - {a} and {a, x} for other elements x - Is(x) can never be true at
// any instant, and Is(a) is true exactly in the state {a}; a reader that sees Is(x) == true has combined two different
// states.
func TestSetIsLinearizable(t *testing.T) {
	const check = "set_is_linearizable"
	stats.Rule(check, "rapid draws 1..3 writer goroutines (writer i loops Add(x_i); Delete(x_i) on its own element, 2000 rounds, thorough 20000), 1..3 readers and the thread-safe set flavour; the set starts as {a} and every reachable state contains a. Oracle: no reader ever sees Is(x_i) == true (no state {x_i} exists); with all writers finished Is(a) is true; every call returns (stall-tolerant 20 s watchdog). Distinct by configuration; non-trivial = at least one reader call overlapped a writer (always, by construction)")
	rounds := stats.Scale(2000, 20000)
	rapid.Check(t, func(rt *rapid.T) {
		writers := rapid.IntRange(1, 3).Draw(rt, "writers")
		readers := rapid.IntRange(1, 3).Draw(rt, "readers")
		desc := fmt.Sprintf("writers=%d readers=%d", writers, readers)
		s := ds.NewSet[int](0) // a = 0
		var stop atomic.Bool
		var wrong atomic.Int64
		var calls atomic.Int64
		var wg, rg sync.WaitGroup
		for w := 1; w <= writers; w++ {
			wg.Add(1)
			go func(x int) {
				defer wg.Done()
				for i := 0; i < rounds; i++ {
					s.Add(x)
					s.Delete(x)
				}
			}(w)
		}
		for r := 0; r < readers; r++ {
			rg.Add(1)
			go func(r int) {
				defer rg.Done()
				for i := 0; !stop.Load(); i++ {
					x := 1 + (i+r)%writers
					if s.Is(x) {
						wrong.Add(1)
					}
					calls.Add(1)
				}
			}(r)
		}
		ok := ctl.WithinHang(wg.Wait)
		stop.Store(true)
		ok = ctl.WithinHang(rg.Wait) && ok
		fail := func(format string, a ...any) {
			msg := fmt.Sprintf(format, a...)
			stats.Violation(check, map[string]any{"config": desc, "problem": msg})
			rt.Fatalf("%s: %s", desc, msg)
		}
		if !ok {
			fail("writers or readers did not finish\n%s", ctl.Dump())
		}
		if n := wrong.Load(); n > 0 {
			fail("%d of %d Is(x) calls returned true although every state the set went through contains the element 0 next to x: size and membership were read from two different states", n, calls.Load())
		}
		if !s.Is(0) {
			fail("Is(0) is false at quiescence although the set is {0} (size %d)", s.Size())
		}
		stats.NoteAdd(check, "is_calls", calls.Load())
		stats.Case(check, true, desc, func() any { return desc })
	})
}

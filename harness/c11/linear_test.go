package c11

import (
	"fmt"
	"sort"
	"strings"
	"testing"

	"github.com/anishathalye/porcupine"
	"github.com/iotaledger/hive.go/ds"
	"github.com/iotaledger/hive.go/ds/orderedmap"
	"pgregory.net/rapid"
	"verifharness/internal/ctl"
	"verifharness/internal/stats"
)

// (c) linearizability of the single-element operations. The program is drawn by rapid, the recorded
// invocation/response history (stamped with a logical clock) is judged by porcupine, partitioned by key:
// per key the object is a register (OrderedMap) / a presence bit (Set).

const (
	checkLinSet  = "set_linearizable"
	checkLinOMap = "orderedmap_linearizable"
)

type lin struct {
	Op  string // Set: Add Delete Has; OrderedMap: Set Get Has Delete
	Key E
	Val uint32
}

type lout struct {
	OK  bool   // Add: was absent; Delete: was present; Has/Get: present; Set: previous value existed
	Val uint32 // Get: value; Set: previous value
}

func (i lin) String() string {
	if i.Op == "Set" {
		return fmt.Sprintf("Set(%d,%d)", i.Key, i.Val)
	}

	return fmt.Sprintf("%s(%d)", i.Op, i.Key)
}

type keyState struct {
	present bool
	val     uint32
}

var keyModel = porcupine.Model{
	Partition: func(history []porcupine.Operation) [][]porcupine.Operation {
		byKey := map[E][]porcupine.Operation{}
		var keys []int
		for _, op := range history {
			k := op.Input.(lin).Key
			if _, ok := byKey[k]; !ok {
				keys = append(keys, int(k))
			}
			byKey[k] = append(byKey[k], op)
		}
		sort.Ints(keys)
		out := make([][]porcupine.Operation, 0, len(keys))
		for _, k := range keys {
			out = append(out, byKey[E(k)])
		}

		return out
	},
	Init: func() interface{} { return keyState{} },
	Step: func(state, input, output interface{}) (bool, interface{}) {
		st, in, out := state.(keyState), input.(lin), output.(lout)
		switch in.Op {
		case "Add":
			return out.OK == !st.present, keyState{present: true}
		case "Delete":
			return out.OK == st.present, keyState{}
		case "Has":
			return out.OK == st.present, st
		case "Get":
			return out.OK == st.present && (!st.present || out.Val == st.val), st
		case "Set":
			return out.OK == st.present && (!st.present || out.Val == st.val), keyState{present: true, val: in.Val}
		}
		panic("unknown op " + in.Op)
	},
	Equal: func(a, b interface{}) bool { return a.(keyState) == b.(keyState) },
}

type linProgram struct {
	Keys int
	Reps int     // every goroutine runs its list this many times (each call is recorded)
	Pre  []lin   // executed by the main goroutine before the start (part of the history)
	G    [][]lin // one list per goroutine
}

func (p linProgram) render() map[string]any {
	gs := make([][]string, len(p.G))
	for i, g := range p.G {
		for _, o := range g {
			gs[i] = append(gs[i], o.String())
		}
	}
	pre := make([]string, len(p.Pre))
	for i, o := range p.Pre {
		pre[i] = o.String()
	}

	return map[string]any{"keys": p.Keys, "before_start": pre, "repetitions": p.Reps, "goroutines": gs}
}

func drawLinProgram(t *rapid.T, ops []string) linProgram {
	p := linProgram{Keys: rapid.IntRange(1, 3).Draw(t, "keys"), Reps: rapid.IntRange(1, 30).Draw(t, "repetitions")}
	val := uint32(0)
	draw := func() lin {
		val++

		return lin{Op: rapid.SampledFrom(ops).Draw(t, "op"), Key: E(rapid.IntRange(0, p.Keys-1).Draw(t, "key")), Val: val}
	}
	for i, n := 0, rapid.IntRange(0, 3).Draw(t, "preOps"); i < n; i++ {
		p.Pre = append(p.Pre, draw())
	}
	goroutines := rapid.IntRange(2, 4).Draw(t, "goroutines")
	for g := 0; g < goroutines; g++ {
		var list []lin
		for i, n := 0, rapid.IntRange(2, 10).Draw(t, "ops"); i < n; i++ {
			list = append(list, draw())
		}
		p.G = append(p.G, list)
	}

	return p
}

func renderHistory(h []porcupine.Operation) []string {
	sort.Slice(h, func(i, j int) bool { return h[i].Call < h[j].Call })
	out := make([]string, len(h))
	for i, op := range h {
		who := fmt.Sprintf("g%d", op.ClientId)
		if op.ClientId == 99 {
			who = "main"
		}
		o := op.Output.(lout)
		out[i] = fmt.Sprintf("%s [%d,%d] %s -> (%v,%d)", who, op.Call, op.Return, op.Input.(lin), o.OK, o.Val)
	}

	return out
}

// contended reports whether two operations of different goroutines on one key overlapped in time, one of them a writer.
func contended(h []porcupine.Operation) bool {
	for i := range h {
		for j := i + 1; j < len(h); j++ {
			a, b := h[i], h[j]
			ai, bi := a.Input.(lin), b.Input.(lin)
			if a.ClientId == b.ClientId || ai.Key != bi.Key {
				continue
			}
			readOnly := func(op string) bool { return op == "Has" || op == "Get" }
			if readOnly(ai.Op) && readOnly(bi.Op) {
				continue
			}
			if a.Call < b.Return && b.Call < a.Return {
				return true
			}
		}
	}

	return false
}

// runLin executes the program against exec and returns the history (nil if it hung).
func runLin(p linProgram, finalOp string, exec func(lin) lout) (history []porcupine.Operation, problem string, stacks []string) {
	var clock ctl.Clock
	record := func(client int, in lin, into *[]porcupine.Operation) {
		call := clock.Tick()
		out := exec(in)
		ret := clock.Tick()
		*into = append(*into, porcupine.Operation{ClientId: client, Input: in, Call: call, Output: out, Return: ret})
	}
	for _, in := range p.Pre {
		record(99, in, &history)
	}
	per := make([][]porcupine.Operation, len(p.G))
	bodies := make([]func(), len(p.G))
	for g := range p.G {
		bodies[g] = func() {
			for rep := 0; rep < p.Reps; rep++ {
				for _, in := range p.G[g] {
					record(g, in, &per[g])
				}
			}
		}
	}
	r := &runner{}
	finished, stacks := r.run(bodies)
	if !finished {
		return nil, fmt.Sprintf("the program did not finish within %s", hangBudget()), stacks
	}
	if msg := r.first(); msg != "" {
		return nil, msg, nil
	}
	for _, h := range per {
		history = append(history, h...)
	}
	// final reads by the main goroutine: the quiescent state must be explained by the same linearization
	for k := 0; k < p.Keys; k++ {
		record(99, lin{Op: finalOp, Key: E(k)}, &history)
	}

	return history, "", nil
}

func checkLinearizable(t *testing.T, check string, ops []string, mapFlavour bool, rule string) {
	stats.Rule(check, rule)
	rapid.Check(t, func(rt *rapid.T) {
		p := drawLinProgram(rt, ops)
		var exec func(lin) lout
		if mapFlavour {
			m := orderedmap.New[E, uint32]()
			exec = func(in lin) lout {
				switch in.Op {
				case "Set":
					prev, existed := m.Set(in.Key, in.Val)
					return lout{OK: existed, Val: prev}
				case "Get":
					v, ok := m.Get(in.Key)
					return lout{OK: ok, Val: v}
				case "Has":
					return lout{OK: m.Has(in.Key)}
				case "Delete":
					return lout{OK: m.Delete(in.Key)}
				}
				panic("unknown op " + in.Op)
			}
		} else {
			s := ds.NewSet[E]()
			exec = func(in lin) lout {
				switch in.Op {
				case "Add":
					return lout{OK: s.Add(in.Key)}
				case "Delete":
					return lout{OK: s.Delete(in.Key)}
				case "Has":
					return lout{OK: s.Has(in.Key)}
				}
				panic("unknown op " + in.Op)
			}
		}
		finalOp := "Has"
		if mapFlavour {
			finalOp = "Get"
		}
		history, problem, stacks := runLin(p, finalOp, exec)
		labels := []string{fmt.Sprintf("goroutines:%d", len(p.G)), fmt.Sprintf("keys:%d", p.Keys)}
		if problem == "" {
			stats.Case(check, contended(history), fmt.Sprint(p.render()), func() any { return p.render() }, labels...)
			if porcupine.CheckOperations(keyModel, history) {
				return
			}
			problem = "the recorded history of single-element operations is not linearizable (no per-key order of the calls explains all return values)"
		}
		payload := p.render()
		payload["problem"] = problem
		payload["history"] = renderHistory(history)
		payload["blocked_goroutines"] = stacks
		stats.Violation(check, payload)
		rt.Fatalf("%s\nprogram: %v\nhistory:\n%s", problem, p.render(), strings.Join(renderHistory(history), "\n"))
	})
}

func TestSetLinearizable(t *testing.T) {
	checkLinearizable(t, checkLinSet, []string{"Add", "Add", "Delete", "Delete", "Has"}, false,
		"rapid draws programs of 2-4 goroutines x 2-10 operations x 1-30 repetitions Add/Delete/Has on 1-3 elements of one ds.Set (plus 0-3 operations before the start and a final Has per element by the main goroutine); "+
			"every call is stamped with a logical clock before and after; the history is judged by porcupine with a per-element presence-bit model; the interleaving is the scheduler's; distinct by program; "+
			"non-trivial = two operations of different goroutines on one element, at least one a writer, overlapped in time")
}

func TestOrderedMapLinearizable(t *testing.T) {
	checkLinearizable(t, checkLinOMap, []string{"Set", "Set", "Get", "Has", "Delete", "Delete"}, true,
		"rapid draws programs of 2-4 goroutines x 2-10 operations x 1-30 repetitions Set(unique value)/Get/Has/Delete on 1-3 keys of one OrderedMap (plus operations before the start and a final Get per key by the main goroutine); "+
			"history stamped with a logical clock and judged by porcupine with a per-key register model (Set reports the previous value); the interleaving is the scheduler's; distinct by program; "+
			"non-trivial = two operations of different goroutines on one key, at least one a writer, overlapped in time")
}

package c11

import (
	"testing"
	"time"

	"github.com/iotaledger/hive.go/ds"
	"verifharness/internal/ctl"
	"verifharness/internal/stats"
)

// D13 (ds part): Replace returned all previous elements instead of the removed ones.
// Shrunk case found by TestSetModel: S.Add(6); S.Replace(new[6]) returned [6], nothing was removed.
func TestRegressionReplaceReturnsRemoved(t *testing.T) {
	const check = "regression_replace_returns_removed"
	stats.Rule(check, "fixed replay of the shrunk D13 cases through the sequential Set oracle")
	cases := [][]sop{
		{{Op: "Add", T: 0, E: 6}, {Op: "Replace", T: 0, Arg: argSpec{Kind: "fresh", Elems: []E{6}}}},
		{{Op: "AddAll", T: 0, Arg: argSpec{Kind: "fresh", Elems: []E{1, 2, 3}}}, {Op: "Replace", T: 0, Arg: argSpec{Kind: "fresh", Elems: []E{3, 4, 2}}}},
		// replacing a set with itself / its read-only view must not lose the elements
		{{Op: "AddAll", T: 0, Arg: argSpec{Kind: "fresh", Elems: []E{1, 2}}}, {Op: "Replace", T: 0, Arg: argSpec{Kind: "shared", Idx: 0}}},
		{{Op: "AddAll", T: 0, Arg: argSpec{Kind: "fresh", Elems: []E{1, 2}}}, {Op: "Replace", T: 0, Arg: argSpec{Kind: "readonly", Idx: 0}}},
	}
	for _, ops := range cases {
		w := newSetWorld(7)
		for _, o := range ops {
			if msg := w.apply(o); msg != "" {
				stats.Violation(check, w.payload(msg))
				t.Fatalf("%s\nops: %v", msg, w.log)
			}
		}
		stats.Case(check, true, w.log[len(w.log)-1], func() any { return w.payload("") })
	}
}

// gateSet is a ReadableSet whose ForEach first lets the test arrange the interleaving (a legal argument: the
// methods take the interface, reactive sets are passed the same way).
type gateSet struct {
	ds.ReadableSet[E]
	beforeIteration func()
}

func (g gateSet) ForEach(cb func(E) error) error {
	g.beforeIteration()

	return g.ReadableSet.ForEach(cb)
}

// D12: DeleteAll took applyMutex.RLock and then called Delete, which takes it again; with an Apply waiting for
// the write lock in between, both block forever. The schedule is owned by the test: the argument's ForEach
// (called by DeleteAll while it holds the read lock) starts the Apply and gives it time to queue up for the
// write lock. The pause only makes the window certain on a broken tree; on a correct tree the order is irrelevant.
func TestRegressionDeleteAllVsApply(t *testing.T) {
	const check = "regression_deleteall_vs_apply"
	stats.Rule(check, "fixed schedule: DeleteAll holds the read lock, a concurrent Apply/Compute/Replace queues for the write lock, then DeleteAll deletes its elements; must finish within ctl.HangTimeout")
	for _, writer := range []string{"Apply", "Compute", "Replace"} {
		s := ds.NewSet[E](1, 2, 3)
		writerDone := make(chan struct{})
		arg := gateSet{ReadableSet: ds.NewSet[E](2, 3, 4), beforeIteration: func() {
			go func() {
				defer close(writerDone)
				switch writer {
				case "Apply":
					s.Apply(ds.NewSetMutations[E](7))
				case "Compute":
					s.Compute(func(ds.ReadableSet[E]) ds.SetMutations[E] { return ds.NewSetMutations[E](7) })
				case "Replace":
					s.Replace(ds.NewSet[E](1, 7))
				}
			}()
			ctl.Settle(50 * time.Millisecond)
		}}
		var removed []E
		finished := ctl.Within(ctl.HangTimeout, func() {
			removed = s.DeleteAll(arg).ToSlice()
			<-writerDone
		})
		if !finished {
			stacks := dsStacks(ctl.Dump())
			stats.Violation(check, map[string]any{"schedule": "S=[1 2 3]; DeleteAll([2 3 4]) holds the read lock; " + writer + " queues for the write lock; DeleteAll continues", "problem": "DeleteAll and " + writer + " never returned (deadlock)", "blocked_goroutines": stacks})
			t.Fatalf("DeleteAll || %s did not finish within %s (deadlock)\n%v", writer, ctl.HangTimeout, stacks)
		}
		// Apply/Compute only add 7, so DeleteAll removes exactly 2 and 3 in every interleaving; a Replace may take
		// 2 and 3 away first in an implementation that does not hold a lock across DeleteAll.
		ok := eqContents(removed, []E{2, 3})
		if writer == "Replace" {
			ok = len(minus(removed, []E{2, 3})) == 0
		}
		if !ok {
			stats.Violation(check, map[string]any{"writer": writer, "problem": "DeleteAll([2 3 4]) on [1 2 3] returned " + show(removed)})
			t.Fatalf("DeleteAll([2 3 4]) on [1 2 3] (concurrent %s) returned %s, want [2 3]", writer, show(removed))
		}
		stats.Case(check, true, writer, func() any { return map[string]any{"writer": writer} })
	}
}

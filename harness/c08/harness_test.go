package c08

import (
	"encoding/binary"
	"fmt"
	"runtime"
	"sort"
	"strings"
	"sync"
	"sync/atomic"
	"time"

	"github.com/iotaledger/hive.go/kvstore"
	"github.com/iotaledger/hive.go/kvstore/mapdb"
	"verifharness/internal/ctl"
)

// ---------------------------------------------------------------------------------------------
// program

type config struct {
	QueueSize int `json:"queue_size"`
	BatchSize int `json:"batch_size"`
	TimeoutUS int `json:"batch_timeout_us"`
}

type pStep struct {
	Kind    string // enq | gosched | sleep | flush
	Obj     int
	SleepUS int
}

func (s pStep) String() string {
	switch s.Kind {
	case "enq":
		return fmt.Sprintf("enq(o%d)", s.Obj)
	case "sleep":
		return fmt.Sprintf("sleep(%dus)", s.SleepUS)
	default:
		return s.Kind
	}
}

type hookPlan struct {
	Producer int `json:"producer"`
	EnqIndex int `json:"enqueue_index"` // which Enqueue call of that producer (0-based) is armed
	Site     int `json:"site"`          // kvstore.VerifEnqueueAfterRunningCheck | VerifEnqueueBeforeQueueSend
}

type program struct {
	Cfg        config
	NObj       int
	Producers  [][]pStep
	EarlyStop  bool      // StopBatchWriter before any producer exists (cannot stop anything)
	StopAfter  int       // the main Stop is invoked once this many Enqueue calls have returned; > total: after all producers finished
	InlineStop bool      // the producer whose Enqueue is the StopAfter-th to return calls the main Stop itself, right away
	SecondStop string    // none | concurrent | after
	Hook       *hookPlan // nil: free running
	Chains     []chain   // objects whose call-back enqueues another object (from the writer goroutine), once
}

// chain: the first BatchWrite ("write") or BatchWriteDone ("done") of object From bumps and enqueues object To from
// inside the call-back, i.e. on the writer goroutine (a dependent object that becomes dirty when its parent is persisted).
// Programs with chains get a queue that can hold every object (an object is queued at most once at a time), because a
// send from the writer goroutine into a full queue can never be drained by design.
type chain struct {
	From int    `json:"from"`
	To   int    `json:"to"`
	At   string `json:"at"`
}

func (p program) totalEnqueues() int {
	n := 0
	for _, pr := range p.Producers {
		for _, s := range pr {
			if s.Kind == "enq" {
				n++
			}
		}
	}

	return n
}

func (p program) strings() []string {
	out := []string{fmt.Sprintf("queue=%d batch=%d timeout=%dus objects=%d", p.Cfg.QueueSize, p.Cfg.BatchSize, p.Cfg.TimeoutUS, p.NObj)}
	for i, pr := range p.Producers {
		parts := make([]string, len(pr))
		for j, s := range pr {
			parts[j] = s.String()
		}
		out = append(out, fmt.Sprintf("p%d: %s", i, strings.Join(parts, " ")))
	}
	stop := fmt.Sprintf("stop after %d enqueues returned", p.StopAfter)
	if p.InlineStop {
		stop += " (called by that producer itself)"
	}
	if p.StopAfter > p.totalEnqueues() {
		stop = "stop after all producers finished"
	}
	for _, c := range p.Chains {
		out = append(out, fmt.Sprintf("chain: first %s call-back of o%d enqueues o%d", c.At, c.From, c.To))
	}
	if p.Hook != nil {
		stop = fmt.Sprintf("HOOKED: park enqueue #%d of p%d at site %d, invoke Stop, then release", p.Hook.EnqIndex, p.Hook.Producer, p.Hook.Site)
	}
	out = append(out, fmt.Sprintf("earlyStop=%v; %s; secondStop=%s", p.EarlyStop, stop, p.SecondStop))

	return out
}

// ---------------------------------------------------------------------------------------------
// recorded history

type rec struct {
	Kind    string `json:"kind"` // enqueue | write | done | reset | commit | cancel | stop | flush
	Obj     int    `json:"obj"`
	Version int64  `json:"version"` // enqueue: version set before the call; write: version seen; done: version found in the store
	Batch   int    `json:"batch"`   // write / commit / cancel: which BatchedMutations
	T0      int64  `json:"t_call"`
	T1      int64  `json:"t_return"`
	Who     string `json:"who"`
	Skipped bool   `json:"-"`
}

func (r rec) String() string {
	switch r.Kind {
	case "enqueue":
		return fmt.Sprintf("[%d,%d] %s Enqueue(o%d@v%d)", r.T0, r.T1, r.Who, r.Obj, r.Version)
	case "write":
		return fmt.Sprintf("[%d] BatchWrite(o%d) saw v%d into batch %d", r.T0, r.Obj, r.Version, r.Batch)
	case "done":
		return fmt.Sprintf("[%d] BatchWriteDone(o%d), store holds v%d", r.T0, r.Obj, r.Version)
	case "reset":
		return fmt.Sprintf("[%d] ResetBatchWriteScheduled(o%d)", r.T0, r.Obj)
	case "commit":
		return fmt.Sprintf("[%d,%d] Commit(batch %d)", r.T0, r.T1, r.Batch)
	case "cancel":
		return fmt.Sprintf("[%d] Cancel(batch %d)", r.T0, r.Batch)
	default:
		return fmt.Sprintf("[%d,%d] %s %s", r.T0, r.T1, r.Who, r.Kind)
	}
}

type stopRec struct {
	Who      string
	TCall    int64
	TRet     int64
	Store    map[int]int64 // object -> version found in the store right after Stop returned (absent: no entry)
	Writes   []int
	Dones    []int
	AfterT0  bool // invoked at or after the moment the main Stop was invoked
	Returned bool
}

type run struct {
	p     program
	clock ctl.Clock
	inner kvstore.KVStore
	bw    *kvstore.BatchedWriter
	objs  []*object

	mu      sync.Mutex
	log     []rec
	stops   []*stopRec
	batches int

	// hook state: 0 idle, 1 armed, 2 parked, 3 over
	armed     atomic.Int32
	parkedCh  chan struct{}
	releaseCh chan struct{}
	parked    atomic.Bool
}

func (r *run) add(x rec) {
	r.mu.Lock()
	r.log = append(r.log, x)
	r.mu.Unlock()
}

func objKey(id int) []byte { return []byte(fmt.Sprintf("obj-%02d", id)) }

func (r *run) storeVersion(id int) (int64, bool) {
	b, err := r.inner.Get(objKey(id))
	if err != nil || len(b) != 8 {
		return 0, false
	}

	return int64(binary.BigEndian.Uint64(b)), true
}

// object is a BatchWriteObject the way the former object storage implemented it: the scheduled flag is an atomic
// test-and-set (BatchWriteScheduled reports whether it was already set and sets it), reset by the writer.
type object struct {
	id        int
	r         *run
	version   atomic.Int64
	scheduled atomic.Bool
	skipped   atomic.Int64 // Enqueue found it already scheduled
	writes    atomic.Int64
	dones     atomic.Int64

	chainTo *object
	chainAt string
	chained atomic.Bool
}

// fireChain enqueues the dependent object from inside a call-back (once).
func (o *object) fireChain(at string) {
	if o.chainTo == nil || o.chainAt != at || !o.chained.CompareAndSwap(false, true) {
		return
	}
	c := o.chainTo
	v := c.version.Add(1)
	t0 := o.r.clock.Tick()
	o.r.bw.Enqueue(c)
	o.r.add(rec{Kind: "enqueue", Obj: c.id, Version: v, Who: fmt.Sprintf("callback(%s of o%d)", at, o.id), T0: t0, T1: o.r.clock.Tick()})
}

func (o *object) BatchWriteScheduled() bool {
	was := !o.scheduled.CompareAndSwap(false, true)
	if was {
		o.skipped.Add(1)
	}

	return was
}

func (o *object) ResetBatchWriteScheduled() {
	o.scheduled.Store(false)
	o.r.add(rec{Kind: "reset", Obj: o.id, T0: o.r.clock.Tick()})
}

func (o *object) BatchWrite(muts kvstore.BatchedMutations) {
	t := o.r.clock.Tick()
	v := o.version.Load()
	var b [8]byte
	binary.BigEndian.PutUint64(b[:], uint64(v))
	batch := -1
	if lb, ok := muts.(*logBatch); ok {
		batch = lb.id
	}
	if v%2 == 0 {
		// even versions are written as "delete the old entry, then store the new one" (the last operation per key counts)
		if err := muts.Delete(objKey(o.id)); err != nil {
			panic(err)
		}
	}
	if err := muts.Set(objKey(o.id), b[:]); err != nil {
		panic(err)
	}
	o.writes.Add(1)
	o.r.add(rec{Kind: "write", Obj: o.id, Version: v, Batch: batch, T0: t})
	o.fireChain("write")
}

func (o *object) BatchWriteDone() {
	t := o.r.clock.Tick()
	v, ok := o.r.storeVersion(o.id)
	if !ok {
		v = -1
	}
	o.dones.Add(1)
	o.r.add(rec{Kind: "done", Obj: o.id, Version: v, T0: t})
	o.fireChain("done")
}

// logKV wraps the store so that the harness sees every Commit / Cancel of the writer's batches.
type logKV struct {
	kvstore.KVStore
	r *run
}

func (l *logKV) Batched() (kvstore.BatchedMutations, error) {
	b, err := l.KVStore.Batched()
	if err != nil {
		return nil, err
	}
	l.r.mu.Lock()
	l.r.batches++
	id := l.r.batches
	l.r.mu.Unlock()

	return &logBatch{BatchedMutations: b, r: l.r, id: id}, nil
}

type logBatch struct {
	kvstore.BatchedMutations
	r  *run
	id int
}

func (b *logBatch) Commit() error {
	t0 := b.r.clock.Tick()
	err := b.BatchedMutations.Commit()
	t1 := b.r.clock.Tick()
	if err != nil {
		panic(err)
	}
	b.r.add(rec{Kind: "commit", Batch: b.id, T0: t0, T1: t1})

	return nil
}

func (b *logBatch) Cancel() {
	b.r.add(rec{Kind: "cancel", Batch: b.id, T0: b.r.clock.Tick()})
	b.BatchedMutations.Cancel()
}

// ---------------------------------------------------------------------------------------------
// hook dispatch (one run at a time)

var currentRun atomic.Pointer[run]

func enqueueHook(bw *kvstore.BatchedWriter, _ kvstore.BatchWriteObject, site int) {
	r := currentRun.Load()
	if r == nil || r.bw != bw || r.p.Hook == nil || r.p.Hook.Site != site {
		return
	}
	if !r.armed.CompareAndSwap(1, 2) {
		return
	}
	r.parked.Store(true)
	close(r.parkedCh)
	<-r.releaseCh
}

// ---------------------------------------------------------------------------------------------
// execution

type result struct {
	violation  string
	hang       bool
	history    []string
	labels     []string
	nontrivial bool
}

func (r *run) stop(who string, afterT0 bool) *stopRec {
	s := &stopRec{Who: who, AfterT0: afterT0, Store: map[int]int64{}}
	r.mu.Lock()
	r.stops = append(r.stops, s)
	r.mu.Unlock()
	s.TCall = r.clock.Tick()
	r.bw.StopBatchWriter()
	s.TRet = r.clock.Tick()
	for _, o := range r.objs {
		if v, ok := r.storeVersion(o.id); ok {
			s.Store[o.id] = v
		}
		s.Writes = append(s.Writes, int(o.writes.Load()))
		s.Dones = append(s.Dones, int(o.dones.Load()))
	}
	s.Returned = true
	r.add(rec{Kind: "stop", Who: who, T0: s.TCall, T1: s.TRet})

	return s
}

func settleFor(cfg config) time.Duration {
	return 3*time.Duration(cfg.TimeoutUS)*time.Microsecond + 15*time.Millisecond
}

// execute runs the program and judges the recorded history.
func execute(p program) (res result) {
	r := &run{p: p, inner: mapdb.NewMapDB(), parkedCh: make(chan struct{}), releaseCh: make(chan struct{})}
	r.bw = kvstore.NewBatchedWriter(&logKV{KVStore: r.inner, r: r},
		kvstore.WithQueueSize(p.Cfg.QueueSize), kvstore.WithBatchSize(p.Cfg.BatchSize),
		kvstore.WithBatchTimeout(time.Duration(p.Cfg.TimeoutUS)*time.Microsecond))
	for i := 0; i < p.NObj; i++ {
		r.objs = append(r.objs, &object{id: i, r: r})
	}
	for _, c := range p.Chains {
		r.objs[c.From].chainTo, r.objs[c.From].chainAt = r.objs[c.To], c.At
	}
	currentRun.Store(r)
	defer currentRun.Store(nil)
	labels := map[string]bool{}
	defer func() {
		for l := range labels {
			res.labels = append(res.labels, l)
		}
		sort.Strings(res.labels)
	}()

	hang := func(what string) result {
		dump := ctl.Dump()
		select { // never leave a parked producer behind
		case <-r.releaseCh:
		default:
			close(r.releaseCh)
		}

		return result{violation: fmt.Sprintf("%s did not return within %v (blocked forever)\n%s", what, ctl.HangTimeout, dump), hang: true, history: r.render()}
	}

	if p.EarlyStop {
		if !ctl.Within(ctl.HangTimeout, func() { r.stop("early", false) }) {
			return hang("StopBatchWriter on a writer that was never started")
		}
		labels["early_stop_before_any_enqueue"] = true // (single goroutine so far)
	}

	var labelMu sync.Mutex
	label := func(l string) {
		labelMu.Lock()
		labels[l] = true
		labelMu.Unlock()
	}

	var mainStop *stopRec
	var tInvoke int64
	secondDone := make(chan struct{})
	mainDone := make(chan struct{})
	var mainOnce sync.Once
	// doMainStop invokes the main StopBatchWriter (at most once) in the calling goroutine.
	doMainStop := func(who string) {
		mainOnce.Do(func() {
			tInvoke = r.clock.Tick()
			if p.SecondStop == "concurrent" {
				label("second_stop_concurrent")
				go func() { r.stop("second(concurrent)", true); close(secondDone) }()
			} else {
				close(secondDone)
			}
			mainStop = r.stop(who, true)
			close(mainDone)
		})
	}

	var returned atomic.Int32
	stopCh := make(chan struct{})
	var stopOnce sync.Once
	designatedDone := make(chan struct{})
	var producers sync.WaitGroup
	for pi, steps := range p.Producers {
		producers.Add(1)
		go func(pi int, steps []pStep) {
			defer producers.Done()
			who := fmt.Sprintf("p%d", pi)
			enqIdx := 0
			for _, s := range steps {
				switch s.Kind {
				case "gosched":
					runtime.Gosched()
				case "sleep":
					time.Sleep(time.Duration(s.SleepUS) * time.Microsecond)
				case "flush":
					t0 := r.clock.Tick()
					r.bw.Flush()
					r.add(rec{Kind: "flush", Who: who, T0: t0, T1: r.clock.Tick()})
				case "enq":
					o := r.objs[s.Obj]
					designated := p.Hook != nil && p.Hook.Producer == pi && p.Hook.EnqIndex == enqIdx
					if designated {
						r.armed.CompareAndSwap(0, 1)
					}
					v := o.version.Add(1) // mutate the object, then ask for it to be persisted
					t0 := r.clock.Tick()
					r.bw.Enqueue(o)
					t1 := r.clock.Tick()
					r.add(rec{Kind: "enqueue", Obj: o.id, Version: v, Who: who, T0: t0, T1: t1})
					if designated {
						r.armed.CompareAndSwap(1, 3) // the site was never reached by anybody
						close(designatedDone)
					}
					enqIdx++
					if int(returned.Add(1)) == p.StopAfter {
						if p.InlineStop && p.Hook == nil {
							label("stop_called_by_the_enqueuing_goroutine")
							doMainStop("main(by " + who + ")")
						} else {
							stopOnce.Do(func() { close(stopCh) })
						}
					}
				}
			}
		}(pi, steps)
	}
	producersDone := make(chan struct{})
	go func() { producers.Wait(); close(producersDone) }()

	if p.Hook != nil {
		// hooked schedule: park one producer inside Enqueue, run Stop against it, release it
		select {
		case <-r.parkedCh:
			label(fmt.Sprintf("hooked_parked_site_%d", p.Hook.Site))
		case <-designatedDone:
			label("hooked_site_not_reached")
		case <-time.After(ctl.HangTimeout):
			return hang("the armed Enqueue (writer running, no Stop invoked yet)")
		}
		go doMainStop("main")
		select {
		case <-mainDone: // Stop ran to completion while the producer sits inside Enqueue
			if r.parked.Load() {
				label("stop_completed_while_producer_parked")
			}
		case <-time.After(settleFor(p.Cfg)): // Stop waits for the parked producer (or is slow): go on
			label("stop_still_running_at_release")
		}
		close(r.releaseCh)
	} else {
		select {
		case <-stopCh:
		case <-mainDone:
		case <-producersDone:
		case <-time.After(ctl.HangTimeout):
			return hang("Enqueue, or the StopBatchWriter a producer called right after its Enqueue,")
		}
		go doMainStop("main")
	}
	if !ctl.WaitChan(mainDone, ctl.HangTimeout) {
		return hang("StopBatchWriter")
	}
	if !ctl.WaitChan(secondDone, ctl.HangTimeout) {
		return hang("the second, concurrent StopBatchWriter")
	}
	if !ctl.WaitChan(producersDone, ctl.HangTimeout) {
		return hang("Enqueue/Flush racing with or following StopBatchWriter")
	}
	if p.SecondStop == "after" {
		label("second_stop_after")
		if !ctl.Within(ctl.HangTimeout, func() { r.stop("second(after)", true) }) {
			return hang("the second StopBatchWriter")
		}
	}

	// leak guard: the writer goroutine of this run must be gone (it may need a moment to unwind after Done())
	me := fmt.Sprintf("%p", r.bw)
	deadline := time.Now().Add(ctl.HangTimeout)
	for {
		leaked := ""
		for _, g := range strings.Split(ctl.Dump(), "\n\n") {
			// a writer goroutine that has not run yet shows up as startBatchWriter.gowrapN without arguments
			if strings.Contains(g, "(*BatchedWriter).") && (strings.Contains(g, me) || strings.Contains(g, "startBatchWriter.gowrap")) {
				leaked = g
			}
		}
		if leaked == "" {
			break
		}
		if time.Now().After(deadline) {
			return result{violation: "a goroutine is still inside this BatchedWriter " + ctl.HangTimeout.String() + " after StopBatchWriter returned and all producers finished:\n" + leaked, hang: true, history: r.render()}
		}
		label("writer_goroutine_outlived_stop_briefly")
		time.Sleep(200 * time.Microsecond)
	}
	ctl.Settle(0)

	res = r.judge(tInvoke, mainStop, labels)
	res.history = r.render()

	return res
}

func (r *run) render() []string {
	r.mu.Lock()
	defer r.mu.Unlock()
	l := append([]rec(nil), r.log...)
	sort.SliceStable(l, func(i, j int) bool { return l[i].T0 < l[j].T0 })
	out := make([]string, len(l))
	for i, x := range l {
		out[i] = x.String()
	}

	return out
}

// judge checks the history invariants of C08. tInvoke is a stamp taken right before the first effective Stop was invoked.
func (r *run) judge(tInvoke int64, mainStop *stopRec, labels map[string]bool) (res result) {
	r.mu.Lock()
	log := append([]rec(nil), r.log...)
	stops := append([]*stopRec(nil), r.stops...)
	r.mu.Unlock()
	sort.SliceStable(log, func(i, j int) bool { return log[i].T0 < log[j].T0 })
	fail := func(format string, args ...any) {
		if res.violation == "" {
			res.violation = fmt.Sprintf(format, args...)
		}
	}

	writes := map[int][]rec{}
	dones := map[int][]rec{}
	commits := map[int]rec{}
	var enqueues []rec
	for _, x := range log {
		switch x.Kind {
		case "write":
			writes[x.Obj] = append(writes[x.Obj], x)
		case "done":
			dones[x.Obj] = append(dones[x.Obj], x)
		case "commit":
			commits[x.Batch] = x
		case "enqueue":
			enqueues = append(enqueues, x)
		case "flush":
			labels["flush_used"] = true
		}
	}

	// (1) once per scheduling: every BatchWrite is followed by the Commit of its batch and then exactly one BatchWriteDone,
	//     and at that BatchWriteDone the store already holds what was written (or something newer)
	for _, o := range r.objs {
		w, d := writes[o.id], dones[o.id]
		if len(d) > len(w) {
			fail("o%d: %d BatchWriteDone calls for %d BatchWrite calls", o.id, len(d), len(w))
		}
		for i := range w {
			c, committed := commits[w[i].Batch]
			if !committed {
				fail("o%d: BatchWrite #%d (v%d, batch %d) was never committed (half-written: mutation handed over, batch dropped)", o.id, i+1, w[i].Version, w[i].Batch)

				continue
			}
			if c.T0 < w[i].T0 {
				fail("o%d: batch %d was committed at %d before BatchWrite #%d at %d", o.id, w[i].Batch, c.T0, i+1, w[i].T0)
			}
			if i >= len(d) {
				fail("o%d: BatchWrite #%d (v%d) was committed but BatchWriteDone was never called for it", o.id, i+1, w[i].Version)

				continue
			}
			if d[i].T0 < c.T1 {
				fail("o%d: BatchWriteDone #%d at %d came before the Commit of its batch %d finished at %d", o.id, i+1, d[i].T0, w[i].Batch, c.T1)
			}
			if d[i].Version < w[i].Version {
				fail("o%d: at BatchWriteDone #%d the store held v%d, but v%d had been written: done before persisted", o.id, i+1, d[i].Version, w[i].Version)
			}
		}
		// (2) committed store contents equal the last BatchWrite
		got, has := r.storeVersion(o.id)
		switch {
		case len(w) == 0 && has:
			fail("o%d: store holds v%d although BatchWrite was never called", o.id, got)
		case len(w) > 0 && (!has || got != w[len(w)-1].Version):
			fail("o%d: store holds v%d (present=%v), last BatchWrite wrote v%d", o.id, got, has, w[len(w)-1].Version)
		}
		// (3) not touched at all or written completely: nothing may stay marked as scheduled
		if o.scheduled.Load() {
			fail("o%d is still marked as scheduled after everything has stopped: Enqueue accepted it (or the writer never reset the flag) but no BatchWrite follows, e.g. it is stranded in the queue of a stopped writer", o.id)
		}
		if o.skipped.Load() > 0 {
			labels["enqueue_of_already_scheduled_object"] = true
		}
	}

	// (4) every Enqueue that returned before Stop was invoked is persisted when Stop returns
	for _, s := range stops {
		if !s.AfterT0 || !s.Returned {
			continue
		}
		for _, e := range enqueues {
			if e.T1 >= tInvoke {
				continue
			}
			if v, ok := s.Store[e.Obj]; !ok || v < e.Version {
				fail("StopBatchWriter (%s) returned at %d, but o%d enqueued with v%d (Enqueue returned at %d, before Stop was invoked at %d) is not persisted: store holds v%d (present=%v)", s.Who, s.TRet, e.Obj, e.Version, e.T1, tInvoke, v, ok)
			}
		}
		for i := range r.objs {
			if s.Writes[i] != s.Dones[i] {
				fail("StopBatchWriter (%s) returned while o%d had %d BatchWrite but %d BatchWriteDone calls", s.Who, i, s.Writes[i], s.Dones[i])
			}
		}
		// (5) the writer is finished when Stop returns: no call-back may start afterwards
		for _, x := range log {
			if (x.Kind == "write" || x.Kind == "done" || x.Kind == "commit" || x.Kind == "reset") && x.T0 > s.TRet {
				fail("%s happened after StopBatchWriter (%s) had returned at %d", x.String(), s.Who, s.TRet)

				break
			}
		}
	}

	// classification
	pending := false
	for _, ws := range writes {
		for _, w := range ws {
			if w.T0 > tInvoke {
				pending = true
			}
		}
	}
	if pending {
		labels["stop_invoked_with_unwritten_objects"] = true
	}
	racing := 0
	for _, e := range enqueues {
		if e.T0 < mainStop.TRet && e.T1 > tInvoke {
			racing++
		}
	}
	if racing > 0 {
		labels["enqueue_overlaps_stop"] = true
	}
	for _, e := range enqueues {
		if strings.HasPrefix(e.Who, "callback(") {
			labels["enqueue_from_callback"] = true
			if e.T1 > tInvoke {
				labels["enqueue_from_callback_after_stop_invoked"] = true
			}
		}
	}
	if r.p.Cfg.QueueSize == 0 {
		labels["queue_unbuffered"] = true
	}
	if r.p.Cfg.BatchSize == 1 {
		labels["batch_size_1"] = true
	}
	if r.p.StopAfter == 1 && r.p.Hook == nil {
		labels["stop_right_after_first_enqueue"] = true
	}
	multi := false
	for _, c := range commits {
		n := 0
		for _, ws := range writes {
			for _, w := range ws {
				if w.Batch == c.Batch {
					n++
				}
			}
		}
		if n >= 2 {
			multi = true
		}
		if n == r.p.Cfg.BatchSize && n > 1 {
			labels["batch_size_reached"] = true
		}
	}
	if multi {
		labels["multi_object_batch"] = true
	}
	res.nontrivial = pending || r.parked.Load()

	return res
}

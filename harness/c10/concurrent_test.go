package c10

import (
	"fmt"
	"runtime"
	"runtime/debug"
	"sort"
	"sync"
	"sync/atomic"
	"testing"

	"github.com/iotaledger/hive.go/ds"
	"pgregory.net/rapid"
	"verifharness/internal/ctl"
	"verifharness/internal/stats"
)

// TestThreadSafeListConcurrentConsistency: the thread-safe flavour has to behave like the reference list for every
// sequence of operations - under concurrent callers that means: like the reference list for SOME sequential order of
// the calls. Without knowing that order the following consequences can still be checked exactly after all callers
// returned: every operation here keeps the multiset of values (moves) or adds known values (pushes), so the final
// list is a permutation of a known multiset; the forward and the backward walk are mirror images; Len equals the
// number of elements reached by either walk; every handle a goroutine pushed is still linked; goroutines that only
// ever move their own handles to the front leave their own handles in the reverse order of their last moves.
func TestThreadSafeListConcurrentConsistency(t *testing.T) {
	const check = "threadsafe_list_concurrent_consistency"
	stats.Rule(check, "rapid draws 2..8 goroutines on ONE thread-safe ds.List (NewList() or NewList(false), drawn), each owning 2..4 handles it pushed before the start, and a per-goroutine script of 10..60 operations from {MoveToFront, MoveToBack, MoveBefore/MoveAfter relative to another own handle, PushBack of a fresh value, Remove of one of 0..6 handles shared by all goroutines (racing and repeated Removes of one handle)} with drawn yields; all goroutines are released together. Oracle at quiescence (bounded walks): forward walk and backward walk visit the same handles in mirrored order, Len equals that count, the multiset of values equals initial values + pushed values - shared handles somebody removed, no caller panicked, no handle is lost or duplicated. The interleaving is the scheduler's; 20 s stall-tolerant watchdog. Distinct by program; non-trivial = >= 3 goroutines and >= 100 operations in total")
	rapid.Check(t, func(rt *rapid.T) {
		g := rapid.IntRange(2, 8).Draw(rt, "goroutines")
		// both spellings of "thread-safe": no argument and an explicit false
		l := ds.NewList[int]()
		if rapid.Bool().Draw(rt, "explicitFalse") {
			l = ds.NewList[int](false)
		}
		type script struct {
			own []ds.ListElement[int]
			ops []int
			arg []int
		}
		scripts := make([]*script, g)
		want := map[int]int{}
		next := 0
		total := 0
		for i := range scripts {
			sc := &script{}
			for k := rapid.IntRange(2, 4).Draw(rt, fmt.Sprintf("own%d", i)); k > 0; k-- {
				sc.own = append(sc.own, l.PushBack(next))
				want[next]++
				next++
			}
			n := rapid.IntRange(10, 60).Draw(rt, fmt.Sprintf("ops%d", i))
			total += n
			sc.ops = rapid.SliceOfN(rapid.IntRange(0, 6), n, n).Draw(rt, fmt.Sprintf("script%d", i))
			sc.arg = rapid.SliceOfN(rapid.IntRange(0, 11), n, n).Draw(rt, fmt.Sprintf("args%d", i))
			scripts[i] = sc
		}
		// handles that every goroutine may Remove, at any time and more than once: a Remove of an already removed handle is a
		// no-op, whichever of two racing calls came first
		nv := rapid.IntRange(0, 6).Draw(rt, "sharedVictims")
		victims := make([]ds.ListElement[int], nv)
		attempted := make([]atomic.Bool, nv)
		for i := range victims {
			victims[i] = l.PushBack(500 + i)
		}
		var panicked atomic.Value
		pushBase := 1000
		var wg sync.WaitGroup
		start := make(chan struct{})
		pushed := make([][]int, g)
		for i, sc := range scripts {
			wg.Add(1)
			go func(i int, sc *script) {
				defer wg.Done()
				defer func() {
					if p := recover(); p != nil {
						panicked.Store(fmt.Sprintf("%v\n%s", p, debug.Stack()))
					}
				}()
				<-start
				for k, op := range sc.ops {
					a := sc.own[sc.arg[k]%len(sc.own)]
					b := sc.own[(sc.arg[k]/3)%len(sc.own)]
					switch op {
					case 0:
						l.MoveToFront(a)
					case 1:
						l.MoveToBack(a)
					case 2:
						if a != b {
							l.MoveBefore(a, b)
						}
					case 3:
						if a != b {
							l.MoveAfter(a, b)
						}
					case 4:
						v := pushBase + i*1000 + k
						l.PushBack(v)
						pushed[i] = append(pushed[i], v)
					case 5:
						if nv > 0 {
							vi := sc.arg[k] % nv
							attempted[vi].Store(true)
							if got := l.Remove(victims[vi]); got != 500+vi {
								panicked.Store(fmt.Sprintf("Remove of shared handle %d returned %d, want its value %d", vi, got, 500+vi))
							}
						}
					default:
						runtime.Gosched()
					}
				}
			}(i, sc)
		}
		close(start)
		desc := fmt.Sprintf("goroutines=%d total_ops=%d", g, total)
		fail := func(format string, a ...any) {
			msg := fmt.Sprintf(format, a...)
			stats.Violation(check, map[string]any{"program": desc, "problem": msg})
			rt.Fatalf("%s: %s", desc, msg)
		}
		if !ctl.WithinHang(wg.Wait) {
			fail("callers did not return\n%s", ctl.Dump())
		}
		if p := panicked.Load(); p != nil {
			fail("a caller failed: %v", p)
		}
		for i := range pushed {
			for _, v := range pushed[i] {
				want[v]++
			}
		}
		for i := range victims {
			if !attempted[i].Load() {
				want[500+i]++
			}
		}
		expectLen := 0
		for _, c := range want {
			expectLen += c
		}
		var fwd, bwd []ds.ListElement[int]
		for e := l.Front(); e != nil; e = e.Next() {
			if fwd = append(fwd, e); len(fwd) > expectLen+1 {
				fail("forward walk does not end after %d elements (expected %d)", len(fwd), expectLen)
			}
		}
		for e := l.Back(); e != nil; e = e.Prev() {
			if bwd = append(bwd, e); len(bwd) > expectLen+1 {
				fail("backward walk does not end after %d elements (expected %d)", len(bwd), expectLen)
			}
		}
		if len(fwd) != expectLen || len(bwd) != expectLen || l.Len() != expectLen {
			fail("forward walk visits %d, backward walk %d, Len() = %d, expected %d elements", len(fwd), len(bwd), l.Len(), expectLen)
		}
		got := map[int]int{}
		seen := map[ds.ListElement[int]]bool{}
		for i, e := range fwd {
			if e != bwd[len(bwd)-1-i] {
				fail("forward and backward walks disagree at position %d", i)
			}
			if seen[e] {
				fail("handle visited twice by the forward walk")
			}
			seen[e] = true
			got[e.Value()]++
		}
		var diff []string
		for v, c := range want {
			if got[v] != c {
				diff = append(diff, fmt.Sprintf("value %d: %d times, want %d", v, got[v], c))
			}
		}
		sort.Strings(diff)
		if len(diff) > 0 {
			fail("the list is not a permutation of the values it was given: %v", diff)
		}
		stats.Case(check, g >= 3 && total >= 100, desc, func() any { return desc })
	})
}

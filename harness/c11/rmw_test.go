package c11

import (
	"fmt"
	"runtime"
	"sync"
	"testing"

	"github.com/iotaledger/hive.go/ds"
	"pgregory.net/rapid"
	"verifharness/internal/ctl"
	"verifharness/internal/stats"
)

// TestSetComputeReadModifyWrite: atomicity of Compute as a read-modify-write. Every Compute adds "the element
// numbered by the current size" (and Replace/Apply callers re-base the set on fresh numbers); if two atomic calls
// could interleave between a factory's read and its application, two factories would see the same size and add the
// same element, and the final size would fall short of the number of successful additions.
func TestSetComputeReadModifyWrite(t *testing.T) {
	const check = "set_compute_read_modify_write"
	stats.Rule(check, "rapid draws g=2..8 goroutines x k=5..60 calls on one ds.Set[int]; each call is Compute(factory) whose factory returns 'add element base+Size()' (drawn yields inside the factory), a third of the goroutines interleave Apply calls that add one fresh private element. Atomic Apply/Compute means every factory sees a distinct size, so at quiescence Size() == number of Compute calls + number of Apply calls; every value a Compute reported as added must be distinct. Runs under -race with a 20 s hang watchdog. Distinct by program; non-trivial = >= 3 goroutines and >= 40 calls in total")
	rapid.Check(t, func(rt *rapid.T) {
		g := rapid.IntRange(2, 8).Draw(rt, "g")
		k := rapid.IntRange(5, 60).Draw(rt, "k")
		yields := rapid.IntRange(0, 3).Draw(rt, "yieldsInFactory")
		appliers := rapid.IntRange(0, g/3).Draw(rt, "appliers")
		s := ds.NewSet[int]()
		var wg sync.WaitGroup
		start := make(chan struct{})
		added := make([][]int, g)
		for i := 0; i < g; i++ {
			wg.Add(1)
			go func(i int) {
				defer wg.Done()
				<-start
				for j := 0; j < k; j++ {
					if i < appliers {
						// a private element nobody else uses: always a genuine addition
						s.Apply(ds.NewSetMutations[int]().WithAddedElements(ds.NewSet(1_000_000 + i*1000 + j)))
						continue
					}
					res := s.Compute(func(cur ds.ReadableSet[int]) ds.SetMutations[int] {
						n := 0
						cur.Range(func(e int) {
							if e < 1_000_000 {
								n++
							}
						})
						for y := 0; y < yields; y++ {
							runtime.Gosched()
						}
						return ds.NewSetMutations[int]().WithAddedElements(ds.NewSet(n))
					})
					res.AddedElements().Range(func(e int) { added[i] = append(added[i], e) })
				}
			}(i)
		}
		close(start)
		desc := fmt.Sprintf("g=%d k=%d yields=%d appliers=%d", g, k, yields, appliers)
		if !ctl.WithinHang(wg.Wait) {
			stats.Violation(check, map[string]any{"program": desc, "problem": "hang", "stacks": ctl.Dump()})
			rt.Fatalf("%s: calls did not return within %v", desc, ctl.HangTimeout)
		}
		computes := (g - appliers) * k
		seen := map[int]bool{}
		reported := 0
		for i := range added {
			for _, e := range added[i] {
				if seen[e] {
					stats.Violation(check, map[string]any{"program": desc, "problem": fmt.Sprintf("element %d reported as added by two Compute calls", e)})
					rt.Fatalf("%s: element %d was reported as newly added by two different Compute calls: two factories saw the same state", desc, e)
				}
				seen[e] = true
				reported++
			}
		}
		if want := computes + appliers*k; s.Size() != want || reported != computes {
			stats.Violation(check, map[string]any{"program": desc, "problem": fmt.Sprintf("size %d, want %d; %d additions reported by Compute, want %d", s.Size(), want, reported, computes)})
			rt.Fatalf("%s: Size() = %d, want %d; Compute calls reported %d additions, want %d: a read-modify-write through Compute lost an update", desc, s.Size(), want, reported, computes)
		}
		stats.Case(check, g >= 3 && g*k >= 40, desc, func() any { return desc })
	})
}

package c12

import (
	"fmt"
	"testing"
	"time"

	"github.com/iotaledger/hive.go/ds/priorityqueue"
	"github.com/iotaledger/hive.go/runtime/timed"
	"pgregory.net/rapid"
	"verifharness/internal/stats"
)

// ascPrio / descPrio are the two orderings of the generic queue: the queue pops the element whose
// priority compares lowest under CompareTo.
type ascPrio int

func (p ascPrio) CompareTo(o ascPrio) int { return cmpInt(int(p), int(o)) }

type descPrio int

func (p descPrio) CompareTo(o descPrio) int { return cmpInt(int(o), int(p)) }

func cmpInt(a, b int) int {
	switch {
	case a < b:
		return -1
	case a > b:
		return 1
	default:
		return 0
	}
}

// pqUnderTest adapts the two queue types to one driver. Elements are unique ints, priorities small ints.
type pqUnderTest struct {
	push     func(id, prio int) (remove func())
	peek     func() (int, bool)
	pop      func() (int, bool)
	popUntil func(prio int) []int
	popAll   func() []int
	size     func() int
	isEmpty  func() bool
	// rank maps a priority to its position in pop order (lower pops first).
	rank func(prio int) int
}

func newGenericPQ(descending bool) pqUnderTest {
	if descending {
		q := priorityqueue.New[int, descPrio]()
		return pqUnderTest{
			push:     func(id, p int) func() { return q.Push(id, descPrio(p)) },
			peek:     q.Peek,
			pop:      q.Pop,
			popUntil: func(p int) []int { return q.PopUntil(descPrio(p)) },
			popAll:   q.PopAll, size: q.Size, isEmpty: q.IsEmpty,
			rank: func(p int) int { return -p },
		}
	}
	q := priorityqueue.New[int, ascPrio]()
	return pqUnderTest{
		push:     func(id, p int) func() { return q.Push(id, ascPrio(p)) },
		peek:     q.Peek,
		pop:      q.Pop,
		popUntil: func(p int) []int { return q.PopUntil(ascPrio(p)) },
		popAll:   q.PopAll, size: q.Size, isEmpty: q.IsEmpty,
		rank: func(p int) int { return p },
	}
}

// timedBase is a fixed instant; priorities are whole seconds after it (never the wall clock).
var timedBase = time.Unix(1_700_000_000, 0)

func newTimedPQ(mode string) pqUnderTest {
	var q timed.PriorityQueue[int]
	asc := false
	switch mode {
	case "ascending":
		q, asc = timed.NewPriorityQueue[int](true), true
	case "descending-explicit":
		q = timed.NewPriorityQueue[int](false)
	default:
		q = timed.NewPriorityQueue[int]()
	}
	// the same instant is handed over in changing representations (local, UTC, two fixed zones): priorities are instants,
	// not time.Time values, so a bound that denotes the instant of a queued element in another zone is "at" that element
	zones := []*time.Location{time.Local, time.UTC, time.FixedZone("east", 5*3600), time.FixedZone("west", -3*3600-1800)}
	calls := 0
	at := func(p int) time.Time {
		calls++
		return timedBase.Add(time.Duration(p) * time.Second).In(zones[calls%len(zones)])
	}
	return pqUnderTest{
		push:     func(id, p int) func() { q.Push(id, at(p)); return nil },
		peek:     q.Peek,
		pop:      q.Pop,
		popUntil: func(p int) []int { return q.PopUntil(at(p)) },
		popAll:   q.PopAll, size: q.Size, isEmpty: q.IsEmpty,
		rank: func(p int) int {
			if asc {
				return p
			}
			return -p
		},
	}
}

// runPQ drives one queue history. Model: the multiset of live (id, priority) pairs. Pop/Peek must return
// *a* live element of minimal rank (any one among ties); PopUntil(p) must return exactly the live elements
// with rank <= rank(p) in non-decreasing rank order; PopAll everything in non-decreasing rank order.
// Removal handles (generic queue only) remove their element if it is still queued and are no-ops otherwise.
func runPQ(rt *rapid.T, h *hist, q pqUnderTest, handles bool) (nontrivial bool) {
	live := map[int]int{} // id -> prio
	nextID := 1
	type handle struct {
		id     int
		remove func()
	}
	var hs []handle
	maxLive, ties, removedMiddle, popAfterRemove := 0, false, false, false
	prio := rapid.IntRange(0, 5)

	minRank := func() (int, bool) {
		first, best := true, 0
		for _, p := range live {
			if r := q.rank(p); first || r < best {
				first, best = false, r
			}
		}
		return best, !first
	}
	checkSorted := func(rt *rapid.T, what string, got []int, prios map[int]int) {
		for i := 1; i < len(got); i++ {
			if q.rank(prios[got[i-1]]) > q.rank(prios[got[i]]) {
				h.fail(rt, "%s returned %v: element %d (priority %d) comes before element %d (priority %d)", what, got, got[i-1], prios[got[i-1]], got[i], prios[got[i]])
			}
		}
	}

	acts := weighted{}
	acts.add("Push", 8, func(rt *rapid.T) {
		id, p := nextID, prio.Draw(rt, "prio")
		nextID++
		for _, lp := range live {
			if lp == p {
				ties = true
			}
		}
		rm := q.push(id, p)
		h.op("Push(%d,prio=%d)", id, p)
		live[id] = p
		maxLive = max(maxLive, len(live))
		if handles {
			hs = append(hs, handle{id, rm})
		}
	})
	acts.add("Peek", 2, func(rt *rapid.T) {
		id, ok := q.peek()
		h.op("Peek()=%d,%v", id, ok)
		best, any := minRank()
		if !any {
			if ok || id != 0 {
				h.fail(rt, "Peek on empty queue = (%d,%v)", id, ok)
			}
			return
		}
		if p, isLive := live[id]; !ok || !isLive || q.rank(p) != best {
			h.fail(rt, "Peek = (%d,%v) is not a queued element of the best priority; queued id->priority %v", id, ok, live)
		}
	})
	acts.add("Pop", 4, func(rt *rapid.T) {
		id, ok := q.pop()
		h.op("Pop()=%d,%v", id, ok)
		best, any := minRank()
		if !any {
			if ok || id != 0 {
				h.fail(rt, "Pop on empty queue = (%d,%v)", id, ok)
			}
			h.label("pop_empty")
			return
		}
		if p, isLive := live[id]; !ok || !isLive || q.rank(p) != best {
			h.fail(rt, "Pop = (%d,%v) is not a queued element of the best priority; queued id->priority %v", id, ok, live)
		}
		delete(live, id)
		if removedMiddle {
			popAfterRemove = true
		}
	})
	acts.add("PopUntil", 2, func(rt *rapid.T) {
		p := prio.Draw(rt, "until")
		got := q.popUntil(p)
		h.op("PopUntil(prio=%d)=%v", p, got)
		snapshot := map[int]int{}
		want := 0
		for id, lp := range live {
			snapshot[id] = lp
			if q.rank(lp) <= q.rank(p) {
				want++
			}
		}
		seen := map[int]struct{}{}
		for _, id := range got {
			lp, isLive := live[id]
			if _, dup := seen[id]; dup || !isLive || q.rank(lp) > q.rank(p) {
				h.fail(rt, "PopUntil(prio=%d) returned %v: element %d is a duplicate, not queued, or beyond the bound; queued id->priority %v", p, got, id, snapshot)
			}
			seen[id] = struct{}{}
		}
		if len(got) != want {
			h.fail(rt, "PopUntil(prio=%d) returned %d elements %v, want the %d queued elements up to the bound; queued id->priority %v", p, len(got), got, want, snapshot)
		}
		checkSorted(rt, "PopUntil", got, snapshot)
		for _, id := range got {
			delete(live, id)
		}
		if len(got) > 0 && len(live) > 0 {
			h.label("popuntil_partial")
		}
		if removedMiddle && len(got) > 0 {
			popAfterRemove = true
		}
	})
	acts.add("PopAll", 1, func(rt *rapid.T) {
		if rapid.IntRange(0, 1).Draw(rt, "really") != 0 {
			rt.Skip("thinned")
		}
		got := q.popAll()
		h.op("PopAll()=%v", got)
		seen := map[int]struct{}{}
		for _, id := range got {
			if _, isLive := live[id]; !isLive {
				h.fail(rt, "PopAll returned %v: element %d is not queued; queued id->priority %v", got, id, live)
			}
			seen[id] = struct{}{}
		}
		if len(got) != len(live) || len(seen) != len(live) {
			h.fail(rt, "PopAll returned %v, want all %d queued elements once; queued id->priority %v", got, len(live), live)
		}
		checkSorted(rt, "PopAll", got, live)
		if removedMiddle && len(got) > 0 {
			popAfterRemove = true
		}
		live = map[int]int{}
	})
	if handles {
		acts.add("Remove", 5, func(rt *rapid.T) {
			if len(hs) == 0 {
				rt.Skip("no handle yet")
			}
			i := rapid.IntRange(0, len(hs)-1).Draw(rt, "handle")
			hd := hs[i]
			_, wasLive := live[hd.id]
			best, _ := minRank()
			h.op("remove[%d]() live=%v", hd.id, wasLive)
			hd.remove()
			if wasLive {
				if len(live) > 1 && q.rank(live[hd.id]) != best {
					h.label("remove_not_head")
					removedMiddle = true
				} else {
					h.label("remove_head")
				}
				delete(live, hd.id)
			} else {
				h.label("remove_stale_handle")
			}
		})
	}
	acts[""] = func(rt *rapid.T) {
		if sz := q.size(); sz != len(live) {
			h.fail(rt, "Size = %d, model %d (queued id->priority %v)", sz, len(live), live)
		}
		if e := q.isEmpty(); e != (len(live) == 0) {
			h.fail(rt, "IsEmpty = %v, model size %d", e, len(live))
		}
	}
	rt.Repeat(acts)

	// drain: everything still queued must come out in priority order
	rest := q.popAll()
	h.op("drain PopAll()=%v", rest)
	if len(rest) != len(live) {
		h.fail(rt, "final PopAll returned %v, want the %d queued elements %v", rest, len(live), live)
	}
	for _, id := range rest {
		if _, ok := live[id]; !ok {
			h.fail(rt, "final PopAll returned %v: element %d is not queued; queued %v", rest, id, live)
		}
	}
	checkSorted(rt, "final PopAll", rest, live)
	if ties {
		h.label("equal_priorities_queued")
	}
	if maxLive >= 4 {
		h.label("heap_depth>=3")
	}
	if handles {
		return removedMiddle && popAfterRemove
	}
	return maxLive >= 4 && ties && h.has("popuntil_partial")
}

// TestPriorityQueue: ds/priorityqueue over an ascending and a descending priority type, including the
// removal handles returned by Push.
func TestPriorityQueue(t *testing.T) {
	const check = "priorityqueue"
	stats.Rule(check, "rapid state machine over priorityqueue.PriorityQueue[int,P], P ascending or descending ints 0..5 (ties frequent), unique element ids; Push/Peek/Pop/PopUntil/PopAll/Size/IsEmpty and the removal handles of live, popped and already removed elements vs a multiset model (validity predicate among ties); non-trivial = a handle removed a queued element that was not at the head and a later pop returned elements; distinct by (ordering, operation list)")
	rapid.Check(t, func(rt *rapid.T) {
		desc := rapid.Bool().Draw(rt, "descending")
		h := newHist(check, fmt.Sprintf("descending=%v", desc))
		defer h.guard(rt)
		h.done(runPQ(rt, h, newGenericPQ(desc), true))
	})
}

// TestTimedPriorityQueue: runtime/timed.PriorityQueue in ascending and (default) descending time order.
func TestTimedPriorityQueue(t *testing.T) {
	const check = "timed_priorityqueue"
	stats.Rule(check, "rapid state machine over timed.NewPriorityQueue[int](ascending / descending / default), times = fixed base + 0..5 s (ties frequent), each handed over in one of four rotating representations of the instant (local, UTC, two fixed zones); Push/Peek/Pop/PopUntil/PopAll/Size/IsEmpty vs a multiset model; ascending pops the earliest first and PopUntil(t) removes everything at or before t, descending the mirror image; non-trivial = at least 4 elements queued at once, equal times queued, and a PopUntil that removed some but not all elements; distinct by (mode, operation list)")
	rapid.Check(t, func(rt *rapid.T) {
		mode := rapid.SampledFrom([]string{"ascending", "descending-explicit", "descending-default"}).Draw(rt, "mode")
		h := newHist(check, mode)
		defer h.guard(rt)
		h.done(runPQ(rt, h, newTimedPQ(mode), false))
	})
}

package c05

import (
	"encoding/hex"
	"fmt"
	"sort"
	"strings"
	"time"

	"github.com/anishathalye/porcupine"
)

// hop is one completed operation of a recorded history in a self-contained, JSON-serialisable form: judging a
// history needs nothing but the list of hops (this is what a replay file carries).
//
// Kinds: get has set delete deleteprefix clear iterate iteratekeys, and bset / bdelete = ONE write of a committed
// batch (carrying the [call,return] stamps of its Commit, exactly as the property states it).
type hop struct {
	G     int    `json:"g"`              // goroutine (-1 = the final sequential read-back)
	Kind  string `json:"kind"`           //
	Realm string `json:"realm"`          // hex realm of the view the call went through
	Arg   string `json:"arg"`            // hex view-relative key (point ops) or prefix (prefix ops)
	Back  bool   `json:"back,omitempty"` // iterate: descending
	Stop  int    `json:"stop,omitempty"` // iterate: consumer returns false on its Stop-th call (0 = never)
	Val   int    `json:"val,omitempty"`  // set / bset: id of the (unique) value written
	Batch int    `json:"batch,omitempty"`
	Call  int64  `json:"call"`
	Ret   int64  `json:"ret"`
	// results
	Found   bool     `json:"found,omitempty"`    // get / has
	OutVal  int      `json:"out_val,omitempty"`  // get: id of the value read (-1 = bytes that no operation ever wrote)
	OutKeys []string `json:"out_keys,omitempty"` // iterate: hex view-relative keys in the order reported
	OutVals []int    `json:"out_vals,omitempty"` // iterate (not iteratekeys): value ids in the same order
}

func (h hop) String() string {
	s := fmt.Sprintf("g%d [%d,%d] realm=%s %s(%s", h.G, h.Call, h.Ret, orQuote(h.Realm), h.Kind, orQuote(h.Arg))
	switch h.Kind {
	case "set", "bset":
		s += fmt.Sprintf(", #%d)", h.Val)
	case "get":
		if h.Found {
			s += fmt.Sprintf(") -> #%d", h.OutVal)
		} else {
			s += ") -> not found"
		}
	case "has":
		s += fmt.Sprintf(") -> %v", h.Found)
	case "iterate", "iteratekeys":
		dir := "asc"
		if h.Back {
			dir = "desc"
		}
		s += fmt.Sprintf(", %s, stop=%d) -> %v %v", dir, h.Stop, h.OutKeys, h.OutVals)
	default:
		s += ")"
	}
	if h.Kind == "bset" || h.Kind == "bdelete" {
		s += fmt.Sprintf(" {batch %d}", h.Batch)
	}
	return s
}

func orQuote(s string) string {
	if s == "" {
		return "''"
	}
	return s
}

func unhex(s string) string {
	b, err := hex.DecodeString(s)
	if err != nil {
		panic(err)
	}
	return string(b)
}

const maxUniverse = 28

// state of the sequential model: value id per full key of the universe (0 = absent). Comparable, so porcupine's
// default equality (==) applies.
type kvState [maxUniverse]uint16

type pInput struct {
	kind  string
	idx   int // point ops
	val   uint16
	match []int // prefix ops: universe indexes carrying realm||prefix, ordered as the call must report them
	stop  int
}

type pOutput struct {
	found bool
	val   int
	idx   []int // iterate: universe index of every reported key (-1 = unknown key)
	vals  []int
	keys  bool // iteratekeys: values not reported
}

// seqModel is the C04 contract as a pure step function over one ordered map keyed by realm||key.
var seqModel = porcupine.Model{
	Init: func() interface{} { return kvState{} },
	Step: func(st, in, out interface{}) (bool, interface{}) {
		s := st.(kvState)
		i := in.(pInput)
		o := out.(pOutput)
		switch i.kind {
		case "set", "bset":
			s[i.idx] = i.val
			return true, s
		case "delete", "bdelete":
			s[i.idx] = 0
			return true, s
		case "get":
			if !o.found {
				return s[i.idx] == 0, s
			}
			return s[i.idx] != 0 && int(s[i.idx]) == o.val, s
		case "has":
			return (s[i.idx] != 0) == o.found, s
		case "deleteprefix", "clear":
			for _, x := range i.match {
				s[x] = 0
			}
			return true, s
		case "iterate", "iteratekeys":
			// an atomic read of the filtered sorted state, cut where the consumer stopped
			n := 0
			for _, x := range i.match {
				if s[x] == 0 {
					continue
				}
				if i.stop > 0 && n == i.stop {
					break
				}
				if n >= len(o.idx) || o.idx[n] != x {
					return false, s
				}
				if !o.keys && o.vals[n] != int(s[x]) {
					return false, s
				}
				n++
			}
			return n == len(o.idx), s
		}
		panic("unknown kind " + i.kind)
	},
	Hash: func(st interface{}) uint64 {
		s := st.(kvState)
		h := uint64(14695981039346656037)
		for _, v := range s {
			h = (h ^ uint64(v)) * 1099511628211
		}
		return h
	},
	DescribeOperation: func(in, out interface{}) string { return fmt.Sprintf("%+v -> %+v", in, out) },
}

// perKeyModel: the same contract restricted to point operations, partitioned by full key (large programs).
var perKeyModel = porcupine.Model{
	Partition: func(history []porcupine.Operation) [][]porcupine.Operation {
		by := map[int][]porcupine.Operation{}
		var order []int
		for _, op := range history {
			k := op.Input.(pInput).idx
			if _, ok := by[k]; !ok {
				order = append(order, k)
			}
			by[k] = append(by[k], op)
		}
		sort.Ints(order)
		out := make([][]porcupine.Operation, 0, len(order))
		for _, k := range order {
			out = append(out, by[k])
		}
		return out
	},
	Init: func() interface{} { return uint16(0) },
	Step: func(st, in, out interface{}) (bool, interface{}) {
		s := st.(uint16)
		i := in.(pInput)
		o := out.(pOutput)
		switch i.kind {
		case "set", "bset":
			return true, i.val
		case "delete", "bdelete":
			return true, uint16(0)
		case "get":
			if !o.found {
				return s == 0, s
			}
			return s != 0 && int(s) == o.val, s
		case "has":
			return (s != 0) == o.found, s
		}
		panic("per-key model: kind " + i.kind)
	},
}

type verdict struct {
	Result   string   `json:"result"` // ok | illegal | unknown
	Problem  string   `json:"problem,omitempty"`
	Universe []string `json:"universe,omitempty"`
}

func isPrefixKind(k string) bool {
	return k == "deleteprefix" || k == "clear" || k == "iterate" || k == "iteratekeys"
}

func isWriteKind(k string) bool {
	return k == "set" || k == "delete" || k == "bset" || k == "bdelete"
}

// judge decides a recorded history with porcupine against the sequential model. It is a pure function of the hops
// (re-judging a saved history is deterministic; only an "unknown" depends on the time budget).
func judge(hist []hop, perKey bool, timeout time.Duration) verdict {
	// universe = every full key a point operation addressed; nothing else can ever be present
	uni := map[string]int{}
	var keys []string
	for _, h := range hist {
		if !isPrefixKind(h.Kind) {
			fk := unhex(h.Realm) + unhex(h.Arg)
			if _, ok := uni[fk]; !ok {
				uni[fk] = 0
				keys = append(keys, fk)
			}
		}
	}
	sort.Strings(keys)
	for i, k := range keys {
		uni[k] = i
	}
	hexKeys := make([]string, len(keys))
	for i, k := range keys {
		hexKeys[i] = hex.EncodeToString([]byte(k))
	}
	if len(keys) > maxUniverse && !perKey {
		panic(fmt.Sprintf("history addresses %d full keys, model state holds %d", len(keys), maxUniverse))
	}
	ops := make([]porcupine.Operation, 0, len(hist))
	for n, h := range hist {
		in := pInput{kind: h.Kind, val: uint16(h.Val), stop: h.Stop}
		out := pOutput{found: h.Found, val: h.OutVal}
		if isPrefixKind(h.Kind) {
			if perKey {
				panic("prefix operation in a per-key history")
			}
			realm := unhex(h.Realm)
			fp := realm + unhex(h.Arg)
			for i, k := range keys { // ascending
				if strings.HasPrefix(k, fp) {
					in.match = append(in.match, i)
				}
			}
			if h.Back {
				for i, j := 0, len(in.match)-1; i < j; i, j = i+1, j-1 {
					in.match[i], in.match[j] = in.match[j], in.match[i]
				}
			}
			if h.Kind == "iterate" || h.Kind == "iteratekeys" {
				out.keys = h.Kind == "iteratekeys"
				out.vals = h.OutVals
				for _, ok := range h.OutKeys {
					i, known := uni[realm+unhex(ok)]
					if !known {
						return verdict{Result: "illegal", Universe: hexKeys,
							Problem: fmt.Sprintf("op %d (%s) reported key %s which no operation ever addressed", n, h, ok)}
					}
					out.idx = append(out.idx, i)
				}
				if !out.keys && len(out.vals) != len(out.idx) {
					return verdict{Result: "illegal", Universe: hexKeys, Problem: fmt.Sprintf("op %d (%s): %d keys but %d values", n, h, len(out.idx), len(out.vals))}
				}
			}
		} else {
			in.idx = uni[unhex(h.Realm)+unhex(h.Arg)]
		}
		if h.Ret < h.Call {
			panic("hop returns before it is called")
		}
		ops = append(ops, porcupine.Operation{ClientId: h.G + 1, Input: in, Call: h.Call, Output: out, Return: h.Ret})
	}
	model := seqModel
	if perKey {
		model = perKeyModel
	}
	switch porcupine.CheckOperationsTimeout(model, ops, timeout) {
	case porcupine.Ok:
		return verdict{Result: "ok"}
	case porcupine.Illegal:
		return verdict{Result: "illegal", Universe: hexKeys, Problem: "no linearization of the recorded history satisfies the ordered-map contract"}
	default:
		return verdict{Result: "unknown"}
	}
}

// overlap classes measured from the history (the non-trivial rule): two operations of DIFFERENT goroutines whose
// [call,ret] intervals intersect and that touch the same full key, at least one of them writing.
func overlapLabels(hist []hop) (labels []string, nontrivial bool) {
	type acc struct {
		h     hop
		point string // full key for point ops
		fp    string // full prefix for prefix ops
	}
	as := make([]acc, len(hist))
	for i, h := range hist {
		a := acc{h: h}
		if isPrefixKind(h.Kind) {
			a.fp = unhex(h.Realm) + unhex(h.Arg)
		} else {
			a.point = unhex(h.Realm) + unhex(h.Arg)
		}
		as[i] = a
	}
	seen := map[string]bool{}
	touches := func(p, w acc) bool { // prefix op p covers the key written by w
		return strings.HasPrefix(w.point, p.fp)
	}
	for i := range as {
		for j := i + 1; j < len(as); j++ {
			a, b := as[i], as[j]
			if a.h.G == b.h.G || a.h.G < 0 || b.h.G < 0 {
				continue
			}
			if a.h.Ret < b.h.Call || b.h.Ret < a.h.Call {
				continue
			}
			ap, bp := isPrefixKind(a.h.Kind), isPrefixKind(b.h.Kind)
			aw, bw := isWriteKind(a.h.Kind), isWriteKind(b.h.Kind)
			switch {
			case !ap && !bp && a.point == b.point:
				switch {
				case aw && bw:
					seen["overlap:write_write_same_key"] = true
				case aw || bw:
					seen["overlap:read_write_same_key"] = true
				default:
					seen["overlap:read_read_same_key"] = true
				}
				if a.h.Realm != b.h.Realm {
					seen["overlap:same_key_through_different_realms"] = true
				}
				if (aw && (a.h.Kind[0] == 'b')) || (bw && (b.h.Kind[0] == 'b')) {
					seen["overlap:batch_write_with_other_op_same_key"] = true
				}
			case ap && bw && touches(a, b):
				seen["overlap:"+a.h.Kind+"_with_write_of_matching_key"] = true
			case bp && aw && touches(b, a):
				seen["overlap:"+b.h.Kind+"_with_write_of_matching_key"] = true
			case ap && bp:
				am, bm := a.h.Kind == "deleteprefix" || a.h.Kind == "clear", b.h.Kind == "deleteprefix" || b.h.Kind == "clear"
				if (am != bm) && (strings.HasPrefix(a.fp, b.fp) || strings.HasPrefix(b.fp, a.fp)) {
					seen["overlap:iterate_with_deleteprefix"] = true
				}
			}
		}
	}
	for l := range seen {
		labels = append(labels, l)
		if l != "overlap:read_read_same_key" {
			nontrivial = true
		}
	}
	sort.Strings(labels)
	return labels, nontrivial
}

// finalAsGets rewrites the final whole-store read-back (hop of goroutine -1) into one Get per full key that any
// point operation addressed, so that a history of point operations can be judged per key.
func finalAsGets(hist []hop) []hop {
	out := make([]hop, 0, len(hist))
	seen := map[string]bool{}
	var keys []string
	for _, h := range hist {
		if h.G >= 0 {
			fk := unhex(h.Realm) + unhex(h.Arg)
			if !seen[fk] {
				seen[fk] = true
				keys = append(keys, fk)
			}
		}
	}
	sort.Strings(keys)
	for _, h := range hist {
		if h.G >= 0 {
			out = append(out, h)
			continue
		}
		got := map[string]int{}
		for i, k := range h.OutKeys {
			got[unhex(k)] = h.OutVals[i]
		}
		for _, fk := range keys {
			g := hop{G: -1, Kind: "get", Realm: "", Arg: hex.EncodeToString([]byte(fk)), Call: h.Call, Ret: h.Ret}
			if v, ok := got[fk]; ok {
				g.Found, g.OutVal = true, v
				delete(got, fk)
			}
			out = append(out, g)
		}
		var rest []string
		for k := range got { // keys nobody addressed: keep them visible (they make the history illegal)
			rest = append(rest, k)
		}
		sort.Strings(rest)
		for _, k := range rest {
			out = append(out, hop{G: -1, Kind: "get", Realm: "", Arg: hex.EncodeToString([]byte(k)), Call: h.Call, Ret: h.Ret, Found: true, OutVal: got[k]})
		}
	}
	return out
}

package c02

import (
	"encoding/hex"
	"fmt"
	"reflect"
	"runtime"
	"testing"

	"pgregory.net/rapid"
	"verifharness/internal/serixgen"
	"verifharness/internal/stats"
)

func cfg() serixgen.Config {
	if stats.Tier() == "thorough" {
		return serixgen.ThoroughConfig
	}
	return serixgen.QuickConfig
}

// Allocation cap: a decoder may allocate in proportion to the input it was given, not to a length field. The
// constants are calibrated >= 20x above the maximum observed on valid inputs (a valid 51-byte decode allocates
// about 1.2 KB, an error path with wrapped errors a few KB more).
const (
	allocBase    = 1 << 20 // 1 MiB
	allocPerByte = 2 << 10 // 2 KiB per input byte
	// two inputs that differ only in an over-long length field (L vs 16L, both beyond the remaining input) must
	// allocate about the same
	allocIndependenceSlack = 8 << 10
)

func allocCap(inputLen int) uint64 { return allocBase + uint64(allocPerByte)*uint64(inputLen) }

// measure runs f and returns the bytes allocated meanwhile (rapid properties run on one goroutine; the background
// GC workers do not allocate on the heap counters measured here in any relevant amount).
func measure(f func()) uint64 {
	var a, b runtime.MemStats
	runtime.ReadMemStats(&a)
	f()
	runtime.ReadMemStats(&b)
	return b.TotalAlloc - a.TotalAlloc
}

func violation(rt *rapid.T, check string, c *serixgen.Case, extra map[string]any, format string, a ...any) {
	msg := fmt.Sprintf(format, a...)
	p := map[string]any{"schema": c.Root.String(), "problem": msg}
	for k, x := range extra {
		p[k] = x
	}
	stats.Violation(check, p)
	rt.Fatalf("%s: %s\nschema: %s\nextra: %v", check, msg, c.Root.String(), extra)
}

func widen(b []byte, off, w int) ([]byte, bool) {
	var v uint64
	for k := w - 1; k >= 0; k-- {
		v = v<<8 | uint64(b[off+k])
	}
	max := uint64(1)<<(8*uint(w)) - 1
	if v == 0 || v > max/16 || v*16 > serixgen.MaxHostile {
		return nil, false
	}
	nv := v * 16
	out := append([]byte{}, b...)
	for k := 0; k < w; k++ {
		out[off+k] = byte(nv >> (8 * uint(k)))
	}
	return out, true
}

func TestDecodeTotalBounded(t *testing.T) {
	const check = "serix_decode_total_bounded"
	stats.Rule(check, "inputs for a generated type shape: structure-aware mutations of a valid reference encoding (hostile length/count/optional markers incl. 2^24..2^30, bool 2..255, type codes, truncations, swapped/duplicated/dropped elements, time stamps > MaxInt64, garbage, havoc, random tails), the valid encoding itself, and raw random bytes; each input is decoded with validation off and on. Oracle: no panic; 0 <= n <= len(input) and n == 0 on error... (only n <= len is claimed); bytes allocated during the call <= 1 MiB + 2 KiB * len(input); for inputs with a planted over-long length field L (> remaining input) the same input with 16*L allocates at most 8 KiB more. Distinct by (shape, input); non-trivial = rejected after at least one structural field was read correctly (mutation not at offset 0) or accepted although mutated")
	rapid.Check(t, func(rt *rapid.T) {
		c := serixgen.NewCase(rt, cfg())
		v, _ := serixgen.GenValue(rt, c.Root, serixgen.ValidMode, cfg())
		decodeTotalBody(rt, check, c.Root.String(), c.Root, c.Decode, v)
	})
}

// TestTopLevelDecodeTotal: the same oracle for top-level objects (collections, strings, leaves, interface values,
// pointers) whose settings are passed with the Decode call (serix.WithTypeSettings).
func TestTopLevelDecodeTotal(t *testing.T) {
	const check = "serix_toplevel_decode_total"
	stats.Rule(check, "as serix_decode_total_bounded, but the destination of Decode is a top-level object: named pool collection, unnamed slice / map / array / string / byte slice with settings passed by serix.WithTypeSettings, leaf, pointer to an interface, pool struct, custom deserializable, coded byte-array pointer. Same inputs (structure-aware mutations of the valid encoding, the valid encoding, raw bytes) and the same oracle (no panic, n <= len, allocation cap, metamorphic L -> 16L). Distinct by (kind, shape, input); non-trivial as there")
	rapid.Check(t, func(rt *rapid.T) {
		c := serixgen.NewCaseWithTop(rt, cfg())
		v, _ := serixgen.GenValue(rt, c.Top, serixgen.ValidMode, cfg())
		stats.Label(check, "top:"+c.TopKind)
		decodeTotalBody(rt, check, c.TopKind+" "+c.Top.String(), c.Top, c.DecodeTop, v)
	})
}

func decodeTotalBody(rt *rapid.T, check, schema string, n *serixgen.Node, decode func([]byte, bool) serixgen.Outcome, v reflect.Value) {
	fail := func(ex map[string]any, format string, a ...any) {
		msg := fmt.Sprintf(format, a...)
		p := map[string]any{"schema": schema, "problem": msg}
		for k, x := range ex {
			p[k] = x
		}
		stats.Violation(check, p)
		rt.Fatalf("%s: %s\nschema: %s\nextra: %v", check, msg, schema, ex)
	}
	{
		ref := serixgen.RefEncode(n, v, false)
		var mut serixgen.Mutation
		if ref.Reject != "" {
			mut = serixgen.Mutation{B: rapid.SliceOfN(rapid.Byte(), 0, 48).Draw(rt, "raw"), Label: "raw_random", HostileOff: -1}
		} else {
			switch k := rapid.IntRange(0, 11).Draw(rt, "inputKind"); {
			case k == 0:
				mut = serixgen.Mutation{B: ref.B, Label: "valid", HostileOff: -1}
			case k <= 2:
				mut = serixgen.Mutation{B: rapid.SliceOfN(rapid.Byte(), 0, 48).Draw(rt, "raw"), Label: "raw_random", HostileOff: -1}
			default:
				mut = serixgen.Mutate(rt, ref)
			}
		}
		input := mut.B
		labels := []string{"input:" + mut.Label}
		nt := false
		for _, validate := range []bool{false, true} {
			ex := map[string]any{"input": hex.EncodeToString(input), "mutation": mut.Label, "validate": validate}
			// warm-up: the first decode of a freshly built reflect type fills reflect's and serix' type caches (the harness
			// creates thousands of types per process, and reflect's internal sync.Maps re-copy themselves as they grow);
			// a decoder that allocates from a length field does so on every call, so the second call is measured
			out := decode(input, validate)
			if out.Panic != nil {
				fail(ex, "Decode panicked: %v", out.Panic)
			}
			alloc := measure(func() { out = decode(input, validate) })
			if out.Panic != nil {
				fail(ex, "Decode panicked: %v", out.Panic)
			}
			if out.N < 0 || out.N > len(input) {
				fail(ex, "Decode reports %d consumed bytes for an input of %d bytes (err=%v)", out.N, len(input), out.Err)
			}
			if alloc > allocCap(len(input)) {
				ex["allocated_bytes"] = alloc
				fail(ex, "Decode allocated %d bytes for a %d-byte input (cap %d): allocation follows a length field, not the input", alloc, len(input), allocCap(len(input)))
			}
			if out.Err == nil {
				labels = append(labels, fmt.Sprintf("accepted(validate=%v)", validate))
				if mut.Label != "valid" {
					nt = true
				}
			} else {
				labels = append(labels, fmt.Sprintf("rejected(validate=%v)", validate))
				if mut.Label != "raw_random" && mut.Label != "valid" {
					nt = true
				}
			}
			if mut.HostileOff >= 0 {
				if wide, ok := widen(input, mut.HostileOff, mut.HostileW); ok {
					var out2 serixgen.Outcome
					// the first decode of a shape fills the struct-field cache: re-measure the L input warm, then 16L
					alloc = measure(func() { _ = decode(input, validate) })
					alloc2 := measure(func() { out2 = decode(wide, validate) })
					labels = append(labels, "metamorphic_pair")
					if out2.Panic != nil {
						ex["input"] = hex.EncodeToString(wide)
						fail(ex, "Decode panicked: %v", out2.Panic)
					}
					// one-directional: a larger over-long length may lead to an earlier rejection (less work), never to
					// more allocation, because the work a correct decoder does is bounded by the bytes it can consume
					// (the slack grows with the input: the two inputs may be rejected at different fields, and what was decoded
					// before the rejection - e.g. a 64 KiB string of a prefix-capacity test value - is copied legitimately)
					// a dependence on the length field shows in every repetition; a one-off allocation of the runtime (observed
					// once: ~10 KiB during one measurement that no replay reproduced) does not: re-measure before judging
					for rep := 0; rep < 3 && int64(alloc2)-int64(alloc) > allocIndependenceSlack+int64(len(input)); rep++ {
						alloc = measure(func() { _ = decode(input, validate) })
						alloc2 = measure(func() { out2 = decode(wide, validate) })
						stats.NoteAdd(check, "metamorphic_remeasured", 1)
					}
					if int64(alloc2)-int64(alloc) > allocIndependenceSlack+int64(len(input)) {
						ex["input_16x"] = hex.EncodeToString(wide)
						ex["allocated"] = []uint64{alloc, alloc2}
						fail(ex, "allocation depends on an over-long length field: %d bytes for L, %d bytes for 16L", alloc, alloc2)
					}
				}
			}
		}
		stats.Case(check, nt, schema+"|"+hex.EncodeToString(input), func() any {
			return map[string]any{"schema": schema, "input": hex.EncodeToString(input), "mutation": mut.Label}
		}, labels...)
	}
}

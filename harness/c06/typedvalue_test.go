package c06

import (
	"bytes"
	"encoding/binary"
	"errors"
	"fmt"
	"sort"
	"strings"
	"testing"

	"github.com/iotaledger/hive.go/kvstore"
	"github.com/iotaledger/hive.go/kvstore/mapdb"
	"pgregory.net/rapid"
	"verifharness/internal/stats"
)

var (
	tvKey        = []byte("typed-value-key")
	errMalformed = errors.New("verif: malformed bytes")
	errCompute   = errors.New("verif: compute function failed")
)

// compactZero selects the second codec flavour of the TypedValue histories: the value 0 is encoded as the empty byte
// string (a legal encoding that carries no bytes), everything else as 8 bytes. Only TestTypedValueFaultEnumeration sets
// it (per case, from a drawn bool) and resets it when the case ends; tests of one binary run one after the other.
var compactZero bool

func encodeInt(v int) []byte {
	if compactZero && v == 0 {
		return []byte{}
	}
	var b [8]byte
	binary.BigEndian.PutUint64(b[:], uint64(int64(v)))

	return b[:]
}

func decodeInt(b []byte) (int, error) {
	if compactZero && len(b) == 0 {
		return 0, nil
	}
	if len(b) != 8 {
		return 0, errMalformed
	}

	return int(int64(binary.BigEndian.Uint64(b))), nil
}

// codecs whose every call is a fault position of the injector
func intEncoder(in *injector) kvstore.ObjectToBytes[int] {
	return func(v int) ([]byte, error) {
		if err := in.hit("codec.encodeValue"); err != nil {
			return nil, err
		}

		return encodeInt(v), nil
	}
}

func intDecoder(in *injector) kvstore.BytesToObject[int] {
	return func(b []byte) (int, int, error) {
		if err := in.hit("codec.decodeValue"); err != nil {
			return 0, 0, err
		}
		v, err := decodeInt(b)
		if err != nil {
			return 0, 0, err
		}

		return v, len(b), nil
	}
}

// ---------------------------------------------------------------------------------------------
// history

type tvStep struct {
	Kind string // get has set delete add notchanged cfail reopen
	V    int
}

func (s tvStep) String() string {
	switch s.Kind {
	case "set", "add":
		return fmt.Sprintf("%s(%d)", s.Kind, s.V)
	default:
		return s.Kind
	}
}

func tvStrings(steps []tvStep) []string {
	out := make([]string, len(steps))
	for i, s := range steps {
		out[i] = s.String()
	}

	return out
}

func genTVHistory(t *rapid.T) []tvStep {
	n := rapid.IntRange(1, 25).Draw(t, "nSteps")
	kinds := []string{"get", "get", "has", "has", "set", "set", "delete", "add", "add", "add", "notchanged", "cfail", "reopen"}
	steps := make([]tvStep, 0, n)
	for i := 0; i < n; i++ {
		s := tvStep{Kind: rapid.SampledFrom(kinds).Draw(t, "kind")}
		if s.Kind == "set" || s.Kind == "add" {
			s.V = rapid.OneOf(rapid.Just(0), rapid.IntRange(-3, 3), rapid.IntRange(-3, 1000)).Draw(t, "v")
		}
		steps = append(steps, s)
	}

	return steps
}

// ---------------------------------------------------------------------------------------------
// executor + oracle

type tvEvent struct {
	Step     string   `json:"step"`
	Result   string   `json:"result"`
	Calls    []string `json:"codec_and_store_calls,omitempty"`
	FaultHit bool     `json:"fault_fired,omitempty"`
	Raw      string   `json:"raw_store_after"`
}

type tvOutcome struct {
	positions  int
	violation  string
	trace      []tvEvent
	labels     []string
	fired      int
	nontrivial bool
}

type tvRunner struct {
	inner kvstore.KVStore
	in    *injector
	store kvstore.KVStore
	tv    *kvstore.TypedValue[int]

	exists bool // model: raw key present
	val    int  // model: decoded raw bytes

	warm   bool // a value was read or written through the live object (so it is cached by a conforming implementation)
	out    tvOutcome
	labels map[string]bool
}

func (r *tvRunner) fail(format string, args ...any) {
	if r.out.violation == "" {
		r.out.violation = fmt.Sprintf(format, args...)
	}
}

func (r *tvRunner) open() {
	r.tv = kvstore.NewTypedValue[int](r.store, tvKey, intEncoder(r.in), intDecoder(r.in))
	r.warm = false
}

// rawCheck compares the raw store with the model and returns a rendering of the raw store.
func (r *tvRunner) rawCheck(after string) string {
	var keys []string
	var rendered []string
	_ = r.inner.Iterate(kvstore.EmptyPrefix, func(k kvstore.Key, v kvstore.Value) bool {
		keys = append(keys, string(k))
		rendered = append(rendered, fmt.Sprintf("%q=%x", k, v))

		return true
	})
	sort.Strings(rendered)
	raw := strings.Join(rendered, ",")
	switch {
	case !r.exists && len(keys) != 0:
		r.fail("after %s the store holds %s but the last successful write left the key absent", after, raw)
	case r.exists && (len(keys) != 1 || keys[0] != string(tvKey)):
		r.fail("after %s the store holds %s, want exactly the key with the encoding of %d", after, raw, r.val)
	case r.exists:
		b, _ := r.inner.Get(tvKey)
		if !bytes.Equal(b, encodeInt(r.val)) {
			r.fail("after %s the stored bytes are %x, want %x = encoding of the last successfully written value %d", after, b, encodeInt(r.val), r.val)
		}
	}

	return raw
}

// do executes one step against the library and judges it. It reports whether an injected fault fired in it.
func (r *tvRunner) do(s tvStep) bool {
	firedPre, callsPre := r.in.firedCount(), r.in.callCount()
	name := s.String()
	var result string
	var err error

	// compute function instrumentation
	fCalls := 0
	var obsCur int
	var obsExists bool
	wrap := func(f func(cur int, exists bool) (int, error)) func(int, bool) (int, error) {
		return func(cur int, exists bool) (int, error) {
			fCalls++
			obsCur, obsExists = cur, exists

			return f(cur, exists)
		}
	}
	checkObserved := func() {
		if fCalls > 1 {
			r.fail("%s: compute function called %d times", name, fCalls)
		}
		if fCalls == 1 && (obsExists != r.exists || (r.exists && obsCur != r.val)) {
			r.fail("%s: compute function saw (value=%d, exists=%v) but the raw key holds (value=%d, exists=%v)", name, obsCur, obsExists, r.val, r.exists)
		}
	}

	type expect struct {
		check func() // judges a fault-free execution
		apply func() // model update on success
	}
	var ex expect
	var gotV int
	var gotB bool

	switch s.Kind {
	case "reopen":
		r.open()
		r.out.trace = append(r.out.trace, tvEvent{Step: name, Result: "new TypedValue object on the same store", Raw: r.rawCheck(name)})

		return false
	case "get":
		gotV, err = r.tv.Get()
		result = fmt.Sprintf("(%d, %v)", gotV, err)
		ex.check = func() {
			switch {
			case r.exists && (err != nil || gotV != r.val):
				r.fail("Get = (%d, %v), raw key decodes to %d", gotV, err, r.val)
			case !r.exists && !errors.Is(err, kvstore.ErrKeyNotFound):
				r.fail("Get = (%d, %v), raw key is absent: want ErrKeyNotFound", gotV, err)
			}
			if r.exists {
				r.warm = true
			}
		}
	case "has":
		gotB, err = r.tv.Has()
		result = fmt.Sprintf("(%v, %v)", gotB, err)
		ex.check = func() {
			if err != nil || gotB != r.exists {
				r.fail("Has = (%v, %v), raw key present = %v", gotB, err, r.exists)
			}
		}
	case "set":
		err = r.tv.Set(s.V)
		result = fmt.Sprint(err)
		ex.check = func() {
			if err != nil {
				r.fail("Set(%d) failed although nothing was told to fail: %v", s.V, err)
			}
		}
		ex.apply = func() { r.exists, r.val, r.warm = true, s.V, true }
	case "delete":
		err = r.tv.Delete()
		result = fmt.Sprint(err)
		ex.check = func() {
			if err != nil {
				r.fail("Delete failed although nothing was told to fail: %v", err)
			}
		}
		ex.apply = func() { r.exists, r.val, r.warm = false, 0, false }
	case "add":
		var want int
		gotV, err = r.tv.Compute(wrap(func(cur int, exists bool) (int, error) {
			if !exists {
				want = s.V

				return want, nil
			}
			want = cur + s.V

			return want, nil
		}))
		result = fmt.Sprintf("(%d, %v) f saw (%d, %v)", gotV, err, obsCur, obsExists)
		ex.check = func() {
			if fCalls != 1 {
				r.fail("%s: compute function called %d times", name, fCalls)
			} else if err != nil || gotV != want {
				r.fail("%s = (%d, %v), want (%d, nil)", name, gotV, err, want)
			}
		}
		ex.apply = func() { r.exists, r.val, r.warm = true, want, true }
	case "notchanged":
		if r.warm && r.exists {
			r.labels["notchanged_with_cached_value"] = true
			r.out.nontrivial = true
		}
		gotV, err = r.tv.Compute(wrap(func(cur int, exists bool) (int, error) {
			return cur + 4711, kvstore.ErrTypedValueNotChanged
		}))
		result = fmt.Sprintf("(%d, %v) f saw (%d, %v)", gotV, err, obsCur, obsExists)
		ex.check = func() {
			if fCalls != 1 {
				r.fail("%s: compute function called %d times", name, fCalls)
			} else if err != nil {
				r.fail("Compute aborted with ErrTypedValueNotChanged must return no error, got %v", err)
			} else if r.exists && gotV != r.val {
				r.fail("Compute aborted with ErrTypedValueNotChanged returned %d, current value is %d", gotV, r.val)
			}
		}
	case "cfail":
		gotV, err = r.tv.Compute(wrap(func(cur int, exists bool) (int, error) {
			return cur - 4711, errCompute
		}))
		result = fmt.Sprintf("(%d, %v) f saw (%d, %v)", gotV, err, obsCur, obsExists)
		ex.check = func() {
			if fCalls != 1 {
				r.fail("%s: compute function called %d times", name, fCalls)
			} else if !errors.Is(err, errCompute) {
				r.fail("Compute whose function failed returned %v, want the function's error", err)
			}
		}
	default:
		panic("unknown step " + s.Kind)
	}

	fired := r.in.firedCount() > firedPre
	checkObserved()
	if fired {
		r.labels["fault_in_"+s.Kind] = true
		r.labels["fault_at_"+r.in.firedIn[len(r.in.firedIn)-1]] = true
		// error-faithful: the failure must be reported, store and cache stay as they were
		if err == nil {
			r.fail("%s: call %q failed but %s reported success (%s)", name, r.in.firedIn[len(r.in.firedIn)-1], s.Kind, result)
		} else if !errors.Is(err, errInjected) {
			r.fail("%s: call %q failed with the injected error but %s returned %v", name, r.in.firedIn[len(r.in.firedIn)-1], s.Kind, err)
		}
	} else {
		ex.check()
		if ex.apply != nil && r.out.violation == "" {
			ex.apply()
		}
	}
	ev := tvEvent{Step: name, Result: result, Calls: append([]string(nil), r.in.calls[callsPre:]...), FaultHit: fired}
	ev.Raw = r.rawCheck(name)
	r.out.trace = append(r.out.trace, ev)

	return fired
}

// runTV executes the history with faults armed at the given call positions. With probe set, Get and Has are called
// right after the step in which the first fault fired (is the cache ahead of / behind the store?); in every run they
// are called at the end, followed by a Get through a brand-new TypedValue object.
func runTV(steps []tvStep, probe bool, failAt ...int) tvOutcome {
	r := &tvRunner{inner: mapdb.NewMapDB(), in: newInjector(failAt...), labels: map[string]bool{}}
	r.store = newFaultKV(r.inner, r.in)
	r.open()
	probed := false
	for _, s := range steps {
		if r.out.violation != "" {
			break
		}
		if r.do(s) && probe && !probed {
			probed = true
			r.do(tvStep{Kind: "get"})
			r.do(tvStep{Kind: "has"})
		}
	}
	r.out.positions = r.in.callCount() // before the closing probes
	for _, s := range []tvStep{{Kind: "has"}, {Kind: "get"}, {Kind: "reopen"}, {Kind: "get"}, {Kind: "has"}} {
		if r.out.violation == "" {
			r.do(s)
		}
	}
	r.out.fired = r.in.firedCount()
	if r.out.fired > 0 {
		r.out.nontrivial = true
	}
	for l := range r.labels {
		r.out.labels = append(r.out.labels, l)
	}
	sort.Strings(r.out.labels)

	return r.out
}

// ---------------------------------------------------------------------------------------------

const checkTV = "typedvalue_fault_enumeration"

type fataler interface{ Fatalf(string, ...any) }

func judgeTV(t fataler, steps []tvStep, probe bool, failAt []int, o tvOutcome) {
	key := fmt.Sprintf("%s|%v|%v", strings.Join(tvStrings(steps), ";"), failAt, probe)
	labels := o.labels
	if len(failAt) == 2 {
		labels = append(labels, "double_fault")
	}
	stats.Case(checkTV, o.nontrivial, key, func() any {
		return map[string]any{"history": tvStrings(steps), "fail_calls": failAt, "probe_after_fault": probe, "trace": o.trace}
	}, labels...)
	if o.violation != "" {
		p := map[string]any{"history": tvStrings(steps), "fail_calls": failAt, "probe_after_fault": probe, "problem": o.violation, "trace": o.trace}
		stats.Violation(checkTV, p)
		t.Fatalf("%s\nhistory=%v failing calls=%v probe=%v\ntrace=%+v", o.violation, tvStrings(steps), failAt, probe, o.trace)
	}
}

func TestTypedValueFaultEnumeration(t *testing.T) {
	stats.Rule(checkTV, "rapid draws a history of <=25 steps (Get/Has/Set/Delete/Compute{add,abort with ErrTypedValueNotChanged,fail}/reopen) on TypedValue[int] over faultkv(mapdb) with countable codecs (two flavours: 8 bytes per value, or 0 encoded as the empty byte string); it is run fault free (P = number of codec+store calls), then re-run for every position 1..P with exactly that call failing, once continuing the history and once with Get+Has probes right after the failed step, plus 3 drawn double faults. After every step the raw store must hold exactly the encoding of the last successfully written value. Case = (history, failing positions, probe). Non-trivial = an injected failure was reached, or a Compute aborted with NotChanged after a value was cached")
	rapid.Check(t, func(rt *rapid.T) {
		compactZero = rapid.Bool().Draw(rt, "codecEncodesZeroAsEmpty")
		defer func() { compactZero = false }()
		if compactZero {
			stats.Label(checkTV, "codec:zero_as_empty_bytes")
		}
		steps := genTVHistory(rt)
		base := runTV(steps, false)
		judgeTV(rt, steps, false, nil, base)
		for pos := 1; pos <= base.positions; pos++ {
			for _, probe := range []bool{false, true} {
				o := runTV(steps, probe, pos)
				if o.fired == 0 {
					rt.Fatalf("harness: position %d of %d not reached in the re-run of %v", pos, base.positions, tvStrings(steps))
				}
				judgeTV(rt, steps, probe, []int{pos}, o)
			}
		}
		if base.positions >= 2 {
			for i := 0; i < 3; i++ {
				p := rapid.IntRange(1, base.positions-1).Draw(rt, "fault1")
				q := rapid.IntRange(p+1, base.positions+2).Draw(rt, "fault2")
				probe := rapid.Bool().Draw(rt, "probe")
				judgeTV(rt, steps, probe, []int{p, q}, runTV(steps, probe, p, q))
			}
		}
		stats.NoteAdd(checkTV, "histories", 1)
		stats.NoteAdd(checkTV, "fault_positions_enumerated", int64(base.positions))
	})
}

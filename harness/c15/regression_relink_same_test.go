// Found by an independent auditor (third round): the repair that bounds Trigger to the hooks attached before it began made
// a linked event that is linked to its (unchanged) target again miss a trigger of that target that was in progress.
package c15

import (
	"sync/atomic"
	"testing"

	"github.com/iotaledger/hive.go/runtime/event"
)

// A linked event is linked to the SAME target again (by another goroutine) while a trigger of that target is in flight
// and has not reached the link hook yet. The target is the current target of the linked event before, during and after
// the trigger, so the linked event has to fire exactly once for it. Since the repair "Trigger leaves hooks attached
// while it is in progress to the next trigger" it fires ZERO times: linkTo unhooks the old link hook (not visited yet)
// and the replacement hook has an id above the lastHookID of the running trigger, so it is skipped.
func TestHuntRelinkSameTargetInFlightLosesTrigger(t *testing.T) {
	target := event.New1[int]()
	linked := event.New1[int]()

	var fired atomic.Int64
	linked.Hook(func(int) { fired.Add(1) })

	reached := make(chan struct{})
	proceed := make(chan struct{})
	first := true
	// attached before the link hook: the trigger stands on this hook while the other goroutine re-links
	target.Hook(func(int) {
		if first {
			first = false
			close(reached)
			<-proceed
		}
	})

	linked.LinkTo(target)

	go func() {
		<-reached
		linked.LinkTo(target) // same target again, from a different goroutine (no re-entrancy)
		close(proceed)
	}()

	target.Trigger(1)

	if got := fired.Load(); got != 1 {
		t.Fatalf("linked event fired %d times for one trigger of its (unchanged) current target, want exactly 1", got)
	}
}

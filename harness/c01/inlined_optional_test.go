package c01

import (
	"context"
	"reflect"
	"testing"

	"github.com/iotaledger/hive.go/serializer/v2/serix"
	"pgregory.net/rapid"
	"verifharness/internal/stats"
)

// The shapes below combine the tags `inlined` and `optional` / `omitempty`, which the generated shapes never do. A nil
// member used to be left out by MapEncode but required by MapDecode (the former known finding KF-C01-1, repaired in
// /repo by b492f7f).
type knInl struct {
	A uint8  `serix:""`
	B uint16 `serix:""`
}

type knOmit struct {
	C uint8  `serix:""`
	D uint16 `serix:""`
}

type knHolder struct {
	Y uint16 `serix:""`
	I *knInl `serix:",inlined,optional"`
	O knOmit `serix:",inlined,omitempty"`
	Z uint8  `serix:""`
}

// TestInlinedOptionalJSON: values of a struct with an `inlined,optional` pointer member (nil or not) and an
// `inlined,omitempty` value member (zero or not). The binary form has to round-trip always, the JSON form whenever
// JSONEncode accepts the value.
func TestInlinedOptionalJSON(t *testing.T) {
	const check = "inlined_optional_json"
	stats.Rule(check, "rapid draws values of struct{Y uint16; I *struct{A uint8; B uint16} `inlined,optional`; O struct{C uint8; D uint16} `inlined,omitempty`; Z uint8} (I nil in half of the cases, O zero in half of them) and validation on/off. Oracle: Encode/Decode round-trips to an equal value and consumes everything; JSONEncode/JSONDecode round-trips. Distinct by value; non-trivial = I is nil or O is zero")
	api := serix.NewAPI()
	ctx := context.Background()
	rapid.Check(t, func(rt *rapid.T) {
		in := &knHolder{Y: rapid.Uint16().Draw(rt, "y"), Z: rapid.Uint8().Draw(rt, "z")}
		if rapid.Bool().Draw(rt, "present") {
			in.I = &knInl{A: rapid.Uint8().Draw(rt, "a"), B: rapid.Uint16().Draw(rt, "b")}
		}
		if rapid.Bool().Draw(rt, "omitPresent") {
			in.O = knOmit{C: rapid.Uint8().Draw(rt, "c"), D: rapid.Uint16().Draw(rt, "d")}
		}
		var opts []serix.Option
		if rapid.Bool().Draw(rt, "validation") {
			opts = append(opts, serix.WithValidation())
		}
		fail := func(problem string) {
			stats.Violation(check, map[string]any{"value": in, "inner": in.I, "problem": problem})
			rt.Fatalf("%+v (I=%+v): %s", in, in.I, problem)
		}
		b, err := api.Encode(ctx, in, opts...)
		if err != nil {
			fail("Encode failed: " + err.Error())
		}
		out := &knHolder{}
		if n, err := api.Decode(ctx, b, out, opts...); err != nil || n != len(b) || !reflect.DeepEqual(in, out) {
			fail("binary round trip failed")
		}
		j, err := api.JSONEncode(ctx, in, opts...)
		if err != nil {
			fail("JSONEncode failed: " + err.Error())
		}
		jout := &knHolder{}
		err = api.JSONDecode(ctx, j, jout, opts...)
		switch {
		case err == nil && reflect.DeepEqual(in, jout):
		case err != nil:
			fail("JSONDecode of " + string(j) + " failed: " + err.Error())
		default:
			fail("JSON round trip of " + string(j) + " changed the value")
		}
		stats.Case(check, in.I == nil || in.O == (knOmit{}), string(j), func() any { return string(j) })
	})
}

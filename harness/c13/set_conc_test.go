package c13

import (
	"fmt"
	"strings"
	"sync"
	"sync/atomic"
	"testing"

	"github.com/iotaledger/hive.go/ds"
	"github.com/iotaledger/hive.go/ds/reactive"
	"pgregory.net/rapid"
	"verifharness/internal/ctl"
	"verifharness/internal/stats"
)

// ---------------------------------------------------------------------------------------------------------
// reactive.Set[int], concurrent variant: writer goroutines with drawn scripts, subscriber goroutines that
// subscribe / unsubscribe (several rounds) while the writers run. A reference subscriber that is present for
// the whole run supplies the serial list of applied mutations; it is itself judged by the strict fold.
// ---------------------------------------------------------------------------------------------------------

type setConcProg struct {
	Init    []int      `json:"init"`
	Writers [][]setOp  `json:"writers"`
	Subs    []csubSpec `json:"subs"` // Kind: update | update_init
}

func (p setConcProg) strings() []string {
	out := []string{fmt.Sprintf("init %v", p.Init)}
	for i, w := range p.Writers {
		var s []string
		for _, o := range w {
			s = append(s, fmt.Sprintf("y%d %s", o.Yld, o))
		}
		out = append(out, fmt.Sprintf("W%d: %s", i, strings.Join(s, ", ")))
	}
	for i, s := range p.Subs {
		out = append(out, fmt.Sprintf("S%d: y%d %s %s/%d cby%d x%d", i, s.Start, s.Kind, s.Policy, s.N, s.CbYield, s.Rounds))
	}
	return out
}

type setConcSub struct {
	spec             csubSpec
	goroutine, round int
	mu               sync.Mutex
	log              []mutRec
	busy             atomic.Int32
	overlap          atomic.Int32
	notify           chan struct{}
	s0, s1, u0, u1   int64
	unsub            func()
}

func (s *setConcSub) snapshot() []mutRec {
	s.mu.Lock()
	defer s.mu.Unlock()
	return append([]mutRec(nil), s.log...)
}

func (s *setConcSub) callback(clock *ctl.Clock) func(m ds.SetMutations[int]) {
	return func(m ds.SetMutations[int]) {
		in := clock.Tick()
		if !s.busy.CompareAndSwap(0, 1) {
			s.overlap.Add(1)
		}
		rec := recOf(m, in)
		gosched(s.spec.CbYield)
		rec.Out = clock.Tick()
		s.mu.Lock()
		s.log = append(s.log, rec)
		s.mu.Unlock()
		s.busy.Store(0)
		select {
		case s.notify <- struct{}{}:
		default:
		}
	}
}

type setConcOutcome struct {
	hang   bool
	dump   string
	ref    *setConcSub
	subs   []*setConcSub
	writes [][]writeStamp
	final  []int
}

func execSetConc(p setConcProg) setConcOutcome {
	var clock ctl.Clock
	set := reactive.NewSet[int](p.Init...)
	out := setConcOutcome{}
	ref := &setConcSub{spec: csubSpec{Kind: subUpdateInit, Policy: "never"}, notify: make(chan struct{}, 1)}
	ref.s0 = clock.Tick()
	ref.unsub = set.OnUpdate(ref.callback(&clock), true)
	ref.s1 = clock.Tick()
	out.ref = ref

	start := make(chan struct{})
	writersDone := make(chan struct{})
	var wwg, swg sync.WaitGroup
	out.writes = make([][]writeStamp, len(p.Writers))
	for wi, script := range p.Writers {
		wwg.Add(1)
		go func(wi int, script []setOp) {
			defer wwg.Done()
			<-start
			for _, o := range script {
				gosched(o.Yld)
				st := writeStamp{A: clock.Tick()}
				doSetOp(set, o)
				st.B = clock.Tick()
				out.writes[wi] = append(out.writes[wi], st)
			}
		}(wi, script)
	}
	var subsMu sync.Mutex
	for gi, spec := range p.Subs {
		swg.Add(1)
		go func(gi int, spec csubSpec) {
			defer swg.Done()
			<-start
			rounds := spec.Rounds
			if rounds < 1 {
				rounds = 1
			}
			for round := 0; round < rounds; round++ {
				s := &setConcSub{spec: spec, goroutine: gi, round: round, notify: make(chan struct{}, 1)}
				subsMu.Lock()
				out.subs = append(out.subs, s)
				subsMu.Unlock()
				gosched(spec.Start)
				s.s0 = clock.Tick()
				unsub := set.OnUpdate(s.callback(&clock), spec.Kind == subUpdateInit)
				s.s1 = clock.Tick()
				s.unsub = unsub
				policy := spec.Policy
				if policy == "never" && round < rounds-1 {
					policy = "yields"
				}
				switch policy {
				case "never":
					return
				case "yields":
					gosched(spec.N)
				case "calls":
				loop:
					for {
						s.mu.Lock()
						n := len(s.log)
						s.mu.Unlock()
						if n >= spec.N {
							break
						}
						select {
						case <-s.notify:
						case <-writersDone:
							break loop
						}
					}
				}
				s.u0 = clock.Tick()
				unsub() // own goroutine, never inside the own callback
				s.u1 = clock.Tick()
			}
		}(gi, spec)
	}
	ok := ctl.Within(hangTimeout(), func() {
		close(start)
		wwg.Wait()
		close(writersDone)
		swg.Wait()
	})
	if !ok {
		hangSeen.Store(true)
		out.hang = true
		out.dump = ctl.Dump()
		return out
	}
	out.final = sliceOf(set)
	ref.unsub()
	for _, s := range out.subs {
		if s.u1 == 0 && s.unsub != nil {
			s.unsub()
		}
	}
	return out
}

func judgeSetConc(p setConcProg, o setConcOutcome) verdict {
	v := verdict{}
	labels := map[string]bool{}
	var errs []string
	if o.hang {
		v.Hang = true
		v.Msg = "run did not finish within the hang bound; goroutine dump:\n" + o.dump
		return v
	}
	final := fmt.Sprint(o.final)

	// reference subscriber: initial report == initial contents, strict fold, fold == final contents
	refLog := o.ref.snapshot()
	if o.ref.overlap.Load() != 0 {
		errs = append(errs, "reference subscriber: callbacks overlapped")
	}
	st := map[int]bool{}
	for i, m := range refLog {
		if probs := foldStrict(st, m); len(probs) > 0 {
			errs = append(errs, "subscriber present during the whole run: "+strings.Join(probs, ", "))
		}
		if i > 0 && m.In < refLog[i-1].Out {
			errs = append(errs, "subscriber present during the whole run: callbacks overlapped by stamps")
		}
	}
	if got := fmt.Sprint(sortedInts(st)); got != final {
		errs = append(errs, fmt.Sprintf("subscriber present during the whole run: folding its reports %s gives %s, the set holds %s", mutsStr(refLog), got, final))
	}
	if len(refLog) == 0 || fmt.Sprint(refLog[0].Added) != fmt.Sprint(sortedInts(toSet(p.Init))) || len(refLog[0].Deleted) != 0 {
		errs = append(errs, fmt.Sprintf("reference subscriber registered at contents %v saw %s first", p.Init, mutsStr(refLog)))
		v.Msg = strings.Join(errs, "; ")
		return v
	}
	// serial history of applied (non-empty) mutations with the states between them
	hist := nonEmpty(refLog[1:])
	states := make([][]int, len(hist)+1)
	cur := toSet(p.Init)
	states[0] = sortedInts(cur)
	for i, m := range hist {
		foldStrict(cur, m)
		states[i+1] = sortedInts(cur)
	}
	for _, m := range hist {
		if len(m.Added) > 0 && len(m.Deleted) > 0 {
			labels["mixed_mutation"] = true
		}
	}

	var firstW, lastW int64
	for _, ws := range o.writes {
		for _, w := range ws {
			if firstW == 0 || w.A < firstW {
				firstW = w.A
			}
			if w.B > lastW {
				lastW = w.B
			}
		}
	}
	overlapsWrite := func(a, b int64) bool {
		for _, ws := range o.writes {
			for _, w := range ws {
				if w.A < b && a < w.B {
					return true
				}
			}
		}
		return false
	}
	// lower bound of the registration index: reports the reference subscriber got before the subscribe call started
	refBefore := func(s int64) int {
		n := 0
		for _, m := range hist {
			if m.In < s {
				n++
			}
		}
		return n
	}

	for _, s := range o.subs {
		name := fmt.Sprintf("S%d.%d(%s)", s.goroutine, s.round, s.spec.Kind)
		log := s.snapshot()
		live := s.u1 == 0
		flagged := s.spec.Kind == subUpdateInit
		if s.overlap.Load() != 0 {
			errs = append(errs, name+": two callbacks of the subscription ran concurrently")
		}
		fold := map[int]bool{}
		for i, m := range log {
			if !live && m.In > s.u1 {
				errs = append(errs, fmt.Sprintf("%s: callback %s started (stamp %d) after unsubscribe returned (stamp %d)", name, m, m.In, s.u1))
			}
			if i > 0 && m.In < log[i-1].Out {
				errs = append(errs, fmt.Sprintf("%s: callback %d entered before callback %d returned", name, i, i-1))
			}
			if probs := foldStrict(fold, m); len(probs) > 0 {
				errs = append(errs, name+": "+strings.Join(probs, ", "))
			}
		}
		if live {
			if got := fmt.Sprint(sortedInts(fold)); got != final {
				errs = append(errs, fmt.Sprintf("%s: still subscribed, folding its reports %s gives %s, the set holds %s", name, mutsStr(log), got, final))
			}
		}
		if s.s0 > firstW && s.s1 < lastW {
			labels["subscribe_between_first_and_last_write"] = true
			v.NonTrivial = true
		}
		if !live && overlapsWrite(s.u0, s.u1) {
			labels["unsubscribe_overlaps_write"] = true
			v.NonTrivial = true
		}

		// exactly once, in order: [contents at registration index i] ++ hist[i:j]
		got := log
		var head []mutRec
		if len(got) > 0 && flagged {
			head, got = got[:1], got[1:]
		}
		got = append(append([]mutRec{}, head...), nonEmpty(got)...)
		matched := false
		for i := refBefore(s.s0); i <= len(hist) && !matched; i++ {
			var want []mutRec
			if flagged || len(states[i]) > 0 {
				want = append(want, mutRec{Added: states[i]})
			}
			rest := len(got) - len(want)
			if rest < 0 {
				continue
			}
			j := i + rest
			if j > len(hist) || (live && j != len(hist)) {
				continue
			}
			want = append(want, hist[i:j]...)
			if mutsStr(want) == mutsStr(got) {
				matched = true
				if i > 0 && i < len(hist) {
					labels["joined_mid_history"] = true
				}
			}
		}
		if !matched {
			errs = append(errs, fmt.Sprintf("%s (live=%v): saw %s, which is not [contents at subscription] followed by a contiguous run of the applied mutations init=%v %s", name, live, mutsStr(log), p.Init, mutsStr(hist)))
		}
	}
	for _, w := range p.Writers {
		for _, op := range w {
			if op.Op == "replace" {
				labels["has_replace"] = true
			}
		}
	}
	if len(hist) >= 2 {
		labels["history>=2"] = true
	}
	if len(errs) > 0 {
		if len(errs) > 6 {
			errs = append(errs[:6], fmt.Sprintf("... and %d more", len(errs)-6))
		}
		v.Msg = strings.Join(errs, "; ")
	}
	for l := range labels {
		v.Labels = append(v.Labels, l)
	}
	return v
}

func toSet(l []int) map[int]bool {
	m := map[int]bool{}
	for _, e := range l {
		m[e] = true
	}
	return m
}

func genSetConcProg(t *rapid.T) setConcProg {
	p := setConcProg{Init: genElems(0, 3).Draw(t, "init")}
	opGen := rapid.Custom(func(t *rapid.T) setOp {
		o := genSetOp().Draw(t, "op")
		o.Yld = rapid.IntRange(0, 3).Draw(t, "yield")
		return o
	})
	maxOps := 6
	if rapid.IntRange(0, 3).Draw(t, "long") == 0 {
		maxOps = 20
	}
	p.Writers = rapid.SliceOfN(rapid.SliceOfN(opGen, 1, maxOps), 1, 4).Draw(t, "writers")
	subGen := rapid.Custom(func(t *rapid.T) csubSpec {
		return csubSpec{
			Kind:    rapid.SampledFrom([]string{subUpdate, subUpdateInit}).Draw(t, "subKind"),
			Start:   rapid.IntRange(0, 6).Draw(t, "start"),
			Policy:  rapid.SampledFrom([]string{"never", "never", "calls", "yields"}).Draw(t, "policy"),
			N:       rapid.IntRange(0, 4).Draw(t, "n"),
			CbYield: rapid.IntRange(0, 2).Draw(t, "cbYield"),
			Rounds:  rapid.SampledFrom([]int{1, 1, 2, 4, 8}).Draw(t, "rounds"),
		}
	})
	p.Subs = rapid.SliceOfN(subGen, 1, 6).Draw(t, "subs")
	return p
}

const checkSetConc = "set_concurrent"

func TestSetConc(t *testing.T) {
	stats.Rule(checkSetConc, "rapid draws initial contents, 1-4 writer scripts (1-6, sometimes up to 20 ops: Add/Delete/AddAll/DeleteAll/Apply/Compute/Replace over universe 0..5 with drawn yields) and 1-6 subscriber goroutines that subscribe (OnUpdate with/without flag) 1-8 times in a row after drawn yields and unsubscribe never / after N callbacks / after N yields from their own goroutine. Interleaving is the Go scheduler's. Oracle at quiescence: strict fold (library fold order) of every subscriber's reports, fold == ToSlice() for live subscribers, every subscriber's reports == [contents at its registration point] followed by a contiguous run of the applied-mutation list seen by a reference subscriber present during the whole run, no overlapping callbacks, no callback entry stamped after unsubscribe returned, 20 s hang watchdog. Non-trivial = subscription created between first and last write or unsubscribe overlapping a write. Distinct by program.")
	rapid.Check(t, func(rt *rapid.T) {
		p := genSetConcProg(rt)
		o := execSetConc(p)
		v := judgeSetConc(p, o)
		key := strings.Join(p.strings(), "|")
		stats.Case(checkSetConc, v.NonTrivial, key, func() any { return p.strings() }, v.Labels...)
		if v.Msg != "" {
			stats.Violation(checkSetConc, map[string]any{"program": p, "readable": p.strings(), "problem": v.Msg, "hang": v.Hang})
			rt.Fatalf("%s\nprogram: %s", v.Msg, strings.Join(p.strings(), "; "))
		}
	})
}

package c17

import (
	"fmt"
	"github.com/iotaledger/hive.go/runtime/debug"
	"runtime"
	"sort"
	"sync"
	"testing"

	"pgregory.net/rapid"
	"verifharness/internal/ctl"
	"verifharness/internal/stats"
)

// genProgram draws a well-formed goroutine program: up to maxAcq acquire operations, every acquired
// entity is strictly above everything the goroutine currently holds (one fixed acyclic order, no
// recursive locking), everything is released at the end. On DAGMutex read locks may be taken on
// several entities by one RLock call and released by differently grouped RUnlock calls.
func genProgram(t *rapid.T, ents int, maxAcq int, multi bool, label string) []op {
	held := map[int]bool{} // entity -> write?
	acq := rapid.IntRange(1, maxAcq).Draw(t, label+"acq")
	var prog []op
	maxHeld := func() int {
		m := -1
		for e := range held {
			if e > m {
				m = e
			}
		}
		return m
	}
	release := func() {
		var ws, rs []int
		for e, w := range held {
			if w {
				ws = append(ws, e)
			} else {
				rs = append(rs, e)
			}
		}
		sort.Ints(ws)
		sort.Ints(rs)
		if len(ws) > 0 && (len(rs) == 0 || rapid.Bool().Draw(t, label+"relW")) {
			e := rapid.SampledFrom(ws).Draw(t, label+"relWe")
			delete(held, e)
			prog = append(prog, unlockOp(e))
			return
		}
		k := 1
		if multi && len(rs) > 1 {
			k = rapid.IntRange(1, len(rs)).Draw(t, label+"relRk")
		}
		perm := rapid.Permutation(rs).Draw(t, label+"relRperm")[:k]
		for _, e := range perm {
			delete(held, e)
		}
		prog = append(prog, runlockOp(append([]int(nil), perm...)...))
	}
	for acq > 0 || len(held) > 0 {
		lo := maxHeld() + 1
		canAcquire := acq > 0 && lo < ents
		if canAcquire && (len(held) == 0 || rapid.IntRange(0, 2).Draw(t, label+"act") > 0) {
			acq--
			e := rapid.IntRange(lo, ents-1).Draw(t, label+"e")
			if rapid.Bool().Draw(t, label+"w") {
				held[e] = true
				prog = append(prog, lockOp(e))
				continue
			}
			es := []int{e}
			if multi {
				for x := e + 1; x < ents; x++ {
					if rapid.Bool().Draw(t, label+"more") {
						es = append(es, x)
					}
				}
			}
			for _, x := range es {
				held[x] = false
			}
			prog = append(prog, rlockOp(es...))
			continue
		}
		// nothing held implies lo == 0 < ents, i.e. canAcquire whenever acq > 0: held is non-empty here
		release()
	}
	return prog
}

func genScript(t *rapid.T, mutex string, maxG, maxEnts, maxAcq int) script {
	return genScriptMin(t, mutex, 2, maxG, maxEnts, maxAcq)
}

func scriptLabels(s script, res result) []string {
	labels := []string{"mutex:" + s.Mutex, fmt.Sprintf("goroutines:%d", len(s.Progs))}
	multi, nested := false, false
	for _, p := range s.Progs {
		held := 0
		for _, o := range p {
			if o.Kind == opRLock && len(o.Ents) > 1 {
				multi = true
			}
			if o.acquire() {
				if held > 0 {
					nested = true
				}
				held += len(o.Ents)
			} else {
				held -= len(o.Ents)
			}
		}
	}
	if multi {
		labels = append(labels, "multi_entity_rlock")
	}
	if nested {
		labels = append(labels, "nested_acquire")
	}
	if res.Blocked > 0 {
		labels = append(labels, "blocked_then_granted")
	}
	if res.MaxQueued >= 2 {
		labels = append(labels, "queued>=2")
	}
	return labels
}

// TestRandomScripts: longer scripts on up to three entities under the schedule controller.
func TestRandomScripts(t *testing.T) {
	const check = "random_scripts"
	stats.Rule(check, "rapid draws 2-4 goroutine programs (1-3 acquisitions each, Lock/RLock incl. multi-entity RLock and nested acquisition in ascending entity order on 1-3 entities; StarvingMutex: one entity) and an arrival order (permutation of all operations); executed under the schedule controller, a third of them with hive.go's debug mode (deadlock detector wait path) enabled; oracles: exclusion monitor on observed events, every operation that the reference RW model says must be granted is granted within ctl.HangTimeout, no legal operation panics; non-trivial = an operation was observed blocked and granted later, or >=2 operations queued on one entity; distinct by (mutex, programs, arrival order)")
	rapid.Check(t, func(rt *rapid.T) {
		mutex := rapid.SampledFrom([]string{"starving", "starving_zero", "starving_copied", "dag", "dag"}).Draw(rt, "mutex")
		s := genScript(rt, mutex, 4, 3, 3)
		// hive.go's debug mode routes every blocking acquisition through a different wait path (deadlock detector):
		// a third of the scripts run with it switched on (process-wide flag, restored before the next case)
		if rapid.IntRange(0, 2).Draw(rt, "debugMode") == 0 {
			debug.SetEnabled(true)
			defer debug.SetEnabled(false)
			stats.Label(check, "hive_debug_mode_on")
		}
		// in a quarter of the scripts the debug mode is switched (on or off) after k issued operations, while
		// acquisitions may be blocked; the setting is restored after the script
		if rapid.IntRange(0, 3).Draw(rt, "debugFlip") == 0 {
			total := 0
			for _, p := range s.Progs {
				total += len(p)
			}
			before := debug.GetEnabled()
			debugFlipAt = rapid.IntRange(1, total).Draw(rt, "debugFlipAt")
			defer func() { debugFlipAt = -1; debug.SetEnabled(before) }()
			stats.Label(check, "hive_debug_mode_switched_mid_script")
		}
		res := runScript(s, nil)
		noteParking(check, res)
		stats.Case(check, res.Blocked > 0 || res.MaxQueued >= 2, s.key(), s.sample, scriptLabels(s, res)...)
		if res.Kind != "" {
			stats.Violation(check, res.payload(s, nil))
			rt.Fatalf("%s: %s\nscript: %v\narrival order: %v\ntrace:\n  %s", res.Kind, res.Violation, s.progStrings(), s.Order, joinLines(res.Trace))
		}
	})
}

// TestUnlockNotHeld: a script as above plus ONE unlock of something that is not held (nothing held
// at all on that entity, or held in the other mode, possibly with waiters queued), executed by the
// controller at a drawn position. It must panic, and the rest of the script must behave exactly as
// if the call had not happened: every operation completes, exclusion holds, no legal unlock panics,
// and afterwards every entity can be locked in both modes.
func TestUnlockNotHeld(t *testing.T) {
	const check = "unlock_not_held"
	stats.Rule(check, "rapid draws a 1-3 goroutine script (as random_scripts) plus one Unlock(e)/RUnlock(e...) executed by the controller after k issued operations once the system has settled; the call is executed only when, from observed events, the lock is certainly not held in that mode (no registered holder in that mode, for RUnlock additionally no outstanding RLock on the entity); it must panic; the remaining script must complete under the same oracles and afterwards every entity must be lockable in both modes; non-trivial = the wrong unlock was executed; distinct by (script, arrival order, position, op)")
	rapid.Check(t, func(rt *rapid.T) {
		mutex := rapid.SampledFrom([]string{"starving", "starving_zero", "starving_copied", "dag"}).Draw(rt, "mutex")
		s := genScriptMin(rt, mutex, 1, 3, 3, 2)
		total := len(s.Order)
		ents := 1
		if mutex == "dag" {
			ents = 4 // entity 3 is never used by a script: "nothing registered at all"
		}
		inj := &injection{Pos: rapid.IntRange(0, total).Draw(rt, "pos")}
		if rapid.IntRange(0, 3).Draw(rt, "aimed") > 0 {
			// aim at "held in the other mode": pick an acquire operation of the script, take one of its
			// entities and the unlock of the opposite mode, shortly after that operation is issued
			g := rapid.IntRange(0, len(s.Progs)-1).Draw(rt, "aimG")
			var acq []int
			for i, o := range s.Progs[g] {
				if o.acquire() {
					acq = append(acq, i)
				}
			}
			i := rapid.SampledFrom(acq).Draw(rt, "aimOp")
			o := s.Progs[g][i]
			e := rapid.SampledFrom(o.Ents).Draw(rt, "aimEnt")
			if o.Kind == opLock {
				inj.Op = runlockOp(e)
			} else {
				inj.Op = unlockOp(e)
			}
			seen := 0
			for k, og := range s.Order {
				if og == g {
					if seen == i {
						inj.Pos = min(total, k+1+rapid.IntRange(0, 2).Draw(rt, "aimDelay"))
						break
					}
					seen++
				}
			}
		} else if rapid.Bool().Draw(rt, "wrongIsWrite") {
			inj.Op = unlockOp(rapid.IntRange(0, ents-1).Draw(rt, "we"))
		} else {
			es := []int{rapid.IntRange(0, ents-1).Draw(rt, "re")}
			if mutex == "dag" && rapid.IntRange(0, 3).Draw(rt, "reMulti") == 0 {
				e2 := rapid.IntRange(0, ents-1).Draw(rt, "re2")
				if e2 != es[0] {
					es = append(es, e2)
				}
			}
			inj.Op = runlockOp(es...)
		}
		res := runScript(s, inj)
		noteParking(check, res)
		labels := scriptLabels(s, res)
		if res.Injected {
			labels = append(labels, "executed:"+res.InjClass)
		} else {
			labels = append(labels, "skipped_lock_held_in_that_mode")
		}
		stats.Case(check, res.Injected, s.key()+"|"+fmt.Sprint(inj.Pos)+inj.Op.String(), func() any {
			m := s.sample().(map[string]any)
			m["wrong_unlock"] = fmt.Sprintf("%s after %d issued operations (%s)", inj.Op, inj.Pos, res.InjClass)
			return m
		}, labels...)
		if res.Kind != "" {
			stats.Violation(check, res.payload(s, inj))
			rt.Fatalf("%s: %s\nscript: %v\narrival order: %v\nwrong unlock: %s after %d issued ops (%s)\ntrace:\n  %s", res.Kind, res.Violation, s.progStrings(), s.Order, inj.Op, inj.Pos, res.InjClass, joinLines(res.Trace))
		}
	})
}

func genScriptMin(t *rapid.T, mutex string, minG, maxG, maxEnts, maxAcq int) script {
	ents := 1
	if mutex == "dag" {
		ents = rapid.IntRange(1, maxEnts).Draw(t, "ents")
	}
	n := rapid.IntRange(minG, maxG).Draw(t, "goroutines")
	s := script{Mutex: mutex}
	var slots []int
	for g := 0; g < n; g++ {
		p := genProgram(t, ents, maxAcq, mutex == "dag", fmt.Sprintf("g%d.", g))
		s.Progs = append(s.Progs, p)
		for range p {
			slots = append(slots, g)
		}
	}
	s.Order = rapid.Permutation(slots).Draw(t, "arrival")
	return s
}

// TestContention: free-running goroutines (no controller) hammer the mutex with drawn programs;
// holder counting by the same monitor; the run must complete (programs acquire in ascending order).
func TestContention(t *testing.T) {
	const check = "contention"
	stats.Rule(check, "rapid draws 8-16 free-running goroutines, each repeating a drawn well-formed program (as random_scripts) 20-80 times with drawn yields inside the critical sections, on StarvingMutex or DAGMutex (1-3 entities); oracles: exclusion monitor (holder registered after the acquire returned, removed before the release is issued), completion within ctl.HangTimeout, no panic; non-trivial = at least one write acquisition and one other goroutine using the same entity; distinct by (mutex, programs, repetitions)")
	rapid.Check(t, func(rt *rapid.T) {
		mutex := rapid.SampledFrom([]string{"starving", "starving_zero", "starving_copied", "dag"}).Draw(rt, "mutex")
		ents := 1
		if mutex == "dag" {
			ents = rapid.IntRange(1, 3).Draw(rt, "ents")
		}
		n := rapid.IntRange(8, 16).Draw(rt, "goroutines")
		reps := rapid.IntRange(20, 80).Draw(rt, "reps")
		s := script{Mutex: mutex}
		yields := make([][]bool, n)
		for g := 0; g < n; g++ {
			p := genProgram(rt, ents, 3, mutex == "dag", fmt.Sprintf("g%d.", g))
			s.Progs = append(s.Progs, p)
			yields[g] = make([]bool, len(p))
			for i := range p {
				yields[g][i] = rapid.Bool().Draw(rt, "yield")
			}
		}
		wEnts, users := map[int]bool{}, map[int]int{}
		for _, p := range s.Progs {
			seen := map[int]bool{}
			for _, o := range p {
				for _, e := range o.Ents {
					if o.Kind == opLock {
						wEnts[e] = true
					}
					if !seen[e] {
						seen[e] = true
						users[e]++
					}
				}
			}
		}
		nontrivial := false
		for e := range wEnts {
			if users[e] >= 2 {
				nontrivial = true
			}
		}
		stats.Case(check, nontrivial, fmt.Sprintf("%s|%d", s.key(), reps), func() any {
			m := s.sample().(map[string]any)
			delete(m, "arrival_order")
			m["repetitions"] = reps
			return m
		}, "mutex:"+mutex, fmt.Sprintf("entities:%d", ents))

		l := newLocker(mutex)
		mon := newMonitor()
		var mu sync.Mutex
		var problem string
		report := func(p string) {
			mu.Lock()
			if problem == "" {
				problem = p
			}
			mu.Unlock()
		}
		var wg sync.WaitGroup
		for g := 0; g < n; g++ {
			wg.Add(1)
			go func(g int) {
				defer wg.Done()
				defer func() {
					if pv := recover(); pv != nil {
						report(fmt.Sprintf("G%d panicked in a legal operation: %v", g, pv))
					}
				}()
				for r := 0; r < reps; r++ {
					for i, o := range s.Progs[g] {
						switch o.Kind {
						case opLock:
							l.Lock(o.Ents[0])
						case opRLock:
							l.RLock(o.Ents...)
						case opUnlock:
							mon.release(g, o)
							l.Unlock(o.Ents[0])
						case opRUnlock:
							mon.release(g, o)
							l.RUnlock(o.Ents...)
						}
						if o.acquire() {
							if v := mon.grant(g, o); v != "" {
								report(v)
							}
						}
						if yields[g][i] {
							runtime.Gosched()
						}
					}
				}
			}(g)
		}
		done := withinHang(wg.Wait)
		mu.Lock()
		p := problem
		mu.Unlock()
		if !done && p == "" {
			p = fmt.Sprintf("free-running goroutines did not finish within %s (registered holders: %s)", ctl.HangTimeout, mon.describe())
		}
		if p != "" {
			pl := s.sample().(map[string]any)
			delete(pl, "arrival_order")
			pl["repetitions"] = reps
			pl["observed"] = p
			stats.Violation(check, pl)
			rt.Fatalf("%s\nprograms: %v x%d", p, s.progStrings(), reps)
		}
	})
}

package c01

import (
	"context"
	"fmt"
	"testing"

	"github.com/iotaledger/hive.go/serializer/v2/serix"
	"pgregory.net/rapid"
	"verifharness/internal/stats"
)

// DeepLink is embedded through a pointer into deepENode and leads to the next node: the recursion of the type passes
// through the embedded-struct branch of the encoders and decoders (which splice the fields of the embedded struct into
// the parent instead of calling encode/decode for it).
type DeepLink struct {
	Via *deepENode `serix:",optional"`
}

type deepENode struct {
	Val       uint8 `serix:""`
	*DeepLink `serix:""`
}

// TestDeepNestingEmbeddedPointer is TestDeepNestingRoundTrip for a list that is linked through an embedded pointer
// (audit C01-35: the decoders counted the embedded pointer as a nesting level, the encoders did not; lists of 500..999
// nodes were written and could not be read back).
func TestDeepNestingEmbeddedPointer(t *testing.T) {
	const check = "deep_nesting_embedded_pointer"
	stats.Rule(check, "rapid draws a number of nodes from {1..40, 240..260, 320..345, 480..520, 980..1020, 2000} of a list linked through an embedded pointer (every node embeds *DeepLink, whose optional field points to the next node), validation on/off and whether Decode gets an allocated destination or a nil pointer. Oracle: Encode refuses the value, or Decode of its output succeeds, consumes everything and yields a list of the same length and values; JSONEncode likewise against JSONDecode. Distinct by (nodes, validation, destination); non-trivial = nodes >= 240")
	api := serix.NewAPI()
	ctx := context.Background()
	rapid.Check(t, func(rt *rapid.T) {
		nodes := rapid.OneOf(rapid.IntRange(1, 40), rapid.IntRange(240, 260), rapid.IntRange(320, 345), rapid.IntRange(480, 520), rapid.IntRange(980, 1020), rapid.Just(2000)).Draw(rt, "nodes")
		var opts []serix.Option
		validate := rapid.Bool().Draw(rt, "validation")
		if validate {
			opts = append(opts, serix.WithValidation())
		}
		nilDestination := rapid.Bool().Draw(rt, "nilDestination")
		desc := fmt.Sprintf("nodes=%d validation=%v nilDestination=%v", nodes, validate, nilDestination)
		fail := func(format string, a ...any) {
			msg := fmt.Sprintf(format, a...)
			stats.Violation(check, map[string]any{"config": desc, "problem": msg})
			rt.Fatalf("%s: %s", desc, msg)
		}
		root := &deepENode{Val: 1, DeepLink: &DeepLink{}}
		for cur, i := root, 2; i <= nodes; i++ {
			cur.Via = &deepENode{Val: uint8(i), DeepLink: &DeepLink{}}
			cur = cur.Via
		}
		measure := func(n *deepENode) (levels int, ok bool) {
			for cur := n; cur != nil; levels++ {
				if cur.Val != uint8(levels+1) || cur.DeepLink == nil {
					return levels, false
				}
				cur = cur.Via
			}

			return levels, true
		}
		var labels []string
		if b, err := api.Encode(ctx, root, opts...); err != nil {
			labels = append(labels, "encode_refused")
		} else {
			out := &deepENode{}
			var n int
			if nilDestination {
				var p *deepENode
				if n, err = api.Decode(ctx, b, &p, opts...); err == nil {
					out = p
				}
			} else {
				n, err = api.Decode(ctx, b, out, opts...)
			}
			if err != nil {
				fail("Encode produced %d bytes that Decode refuses: %.300v", len(b), err)
			}
			if n != len(b) {
				fail("Decode consumed %d of %d bytes", n, len(b))
			}
			if levels, ok := measure(out); !ok || levels != nodes {
				fail("decoded list has %d well-formed nodes, want %d", levels, nodes)
			}
			labels = append(labels, "binary_roundtrip")
		}
		if j, err := api.JSONEncode(ctx, root, opts...); err != nil {
			labels = append(labels, "jsonencode_refused")
		} else {
			out := &deepENode{}
			if err := api.JSONDecode(ctx, j, out, opts...); err != nil {
				fail("JSONEncode produced a document of %d bytes that JSONDecode refuses: %.300v", len(j), err)
			}
			if levels, ok := measure(out); !ok || levels != nodes {
				fail("JSON-decoded list has %d well-formed nodes, want %d", levels, nodes)
			}
			labels = append(labels, "json_roundtrip")
		}
		stats.Case(check, nodes >= 240, desc, func() any { return desc }, labels...)
	})
}

// Demonstration of an independent auditor (third round), kept as a regression test; see known_findings.json.
package c11

import (
	"fmt"
	"testing"

	"github.com/iotaledger/hive.go/ds"
)

// String is a method of ds.ReadableSet. For an element type that is an interface (ds.Set[any], ds.Set[fmt.Stringer], ...)
// it derives the type name from reflect.TypeOf of the ZERO value of the element type, which is a nil interface:
// reflect.TypeOf returns nil and .Name() dereferences it. The call panics, whatever the set contains.
func TestRegressionAuditC118_StringOfInterfaceSetPanics(t *testing.T) {
	for name, stringFunc := range map[string]func() string{
		"Set[any]{1, \"a\"}":      func() string { return ds.NewSet[any](1, "a").String() },
		"Set[any]{}":             func() string { return ds.NewSet[any]().String() },
		"Set[fmt.Stringer]{}":    func() string { return ds.NewSet[fmt.Stringer]().String() },
		"ReadableSet[error]{}":   func() string { return ds.NewReadableSet[error]().String() },
		"Set[int]{1} (baseline)": func() string { return ds.NewSet[int](1).String() },
	} {
		func() {
			defer func() {
				if r := recover(); r != nil {
					t.Errorf("%s: String() panicked: %v", name, r)
				}
			}()
			t.Logf("%s -> %s", name, stringFunc())
		}()
	}
}

// Found by an independent auditor (second round): a linked event fired twice for ONE trigger of its target when LinkTo
// ran while that trigger was in flight (the new link hook was appended to the list the trigger was still iterating).
package c15

import (
	"testing"
	"time"

	"github.com/iotaledger/hive.go/runtime/event"
)

// A linked event has to fire exactly once per trigger of its current target. LinkTo is implemented as "unhook the old
// link hook, attach a new link hook at the end of the target's hook list", and Trigger iterates over the live list, so
// it also visits hooks that were attached after the Trigger call began. A LinkTo to the target that is currently being
// triggered (re-link to the same target, or away and back) therefore makes the SAME Trigger call reach the linked event
// a second time: once through the old link hook (before it was unhooked) and once through the new one.

// TestRegressionRelinkDuringTrigger_RelinkToSameTargetInsideTrigger: single goroutine, the re-link happens in a hook of the target.
func TestRegressionRelinkDuringTrigger_RelinkToSameTargetInsideTrigger(t *testing.T) {
	target := event.New1[int]()
	linked := event.New1[int]()

	var got []int
	linked.Hook(func(i int) { got = append(got, i) })

	linked.LinkTo(target)                            // link hook H1 (first hook of target)
	target.Hook(func(int) { linked.LinkTo(target) }) // runs after H1: re-link to the very same target

	target.Trigger(7)

	if len(got) != 1 {
		t.Fatalf("linked event fired %d times for ONE trigger of its current target (deliveries %v), want exactly 1", len(got), got)
	}
}

// TestRegressionRelinkDuringTrigger_RelinkAwayAndBackInsideTrigger: the link is moved to another target and back while the trigger runs.
func TestRegressionRelinkDuringTrigger_RelinkAwayAndBackInsideTrigger(t *testing.T) {
	a := event.New1[int]()
	b := event.New1[int]()
	linked := event.New1[int]()

	var got []int
	linked.Hook(func(i int) { got = append(got, i) })

	linked.LinkTo(a)
	a.Hook(func(int) {
		linked.LinkTo(b)
		linked.LinkTo(a)
	})

	a.Trigger(7)

	if len(got) != 1 {
		t.Fatalf("linked event fired %d times for ONE trigger of target a (deliveries %v), want exactly 1", len(got), got)
	}
}

// TestRegressionRelinkDuringTrigger_RelinkFromOtherGoroutineWhileTriggerInFlight: no re-entrancy. Goroutine G runs target.Trigger and is
// parked in a plain hook that comes after the link hook (the linked event has fired once already). The main goroutine
// calls linked.LinkTo(target) - which returns - and then releases G. G's Trigger call goes on to the freshly attached link
// hook and fires the linked event a second time for the same trigger.
func TestRegressionRelinkDuringTrigger_RelinkFromOtherGoroutineWhileTriggerInFlight(t *testing.T) {
	target := event.New1[int]()
	linked := event.New1[int]()

	fired := make(chan int, 16)
	linked.Hook(func(i int) { fired <- i })

	linked.LinkTo(target)

	parked := make(chan struct{})
	release := make(chan struct{})
	target.Hook(func(int) {
		close(parked)
		<-release
	})

	done := make(chan struct{})
	go func() {
		defer close(done)
		target.Trigger(7)
	}()

	<-parked
	linked.LinkTo(target) // same target, completes while the Trigger call is in flight
	close(release)

	select {
	case <-done:
	case <-time.After(10 * time.Second):
		t.Fatal("Trigger did not return")
	}

	if n := len(fired); n != 1 {
		t.Fatalf("linked event fired %d times for ONE trigger of its current target, want exactly 1", n)
	}
}

// Control: the same histories with the re-link done between two triggers behave as promised.
func TestRegressionRelinkDuringTrigger_Control_RelinkBetweenTriggers(t *testing.T) {
	target := event.New1[int]()
	linked := event.New1[int]()

	var got []int
	linked.Hook(func(i int) { got = append(got, i) })

	linked.LinkTo(target)
	target.Hook(func(int) {})
	target.Trigger(1)
	linked.LinkTo(target)
	target.Trigger(2)

	if len(got) != 2 || got[0] != 1 || got[1] != 2 {
		t.Fatalf("deliveries %v, want [1 2]", got)
	}
}

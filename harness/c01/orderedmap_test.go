package c01

import (
	"bytes"
	"fmt"
	"testing"

	"github.com/iotaledger/hive.go/ds/serializableorderedmap"
	"github.com/iotaledger/hive.go/serializer/v2/serix"
	"pgregory.net/rapid"
	"verifharness/internal/stats"
)

type omKey string
type omVal []byte
type omSlice []uint16
type omPtr struct {
	A uint8 `serix:""`
	B omVal `serix:""`
}

func TestOrderedMapRoundTrip(t *testing.T) {
	const check = "serializable_orderedmap_roundtrip"
	stats.Rule(check, "SerializableOrderedMap[string-with-uint8-prefix, []byte-with-uint16-prefix] [uint16, int64], [uint8, []uint16] and [uint8, *struct]: rapid draws an insertion history (set, overwrite, delete, re-insert) ; Encode then Decode into a fresh map must reproduce keys, values and iteration order, consume exactly the produced bytes (also with trailing bytes), and Encode twice gives identical bytes. Distinct by history; non-trivial = history contains a delete followed by a re-insert or an overwrite, and >= 2 entries remain")
	api := serix.NewAPI()
	if err := api.RegisterTypeSettings(omKey(""), serix.TypeSettings{}.WithLengthPrefixType(serix.LengthPrefixTypeAsByte)); err != nil {
		t.Fatal(err)
	}
	if err := api.RegisterTypeSettings(omVal(nil), serix.TypeSettings{}.WithLengthPrefixType(serix.LengthPrefixTypeAsUint16)); err != nil {
		t.Fatal(err)
	}
	if err := api.RegisterTypeSettings(omSlice(nil), serix.TypeSettings{}.WithLengthPrefixType(serix.LengthPrefixTypeAsByte)); err != nil {
		t.Fatal(err)
	}
	rapid.Check(t, func(rt *rapid.T) {
		m := serializableorderedmap.New[omKey, omVal]()
		n := serializableorderedmap.New[uint16, int64]()
		hist := []string{}
		steps := rapid.IntRange(0, 12).Draw(rt, "steps")
		interesting := false
		deleted := map[string]bool{}
		for i := 0; i < steps; i++ {
			k := rapid.SampledFrom([]string{"", "a", "b", "ab", "é", "zz"}).Draw(rt, fmt.Sprintf("k%d", i))
			if rapid.IntRange(0, 3).Draw(rt, fmt.Sprintf("del%d", i)) == 0 {
				m.Delete(omKey(k))
				n.Delete(uint16(len(k)))
				deleted[k] = true
				hist = append(hist, "del "+k)
				continue
			}
			v := rapid.SliceOfN(rapid.Byte(), 0, 5).Draw(rt, fmt.Sprintf("v%d", i))
			if m.Has(omKey(k)) || deleted[k] {
				interesting = true
			}
			m.Set(omKey(k), omVal(v))
			n.Set(uint16(len(k)), int64(len(v))-3)
			hist = append(hist, fmt.Sprintf("set %s=%x", k, v))
		}
		fail := func(format string, a ...any) {
			msg := fmt.Sprintf(format, a...)
			stats.Violation(check, map[string]any{"history": hist, "problem": msg})
			rt.Fatalf("%s: %s (history %v)", check, msg, hist)
		}
		b1, err := m.Encode(api)
		if err != nil {
			fail("Encode: %v", err)
		}
		b1b, _ := m.Encode(api)
		if !bytes.Equal(b1, b1b) {
			fail("Encode twice differs")
		}
		for _, tail := range [][]byte{nil, {0xff, 1, 2}} {
			m2 := serializableorderedmap.New[omKey, omVal]()
			c, err := m2.Decode(api, append(append([]byte{}, b1...), tail...))
			if err != nil || c != len(b1) {
				fail("Decode: consumed %d of %d, err %v", c, len(b1), err)
			}
			var ks1, ks2 []string
			m.ForEach(func(k omKey, v omVal) bool { ks1 = append(ks1, fmt.Sprintf("%s=%x", k, []byte(v))); return true })
			m2.ForEach(func(k omKey, v omVal) bool { ks2 = append(ks2, fmt.Sprintf("%s=%x", k, []byte(v))); return true })
			if fmt.Sprint(ks1) != fmt.Sprint(ks2) {
				fail("decoded contents/order %v != %v", ks2, ks1)
			}
		}
		// composite value types: a decoder that re-used its destination across entries would let entries leak into
		// each other (slices accumulate, pointers alias)
		cs := serializableorderedmap.New[uint8, omSlice]()
		cp := serializableorderedmap.New[uint8, *omPtr]()
		ne := rapid.IntRange(0, 4).Draw(rt, "compositeEntries")
		for i := 0; i < ne; i++ {
			k := uint8(rapid.IntRange(0, 5).Draw(rt, fmt.Sprintf("ck%d", i)))
			sl := rapid.SliceOfN(rapid.Uint16(), 0, 3).Draw(rt, fmt.Sprintf("cs%d", i))
			cs.Set(k, omSlice(sl))
			cp.Set(k, &omPtr{A: uint8(len(sl)), B: omVal(rapid.SliceOfN(rapid.Byte(), 0, 3).Draw(rt, fmt.Sprintf("cb%d", i)))})
		}
		if bs, err := cs.Encode(api); err != nil {
			fail("Encode(uint8,[]uint16): %v", err)
		} else {
			cs2 := serializableorderedmap.New[uint8, omSlice]()
			if c, err := cs2.Decode(api, bs); err != nil || c != len(bs) {
				fail("Decode(uint8,[]uint16): consumed %d of %d, err %v", c, len(bs), err)
			}
			var x1, x2 []string
			cs.ForEach(func(k uint8, v omSlice) bool { x1 = append(x1, fmt.Sprint(k, []uint16(v))); return true })
			cs2.ForEach(func(k uint8, v omSlice) bool { x2 = append(x2, fmt.Sprint(k, []uint16(v))); return true })
			if fmt.Sprint(x1) != fmt.Sprint(x2) {
				fail("decoded (uint8,[]uint16) contents/order %v != %v", x2, x1)
			}
			if bs2, _ := cs2.Encode(api); !bytes.Equal(bs, bs2) {
				fail("re-encoding the decoded (uint8,[]uint16) map differs: %x != %x", bs2, bs)
			}
		}
		if bp, err := cp.Encode(api); err != nil {
			fail("Encode(uint8,*struct): %v", err)
		} else {
			cp2 := serializableorderedmap.New[uint8, *omPtr]()
			if c, err := cp2.Decode(api, bp); err != nil || c != len(bp) {
				fail("Decode(uint8,*struct): consumed %d of %d, err %v", c, len(bp), err)
			}
			var x1, x2 []string
			cp.ForEach(func(k uint8, v *omPtr) bool {
				x1 = append(x1, fmt.Sprintf("%d:%d/%x", k, v.A, []byte(v.B)))
				return true
			})
			cp2.ForEach(func(k uint8, v *omPtr) bool {
				x2 = append(x2, fmt.Sprintf("%d:%d/%x", k, v.A, []byte(v.B)))
				return true
			})
			if fmt.Sprint(x1) != fmt.Sprint(x2) {
				fail("decoded (uint8,*struct) contents/order %v != %v", x2, x1)
			}
		}
		if ne >= 2 {
			interesting = true
		}
		b2, err := n.Encode(api)
		if err != nil {
			fail("Encode(uint16,int64): %v", err)
		}
		n2 := serializableorderedmap.New[uint16, int64]()
		if c, err := n2.Decode(api, b2); err != nil || c != len(b2) {
			fail("Decode(uint16,int64): consumed %d of %d, err %v", c, len(b2), err)
		}
		var a1, a2 []string
		n.ForEach(func(k uint16, v int64) bool { a1 = append(a1, fmt.Sprint(k, v)); return true })
		n2.ForEach(func(k uint16, v int64) bool { a2 = append(a2, fmt.Sprint(k, v)); return true })
		if fmt.Sprint(a1) != fmt.Sprint(a2) {
			fail("decoded (uint16,int64) contents/order %v != %v", a2, a1)
		}
		stats.Case(check, interesting && m.Size() >= 2, fmt.Sprint(hist), func() any { return hist })
	})
}

package c12

import (
	"fmt"
	"testing"
	"time"

	"github.com/iotaledger/hive.go/ds/timeheap"
	"pgregory.net/rapid"
	"verifharness/internal/stats"
)

// TestTimeHeapMidWindow exercises a window that separates older from newer entries: early entries, a gap, late
// entries, and then AveragePerSecond over a window shorter than the gap. The verdict only uses instants measured
// around the calls: early entries are provably older than the window and late entries provably younger; when the
// machine stalls so that this cannot be established the case is counted as indefinite and nothing is asserted.
func TestTimeHeapMidWindow(t *testing.T) {
	const check = "timeheap_mid_window"
	const gap = 24 * time.Millisecond
	const window = 12 * time.Millisecond
	stats.Rule(check, "1..3 early Add calls, 0..2 AveragePerSecond(1h) queries, Sleep(24 ms), 1..3 late Add calls, 0..2 further AveragePerSecond(1h) queries (issued while old and new entries coexist), then AveragePerSecond(12 ms): if the measured instants prove that every early entry is at least 12 ms old and every late entry younger than 12 ms, the result must be exactly sum(late)/0.012 and a following AveragePerSecond(1h) must report sum(late); otherwise the case is indefinite (counted, not judged). Distinct by drawn counts and query placement; non-trivial = definite case with a 1h query issued while early and late entries coexisted")
	rapid.Check(t, func(rt *rapid.T) {
		th := timeheap.NewTimeHeap()
		early := rapid.SliceOfN(rapid.Uint64Range(1, 1000), 1, 3).Draw(rt, "early")
		q1 := rapid.IntRange(0, 2).Draw(rt, "queriesAfterEarly")
		late := rapid.SliceOfN(rapid.Uint64Range(1, 1000), 1, 3).Draw(rt, "late")
		q2 := rapid.IntRange(0, 2).Draw(rt, "queriesWhileCoexisting")
		ops := []string{}
		fail := func(format string, a ...any) {
			msg := fmt.Sprintf(format, a...)
			stats.Violation(check, map[string]any{"ops": ops, "problem": msg})
			rt.Fatalf("%s after %v: %s", check, ops, msg)
		}
		var sumEarly, sumLate uint64
		for _, c := range early {
			th.Add(c)
			sumEarly += c
			ops = append(ops, fmt.Sprintf("Add(%d)", c))
		}
		earlyDone := time.Now()
		for i := 0; i < q1; i++ {
			if got := thSum(th.AveragePerSecond(thLongWindow)); got != int64(sumEarly) {
				fail("AveragePerSecond(1h) reports a sum of %d, want %d", got, sumEarly)
			}
			ops = append(ops, "AveragePerSecond(1h)")
		}
		time.Sleep(gap)
		ops = append(ops, "Sleep(24ms)")
		lateStart := time.Now()
		for _, c := range late {
			th.Add(c)
			sumLate += c
			ops = append(ops, fmt.Sprintf("Add(%d)", c))
		}
		for i := 0; i < q2; i++ {
			if got := thSum(th.AveragePerSecond(thLongWindow)); got != int64(sumEarly+sumLate) {
				fail("AveragePerSecond(1h) reports a sum of %d, want %d", got, sumEarly+sumLate)
			}
			ops = append(ops, "AveragePerSecond(1h)")
		}
		qBefore := time.Now()
		avg := th.AveragePerSecond(window)
		qAfter := time.Now()
		ops = append(ops, fmt.Sprintf("AveragePerSecond(12ms)=%v", avg))
		definite := qBefore.Sub(earlyDone) >= window && qAfter.Sub(lateStart) < window
		if definite {
			want := float32(sumLate) / float32(window.Seconds())
			if avg != want {
				fail("AveragePerSecond(12ms) = %v, want %v: every early entry is older than the window (>= %v) and every late entry younger (< %v), so exactly the late counts (%d) are inside", avg, want, qBefore.Sub(earlyDone), qAfter.Sub(lateStart), sumLate)
			}
			if got := thSum(th.AveragePerSecond(thLongWindow)); got != int64(sumLate) {
				fail("AveragePerSecond(1h) after the short query reports a sum of %d, want %d (expired entries are gone, late ones stay)", got, sumLate)
			}
		}
		labels := []string{fmt.Sprintf("queries_while_coexisting:%d", q2)}
		if !definite {
			labels = append(labels, "indefinite_timing_not_judged")
		}
		stats.Case(check, definite && q2 > 0, fmt.Sprint(early, q1, late, q2), func() any { return ops }, labels...)
	})
}

package c02

import (
	"bytes"
	"encoding/binary"
	"encoding/hex"
	"fmt"
	"io"
	"testing"
	"testing/iotest"

	"github.com/iotaledger/hive.go/serializer/v2"
	"github.com/iotaledger/hive.go/serializer/v2/stream"
	"github.com/iotaledger/hive.go/serializer/v2/typeutils"
	"pgregory.net/rapid"
	"verifharness/internal/stats"
)

var lenTypes = map[int]serializer.SeriLengthPrefixType{1: serializer.SeriLengthPrefixTypeAsByte, 2: serializer.SeriLengthPrefixTypeAsUint16,
	4: serializer.SeriLengthPrefixTypeAsUint32, 8: serializer.SeriLengthPrefixTypeAsUint64}

var hostile64 = []uint64{0, 1, 255, 256, 65535, 65536, 1 << 24, 1 << 30, 1<<31 - 1, 1 << 31, 1<<32 - 1, 1 << 32, 1<<62 + 5, 1<<63 - 1, 1 << 63, 1<<64 - 1}

func catch(f func()) (p any) {
	defer func() { p = recover() }()
	f()
	return nil
}

func TestStreamReadHostile(t *testing.T) {
	const check = "stream_read_hostile"
	stats.Rule(check, "every stream.Read* helper that trusts a length/count prefix (ReadBytes with a hostile length argument, ReadBytesWithSize, ReadObjectWithSize, ReadCollection, PeekSize, and stream.Skip/GoTo by a length from the input followed by ByteReader.BytesRead; all four prefix widths incl. uint64 values >= 2^63) is called on a reader holding the prefix (hostile constant or drawn) followed by 0..40 bytes, through bytes.Reader and iotest.OneByteReader; oracle: no panic, a successful return is well-formed (exactly the denoted number of bytes / callbacks / a non-negative size equal to the prefix; BytesRead within 0..len(input)), bytes allocated <= 1 MiB + 2 KiB * len(input), ReadCollection invokes its callback at most (bytes remaining)+1 times when every callback consumes one byte. Lengths are capped at 2^30 for 4-byte prefixes only through the cap on allocation (a regression allocates at most 4 GiB of untouched pages); for the 8-byte prefix all values are used. Distinct by (helper, prefix width, prefix value, payload length); non-trivial = prefix denotes more than the payload")
	rapid.Check(t, func(rt *rapid.T) {
		w := rapid.SampledFrom([]int{1, 2, 4, 8}).Draw(rt, "w")
		var pv uint64
		if rapid.Bool().Draw(rt, "hostileConst") {
			pv = rapid.SampledFrom(hostile64).Draw(rt, "pv")
		} else {
			pv = rapid.Uint64Range(0, 60).Draw(rt, "pvSmall")
		}
		if w < 8 {
			pv &= uint64(1)<<(8*uint(w)) - 1
		}
		if w == 4 && pv > 1<<30 {
			pv = 1 << 30
		}
		payload := rapid.SliceOfN(rapid.Byte(), 0, 40).Draw(rt, "payload")
		pre := make([]byte, 8)
		binary.LittleEndian.PutUint64(pre, pv)
		input := append(append([]byte{}, pre[:w]...), payload...)
		helper := rapid.SampledFrom([]string{"ReadBytesWithSize", "ReadObjectWithSize", "ReadCollection", "PeekSize", "ReadBytes", "SkipThenBytesRead"}).Draw(rt, "helper")
		oneByte := rapid.Bool().Draw(rt, "oneByteReader")
		mk := func() io.Reader {
			if oneByte {
				return iotest.OneByteReader(bytes.NewReader(input))
			}
			return bytes.NewReader(input)
		}
		beyond := pv > uint64(len(payload))
		ex := map[string]any{"helper": helper, "prefix_width": w, "prefix_value": fmt.Sprint(pv), "input": hex.EncodeToString(input), "one_byte_reader": oneByte}
		fail := func(format string, a ...any) {
			ex["problem"] = fmt.Sprintf(format, a...)
			stats.Violation(check, ex)
			rt.Fatalf("%s: %v", check, ex)
		}
		var err error
		var pan any
		calls := 0
		alloc := measure(func() {
			pan = catch(func() {
				r := mk()
				switch helper {
				case "ReadBytesWithSize":
					var got []byte
					got, err = stream.ReadBytesWithSize(r, lenTypes[w])
					if err == nil && uint64(len(got)) != pv {
						err = fmt.Errorf("HARNESS: returned %d bytes for a denoted length of %d", len(got), pv)
					}
				case "ReadObjectWithSize":
					_, err = stream.ReadObjectWithSize(r, lenTypes[w], typeutils.ByteArray32FromBytes)
				case "ReadCollection":
					err = stream.ReadCollection(r, lenTypes[w], func(int) error {
						calls++
						_, e := stream.Read[uint8](r)
						return e
					})
					if err == nil && uint64(calls) != pv {
						err = fmt.Errorf("HARNESS: ReadCollection succeeded with %d callbacks for a count of %d", calls, pv)
					}
				case "PeekSize":
					if !oneByte {
						var n int
						n, err = stream.PeekSize(bytes.NewReader(input), lenTypes[w])
						if err == nil && (n < 0 || uint64(n) != pv) {
							err = fmt.Errorf("HARNESS: PeekSize returned %d for a prefix of %d", n, pv)
						}
					}
				case "SkipThenBytesRead":
					// a FromBytes-style decoder built from the helpers: skip a section whose length comes from the input (Skip or
					// GoTo), tolerate the missing tail, report ByteReader.BytesRead as the number of consumed bytes
					br := stream.NewByteReader(input)
					if _, e := stream.ReadBytes(br, w); e == nil {
						off := int64(pv & (1<<62 - 1))
						if oneByte {
							_, _ = stream.GoTo(br, int64(w)+off)
						} else {
							_, _ = stream.Skip(br, off)
						}
						_, _ = stream.Read[uint8](br)
					}
					if n := br.BytesRead(); n < 0 || n > len(input) {
						err = fmt.Errorf("HARNESS: ByteReader.BytesRead reports %d consumed bytes for an input of %d bytes", n, len(input))
					}
				case "ReadBytes":
					// the length argument usually comes from an earlier prefix: hand the hostile value over directly
					_, err = stream.ReadBytes(bytes.NewReader(payload), int(pv))
				}
			})
		})
		if pan != nil {
			fail("%s panicked: %v", helper, pan)
		}
		if err != nil && len(err.Error()) > 7 && err.Error()[:7] == "HARNESS" {
			fail("%v", err)
		}
		if alloc > allocCap(len(input)) {
			fail("%s allocated %d bytes for a %d-byte input (cap %d)", helper, alloc, len(input), allocCap(len(input)))
		}
		if helper == "ReadCollection" && calls > len(payload)+1 {
			fail("ReadCollection invoked the callback %d times with %d bytes available", calls, len(payload))
		}
		stats.Case(check, beyond, fmt.Sprintf("%s|%d|%d|%d|%v", helper, w, pv, len(payload), oneByte), func() any { return ex }, "helper:"+helper, fmt.Sprintf("prefix_w:%d", w))
	})
}

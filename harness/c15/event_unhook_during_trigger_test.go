package c15

import (
	"fmt"
	"sync/atomic"
	"testing"

	"pgregory.net/rapid"
	"verifharness/internal/ctl"
	"verifharness/internal/stats"
)

// TestHookUnhooksAnotherDuringTrigger: synchronous hooks run in attachment order inside Trigger. A hook that unhooks a
// hook behind it does so before that hook's turn: the victim is "not yet invoked and already unhooked" and must not be
// called by this trigger (nor by later ones). Unhooking a hook that already ran only affects later triggers.
func TestHookUnhooksAnotherDuringTrigger(t *testing.T) {
	const check = "hook_unhooks_another_during_trigger"
	stats.Rule(check, "one event (arity 0/1/2, no worker pool), 2..7 synchronous hooks; a drawn hook (the killer) unhooks another drawn hook (the victim) when it is called for the first time, in half of the cases after it has unhooked itself (one-shot hook); the event is triggered twice (20 s watchdog). Oracle: trigger 1 calls the hooks in attachment order - without the victim if it is attached behind the killer (also when it is the direct successor), with it if it is attached before the killer; trigger 2 calls all hooks but the victim (and the killer if it unhooked itself); arguments are those of the respective trigger. Distinct by configuration; non-trivial = the victim is the killer's direct successor")
	rapid.Check(t, func(rt *rapid.T) {
		arity := rapid.IntRange(0, 2).Draw(rt, "arity")
		n := rapid.IntRange(2, 7).Draw(rt, "hooks")
		killer := rapid.IntRange(0, n-1).Draw(rt, "killer")
		victim := rapid.IntRange(0, n-2).Draw(rt, "victim")
		if victim >= killer {
			victim++
		}
		// the killer may be a one-shot hook that unhooks itself first: the iteration then stands on a removed hook
		selfToo := rapid.Bool().Draw(rt, "killerUnhooksItselfFirst")
		desc := fmt.Sprintf("arity=%d hooks=%d killer=h%d victim=h%d killerUnhooksItselfFirst=%v", arity, n, killer, victim, selfToo)
		var cur atomic.Int64
		ev := newEvAPI(arity, &cur)
		var calls []string
		unhooks := make([]func(), n)
		fired := false
		for i := 0; i < n; i++ {
			i := i
			unhooks[i] = ev.Hook(func(arg int) {
				calls = append(calls, fmt.Sprintf("h%d(%d)", i, arg))
				if i == killer && !fired {
					fired = true
					if selfToo {
						unhooks[killer]()
					}
					unhooks[victim]()
				}
			})
		}
		var want []string
		for i := 0; i < n; i++ {
			if i == victim && victim > killer {
				continue
			}
			want = append(want, fmt.Sprintf("h%d(%d)", i, 1))
		}
		for i := 0; i < n; i++ {
			if i != victim && !(selfToo && i == killer) {
				want = append(want, fmt.Sprintf("h%d(%d)", i, 2))
			}
		}
		for arg := 1; arg <= 2; arg++ {
			if !ctl.Within(ctl.HangTimeout, func() { ev.Trigger(arg) }) {
				stats.Violation(check, map[string]any{"config": desc, "problem": "Trigger did not return"})
				rt.Fatalf("%s: Trigger(%d) did not return\n%s", desc, arg, ctl.Dump())
			}
		}
		if fmt.Sprint(calls) != fmt.Sprint(want) {
			stats.Violation(check, map[string]any{"config": desc, "calls": calls, "want": want, "problem": "wrong hooks were called"})
			rt.Fatalf("%s: calls %v, want %v (a hook that was unhooked before its turn must not be called; one that already ran is only missing from later triggers)", desc, calls, want)
		}
		stats.Case(check, victim == killer+1, desc, func() any { return desc })
	})
}

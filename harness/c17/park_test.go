package c17

// Best-effort observation of "this goroutine is parked in sync.Cond.Wait" through runtime.Stack. It is
// used only to let an operation that must block really reach its wait inside the mutex before the
// controller issues the next operation (arrival-order enforcement) and to count how often that was
// confirmed; no verdict depends on it.

import (
	"bytes"
	"runtime"
	"strconv"
	"time"
)

// curGoroutineID parses the id of the calling goroutine from its stack header.
func curGoroutineID() int64 {
	var buf [64]byte
	n := runtime.Stack(buf[:], false)
	// "goroutine 123 [running]:"
	f := bytes.Fields(buf[:n])
	if len(f) < 2 {
		return 0
	}
	id, _ := strconv.ParseInt(string(f[1]), 10, 64)
	return id
}

var stackBuf = make([]byte, 1<<17)

// goroutineState returns the wait reason in the stack header of goroutine id ("" if not found).
// Only called from the controller goroutine (stackBuf is not shared).
func goroutineState(id int64) string {
	n := runtime.Stack(stackBuf, true)
	key := []byte("goroutine " + strconv.FormatInt(id, 10) + " [")
	i := bytes.Index(stackBuf[:n], key)
	if i < 0 {
		return ""
	}
	rest := stackBuf[i+len(key) : n]
	j := bytes.IndexByte(rest, ']')
	if j < 0 {
		return ""
	}
	return string(rest[:j])
}

// waitParked polls until goroutine id is parked in sync.Cond.Wait, stop() reports true, or the budget
// is used up. Returns whether the parked state was confirmed.
func waitParked(id func() int64, stop func() bool, budget time.Duration) bool {
	deadline := time.Now().Add(budget)
	for {
		if stop() {
			return false
		}
		if g := id(); g != 0 {
			if st := goroutineState(g); len(st) >= 14 && st[:14] == "sync.Cond.Wait" {
				return true
			}
		}
		if time.Now().After(deadline) {
			return false
		}
		runtime.Gosched()
		time.Sleep(20 * time.Microsecond)
	}
}

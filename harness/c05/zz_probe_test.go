package c05

import (
	"fmt"
	"testing"

	"pgregory.net/rapid"
)

func TestOverlapProbe(t *testing.T) {
	n, nt := 0, 0
	byG := map[int][2]int{}
	rapid.Check(t, func(rt *rapid.T) {
		p := genProgram(rt, 2, 16, 3, 12, 64, false)
		res := execute(p)
		_, non := overlapLabels(res.Hist)
		n++
		b := byG[len(p.Gor)/4]
		b[0]++
		if non {
			nt++
			b[1]++
		}
		byG[len(p.Gor)/4] = b
	})
	fmt.Printf("n=%d nontrivial=%d byG/4=%v\n", n, nt, byG)
}

package c12

import (
	"crypto/sha256"
	"fmt"
	"testing"

	"github.com/iotaledger/hive.go/ds/bytesfilter"
	"pgregory.net/rapid"
	"verifharness/internal/stats"
)

const bfUniverse = 7

func bfData(i int) []byte       { return []byte{byte('a' + i), byte(i)} }
// bfID is the caller-supplied identifier function: sha256, except that element 0 maps to the all-zero identifier and
// element 1 to the all-0xff identifier (an identifier function may produce any value of the identifier type, and
// the zero value is the one a pre-filled or re-used slot would be confused with).
func bfID(b []byte) [32]byte {
	switch {
	case len(b) == 2 && b[1] == 0:
		return [32]byte{}
	case len(b) == 2 && b[1] == 1:
		var id [32]byte
		for i := range id {
			id[i] = 0xff
		}
		return id
	}
	return sha256.Sum256(b)
}
func bfName(id [32]byte) string { return fmt.Sprintf("%x", id[:3]) }

// TestBytesFilter: the filter remembers the last N *newly added* distinct identifiers in FIFO order;
// adding a known identifier reports false and neither refreshes nor evicts (as implemented and as the
// package's own test expects).
func TestBytesFilter(t *testing.T) {
	const check = "bytesfilter"
	stats.Rule(check, "rapid state machine over bytesfilter.BytesFilter[[32]byte] with sha256 as identifier function (element 0 maps to the all-zero and element 1 to the all-0xff identifier), size N 1..4, universe of 7 byte strings; Add/AddIdentifier/Contains/ContainsIdentifier vs a FIFO of the last N newly added identifiers, membership of the whole universe compared after every step; non-trivial = an eviction happened, a known identifier was re-added (must not refresh) and a previously evicted identifier was added again; distinct by (N, operation list)")
	rapid.Check(t, func(rt *rapid.T) {
		size := rapid.IntRange(1, 4).Draw(rt, "size")
		h := newHist(check, fmt.Sprintf("size=%d", size))
		defer h.guard(rt)
		f := bytesfilter.New[[32]byte](bfID, size)
		var fifo []int // universe indices, oldest first
		evicted := map[int]struct{}{}
		elem := rapid.IntRange(0, bfUniverse-1)

		known := func(i int) bool {
			for _, x := range fifo {
				if x == i {
					return true
				}
			}
			return false
		}
		modelAdd := func(i int) bool {
			if known(i) {
				h.label("readd_known")
				return false
			}
			if _, was := evicted[i]; was {
				h.label("readd_evicted")
			}
			if len(fifo) == size {
				evicted[fifo[0]] = struct{}{}
				fifo = fifo[1:]
				h.label("evicted_oldest")
			}
			fifo = append(fifo, i)
			return true
		}

		acts := weighted{}
		acts.add("Add", 4, func(rt *rapid.T) {
			i := elem.Draw(rt, "elem")
			id, added := f.Add(bfData(i))
			h.op("Add(e%d)=%s,%v", i, bfName(id), added)
			want := modelAdd(i)
			if id != bfID(bfData(i)) {
				h.fail(rt, "Add(e%d) returned identifier %x, want %x", i, id, bfID(bfData(i)))
			}
			if added != want {
				h.fail(rt, "Add(e%d) = %v, want %v (remembered, oldest first: %v)", i, added, want, fifo)
			}
		})
		acts.add("AddIdentifier", 4, func(rt *rapid.T) {
			i := elem.Draw(rt, "elem")
			added := f.AddIdentifier(bfID(bfData(i)))
			h.op("AddIdentifier(e%d)=%v", i, added)
			if want := modelAdd(i); added != want {
				h.fail(rt, "AddIdentifier(e%d) = %v, want %v (remembered, oldest first: %v)", i, added, want, fifo)
			}
		})
		acts.add("Contains", 1, func(rt *rapid.T) {
			i := elem.Draw(rt, "elem")
			got := f.Contains(bfData(i))
			h.op("Contains(e%d)=%v", i, got)
			if got != known(i) {
				h.fail(rt, "Contains(e%d) = %v, want %v (remembered, oldest first: %v)", i, got, known(i), fifo)
			}
		})
		acts.add("ContainsIdentifier", 1, func(rt *rapid.T) {
			i := elem.Draw(rt, "elem")
			got := f.ContainsIdentifier(bfID(bfData(i)))
			h.op("ContainsIdentifier(e%d)=%v", i, got)
			if got != known(i) {
				h.fail(rt, "ContainsIdentifier(e%d) = %v, want %v (remembered, oldest first: %v)", i, got, known(i), fifo)
			}
		})
		acts[""] = func(rt *rapid.T) {
			for i := 0; i < bfUniverse; i++ {
				if got := f.ContainsIdentifier(bfID(bfData(i))); got != known(i) {
					h.fail(rt, "ContainsIdentifier(e%d) = %v, want %v (remembered, oldest first: %v)", i, got, known(i), fifo)
				}
				if got := f.Contains(bfData(i)); got != known(i) {
					h.fail(rt, "Contains(e%d) = %v, want %v (remembered, oldest first: %v)", i, got, known(i), fifo)
				}
			}
		}
		rt.Repeat(acts)
		h.done(h.has("evicted_oldest") && h.has("readd_known") && h.has("readd_evicted"))
	})
}

package c11

import (
	"fmt"
	"runtime"
	"strings"
	"sync"
	"sync/atomic"
	"testing"
	"time"

	"github.com/iotaledger/hive.go/ds"
	"github.com/iotaledger/hive.go/serializer/v2/serix"
	"pgregory.net/rapid"
	"verifharness/internal/ctl"
	"verifharness/internal/stats"
)

// ---------------------------------------------------------------------------------------------------------------------
// shared helpers of the concurrent checks
// ---------------------------------------------------------------------------------------------------------------------

// yield gives other goroutines a chance to run in the middle of a multi-element operation. It only makes
// interesting interleavings more likely; nothing is concluded from it.
func yield(n int, sleep bool) {
	for i := 0; i < n; i++ {
		runtime.Gosched()
	}
	if sleep {
		time.Sleep(20 * time.Microsecond)
	}
}

// yieldSet is a ds.Set whose iteration yields before every element and, with the highest yield count, also
// sleeps briefly before the first two elements (a legal argument: the API takes interfaces, reactive.Set is
// another implementation that is passed to these methods).
type yieldSet struct {
	ds.Set[E]
	yields int
}

func (y yieldSet) Range(cb func(E)) {
	i := 0
	y.Set.Range(func(e E) { yield(y.yields, y.yields >= 3 && i < 2); i++; cb(e) })
}

func (y yieldSet) ForEach(cb func(E) error) error {
	i := 0

	return y.Set.ForEach(func(e E) error { yield(y.yields, y.yields >= 3 && i < 2); i++; return cb(e) })
}

func (y yieldSet) ToSlice() []E {
	out := make([]E, 0)
	y.Range(func(e E) { out = append(out, e) })

	return out
}

func withYields(s ds.Set[E], yields int) ds.Set[E] {
	if yields == 0 {
		return s
	}

	return yieldSet{Set: s, yields: yields}
}

// hangSeen: once a program has been observed to hang for the full ctl.HangTimeout in this process, the waits
// used while rapid shrinks that already failed case are shorter. A verdict always comes from the full timeout.
var hangSeen atomic.Bool

func hangBudget() time.Duration {
	if hangSeen.Load() {
		return 3 * time.Second
	}

	return ctl.HangTimeout
}

// dsStacks keeps the goroutines of a dump that are inside hive.go/ds.
func dsStacks(dump string) []string {
	var out []string
	for _, g := range strings.Split(dump, "\n\n") {
		if strings.Contains(g, "hive.go/ds") {
			lines := strings.Split(g, "\n")
			if len(lines) > 14 {
				lines = lines[:14]
			}
			out = append(out, strings.Join(lines, "\n"))
		}
		if len(out) >= 8 {
			break
		}
	}

	return out
}

// runner executes goroutine bodies from a common start line and waits for all of them under the watchdog.
type runner struct {
	mu       sync.Mutex
	problems []string
}

func (r *runner) report(format string, args ...any) {
	r.mu.Lock()
	defer r.mu.Unlock()
	if len(r.problems) < 5 {
		r.problems = append(r.problems, fmt.Sprintf(format, args...))
	}
}

func (r *runner) first() string {
	r.mu.Lock()
	defer r.mu.Unlock()
	if len(r.problems) == 0 {
		return ""
	}

	return r.problems[0]
}

// run returns false if the goroutines did not all return within the hang budget.
func (r *runner) run(bodies []func()) (finished bool, stacks []string) {
	// start line: every goroutine announces itself and then spins (yielding) until all are there, so that they
	// enter their first operation as simultaneously as the scheduler allows.
	var arrived atomic.Int32
	done := make(chan struct{})
	var wg sync.WaitGroup
	for g, body := range bodies {
		wg.Add(1)
		go func() {
			defer wg.Done()
			defer func() {
				if p := recover(); p != nil {
					r.report("goroutine %d panicked: %v", g, p)
				}
			}()
			arrived.Add(1)
			for int(arrived.Load()) < len(bodies) {
				runtime.Gosched()
			}
			body()
		}()
	}
	go func() { wg.Wait(); close(done) }()
	if ctl.WaitChan(done, hangBudget()) {
		return true, nil
	}
	stacks = dsStacks(ctl.Dump())
	hangSeen.Store(true)

	return false, stacks
}

// overlap meter: counts atomic operations and writers in flight to decide (for the evidence only) whether an
// atomic operation ran while another goroutine was writing.
type meter struct {
	atomics, writers atomic.Int32
	overlapped       atomic.Bool
}

func (m *meter) enter(isAtomic, isWriter bool) {
	if isAtomic {
		if m.atomics.Load() > 0 || m.writers.Load() > 0 {
			m.overlapped.Store(true)
		}
		m.atomics.Add(1)
	} else if isWriter {
		if m.atomics.Load() > 0 {
			m.overlapped.Store(true)
		}
		m.writers.Add(1)
	}
}

func (m *meter) leave(isAtomic, isWriter bool) {
	if isAtomic {
		m.atomics.Add(-1)
	} else if isWriter {
		m.writers.Add(-1)
	}
}

// ---------------------------------------------------------------------------------------------------------------------
// (a) progress: no combination of Set methods can deadlock
// ---------------------------------------------------------------------------------------------------------------------

const checkProgress = "set_concurrent_progress"

type cop struct {
	Op      string
	T       int    // target: 0 or 1 (two shared sets)
	E       E      // element argument
	Arg     string // fresh | self | other | readonly | otherReadonly
	Elems   []E    // fresh argument / added elements
	Deleted []E    // Apply/Compute: deleted elements
	Yields  int    // iteration of the private argument yields this often before every element
}

func (o cop) String() string {
	y := ""
	if o.Yields > 0 {
		y = fmt.Sprintf("~%d", o.Yields)
	}
	switch o.Op {
	case "Add", "Delete", "Has", "Is":
		return fmt.Sprintf("S%d.%s(%d)", o.T, o.Op, o.E)
	case "AddAll", "DeleteAll", "Replace", "HasAll", "Equals", "Intersect":
		if o.Arg == "fresh" {
			return fmt.Sprintf("S%d.%s(new%s%s)", o.T, o.Op, show(o.Elems), y)
		}
		return fmt.Sprintf("S%d.%s(%s)", o.T, o.Op, o.Arg)
	case "Apply", "Compute":
		return fmt.Sprintf("S%d.%s(+%s -%s%s)", o.T, o.Op, show(o.Elems), show(o.Deleted), y)
	}

	return fmt.Sprintf("S%d.%s()", o.T, o.Op)
}

func (o cop) isAtomic() bool { return o.Op == "Apply" || o.Op == "Compute" || o.Op == "Replace" }

func (o cop) isWriter() bool {
	switch o.Op {
	case "Add", "Delete", "AddAll", "DeleteAll", "Clear", "Apply", "Compute", "Replace":
		return true
	}

	return false
}

type progressProgram struct {
	Universe int
	Init     [2][]E
	Reps     int
	G        [][]cop
}

func (p progressProgram) render() map[string]any {
	gs := make([][]string, len(p.G))
	for i, g := range p.G {
		for _, o := range g {
			gs[i] = append(gs[i], o.String())
		}
	}

	return map[string]any{"universe": p.Universe, "init": []string{show(p.Init[0]), show(p.Init[1])}, "repetitions": p.Reps, "goroutines": gs}
}

func (p progressProgram) key() string { return fmt.Sprint(p.render()) }

var progressAPI = serix.NewAPI()

func execCop(sets [2]ds.Set[E], o cop) {
	s := sets[o.T]
	arg := func() ds.ReadableSet[E] {
		switch o.Arg {
		case "self":
			return s
		case "other":
			return sets[1-o.T]
		case "readonly":
			return s.ReadOnly()
		case "otherReadonly":
			return sets[1-o.T].ReadOnly()
		}

		return withYields(ds.NewSet(o.Elems...), o.Yields)
	}
	mutations := func() ds.SetMutations[E] {
		return ds.NewSetMutations[E]().WithAddedElements(withYields(ds.NewSet(o.Elems...), o.Yields)).WithDeletedElements(withYields(ds.NewSet(o.Deleted...), o.Yields))
	}
	switch o.Op {
	case "Add":
		s.Add(o.E)
	case "Delete":
		s.Delete(o.E)
	case "Has":
		s.Has(o.E)
	case "Is":
		s.Is(o.E)
	case "AddAll":
		s.AddAll(arg())
	case "DeleteAll":
		s.DeleteAll(arg())
	case "Replace":
		s.Replace(arg())
	case "HasAll":
		s.HasAll(arg())
	case "Equals":
		s.Equals(arg())
	case "Intersect":
		s.Intersect(arg())
	case "Apply":
		s.Apply(mutations())
	case "Compute":
		s.Compute(func(view ds.ReadableSet[E]) ds.SetMutations[E] {
			_ = view.Size()
			_ = view.Has(o.E)
			_ = view.ToSlice()

			return mutations()
		})
	case "Filter":
		s.Filter(func(e E) bool { return e%2 == 0 })
	case "Clone":
		s.Clone()
	case "Any":
		s.Any()
	case "ToSlice":
		_ = s.ToSlice()
	case "Size":
		_ = s.Size()
		_ = s.IsEmpty()
	case "Clear":
		s.Clear()
	case "Iterator":
		for it := s.Iterator(); it.HasNext(); {
			it.Next()
		}
	case "ForEach":
		_ = s.ForEach(func(E) error { return nil })
		s.Range(func(E) {})
	case "Encode":
		_, _ = s.Encode(progressAPI)
	case "String":
		_ = s.String()
	default:
		panic("unknown op " + o.Op)
	}
}

// quiescentProblem checks the internal consistency of a set nobody is using any more.
func quiescentProblem(name string, s ds.Set[E], universe int) string {
	sl := s.ToSlice()
	seen := map[E]bool{}
	for _, e := range sl {
		if seen[e] || int(e) >= universe {
			return fmt.Sprintf("after all goroutines returned %s iterates %s (duplicate or foreign element)", name, show(sl))
		}
		seen[e] = true
	}
	if s.Size() != len(sl) {
		return fmt.Sprintf("after all goroutines returned %s.Size()=%d but it iterates %s", name, s.Size(), show(sl))
	}
	for e := 0; e < universe; e++ {
		if s.Has(E(e)) != seen[E(e)] {
			return fmt.Sprintf("after all goroutines returned %s.Has(%d)=%v but it iterates %s", name, e, s.Has(E(e)), show(sl))
		}
	}

	return ""
}

// runProgress executes the program; it returns "" or the description of a hang / panic / inconsistency.
func runProgress(p progressProgram) (problem string, stacks []string, overlapped bool) {
	sets := [2]ds.Set[E]{ds.NewSet(p.Init[0]...), ds.NewSet(p.Init[1]...)}
	var m meter
	r := &runner{}
	bodies := make([]func(), len(p.G))
	for g := range p.G {
		ops := p.G[g]
		bodies[g] = func() {
			for rep := 0; rep < p.Reps; rep++ {
				for _, o := range ops {
					m.enter(o.isAtomic(), o.isWriter())
					execCop(sets, o)
					m.leave(o.isAtomic(), o.isWriter())
				}
			}
		}
	}
	finished, stacks := r.run(bodies)
	if !finished {
		return fmt.Sprintf("the program did not finish within %s: some Set method never returned (deadlock)", hangBudget()), stacks, m.overlapped.Load()
	}
	if msg := r.first(); msg != "" {
		return msg, nil, m.overlapped.Load()
	}
	for i, s := range sets {
		if msg := quiescentProblem(fmt.Sprintf("S%d", i), s, p.Universe); msg != "" {
			return msg, nil, m.overlapped.Load()
		}
	}

	return "", nil, m.overlapped.Load()
}

var progressOps = []string{"Add", "Delete", "Has", "Is", "AddAll", "DeleteAll", "DeleteAll", "Replace", "HasAll", "Equals", "Intersect", "Apply", "Apply", "Compute", "Compute",
	"Filter", "Clone", "Any", "ToSlice", "Size", "Clear", "Iterator", "ForEach", "Encode", "String"}

func drawProgressProgram(t *rapid.T) progressProgram {
	p := progressProgram{Universe: rapid.IntRange(6, 8).Draw(t, "universe"), Reps: rapid.IntRange(1, 6).Draw(t, "repetitions")}
	universe := make([]E, p.Universe)
	for i := range universe {
		universe[i] = E(i)
	}
	p.Init[0] = drawElems(t, universe, "init0")
	p.Init[1] = drawElems(t, universe, "init1")
	goroutines := rapid.IntRange(3, 8).Draw(t, "goroutines")
	for g := 0; g < goroutines; g++ {
		n := rapid.IntRange(1, 6).Draw(t, "ops")
		var ops []cop
		for i := 0; i < n; i++ {
			o := cop{Op: rapid.SampledFrom(progressOps).Draw(t, "op"), T: 0}
			if rapid.IntRange(0, 4).Draw(t, "onSecondSet") == 0 {
				o.T = 1
			}
			switch o.Op {
			case "Add", "Delete", "Has", "Is", "Compute":
				o.E = E(rapid.IntRange(0, p.Universe-1).Draw(t, "elem"))
			}
			switch o.Op {
			case "AddAll", "DeleteAll", "Replace", "HasAll", "Equals", "Intersect":
				o.Arg = rapid.SampledFrom([]string{"fresh", "fresh", "fresh", "fresh", "self", "other", "readonly", "otherReadonly"}).Draw(t, "arg")
				if o.Arg == "fresh" {
					o.Elems = drawElems(t, universe, "argElems")
					o.Yields = rapid.SampledFrom([]int{0, 0, 1, 2, 3}).Draw(t, "yields")
				}
			}
			if o.Op == "Apply" || o.Op == "Compute" {
				o.Elems = drawElems(t, universe, "added")
				o.Deleted = drawElems(t, universe, "deleted")
				o.Yields = rapid.SampledFrom([]int{0, 0, 1, 2, 3}).Draw(t, "yields")
			}
			ops = append(ops, o)
		}
		p.G = append(p.G, ops)
	}

	return p
}

func (p progressProgram) structurallyInteresting() bool {
	for g, ops := range p.G {
		for _, o := range ops {
			if !o.isAtomic() {
				continue
			}
			for g2, ops2 := range p.G {
				if g2 == g {
					continue
				}
				for _, o2 := range ops2 {
					if o2.isWriter() && o2.T == o.T {
						return true
					}
				}
			}
		}
	}

	return false
}

func TestSetConcurrentProgress(t *testing.T) {
	stats.Rule(checkProgress, "rapid draws programs of 3-8 goroutines x 1-6 operations x 1-6 repetitions over all ds.Set methods on two shared sets (arguments: private sets whose iteration yields a drawn number of times, "+
		"the target itself, the other shared set, read-only views); every goroutine starts from a common start line; the whole program runs under ctl.HangTimeout, goroutine panics and an inconsistent quiescent state are failures too; "+
		"the program is drawn, the interleaving is the scheduler's; distinct by program; non-trivial = an Apply/Compute/Replace was observed in flight together with another goroutine's writer on the set")

	rapid.Check(t, func(rt *rapid.T) {
		p := drawProgressProgram(rt)
		problem, stacks, overlapped := runProgress(p)
		labels := []string{fmt.Sprintf("goroutines:%d", len(p.G))}
		if p.structurallyInteresting() {
			labels = append(labels, "atomic-op-and-foreign-writer-in-program")
		}
		for _, ops := range p.G {
			for _, o := range ops {
				labels = append(labels, "op:"+o.Op)
				if o.Arg != "" && o.Arg != "fresh" {
					labels = append(labels, "arg:"+o.Arg)
				}
			}
		}
		stats.Case(checkProgress, overlapped, p.key(), func() any { return p.render() }, labels...)
		if problem != "" {
			payload := p.render()
			payload["problem"] = problem
			payload["blocked_goroutines"] = stacks
			stats.Violation(checkProgress, payload)
			rt.Fatalf("%s\nprogram: %v\n%s", problem, p.render(), strings.Join(stacks, "\n\n"))
		}
	})
}

// ---------------------------------------------------------------------------------------------------------------------
// (b) atomicity of Apply / Compute / Replace with respect to each other
// ---------------------------------------------------------------------------------------------------------------------

const checkAtomic = "set_atomicity_pairs"

const (
	numPairs      = 4   // pair i = (2i, 2i+1)
	unpairedBase  = 100 // unpaired elements 100..103
	numUnpaired   = 4
	allPairsMask  = 1<<numPairs - 1
	pairedCeiling = 2 * numPairs
)

type apop struct {
	Op       string // ApplyPairs ComputePairs ReplacePairs Add Delete Has AddAllUnpaired DeleteAllUnpaired
	AddMask  int    // pairs to add (Apply/Compute), pairs of the new content (Replace)
	DelMask  int    // pairs to delete
	Split    bool   // list all first halves before the second halves (widens a half-applied window)
	Unpaired []E    // Replace: unpaired elements of the new content; AddAll/DeleteAll: the argument
	E        E      // single-element operations (always an unpaired element)
	Yields   int
}

func (o apop) String() string {
	switch o.Op {
	case "ApplyPairs", "ComputePairs":
		return fmt.Sprintf("%s(+pairs %04b -pairs %04b split=%v ~%d)", o.Op, o.AddMask, o.DelMask, o.Split, o.Yields)
	case "ReplacePairs":
		return fmt.Sprintf("ReplacePairs(pairs %04b + %s ~%d)", o.AddMask, show(o.Unpaired), o.Yields)
	case "AddAllUnpaired", "DeleteAllUnpaired":
		return fmt.Sprintf("%s(%s ~%d)", o.Op, show(o.Unpaired), o.Yields)
	}

	return fmt.Sprintf("%s(%d)", o.Op, o.E)
}

func (o apop) isAtomic() bool {
	return o.Op == "ApplyPairs" || o.Op == "ComputePairs" || o.Op == "ReplacePairs"
}

func (o apop) isWriter() bool { return o.Op != "Has" }

func pairElems(mask int, split bool) []E {
	var first, second, out []E
	for i := 0; i < numPairs; i++ {
		if mask&(1<<i) != 0 {
			first = append(first, E(2*i))
			second = append(second, E(2*i+1))
			out = append(out, E(2*i), E(2*i+1))
		}
	}
	if split {
		return append(first, second...)
	}

	return out
}

// halfPair returns a pair of which exactly one element is in elems ("" if elems is pair-closed).
func halfPair(elems []E) string {
	in := map[E]bool{}
	for _, e := range elems {
		in[e] = true
	}
	for i := 0; i < numPairs; i++ {
		if in[E(2*i)] != in[E(2*i+1)] {
			return fmt.Sprintf("(%d,%d)", 2*i, 2*i+1)
		}
	}

	return ""
}

type atomicProgram struct {
	InitPairs    int
	InitUnpaired []E
	Reps         int
	G            [][]apop
}

func (p atomicProgram) render() map[string]any {
	gs := make([][]string, len(p.G))
	for i, g := range p.G {
		for _, o := range g {
			gs[i] = append(gs[i], o.String())
		}
	}

	return map[string]any{"init_pairs": fmt.Sprintf("%04b", p.InitPairs), "init_unpaired": show(p.InitUnpaired), "repetitions": p.Reps, "goroutines": gs}
}

func runAtomic(p atomicProgram) (problem string, stacks []string, overlapped bool) {
	s := ds.NewSet(append(pairElems(p.InitPairs, false), p.InitUnpaired...)...)
	var m meter
	r := &runner{}
	inspect := func(who string, view ds.ReadableSet[E]) {
		for i := 0; i < numPairs; i++ {
			if a, b := view.Has(E(2*i)), view.Has(E(2*i+1)); a != b {
				r.report("%s saw the set with Has(%d)=%v but Has(%d)=%v: another Apply/Compute/Replace was half-applied", who, 2*i, a, 2*i+1, b)
			}
		}
		if hp := halfPair(view.ToSlice()); hp != "" {
			r.report("%s iterated the set and found only one element of pair %s: another Apply/Compute/Replace was half-applied", who, hp)
		}
	}
	checkApplied := func(o apop, applied ds.SetMutations[E]) {
		if hp := halfPair(applied.AddedElements().ToSlice()); hp != "" {
			r.report("%s reports added=%s: only one element of pair %s changed, so the set held half a pair while it ran", o, show(applied.AddedElements().ToSlice()), hp)
		}
		if hp := halfPair(applied.DeletedElements().ToSlice()); hp != "" {
			r.report("%s reports deleted=%s: only one element of pair %s changed, so the set held half a pair while it ran", o, show(applied.DeletedElements().ToSlice()), hp)
		}
	}
	exec := func(o apop) {
		mutations := func() ds.SetMutations[E] {
			return ds.NewSetMutations[E]().
				WithAddedElements(withYields(ds.NewSet(pairElems(o.AddMask, o.Split)...), o.Yields)).
				WithDeletedElements(withYields(ds.NewSet(pairElems(o.DelMask, o.Split)...), o.Yields))
		}
		switch o.Op {
		case "ApplyPairs":
			checkApplied(o, s.Apply(mutations()))
		case "ComputePairs":
			checkApplied(o, s.Compute(func(view ds.ReadableSet[E]) ds.SetMutations[E] {
				inspect(o.String()+"'s factory", view)

				return mutations()
			}))
		case "ReplacePairs":
			removed := s.Replace(withYields(ds.NewSet(append(pairElems(o.AddMask, o.Split), o.Unpaired...)...), o.Yields)).ToSlice()
			if hp := halfPair(removed); hp != "" {
				r.report("%s returned %s: only one element of pair %s was removed, so the set held half a pair when it started", o, show(removed), hp)
			}
		case "Add":
			s.Add(o.E)
		case "Delete":
			s.Delete(o.E)
		case "Has":
			s.Has(o.E)
		case "AddAllUnpaired":
			s.AddAll(withYields(ds.NewSet(o.Unpaired...), o.Yields))
		case "DeleteAllUnpaired":
			s.DeleteAll(withYields(ds.NewSet(o.Unpaired...), o.Yields))
		default:
			panic("unknown op " + o.Op)
		}
	}
	bodies := make([]func(), len(p.G))
	for g := range p.G {
		ops := p.G[g]
		bodies[g] = func() {
			for rep := 0; rep < p.Reps; rep++ {
				for _, o := range ops {
					m.enter(o.isAtomic(), o.isWriter())
					exec(o)
					m.leave(o.isAtomic(), o.isWriter())
				}
			}
		}
	}
	finished, stacks := r.run(bodies)
	if !finished {
		return fmt.Sprintf("the program did not finish within %s: some Set method never returned (deadlock)", hangBudget()), stacks, m.overlapped.Load()
	}
	if msg := r.first(); msg != "" {
		return msg, nil, m.overlapped.Load()
	}
	if hp := halfPair(s.ToSlice()); hp != "" {
		return fmt.Sprintf("after all goroutines returned the set is %s: only one element of pair %s although pairs are only ever added/removed by Apply/Compute/Replace as a whole", show(s.ToSlice()), hp), nil, m.overlapped.Load()
	}
	if msg := quiescentProblem("the set", s, unpairedBase+numUnpaired); msg != "" {
		return msg, nil, m.overlapped.Load()
	}

	return "", nil, m.overlapped.Load()
}

func drawAtomicProgram(t *rapid.T) atomicProgram {
	unpaired := make([]E, numUnpaired)
	for i := range unpaired {
		unpaired[i] = E(unpairedBase + i)
	}
	p := atomicProgram{InitPairs: rapid.IntRange(0, allPairsMask).Draw(t, "initPairs"), InitUnpaired: drawElems(t, unpaired, "initUnpaired"), Reps: rapid.IntRange(1, 4).Draw(t, "repetitions")}
	goroutines := rapid.IntRange(3, 8).Draw(t, "goroutines")
	ops := []string{"ApplyPairs", "ApplyPairs", "ApplyPairs", "ComputePairs", "ComputePairs", "ReplacePairs", "Add", "Delete", "Has", "AddAllUnpaired", "DeleteAllUnpaired"}
	for g := 0; g < goroutines; g++ {
		n := rapid.IntRange(1, 5).Draw(t, "ops")
		var list []apop
		for i := 0; i < n; i++ {
			o := apop{Op: rapid.SampledFrom(ops).Draw(t, "op")}
			switch o.Op {
			case "ApplyPairs", "ComputePairs":
				o.AddMask = rapid.IntRange(0, allPairsMask).Draw(t, "addPairs")
				o.DelMask = rapid.IntRange(0, allPairsMask).Draw(t, "delPairs")
				o.Split = rapid.Bool().Draw(t, "split")
				o.Yields = rapid.SampledFrom([]int{0, 0, 1, 2, 3}).Draw(t, "yields")
			case "ReplacePairs":
				o.AddMask = rapid.IntRange(0, allPairsMask).Draw(t, "pairs")
				o.Split = rapid.Bool().Draw(t, "split")
				o.Unpaired = drawElems(t, unpaired, "unpaired")
				o.Yields = rapid.SampledFrom([]int{0, 0, 1, 2, 3}).Draw(t, "yields")
			case "AddAllUnpaired", "DeleteAllUnpaired":
				o.Unpaired = drawElems(t, unpaired, "unpaired")
				o.Yields = rapid.SampledFrom([]int{0, 0, 1, 2, 3}).Draw(t, "yields")
			default:
				o.E = unpaired[rapid.IntRange(0, numUnpaired-1).Draw(t, "elem")]
			}
			list = append(list, o)
		}
		p.G = append(p.G, list)
	}

	return p
}

func TestSetAtomicity(t *testing.T) {
	stats.Rule(checkAtomic, "rapid draws programs of 3-8 goroutines x 1-5 operations x 1-4 repetitions on one ds.Set: Apply/Compute/Replace add and remove whole pairs (2i,2i+1) only, single-element operations and AddAll/DeleteAll touch unpaired elements only; "+
		"oracle: every Compute factory sees every pair complete or absent (Has and iteration), every Apply/Compute/Replace return value is pair-closed, the final set is pair-closed, the program finishes within ctl.HangTimeout; "+
		"the mutation sets yield between elements to widen half-applied windows; the interleaving is the scheduler's; distinct by program; non-trivial = an atomic operation was observed in flight together with another goroutine's atomic operation or writer")

	rapid.Check(t, func(rt *rapid.T) {
		p := drawAtomicProgram(rt)
		problem, stacks, overlapped := runAtomic(p)
		labels := []string{fmt.Sprintf("goroutines:%d", len(p.G))}
		for _, ops := range p.G {
			for _, o := range ops {
				labels = append(labels, "op:"+o.Op)
			}
		}
		stats.Case(checkAtomic, overlapped, fmt.Sprint(p.render()), func() any { return p.render() }, labels...)
		if problem != "" {
			payload := p.render()
			payload["problem"] = problem
			payload["blocked_goroutines"] = stacks
			stats.Violation(checkAtomic, payload)
			rt.Fatalf("%s\nprogram: %v\n%s", problem, p.render(), strings.Join(stacks, "\n\n"))
		}
	})
}

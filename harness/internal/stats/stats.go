// Package stats is the case-accounting side of the harness: every check reports each
// generated case here (with a canonical key, whether it is non-trivial by the check's
// stated rule, and labels); TestMain flushes the aggregate to $VERIF_STATS_OUT so the
// driver can merge shards and write evidence/<id>.json. It never influences a verdict.
package stats

import (
	"encoding/json"
	"fmt"
	"hash/fnv"
	"os"
	"path/filepath"
	"sort"
	"strconv"
	"sync"
	"testing"
)

const maxSamples = 4
const maxHashes = 400000 // per check and process; beyond this distinct counting saturates (reported)

type check struct {
	Rule         string           `json:"rule"`
	Evaluations  int64            `json:"evaluations"`
	Nontrivial   int64            `json:"nontrivial_evaluations"`
	BulkDistinct int64            `json:"bulk_distinct_nontrivial"`
	Hashes       []string         `json:"hashes"`
	Saturated    bool             `json:"hash_table_saturated"`
	Labels       map[string]int64 `json:"labels"`
	Samples      []any            `json:"samples"`
	Notes        map[string]any   `json:"notes"`
	Exhaustive   bool             `json:"exhaustive,omitempty"`

	hashes map[uint64]struct{}
}

var (
	mu     sync.Mutex
	checks = map[string]*check{}
	known  []string
)

func get(name string) *check {
	c := checks[name]
	if c == nil {
		c = &check{Labels: map[string]int64{}, Notes: map[string]any{}, hashes: map[uint64]struct{}{}}
		checks[name] = c
	}
	return c
}

// Rule records the generation / non-triviality rule of a check (free text for evidence).
func Rule(name, rule string) {
	mu.Lock()
	defer mu.Unlock()
	get(name).Rule = rule
}

// Case records one generated case. key must canonically describe the case (it is hashed to
// count distinct non-trivial cases); sample is only rendered for the first few non-trivial cases.
func Case(name string, nontrivial bool, key string, sample func() any, labels ...string) {
	mu.Lock()
	defer mu.Unlock()
	c := get(name)
	c.Evaluations++
	for _, l := range labels {
		if l != "" {
			c.Labels[l]++
		}
	}
	if !nontrivial {
		return
	}
	c.Nontrivial++
	h := fnv.New64a()
	_, _ = h.Write([]byte(key))
	hv := h.Sum64()
	if _, ok := c.hashes[hv]; ok {
		return
	}
	if len(c.hashes) >= maxHashes {
		c.Saturated = true
		return
	}
	c.hashes[hv] = struct{}{}
	if len(c.Samples) < maxSamples && sample != nil {
		c.Samples = append(c.Samples, sample())
	}
}

// Label bumps a label counter without counting a case.
func Label(name string, labels ...string) {
	mu.Lock()
	defer mu.Unlock()
	c := get(name)
	for _, l := range labels {
		c.Labels[l]++
	}
}

// Bulk records an enumerated block of cases that are distinct by construction.
func Bulk(name string, evaluations, distinctNontrivial int64, exhaustive bool, sample any) {
	mu.Lock()
	defer mu.Unlock()
	c := get(name)
	c.Evaluations += evaluations
	c.Nontrivial += distinctNontrivial
	c.BulkDistinct += distinctNontrivial
	if exhaustive {
		c.Exhaustive = true
	}
	if sample != nil && len(c.Samples) < maxSamples {
		c.Samples = append(c.Samples, sample)
	}
}

// Note stores a free-form value in the check's evidence.
func Note(name, key string, val any) {
	mu.Lock()
	defer mu.Unlock()
	get(name).Notes[key] = val
}

// NoteAdd adds delta to an integer note.
func NoteAdd(name, key string, delta int64) {
	mu.Lock()
	defer mu.Unlock()
	c := get(name)
	cur, _ := c.Notes[key].(int64)
	c.Notes[key] = cur + delta
}

// Known records that an open known finding was observed (the driver prints KNOWN-FINDING).
func Known(id string) {
	mu.Lock()
	defer mu.Unlock()
	for _, k := range known {
		if k == id {
			return
		}
	}
	known = append(known, id)
}

// Violation writes a self-contained replay file for the failing case. Inside a rapid
// property it is called again for every shrink candidate that still fails, so the last
// write is the minimal case. It returns the path (empty if no replay dir is configured).
func Violation(name string, payload any) string {
	dir := os.Getenv("VERIF_REPLAY_DIR")
	if dir == "" {
		return ""
	}
	_ = os.MkdirAll(dir, 0o755)
	p := filepath.Join(dir, name+".json")
	b, err := json.MarshalIndent(map[string]any{"check": name, "case": payload}, "", " ")
	if err != nil {
		b = []byte(fmt.Sprintf("{\"check\":%q,\"case\":%q}", name, fmt.Sprintf("%+v", payload)))
	}
	_ = os.WriteFile(p, b, 0o644)
	return p
}

// Flush writes everything to $VERIF_STATS_OUT.
func Flush() {
	out := os.Getenv("VERIF_STATS_OUT")
	if out == "" {
		return
	}
	mu.Lock()
	defer mu.Unlock()
	for _, c := range checks {
		c.Hashes = c.Hashes[:0]
		for h := range c.hashes {
			c.Hashes = append(c.Hashes, strconv.FormatUint(h, 36))
		}
		sort.Strings(c.Hashes)
	}
	b, _ := json.Marshal(map[string]any{"checks": checks, "known": known})
	_ = os.WriteFile(out, b, 0o644)
}

// Main is the TestMain body of every check package.
func Main(m *testing.M) {
	code := m.Run()
	Flush()
	os.Exit(code)
}

// Tier returns "quick" or "thorough".
func Tier() string {
	if os.Getenv("VERIF_TIER") == "thorough" {
		return "thorough"
	}
	return "quick"
}

// Scale returns q in the quick tier and th in the thorough tier (for non-rapid loops).
func Scale(q, th int) int {
	if Tier() == "thorough" {
		return th
	}
	return q
}

// Seed returns the per-process seed handed down by the driver (never 0).
func Seed() uint64 {
	s, _ := strconv.ParseUint(os.Getenv("VERIF_PROC_SEED"), 10, 64)
	if s == 0 {
		s = 1
	}
	return s
}

// Shard returns (index, count) of this process within a sharded run.
func Shard() (int, int) {
	i, _ := strconv.Atoi(os.Getenv("VERIF_SHARD"))
	n, _ := strconv.Atoi(os.Getenv("VERIF_SHARDS"))
	if n <= 0 {
		n = 1
	}
	return i, n
}

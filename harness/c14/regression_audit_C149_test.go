// Demonstration of an independent auditor (third round), kept as a regression test; see known_findings.json.
package c14

import (
	"github.com/iotaledger/hive.go/ds/reactive"
	"testing"
	"time"
)

// WaitGroup.PendingElements hands out the WaitGroup's internal writable set behind the ReadableSet interface. Clear is a
// method of that interface. On every other readable view of the package (Set.ReadOnly, NewReadableSet) Clear is a no-op
// since the repair of the promoted Clear; here it empties the pending elements without touching the WaitGroup's counter
// of pending elements: no Done finds its element any more, the counter never reaches zero, the WaitGroup never triggers
// and Wait blocks forever.
func TestRegressionAuditC149_WaitGroupPendingClear(t *testing.T) {
	wg := reactive.NewWaitGroup[int](1, 2)

	var pending reactive.ReadableSet[int] = wg.PendingElements()
	pending.Clear()

	wg.Done(1)
	wg.Done(2)

	if !wg.WasTriggered() {
		t.Errorf("Done was called for every added element but the wait group did not trigger (pending: %s)", wg.PendingElements())
	}

	waited := make(chan struct{})
	go func() {
		wg.Wait()
		close(waited)
	}()

	select {
	case <-waited:
	case <-time.After(2 * time.Second):
		t.Fatalf("Wait blocks forever although Done was called for every added element and nothing is pending")
	}
}

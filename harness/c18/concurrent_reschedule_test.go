package c18

import (
	"fmt"
	"sync"
	"sync/atomic"
	"testing"
	"time"

	"github.com/iotaledger/hive.go/runtime/timed"
	"pgregory.net/rapid"
	"verifharness/internal/ctl"
	"verifharness/internal/stats"
)

// TestTaskExecutorConcurrentReschedule: several goroutines schedule the SAME identifier at the same moment. Each
// schedule replaces the pending task of that identifier, so however the calls interleave exactly one task per
// identifier may survive: after the due time exactly one of the callbacks has run (none if Cancel(id) returned true).
func TestTaskExecutorConcurrentReschedule(t *testing.T) {
	const check = "taskexecutor_concurrent_reschedule"
	stats.Rule(check, "rapid draws 1..3 workers, 20..80 identifiers and 2..4 goroutines; all goroutines call ExecuteAt(id, cb, due) for every identifier concurrently (due = 60 ms after the start, same for all), then Cancel(id) is called for a drawn subset and a waiting Shutdown() lets everything that is still pending run. Cases in which scheduling itself took until 5 ms before the due time (machine stall) are not judged. Oracle per identifier: callbacks run at most once in total; not cancelled => exactly one ran; Cancel returned true => none ran; Cancel returned at least 5 ms before the due time (measured) => it returned true. No latency bound; the waiting Shutdown is under the 20 s watchdog. Distinct by configuration; non-trivial = >= 3 goroutines")
	rapid.Check(t, func(rt *rapid.T) {
		workers := rapid.IntRange(1, 3).Draw(rt, "workers")
		ids := rapid.IntRange(20, 80).Draw(rt, "ids")
		g := rapid.IntRange(2, 4).Draw(rt, "goroutines")
		cancelEvery := rapid.IntRange(2, 5).Draw(rt, "cancelEvery")
		desc := fmt.Sprintf("workers=%d ids=%d goroutines=%d cancelEvery=%d", workers, ids, g, cancelEvery)
		fail := func(format string, a ...any) {
			msg := fmt.Sprintf(format, a...)
			stats.Violation(check, map[string]any{"config": desc, "problem": msg})
			rt.Fatalf("%s: %s", desc, msg)
		}
		exec := timed.NewTaskExecutor[int](workers)
		runs := make([]atomic.Int32, ids)
		due := time.Now().Add(60 * time.Millisecond)
		var wg sync.WaitGroup
		start := make(chan struct{})
		for k := 0; k < g; k++ {
			wg.Add(1)
			go func() {
				defer wg.Done()
				<-start
				for id := 0; id < ids; id++ {
					id := id
					exec.ExecuteAt(id, func() { runs[id].Add(1) }, due)
				}
			}()
		}
		close(start)
		if !ctl.WithinHang(wg.Wait) {
			fail("ExecuteAt calls did not return within %v\n%s", ctl.HangTimeout, ctl.Dump())
		}
		if due.Sub(time.Now()) < 5*time.Millisecond {
			// the machine stalled for most of the 60 ms: tasks may have run while others were still being scheduled, which
			// legitimately lets several callbacks of one identifier run. Not judged.
			exec.Shutdown(timed.CancelPendingElements)
			stats.Case(check, false, "", nil, "indefinite_timing_not_judged")
			return
		}
		cancelled := map[int]bool{}
		early := map[int]bool{}
		for id := 0; id < ids; id += cancelEvery {
			cancelled[id] = exec.Cancel(id)
			early[id] = due.Sub(time.Now()) >= 5*time.Millisecond
		}
		if !ctl.WithinHang(func() { exec.Shutdown() }) {
			fail("waiting Shutdown did not return within %v after the due time\n%s", ctl.HangTimeout, ctl.Dump())
		}
		for id := 0; id < ids; id++ {
			n := int(runs[id].Load())
			res, wasCancelled := cancelled[id]
			switch {
			case n > 1:
				fail("identifier %d: %d callbacks ran although every schedule replaces the pending task of its identifier", id, n)
			case !wasCancelled && n != 1:
				fail("identifier %d: %d callbacks ran, want exactly 1 (scheduled by %d goroutines, never cancelled)", id, n, g)
			case wasCancelled && res && n != 0:
				fail("identifier %d: Cancel returned true but a callback ran", id)
			case wasCancelled && !res && early[id]:
				fail("identifier %d: Cancel returned false more than 5 ms before the due time although a task was pending", id)
			case wasCancelled && !res && n != 1:
				fail("identifier %d: Cancel returned false but no callback ran", id)
			}
		}
		stats.Case(check, g >= 3, desc, func() any { return desc })
	})
}
